import TxdbusModel.Proofs.Intro.Final
import TxdbusModel.Proofs.Intro.Sorted
import TxdbusModel.Proofs.Intro.Registry
/-!
# C15 - Introspection XML round-trips every interface definition

Objects: `generate` (= `generateIntrospectionXML`, as SAX events), `getInterfaces` (= `getInterfacesFromXML`:
`IntrospectionHandler` run over the events, on a heap of `DBusInterface` objects and the process-wide cache
`knownInterfaces`), `callCheck` (= the method lookup and argument-count check of `RemoteDBusObject.callRemote`).
Specification vocabulary (Intro/Spec.lean): `SameDefinition` / `SameDefinitions`, `World.parseBlocks`,
`DeclOp` / `declare`, `attrSafe`.

`decl cs` below is what the exporter declared for the object: the definitions of its interfaces (in the
order of `getInterfaces()`) followed by the three standard interfaces `generateIntrospectionXML` appends.
-/
namespace Txdbus.Intro

/-- **C15, round trip (general form).**  For every exported object whose interfaces were declared through the
API (any members, any signatures from the type grammar, any access and change-notification modes, any number
of interfaces), any content of the heap and of `knownInterfaces`, with or without replacement: generating
succeeds, parsing the generated events succeeds, and the parse did to the cache exactly what the specification
`World.parseBlocks` prescribes for a list `rs` of definitions that are, element by element, the *same
definitions* as the declared ones (same name, methods with `sigIn`/`sigOut`/`nargs`/`nret`, signals, property
types and access modes). -/
theorem handler_gen {path : Str} {exported : List (Str × List Cached)} {cs : List Cached}
    (hobj : exportedGet? exported path = some cs) (hdecl : Declared cs)
    (heap : List Interface) (known : List (Str × Nat)) (replace : Bool) :
    ∃ evs st rs, generate path exported = .ok (some evs) ∧
      getInterfaces heap known replace evs = .ok st ∧
      SameDefinitions (decl cs) rs ∧
      st.world = World.parseBlocks (!replace) ⟨heap, known, []⟩ rs := by
  obtain ⟨hcoh, hwf⟩ := hdecl.wf
  obtain ⟨evs, st, h1, h2, h3⟩ := parse_generated hobj hcoh hwf heap known replace
  refine ⟨evs, st, _, h1, h2, sameDefinitions_recIface _ ?_, h3⟩
  intro i hi
  rcases List.mem_append.mp hi with hi | hi
  · obtain ⟨c, hc, rfl⟩ := List.mem_map.mp hi
    exact hwf c hc
  · exact std_wf i hi

/-- **C15, round trip.**  If in addition the interface names of the object are pairwise distinct (and none is
a standard one) and either replacement is requested or none of the names is known locally, the objects
returned by the parse hold, in order, the same definitions as declared. -/
theorem handler_gen_fresh {path : Str} {exported : List (Str × List Cached)} {cs : List Cached}
    (hobj : exportedGet? exported path = some cs) (hdecl : Declared cs)
    (hnames : ((decl cs).map (·.name)).Nodup)
    (heap : List Interface) (known : List (Str × Nat)) (replace : Bool)
    (hfresh : replace = true ∨ ∀ d ∈ decl cs, kget? known d.name = none) :
    ∃ evs st rs, generate path exported = .ok (some evs) ∧
      getInterfaces heap known replace evs = .ok st ∧
      SameDefinitions (decl cs) rs ∧ st.result = rs.map some := by
  obtain ⟨hcoh, hwf⟩ := hdecl.wf
  obtain ⟨evs, st, h1, h2, h3⟩ := parse_generated hobj hcoh hwf heap known replace
  have hall : ∀ i ∈ decl cs, i.WF := by
    intro i hi
    rcases List.mem_append.mp hi with hi | hi
    · obtain ⟨c, hc, rfl⟩ := List.mem_map.mp hi
      exact hwf c hc
    · exact std_wf i hi
  refine ⟨evs, st, _, h1, h2, sameDefinitions_recIface _ hall, ?_⟩
  exact fresh_result hnames heap known (!replace)
    (by rcases hfresh with h | h
        · exact Or.inl (by simp [h])
        · exact Or.inr h) h3

/-- **C15, proxy.**  Under the same conditions a proxy built from the parsed interfaces takes, for every method
name, every `interface=` keyword and every number of arguments, the same decision as the declaration:
unknown method, wrong argument count, or the call sent with the same interface name, signature and return
signature. -/
theorem proxy_accepts_same_calls {path : Str} {exported : List (Str × List Cached)} {cs : List Cached}
    (hobj : exportedGet? exported path = some cs) (hdecl : Declared cs)
    (hnames : ((decl cs).map (·.name)).Nodup)
    (heap : List Interface) (known : List (Str × Nat)) (replace : Bool)
    (hfresh : replace = true ∨ ∀ d ∈ decl cs, kget? known d.name = none) :
    ∃ evs st, generate path exported = .ok (some evs) ∧
      getInterfaces heap known replace evs = .ok st ∧
      ∀ (filter : Option Str) (methodName : Str) (nargs : Nat),
        callCheck (st.result.filterMap id) filter methodName nargs
          = callCheck (decl cs) filter methodName nargs := by
  obtain ⟨evs, st, rs, h1, h2, h3, h4⟩ := handler_gen_fresh hobj hdecl hnames heap known replace hfresh
  refine ⟨evs, st, h1, h2, fun f m n => ?_⟩
  have : st.result.filterMap id = rs := by
    rw [h4]; induction rs with
    | nil => rfl
    | cons r rs ih => simp
  rw [this]
  exact callCheck_congr h3 f m n

/-- what a declared method accepts: exactly as many arguments as its input signature has complete types -/
theorem declared_method_count {name : Str} {ops : List DeclOp} {c : Cached} (h : declare name ops = .ok c)
    {m : Method} (hm : m ∈ c.iface.methods) :
    ∃ ins outs : List Str, genCompleteTypes m.sigIn = .ok ins ∧ genCompleteTypes m.sigOut = .ok outs ∧
      m.nargs = ins.length ∧ m.nret = outs.length := by
  obtain ⟨ins, outs, hi, ho, hn, hr⟩ := (declare_wf h).1.methods m hm
  exact ⟨ins, outs, hi.1, ho.1, hn, hr⟩

/-- **C15, proxy, spec side.**  A method left in an interface declared through the API carries the type lists
it was declared with, and a proxy holding that interface sends a call to it iff the number of arguments is the
number of declared input types (one argument per complete type: an `a{sv}` is one) - with the declared
signatures; any other count is the `TypeError`. -/
theorem declared_method_accepts {name : Str} {ops : List DeclOp} {c : Cached} (h : declare name ops = .ok c)
    {m : Method} (hm : m ∈ c.iface.methods) :
    ∃ ins outs : List Ty, m.sigIn = renderAll ins ∧ m.sigOut = renderAll outs ∧
      ∀ k : Nat, callCheck [c.iface] none m.name k =
        if k = ins.length then .sent c.iface.name (renderAll ins) (renderAll outs) else .wrongCount := by
  obtain ⟨ins, outs, hi, ho, hn, _⟩ := declare_ty h m hm
  refine ⟨ins, outs, hi, ho, fun k => ?_⟩
  have hg := dget_of_mem (declare_wf h).1.mnames hm
  simp only [callCheck, findMethod, hg, Bool.false_eq_true, if_false]
  rw [hn, hi, ho]
  by_cases hk : k = ins.length
  · simp [hk]
  · have : (k : Int) ≠ (ins.length : Int) := by omega
    simp [hk, this]

/-- **C15, cache.**  "Interfaces already known locally are reused unless replacement is requested": for the
`j`-th interface `d` of the object (distinct names),
* no replacement and `d.name` known as object `k`: the `j`-th returned object *is* `k`, the cache entry stays;
* replacement requested, or the name unknown: the `j`-th returned object is a new object (allocated by this
  parse) holding the same definition as `d`, and the cache now maps the name to it;
* in every case the objects that existed before the parse - the cached ones included - are unchanged. -/
theorem known_reused_unless_replaced {path : Str} {exported : List (Str × List Cached)} {cs : List Cached}
    (hobj : exportedGet? exported path = some cs) (hdecl : Declared cs)
    (hnames : ((decl cs).map (·.name)).Nodup)
    (heap : List Interface) (known : List (Str × Nat)) (replace : Bool) :
    ∃ evs st, generate path exported = .ok (some evs) ∧
      getInterfaces heap known replace evs = .ok st ∧
      st.interfaces.length = (decl cs).length ∧
      (∀ id, id < heap.length → st.heap[id]? = heap[id]?) ∧
      ∀ (j : Nat) (d : Interface), (decl cs)[j]? = some d →
        (replace = false → ∀ k, kget? known d.name = some k →
            st.interfaces[j]? = some k ∧ kget? st.known d.name = some k) ∧
        ((replace = true ∨ kget? known d.name = none) →
            ∃ id r, st.interfaces[j]? = some id ∧ heap.length ≤ id ∧ st.heap[id]? = some r ∧
              SameDefinition d r ∧ kget? st.known d.name = some id) := by
  obtain ⟨hcoh, hwf⟩ := hdecl.wf
  obtain ⟨evs, st, h1, h2, h3⟩ := parse_generated hobj hcoh hwf heap known replace
  have hall : ∀ i ∈ decl cs, i.WF := by
    intro i hi
    rcases List.mem_append.mp hi with hi | hi
    · obtain ⟨c, hc, rfl⟩ := List.mem_map.mp hi
      exact hwf c hc
    · exact std_wf i hi
  obtain ⟨⟨ext, hext⟩, hlen, hidx⟩ := parsed_index hnames heap known (!replace) h3
  simp only [HState.world] at hext hlen hidx
  refine ⟨evs, st, h1, h2, hlen, ?_, ?_⟩
  · intro id hid
    rw [hext]; exact heap_prefix hid
  · intro j d hd
    have hf := hidx j d hd
    constructor
    · intro hr k hk
      exact hf.reused (by simp [hr]) k hk
    · intro hc
      obtain ⟨id, e1, e2, e3, e4⟩ := hf.fresh (by
        rcases hc with h | h
        · exact Or.inl (by simp [h])
        · exact Or.inr h)
      exact ⟨id, recIface d, e1, e2, e3, recIface_same (hall d (List.mem_of_getElem? hd)), e4⟩

/-! ## the process-wide table across the operations of one process (Intro/Registry.lean)

"Interfaces already known locally are reused": an interface is known locally when it was declared in this
process - by a `DBusInterface(...)` call that returned - or read from XML by an earlier parse.  A declaration that
RAISED (a non-member argument, a member whose signature makes `genCompleteTypes` raise, at whatever position of
the member list) declared nothing. -/

/-- **C15, table, one failed declaration.**  When the member loop of `DBusInterface.__init__` raises, the caller
gets that exception and the process - its objects and `knownInterfaces` - is exactly what it was, whether or not
registration was asked for. -/
theorem failed_construction_leaves_registry (w : Proc) (name : Str) (args : List CtorArg) (register : Bool)
    {e : Err} (h : ctorLoop (Interface.new name) args = .error e) :
    w.construct name args register = (.error e, w) :=
  construct_error h

/-- **C15, table, invariant over histories.**  After ANY history of one process - declarations that complete
or raise, registering or `noRegister`, parses of arbitrary event sequences that reach the end or are ended by an
exception - every entry of `knownInterfaces` was there at the start, or some operation of the history made
its name known: a registering declaration that COMPLETED, or a parse of a document with an `<interface>` element
of that name.  (No entry ever stems from a declaration that raised or asked not to be registered.) -/
theorem registry_holds_only_declared_or_parsed (w : Proc) (ops : List ProcOp) {name : Str} {id : Nat}
    (hk : kget? (w.runAll ops).known name = some id) :
    kget? w.known name = some id ∨ ∃ op ∈ ops, op.MakesKnown name :=
  runAll_known ops w hk

/-- **C15, round trip after failed declarations.**  Whatever declarations raised (or were made with
`noRegister`) earlier in the process - any number, any member lists, under any names, the names of the object's
own interfaces included - the round trip of a declared object behaves exactly as the round-trip theorems say for
the table `w.known` the process had before them: the parse did what `World.parseBlocks` prescribes on that table,
and for distinct names that are fresh in it (or with replacement) the returned objects hold the declared
definitions. -/
theorem roundtrip_after_failed_declarations {path : Str} {exported : List (Str × List Cached)} {cs : List Cached}
    (hobj : exportedGet? exported path = some cs) (hdecl : Declared cs)
    (w : Proc) (ops : List ProcOp) (hops : ∀ op ∈ ops, op.DeclaresNothing) (replace : Bool) :
    ∃ evs st rs, generate path exported = .ok (some evs) ∧
      getInterfaces (w.runAll ops).heap (w.runAll ops).known replace evs = .ok st ∧
      SameDefinitions (decl cs) rs ∧
      st.world = World.parseBlocks (!replace) ⟨(w.runAll ops).heap, w.known, []⟩ rs ∧
      (((decl cs).map (·.name)).Nodup →
        (replace = true ∨ ∀ d ∈ decl cs, kget? w.known d.name = none) → st.result = rs.map some) := by
  have hknown := runAll_declaresNothing ops w hops
  obtain ⟨hcoh, hwf⟩ := hdecl.wf
  obtain ⟨evs, st, h1, h2, h3⟩ := parse_generated hobj hcoh hwf (w.runAll ops).heap (w.runAll ops).known replace
  have hall : ∀ i ∈ decl cs, i.WF := by
    intro i hi
    rcases List.mem_append.mp hi with hi | hi
    · obtain ⟨c, hc, rfl⟩ := List.mem_map.mp hi
      exact hwf c hc
    · exact std_wf i hi
  refine ⟨evs, st, _, h1, h2, sameDefinitions_recIface _ hall, ?_, ?_⟩
  · rw [← hknown]; exact h3
  · intro hnames hfresh
    exact fresh_result hnames (w.runAll ops).heap (w.runAll ops).known (!replace)
      (by rcases hfresh with h | h
          · exact Or.inl (by simp [h])
          · exact Or.inr (by rw [hknown]; exact h)) h3

/-- **Text/event boundary.**  No attribute value written by `_getXml` for a definition with valid names
(characters of `if_re` / `mbr_re`, generated table) and signatures from the type grammar, none written for the
three standard interfaces, and no object path (characters of `invalid_obj_path_re`'s allowed set) contains a
character that would need escaping in a double-quoted XML attribute or that the parser would normalise:
the unescaped `'...="%s"' % value` formatting of interface.py / introspection.py is faithful on the domain
of the property. -/
theorem generated_attribute_values_need_no_escaping :
    (∀ (i : Interface) (evs : List Event), i.ValidNames → ifaceEvents i = .ok evs →
        ∀ e ∈ evs, e.attrsSafe = true) ∧
    introEvents.all Event.attrsSafe = true ∧
    (∀ s : Str, inClass Gen.Validators.objPathAllowed s = true → s.all attrSafe = true) ∧
    (∀ ts : List Ty, (renderAll ts).all attrSafe = true) :=
  ⟨fun _ _ hv h => ifaceEvents_safe hv h, introEvents_safe,
   fun _ h => inClass_safe objPathAllowed_no_special h, renderAll_safe⟩

/-- **`_xml` cache.**  After any sequence of API operations (arbitrary members, also malformed signatures),
`introspectionXml` returns the text of the *current* definition: the cache is never stale. -/
theorem xml_cache_coherent (name : Str) (ops : List Op) {c c' : Cached} {x : List Event}
    (h : (Cached.new name).applyAll ops = .ok c) (hx : c.getXml = .ok (x, c')) :
    ifaceEvents c.iface = .ok x := by
  have hc := Cached.applyAll_coherent ops (Cached.new_coherent name) h
  have := Cached.getXml_eq hc
  rw [hx] at this
  exact this.symm

/-- **Order of the generated elements.**  `_getXml` lists methods, signals and properties each in Python's
`sorted` order of their names (code-point lexicographic) - this fixes the event order the correspondence check
compares; the round trip itself does not depend on it. -/
theorem members_sorted (i : Interface) :
    ((sortedValues Method.name i.methods).map Method.name).Pairwise (fun a b => strLe a b = true) ∧
    ((sortedValues Signal.name i.signals).map Signal.name).Pairwise (fun a b => strLe a b = true) ∧
    ((sortedValues Property.name i.properties).map Property.name).Pairwise (fun a b => strLe a b = true) := by
  simp only [sortedValues_names]
  exact ⟨sortStrs_sorted _, sortStrs_sorted _, sortStrs_sorted _⟩

/-! ## outside the assumptions: a declared interface named like a standard one (pinned, not judged) -/

/-- an exporter implementing `org.freedesktop.DBus.ObjectManager` itself, with the two signals of the DBus
specification -/
def omOps : List DeclOp :=
  [ .addMethod "GetManagedObjects".toList []
      [.array (.dict (.basic .o) (.array (.dict (.basic .s) (.array (.dict (.basic .s) .variant)))))],
    .addSignal "InterfacesAdded".toList
      [.basic .o, .array (.dict (.basic .s) (.array (.dict (.basic .s) .variant)))],
    .addSignal "InterfacesRemoved".toList [.basic .o, .array (.basic .s)] ]

def omName : Str := "org.freedesktop.DBus.ObjectManager".toList

def omExported : List (Str × List Cached) :=
  match declare omName omOps with
  | .ok c => [("/a".toList, [c])]
  | .error _ => []

/-- per returned interface its name and number of signals; and the number of signals of the definition the
cache holds for `omName` afterwards (99 = no entry) -/
def omSummary (replace : Bool) : List (Str × Nat) × Nat :=
  match generate "/a".toList omExported with
  | .ok (some evs) =>
    match getInterfaces [] [] replace evs with
    | .ok st =>
      ((st.result.filterMap id).map fun i => (i.name, i.signals.length),
       match kget? st.known omName with
       | some id => match st.heap[id]? with
         | some i => i.signals.length
         | none => 99
       | none => 99)
    | .error _ => ([], 99)
  | _ => ([], 99)

/-- **Witness (documented limitation, see ASSUMPTIONS).**  `generateIntrospectionXML` appends its own
`ObjectManager` block even when the object declares that interface itself, so the name occurs twice.  The
declared definition (2 signals) is returned first in both modes - the clauses of the statement hold for the
returned list and a proxy resolves to it first - but with replacement requested the *cache* ends up with the
poorer standard definition (0 signals); without replacement the second block is skipped as known. -/
theorem std_name_collision_witness :
    omSummary true = ([(omName, 2), ("org.freedesktop.DBus.Introspectable".toList, 0),
                       ("org.freedesktop.DBus.Peer".toList, 0), (omName, 0)], 0) ∧
    omSummary false = ([(omName, 2), ("org.freedesktop.DBus.Introspectable".toList, 0),
                        ("org.freedesktop.DBus.Peer".toList, 0), (omName, 2)], 2) := by decide

/-! ## witness: registering BEFORE the member loop violates the statement -/

/-- the member loop keeping what it had built when an exception ended it -/
def ctorLoopKeep (i : Interface) : List CtorArg → Interface × Option Err
  | [] => (i, none)
  | .method m :: r =>
    match i.addMethod m with
    | .error e => (i, some e)
    | .ok i' => ctorLoopKeep i' r
  | .signal s :: r =>
    match i.addSignal s with
    | .error e => (i, some e)
    | .ok i' => ctorLoopKeep i' r
  | .property p :: r => ctorLoopKeep (i.addProperty p) r
  | .other :: _ => (i, some .notMember)

/-- NOT the code: `__init__` with `self.knownInterfaces[name] = self` moved before the `for x in args` loop -
the object is in the table (and therefore stays alive) with whatever the loop managed to add -/
def Proc.constructRegisterFirst (w : Proc) (name : Str) (args : List CtorArg) : Proc :=
  ⟨w.heap ++ [(ctorLoopKeep (Interface.new name) args).1], kset w.known name w.heap.length⟩

def pName : Str := "org.a.P".toList

/-- the exporter's complete definition: two methods, a signal -/
def pOps : List DeclOp :=
  [ .addMethod "Echo".toList [.basic .s] [.basic .s],
    .addMethod "Query".toList [.array (.dict (.basic .s) .variant)] [.basic .u],
    .addSignal "Tick".toList [.basic .u, .basic .t] ]

/-- a local declaration under the same name that raises at its second argument (`'(is'`: unterminated struct) -/
def pBadArgs : List CtorArg :=
  [.method (Method.new "Echo".toList "s".toList "s".toList), .method (Method.new "Broken".toList "(is".toList []),
   .method (Method.new "Query".toList "a{sv}".toList "u".toList)]

def pExported : List (Str × List Cached) :=
  match declare pName pOps with
  | .ok c => [("/a".toList, [c])]
  | .error _ => []

/-- names of the methods and signals of the first interface a default-mode parse of the exporter's XML returns,
on the given process -/
def pRecovered (w : Proc) : List Str × List Str :=
  match generate "/a".toList pExported with
  | .ok (some evs) =>
    match getInterfaces w.heap w.known false evs with
    | .ok st =>
      match st.result.filterMap id with
      | i :: _ => (i.methods.map (·.name), i.signals.map (·.name))
      | [] => ([], [])
    | .error _ => ([], [])
  | _ => ([], [])

/-- **Witness (the class of C15p).**  The declaration raises in both variants.  With the code's order the process
is unchanged and the round trip returns the declared members; with the registration moved before the loop the
half-built interface (only `Echo`) stays in the table and a default-mode parse of the exporter's complete XML
hands it out: `Query` and the signal `Tick` are lost. -/
theorem register_first_model_violates :
    ctorLoop (Interface.new pName) pBadArgs = .error (.split .typeError) ∧
    pRecovered ((Proc.mk [] []).construct pName pBadArgs true).2
      = (["Echo".toList, "Query".toList], ["Tick".toList]) ∧
    pRecovered ((Proc.mk [] []).constructRegisterFirst pName pBadArgs) = (["Echo".toList], []) := by decide

/-! ## the hypotheses are satisfiable; concrete evaluation of the models -/

/-- a declared interface: containers, a dict entry, nested structs, all access modes, overwritten and deleted
members, the XML read in between -/
def sampleOps : List DeclOp :=
  [ .addMethod "Foo".toList [.array (.dict (.basic .s) .variant), .basic .i, .struct [.basic .i, .basic .i]]
      [.basic .s],
    .getXml,
    .addMethod "Z".toList [] [],
    .addMethod "a_1".toList [.array (.array (.basic .i))]
      [.array (.struct [.basic .i, .basic .i]), .array (.dict (.basic .s) (.struct [.basic .i, .variant]))],
    .addMethod "Foo".toList [.basic .h, .basic .h] [],
    .addSignal "Sig".toList [.basic .s, .array (.dict (.basic .s) .variant), .array (.basic .s)],
    .addSignal "E".toList [],
    .addProperty "P".toList [.array (.dict (.basic .s) .variant)] true true .true,
    .addProperty "Q".toList [.basic .s] false true .false,
    .addProperty "R".toList [.basic .i] true false .invalidates,
    .getXml,
    .delMethod "Z".toList,
    .delProperty "Q".toList ]

def sampleExported : List (Str × List Cached) :=
  match declare "org.a.B".toList sampleOps, declare "org.a.b".toList [] with
  | .ok c, .ok c' => [("/a".toList, [c, c']), ("/a/b".toList, [])]
  | _, _ => []

example : ∃ cs, exportedGet? sampleExported "/a".toList = some cs ∧ Declared cs ∧
    ((decl cs).map (·.name)).Nodup ∧ cs.length = 2 := by
  refine ⟨_, rfl, ?_, by decide, rfl⟩
  intro c hc
  simp only [List.mem_cons, List.not_mem_nil, or_false] at hc
  rcases hc with rfl | rfl
  · exact ⟨"org.a.B".toList, sampleOps, rfl⟩
  · exact ⟨"org.a.b".toList, [], rfl⟩

/-- what comes back for the sample: per returned interface the methods (name, nargs, nret), the signals'
argument counts and the properties' access strings -/
def sampleSummary : List (List (Str × Int × Int) × List Int × List Str) :=
  match generate "/a".toList sampleExported with
  | .ok (some evs) =>
    match getInterfaces [] [] false evs with
    | .ok st => (st.result.filterMap id).map fun i =>
        (i.methods.map fun m => (m.name, m.nargs, m.nret), i.signals.map (·.nargs),
         i.properties.map (·.access))
    | .error _ => []
  | _ => []

/-- the model evaluated on the sample: the first interface comes back with 2 methods (`Foo` counted as 2
arguments after the overwrite, `a_1` as 1 in / 2 out - an `a{s(iv)}` is one argument), 2 signals, 2 properties;
the second, empty one as empty; the standard ones follow -/
example : sampleSummary.take 2 =
    [([("Foo".toList, 2, 0), ("a_1".toList, 1, 2)], [0, 3], ["readwrite".toList, "read".toList]),
     ([], [], [])] ∧ sampleSummary.length = 2 + stdIfaces.length := by decide

/-- a history with declarations that raise (a non-member argument first / a malformed signature last), one made
with `noRegister` and none that registers: every operation `DeclaresNothing` -/
example : ∀ op ∈ [ProcOp.construct pName pBadArgs true, .construct pName [.other] true,
                   .construct pName [.method (Method.new "Echo".toList "s".toList "s".toList)] false,
                   .construct "x.y".toList [.signal (Signal.new "S".toList "a".toList)] false],
    op.DeclaresNothing := by
  intro op hop
  simp only [List.mem_cons, List.not_mem_nil, or_false] at hop
  rcases hop with rfl | rfl | rfl | rfl
  · exact Or.inr ⟨_, (by decide : ctorLoop (Interface.new pName) pBadArgs = .error (.split .typeError))⟩
  · exact Or.inr ⟨.notMember, rfl⟩
  · exact Or.inl rfl
  · exact Or.inl rfl

/-- a registering declaration that completes makes its name known, and so does a parse -/
example : (ProcOp.construct pName [.property (Property.new "P".toList "i".toList true false .true)] true).MakesKnown pName ∧
    (ProcOp.parse false [.start kInterface [(kName, pName)]]).MakesKnown pName :=
  ⟨⟨rfl, rfl, _, rfl⟩, _, List.mem_cons_self, _, rfl, by decide⟩

example : ∃ i : Interface, i.ValidNames ∧ i.methods.length = 1 :=
  ⟨⟨"org.a.B".toList, [⟨"Foo".toList, 1, 0, "a{sv}".toList, []⟩], [], []⟩,
   ⟨by decide, (fun m hm => by
      simp only [List.mem_cons, List.not_mem_nil, or_false] at hm
      subst hm
      exact ⟨by decide, [.array (.dict (.basic .s) .variant)], [], by decide, by decide⟩),
    (fun s hs => by cases hs), (fun p hp => by cases hp)⟩, rfl⟩

#print axioms handler_gen
#print axioms handler_gen_fresh
#print axioms proxy_accepts_same_calls
#print axioms declared_method_count
#print axioms declared_method_accepts
#print axioms known_reused_unless_replaced
#print axioms generated_attribute_values_need_no_escaping
#print axioms xml_cache_coherent
#print axioms members_sorted
#print axioms std_name_collision_witness
#print axioms failed_construction_leaves_registry
#print axioms registry_holds_only_declared_or_parsed
#print axioms roundtrip_after_failed_declarations
#print axioms register_first_model_violates

end Txdbus.Intro
