import TxdbusModel.Proofs.Wire.SpecRoundtrip
import TxdbusModel.Proofs.Wire.TopLevel
import TxdbusModel.Proofs.Wire.Normal
import TxdbusModel.Proofs.Wire.ValidWF
import TxdbusModel.Proofs.Wire.ConfTop
import TxdbusModel.Proofs.Wire.FuelFree
import TxdbusModel.Proofs.Wire.NoFds
/-!
Property C01 - encoding then decoding any conforming value returns the same value.

* `Spec.decode_encode` (mathematics about the reference codec of Wire/Spec.lean): it round-trips for EVERY
  alignment table (positivity of the entries is not even needed), both byte orders, every list of types
  without empty structs (`allWF`; implied by signature validity), every list of values the encoder accepts
  (= every conforming value: ranges, string-like values without NUL, lengths within the wire limits,
  variants holding a single complete type), every offset, arbitrary bytes before and after; the decoder
  reports consuming exactly the bytes the encoder produced.
* `C01_roundtrip` (the property, about the code model of txdbus/marshal.py): for every signature `ts`
  (rendered as the string the code receives), every conforming list of Python values, both byte orders
  and every offset, `marshal` produces the bytes `bs` and reports `bs.length`; `unmarshal` applied to
  those bytes placed at the same offset inside arbitrary surrounding bytes returns the normal form
  `plain` of the values (tuples / objects with `dbusOrder` as lists, byte arrays as integer lists, typed
  wrappers as plain values) and reports the same `bs.length`.  It is the composition of the two
  "Code = Spec" theorems `Code.marshal_eq_spec`, `Code.unmarshal_eq_spec` (Proofs/Wire/TopLevel, shared
  with C02) and of `Code.fromSpecFields_of_rep` (Proofs/Wire/Normal).
-/
namespace Txdbus

theorem Spec.decode_encode (A : AlignTable) (e : Endian) (ts : List Ty) (vs : List Val) (off : Nat)
    (bs pre suf : Bytes) (hts : allWF ts = true) (hpre : pre.length = off)
    (henc : Spec.encodeAll A e ts vs off = some bs) :
    Spec.decode A e ts (pre ++ bs ++ suf) off = some (vs, bs.length) := by
  unfold Spec.decode
  apply Spec.decodeAll_encodeAll A e ts vs off bs pre suf _ hts hpre henc
  have h := Spec.vdepth_fields A e vs ts off bs henc
  simp only [List.length_append]
  omega

/-- The hypotheses are satisfiable by a non-trivial instance: a byte, an array of INT64 at an odd
offset, and a variant holding a struct (big endian, offset 3). -/
example :
    let ts : List Ty := [.basic .y, .array (.basic .x), .variant]
    let vs : List Val := [.int 7, .array [.int 1, .int (-1)],
      .variant (.struct [.basic .s, .basic .q]) (.struct [.str [104, 105], .int 513])]
    allWF ts = true ∧
    (Spec.encodeAll Spec.alignTable .big ts vs 3).isSome = true := by
  decide

/-- C01.  Hypotheses, in words: `ts` has no empty struct; `pv` is the `variableList` (a list, a tuple or
an object with `dbusOrder`) whose items are `items`; the items conform to `ts` and denote the spec values
`vs`, the descriptors among them being `fdl` in wire order (`Rep`: the Python class each type asks for);
dict keys are hashable and pairwise distinct; the values are within the limits of the wire format
(`Spec.encodeAll` succeeds: integer ranges, no NUL in strings, arrays up to 2^26 bytes, variant
signatures up to 255 characters); `fuel` is at least the nesting depth.
The alignment table is `Code.genAlign`, the table generated from `dbus_types` WHATEVER its entries are
(`Code.padOK_gen` only needs them between 1 and 8): the round trip does not depend on the alignments being
the specification's (that is C02), so a symmetric change of an alignment leaves this theorem intact. -/
theorem C01_roundtrip (le : Bool) (ts : List Ty) (pv : PyVal) (items : List PyVal) (vs : List Val)
    (fdl : List PyVal) (off : Nat) (bs pre suf : Bytes) (fuel : Nat)
    (hts : allWF ts = true)
    (hitems : Code.topItems pv = .ok items)
    (hrep : Code.RepFields fdl vs true ts items 0 fdl.length)
    (hkeys : Code.KeysOKList items)
    (henc : Spec.encodeAll Code.genAlign (endianOf le) ts vs off = some bs)
    (hpre : pre.length = off) (hfuel : depthAll vs ≤ fuel) :
    Code.marshal fuel (renderAll ts) pv off le (some []) = .ok (bs.length, bs, some fdl) ∧
    Code.unmarshal fuel (renderAll ts) (pre ++ bs ++ suf) off le (some fdl) =
      .ok (bs.length, Code.plainList items) := by
  constructor
  · have h := Code.marshal_eq_spec Code.genAlign Code.padOK_gen Code.genAlign_pos le ts pv items vs fdl fdl.length
      off bs fuel hitems hrep henc hfuel
    simpa using h
  · exact Code.unmarshal_eq_spec Code.genAlign Code.padOK_gen Code.genAlign_pos le (some fdl) ts vs off bs pre suf _
      fuel hts henc hpre
      (Code.fromSpecFields_of_rep fdl vs true ts items 0 fdl.length hrep hkeys) hfuel

/-- The hypotheses of `C01_roundtrip` are satisfiable: signature `yaiva{sb}h`, values
`[Byte(7), (1, Int32(-1)), 'hi', {'k': True}, 5]` (a wrapper, a tuple for an array, a variant holding a
string, a dict, a descriptor), little endian, offset 5. -/
example :
    let ts : List Ty := [.basic .y, .array (.basic .i), .variant,
      .array (.dict (.basic .s) (.basic .b)), .basic .h]
    let items : List PyVal := [.int .byte 7, .tuple [.int .plain 1, .int .int32 (-1)], .str .plain ['h', 'i'],
      .dict [(.str .plain ['k'], .bool true)], .int .plain 5]
    let vs : List Val := [.int 7, .array [.int 1, .int (-1)], .variant (.basic .s) (.str [104, 105]),
      .array [.entry (.str [107]) (.bool true)], .int 0]
    let fdl : List PyVal := [.int .plain 5]
    allWF ts = true ∧ Code.topItems (.list items) = .ok items ∧
      Code.RepFields fdl vs true ts items 0 fdl.length ∧ Code.KeysOKList items ∧
      (Spec.encodeAll Code.genAlign (endianOf true) ts vs 5).isSome = true ∧ depthAll vs ≤ 3 := by
  refine ⟨by decide, rfl, ?_, ?_, by decide, by decide⟩
  · -- y: Byte(7)
    refine ⟨_, _, _, _, 0, rfl, rfl, ?_, ?_⟩
    · simp only [Code.Rep]
      exact ⟨.y, rfl, Or.inr ⟨by decide, ⟨_, rfl⟩, rfl⟩⟩
    -- ai: the tuple (1, Int32(-1))
    refine ⟨_, _, _, _, 0, rfl, rfl, ?_, ?_⟩
    · simp only [Code.Rep]
      refine ⟨_, _, rfl, trivial, rfl, ?_⟩
      refine ⟨_, _, 0, rfl, ?_, ?_⟩
      · simp only [Code.Rep]; exact ⟨.i, rfl, Or.inr ⟨by decide, ⟨_, rfl⟩, rfl⟩⟩
      refine ⟨_, _, 0, rfl, ?_, ?_⟩
      · simp only [Code.Rep]; exact ⟨.i, rfl, Or.inr ⟨by decide, ⟨_, rfl⟩, rfl⟩⟩
      exact ⟨rfl, rfl⟩
    -- v: the str 'hi' (inferred signature 's')
    refine ⟨_, _, _, _, 0, rfl, rfl, ?_, ?_⟩
    · simp only [Code.Rep]
      refine ⟨trivial, rfl, ?_, trivial⟩
      exact ⟨.s, rfl, Or.inr ⟨by decide, ⟨_, _, rfl, by decide⟩, rfl⟩⟩
    -- a{sb}: the dict {'k': True}
    refine ⟨_, _, _, _, 0, rfl, rfl, ?_, ?_⟩
    · simp only [Code.Rep]
      refine ⟨_, _, rfl, trivial, rfl, ?_⟩
      refine ⟨_, _, 0, rfl, ?_, ⟨rfl, rfl⟩⟩
      simp only [Code.Rep]
      refine ⟨_, _, _, _, 0, rfl, trivial, rfl, ?_, ?_⟩
      · exact ⟨.s, rfl, Or.inr ⟨by decide, ⟨_, _, rfl, by decide⟩, rfl⟩⟩
      · exact ⟨.b, rfl, Or.inr ⟨by decide, rfl, rfl⟩⟩
    -- h: the descriptor 5 (index 0)
    refine ⟨_, _, _, _, 1, rfl, rfl, ?_, ⟨rfl, rfl, rfl⟩⟩
    simp only [Code.Rep]
    exact ⟨.h, rfl, Or.inl ⟨rfl, rfl, rfl, rfl, rfl, rfl⟩⟩
  · simp only [Code.KeysOKList, Code.KeysOK, Code.KeysOKPairs, Code.plainPairs, Code.plain, and_true, true_and,
      List.map_cons, List.map_nil]
    exact ⟨[.str ['k']], rfl, by simp⟩

/-- `C01_roundtrip` for every VALID signature in the sense of the DBus specification (`sigValid`: non-empty
structs, dict entries only as array elements with a basic key, nesting within 32/32, at most 255
characters) - the form in which the property is worded. -/
theorem C01_roundtrip_valid (le : Bool) (ts : List Ty) (pv : PyVal) (items : List PyVal) (vs : List Val)
    (fdl : List PyVal) (off : Nat) (bs pre suf : Bytes) (fuel : Nat)
    (hts : sigValid ts = true)
    (hitems : Code.topItems pv = .ok items)
    (hrep : Code.RepFields fdl vs true ts items 0 fdl.length)
    (hkeys : Code.KeysOKList items)
    (henc : Spec.encodeAll Code.genAlign (endianOf le) ts vs off = some bs)
    (hpre : pre.length = off) (hfuel : depthAll vs ≤ fuel) :
    Code.marshal fuel (renderAll ts) pv off le (some []) = .ok (bs.length, bs, some fdl) ∧
    Code.unmarshal fuel (renderAll ts) (pre ++ bs ++ suf) off le (some fdl) =
      .ok (bs.length, Code.plainList items) :=
  C01_roundtrip le ts pv items vs fdl off bs pre suf fuel (sigValid_allWF ts hts) hitems hrep hkeys henc hpre hfuel

/-- C01 for the second formulation of conformance (`Code.Conf`, added after review; `C01_roundtrip` is kept
as it is because other properties import it).  Differences: (1) the typed wrapper `Boolean` is a conforming
value for `b`, and decoding returns the `bool` it stands for (`plainB`); (2) the relation is stated without
the code model's item functions (`structFields`, `arrayElems`, dict items in iteration order).  In exchange
a `Boolean` instance is not accepted where an integer type is asked (that case is `C01_roundtrip`'s). -/
theorem C01_roundtrip_conf (le : Bool) (ts : List Ty) (pv : PyVal) (items : List PyVal) (vs : List Val)
    (fdl : List PyVal) (off : Nat) (bs pre suf : Bytes) (fuel : Nat)
    (hts : allWF ts = true)
    (hitems : Code.structFields pv = some items)
    (hrep : Code.ConfFields fdl vs true ts items 0 fdl.length)
    (hkeys : Code.KeysOKBList items)
    (henc : Spec.encodeAll Code.genAlign (endianOf le) ts vs off = some bs)
    (hpre : pre.length = off) (hfuel : depthAll vs ≤ fuel) :
    Code.marshal fuel (renderAll ts) pv off le (some []) = .ok (bs.length, bs, some fdl) ∧
    Code.unmarshal fuel (renderAll ts) (pre ++ bs ++ suf) off le (some fdl) =
      .ok (bs.length, Code.plainBList items) := by
  constructor
  · have h := Code.marshal_eq_spec_conf Code.genAlign Code.padOK_gen Code.genAlign_pos le ts pv items vs fdl
      fdl.length off bs fuel hitems hrep henc hfuel
    simpa using h
  · exact Code.unmarshal_eq_spec Code.genAlign Code.padOK_gen Code.genAlign_pos le (some fdl) ts vs off bs pre suf _
      fuel hts henc hpre (Code.fromSpecFields_of_conf fdl vs true ts items 0 fdl.length hrep hkeys) hfuel

/-- C01 with EXECUTABLE hypotheses - what the harness certifies for every generated conforming case through
the driver operation `specenc` (which answers `ok` only if `Code.toSpecTop` and `Code.keysOKCheck` succeed
and the reference encoder accepts the values): the case lies inside the theorem, not only near it. -/
theorem C01_roundtrip_checked (le : Bool) (n : Nat) (ts : List Ty) (pv : PyVal) (vs : List Val)
    (fdl : List PyVal) (off : Nat) (bs pre suf : Bytes) (fuel : Nat)
    (hts : allWF ts = true)
    (hchk : Code.toSpecTop n ts pv = some (vs, fdl))
    (hkeys : Code.keysOKCheck pv = true)
    (henc : Spec.encodeAll Code.genAlign (endianOf le) ts vs off = some bs)
    (hpre : pre.length = off) (hfuel : depthAll vs ≤ fuel) :
    ∃ items, Code.structFields pv = some items ∧
      Code.marshal fuel (renderAll ts) pv off le (some []) = .ok (bs.length, bs, some fdl) ∧
      Code.unmarshal fuel (renderAll ts) (pre ++ bs ++ suf) off le (some fdl) =
        .ok (bs.length, Code.plainBList items) := by
  obtain ⟨items, hitems, hrep⟩ := Code.toSpecTop_sound n ts pv vs fdl hchk
  have hk := Code.keysOKB_fields pv items hitems (Code.keysOKCheck_sound pv hkeys)
  exact ⟨items, hitems, C01_roundtrip_conf le ts pv items vs fdl off bs pre suf fuel hts hitems hrep hk henc hpre hfuel⟩

/-- Satisfiable: a `dbusOrder` object as variableList holding `Boolean(1)`, a descriptor, and a variant
whose content is a list of `Boolean`s (inferred `ab`). -/
example :
    let ts : List Ty := [.basic .b, .basic .h, .variant]
    let pv : PyVal := .obj 0 none [.int .boolean 1, .int .plain 9, .list [.int .boolean 0, .int .boolean 1]]
    allWF ts = true ∧ Code.keysOKCheck pv = true ∧
      ∃ vs, Code.toSpecTop 20 ts pv = some (vs, [.int .plain 9]) ∧
        (Spec.encodeAll Code.genAlign (endianOf true) ts vs 1).isSome = true ∧ depthAll vs ≤ 3 := by
  refine ⟨by decide, rfl, [.bool true, .int 0, .variant (.array (.basic .b)) (.array [.bool false, .bool true])],
    rfl, by decide, by decide⟩

/-- Arity (after repair bf83351, which replaced the silent `zip` truncation): whenever `marshal` returns -
for ANY Python values, conforming or not - the variableList holds exactly one value per complete type of the
signature.  (The same holds inside structs and dict entries, which recurse through the same loop:
`Code.marshalSeq_ok_arity`.)  So "the right number of values" is no longer a hypothesis a caller has to
check: it is implied by success. -/
theorem C01_marshal_arity (fuel : Nat) (ts : List Ty) (pv : PyVal) (off : Nat) (le : Bool) (fds : Code.Fds)
    (r : Nat × Bytes × Code.Fds) (h : Code.marshal fuel (renderAll ts) pv off le fds = .ok r) :
    ∃ items, Code.topItems pv = .ok items ∧ items.length = ts.length :=
  Code.marshal_ok_arity fuel ts pv off le fds r h

/-! ### Extension 2026-09-30: the round trip without a premise on the depth of the value

`C01_roundtrip` and its variants ask for `depthAll vs ≤ fuel` - a bound on the nesting of the VALUE, which a caller of
the model cannot read off its inputs.  Below the same statements with fuels computed from the signature and the bytes:
the decoder at `Cost.codeFuel sig data off = |sig| + (|data| - off) + 1` (the fuel that `Properties/C05.lean:
code_fuel_adequate` proves sufficient for HOSTILE data as well, and the fuel the driver now runs `unmarshal` with),
the encoder at `|sig| + |bytes it produces|`.  Both follow from `Spec.depth_le_sig_add_length` (Proofs/Wire/FuelFree):
every nesting level of an encodable value is paid for by a character of its type or by a byte of its encoding.
No side condition is added (the route through C05's `code_fuel_independent` would ask the descriptors to be scalars).
The encoder's bound mentions its own output because, through variants, the nesting of the value is not a function of
the signature; for a signature without `v` the bound `tyDepthAll ts ≤ |sig|` depends on the signature alone
(`C01_roundtrip_noVariant_fuel_free`).  There is no cost model of `marshal`, hence no statement about `Code.marshal`'s
fuel on NON-conforming values. -/

/-- `C01_roundtrip` at ANY fuels above the computable bounds (the strongest form; the next theorem is the instance
without fuel variables). -/
theorem C01_roundtrip_any_fuel (le : Bool) (ts : List Ty) (pv : PyVal) (items : List PyVal) (vs : List Val)
    (fdl : List PyVal) (off : Nat) (bs pre suf : Bytes) (fuelM fuelU : Nat)
    (hts : allWF ts = true)
    (hitems : Code.topItems pv = .ok items)
    (hrep : Code.RepFields fdl vs true ts items 0 fdl.length)
    (hkeys : Code.KeysOKList items)
    (henc : Spec.encodeAll Code.genAlign (endianOf le) ts vs off = some bs)
    (hpre : pre.length = off)
    (hfuelM : (renderAll ts).length + bs.length ≤ fuelM)
    (hfuelU : Cost.codeFuel (renderAll ts) (pre ++ bs ++ suf) off ≤ fuelU) :
    Code.marshal fuelM (renderAll ts) pv off le (some []) = .ok (bs.length, bs, some fdl) ∧
    Code.unmarshal fuelU (renderAll ts) (pre ++ bs ++ suf) off le (some fdl) =
      .ok (bs.length, Code.plainList items) :=
  ⟨(C01_roundtrip le ts pv items vs fdl off bs pre suf fuelM hts hitems hrep hkeys henc hpre
      (Nat.le_trans (Spec.depthAll_le_sized _ _ ts vs off bs henc) hfuelM)).1,
   (C01_roundtrip le ts pv items vs fdl off bs pre suf fuelU hts hitems hrep hkeys henc hpre
      (Nat.le_trans (Nat.le_of_lt (Spec.depthAll_le_codeFuel _ _ ts vs off bs pre suf henc hpre)) hfuelU)).2⟩

/-- C01 with no fuel left in the statement: the decoder is run at `Cost.codeFuel (render ts) data off`, the encoder at
`|render ts| + |bytes|`.  Hypotheses as `C01_roundtrip` minus `hfuel`. -/
theorem C01_roundtrip_fuel_free (le : Bool) (ts : List Ty) (pv : PyVal) (items : List PyVal) (vs : List Val)
    (fdl : List PyVal) (off : Nat) (bs pre suf : Bytes)
    (hts : allWF ts = true)
    (hitems : Code.topItems pv = .ok items)
    (hrep : Code.RepFields fdl vs true ts items 0 fdl.length)
    (hkeys : Code.KeysOKList items)
    (henc : Spec.encodeAll Code.genAlign (endianOf le) ts vs off = some bs)
    (hpre : pre.length = off) :
    Code.marshal ((renderAll ts).length + bs.length) (renderAll ts) pv off le (some []) = .ok (bs.length, bs, some fdl) ∧
    Code.unmarshal (Cost.codeFuel (renderAll ts) (pre ++ bs ++ suf) off) (renderAll ts) (pre ++ bs ++ suf) off le
      (some fdl) = .ok (bs.length, Code.plainList items) :=
  C01_roundtrip_any_fuel le ts pv items vs fdl off bs pre suf _ _ hts hitems hrep hkeys henc hpre
    (Nat.le_refl _) (Nat.le_refl _)

/-- The same for every VALID signature (`sigValid`). -/
theorem C01_roundtrip_valid_fuel_free (le : Bool) (ts : List Ty) (pv : PyVal) (items : List PyVal) (vs : List Val)
    (fdl : List PyVal) (off : Nat) (bs pre suf : Bytes)
    (hts : sigValid ts = true)
    (hitems : Code.topItems pv = .ok items)
    (hrep : Code.RepFields fdl vs true ts items 0 fdl.length)
    (hkeys : Code.KeysOKList items)
    (henc : Spec.encodeAll Code.genAlign (endianOf le) ts vs off = some bs)
    (hpre : pre.length = off) :
    Code.marshal ((renderAll ts).length + bs.length) (renderAll ts) pv off le (some []) = .ok (bs.length, bs, some fdl) ∧
    Code.unmarshal (Cost.codeFuel (renderAll ts) (pre ++ bs ++ suf) off) (renderAll ts) (pre ++ bs ++ suf) off le
      (some fdl) = .ok (bs.length, Code.plainList items) :=
  C01_roundtrip_fuel_free le ts pv items vs fdl off bs pre suf (sigValid_allWF ts hts) hitems hrep hkeys henc hpre

/-- A signature without `v`: the encoder's fuel is a function of the SIGNATURE alone - its nesting depth
`tyDepthAll ts` (`≤ |render ts|`: `tyDepthAll_le_render`); the decoder at `Cost.codeFuel` as before. -/
theorem C01_roundtrip_noVariant_fuel_free (le : Bool) (ts : List Ty) (pv : PyVal) (items : List PyVal) (vs : List Val)
    (fdl : List PyVal) (off : Nat) (bs pre suf : Bytes)
    (hts : allWF ts = true) (hnv : allNoVariant ts = true)
    (hitems : Code.topItems pv = .ok items)
    (hrep : Code.RepFields fdl vs true ts items 0 fdl.length)
    (hkeys : Code.KeysOKList items)
    (henc : Spec.encodeAll Code.genAlign (endianOf le) ts vs off = some bs)
    (hpre : pre.length = off) :
    Code.marshal (tyDepthAll ts) (renderAll ts) pv off le (some []) = .ok (bs.length, bs, some fdl) ∧
    Code.unmarshal (Cost.codeFuel (renderAll ts) (pre ++ bs ++ suf) off) (renderAll ts) (pre ++ bs ++ suf) off le
      (some fdl) = .ok (bs.length, Code.plainList items) :=
  ⟨(C01_roundtrip le ts pv items vs fdl off bs pre suf _ hts hitems hrep hkeys henc hpre
      (Spec.depth_fields_ty _ _ vs ts off bs henc hnv)).1,
   (C01_roundtrip_fuel_free le ts pv items vs fdl off bs pre suf hts hitems hrep hkeys henc hpre).2⟩

/-- `C01_roundtrip_conf` (second formulation of conformance) without the fuel premise. -/
theorem C01_roundtrip_conf_fuel_free (le : Bool) (ts : List Ty) (pv : PyVal) (items : List PyVal) (vs : List Val)
    (fdl : List PyVal) (off : Nat) (bs pre suf : Bytes)
    (hts : allWF ts = true)
    (hitems : Code.structFields pv = some items)
    (hrep : Code.ConfFields fdl vs true ts items 0 fdl.length)
    (hkeys : Code.KeysOKBList items)
    (henc : Spec.encodeAll Code.genAlign (endianOf le) ts vs off = some bs)
    (hpre : pre.length = off) :
    Code.marshal ((renderAll ts).length + bs.length) (renderAll ts) pv off le (some []) = .ok (bs.length, bs, some fdl) ∧
    Code.unmarshal (Cost.codeFuel (renderAll ts) (pre ++ bs ++ suf) off) (renderAll ts) (pre ++ bs ++ suf) off le
      (some fdl) = .ok (bs.length, Code.plainBList items) :=
  ⟨(C01_roundtrip_conf le ts pv items vs fdl off bs pre suf _ hts hitems hrep hkeys henc hpre
      (Spec.depthAll_le_sized _ _ ts vs off bs henc)).1,
   (C01_roundtrip_conf le ts pv items vs fdl off bs pre suf _ hts hitems hrep hkeys henc hpre
      (Nat.le_of_lt (Spec.depthAll_le_codeFuel _ _ ts vs off bs pre suf henc hpre))).2⟩

/-- `C01_roundtrip_checked` (executable hypotheses: what the driver operation `specenc` certifies for every generated
conforming case) without the fuel premise: every hypothesis left can be evaluated, and so can both sides of the
conclusion. -/
theorem C01_roundtrip_checked_fuel_free (le : Bool) (n : Nat) (ts : List Ty) (pv : PyVal) (vs : List Val)
    (fdl : List PyVal) (off : Nat) (bs pre suf : Bytes)
    (hts : allWF ts = true)
    (hchk : Code.toSpecTop n ts pv = some (vs, fdl))
    (hkeys : Code.keysOKCheck pv = true)
    (henc : Spec.encodeAll Code.genAlign (endianOf le) ts vs off = some bs)
    (hpre : pre.length = off) :
    ∃ items, Code.structFields pv = some items ∧
      Code.marshal ((renderAll ts).length + bs.length) (renderAll ts) pv off le (some []) =
        .ok (bs.length, bs, some fdl) ∧
      Code.unmarshal (Cost.codeFuel (renderAll ts) (pre ++ bs ++ suf) off) (renderAll ts) (pre ++ bs ++ suf) off le
        (some fdl) = .ok (bs.length, Code.plainBList items) := by
  obtain ⟨items, hitems, hrep⟩ := Code.toSpecTop_sound n ts pv vs fdl hchk
  have hk := Code.keysOKB_fields pv items hitems (Code.keysOKCheck_sound pv hkeys)
  exact ⟨items, hitems, C01_roundtrip_conf_fuel_free le ts pv items vs fdl off bs pre suf hts hitems hrep hk henc hpre⟩

/-! Instances (data in `FuelFreeEx`, Proofs/Wire/FuelFree.lean): a variant (holding the list `[1, 2]`, inferred `ai`)
inside a dict inside an array inside an array, then a descriptor - signature `aa{sv}h`, values `[[{'k': [1, 2]}], 5]`,
little endian, offset 3, bytes before and after. -/
section
open FuelFreeEx

/-- The hypotheses of `C01_roundtrip_checked_fuel_free` hold for it (all by evaluation; `bsL` is what CPython's
`marshal` produces). -/
example : allWF ts = true ∧ Code.toSpecTop 20 ts pv = some (vs, [.int .plain 5]) ∧ Code.keysOKCheck pv = true ∧
    Spec.encodeAll Code.genAlign (endianOf true) ts vs 3 = some bsL ∧ pre3.length = 3 :=
  ⟨by decide, rfl, rfl, by decide +kernel, rfl⟩

/-- ... so the theorem applies, with the fuels IT computes. -/
example : ∃ items, Code.structFields pv = some items ∧
    Code.marshal ((renderAll ts).length + bsL.length) (renderAll ts) pv 3 true (some []) =
      .ok (bsL.length, bsL, some [.int .plain 5]) ∧
    Code.unmarshal (Cost.codeFuel (renderAll ts) (pre3 ++ bsL ++ suf) 3) (renderAll ts) (pre3 ++ bsL ++ suf) 3 true
      (some [.int .plain 5]) = .ok (bsL.length, Code.plainBList items) :=
  C01_roundtrip_checked_fuel_free true 20 ts pv vs [.int .plain 5] 3 bsL pre3 suf (by decide) rfl rfl
    (by decide +kernel) rfl

/-- ... and what it says about the decoder, spelled out: 41 bytes, the values `[[{'k': [1, 2]}], 5]`. -/
example : Code.unmarshal (Cost.codeFuel (renderAll ts) (pre3 ++ bsL ++ suf) 3) (renderAll ts) (pre3 ++ bsL ++ suf) 3 true
      (some [.int .plain 5]) = .ok (41, decoded) := by
  obtain ⟨items, hi, _, hu⟩ := C01_roundtrip_checked_fuel_free true 20 ts pv vs [.int .plain 5] 3 bsL pre3 suf
    (by decide) rfl rfl (by decide +kernel) rfl
  have h : Code.structFields pv = some decoded := rfl
  rw [h] at hi
  cases hi
  exact hu

/-- The same by running the code model in the kernel at the fuels of the theorem (`7 + 41 = 48` for the encoder,
`codeFuel = 7 + (46 - 3) + 1 = 51` for the decoder); the value is 6 levels deep, and at fuel 5 both directions answer
`RecursionError` - the premise that was removed is not vacuous. -/
example :
    renderAll ts = sig ∧ (renderAll ts).length + bsL.length = 48 ∧ Cost.codeFuel sig (pre3 ++ bsL ++ suf) 3 = 51 ∧
    depthAll vs = 6 ∧
    (match Code.marshal 48 sig pv 3 true (some []) with
     | .ok (n, b, _) => n == 41 && b == bsL
     | .error _ => false) = true ∧
    (match Code.unmarshal 51 sig (pre3 ++ bsL ++ suf) 3 true (some [.int .plain 5]) with
     | .ok (n, vals) => n == 41 && vals.length == 2
     | .error _ => false) = true ∧
    (match Code.marshal 5 sig pv 3 true (some []) with
     | .error e => e == .recursion
     | .ok _ => false) = true ∧
    (match Code.unmarshal 5 sig (pre3 ++ bsL ++ suf) 3 true (some [.int .plain 5]) with
     | .error e => e == .recursion
     | .ok _ => false) = true := by
  decide +kernel

end

/-- `C01_roundtrip_fuel_free` itself (the `Rep` formulation): its hypotheses hold for `aa{sv}` with `[[{'k': 'hi'}]]`. -/
example :
    let ts : List Ty := [.array (.array (.dict (.basic .s) .variant))]
    let items : List PyVal := [.list [.dict [(.str .plain ['k'], .str .plain ['h', 'i'])]]]
    let vs : List Val := [.array [.array [.entry (.str [107]) (.variant (.basic .s) (.str [104, 105]))]]]
    allWF ts = true ∧ Code.topItems (.list items) = .ok items ∧
      Code.RepFields [] vs true ts items 0 0 ∧ Code.KeysOKList items ∧
      (Spec.encodeAll Code.genAlign (endianOf true) ts vs 3).isSome = true := by
  refine ⟨by decide, rfl, ?_, ?_, by decide +kernel⟩
  · refine ⟨_, _, _, _, 0, rfl, rfl, ?_, ⟨rfl, rfl, rfl⟩⟩
    simp only [Code.Rep]
    refine ⟨_, _, rfl, trivial, rfl, ?_⟩
    refine ⟨_, _, 0, rfl, ?_, ⟨rfl, rfl⟩⟩
    simp only [Code.Rep]
    refine ⟨_, _, rfl, trivial, rfl, ?_⟩
    refine ⟨_, _, 0, rfl, ?_, ⟨rfl, rfl⟩⟩
    simp only [Code.Rep]
    refine ⟨_, _, _, _, 0, rfl, trivial, rfl, ?_, ?_⟩
    · exact ⟨.s, rfl, Or.inr ⟨by decide, ⟨_, _, rfl, by decide⟩, rfl⟩⟩
    · refine ⟨rfl, rfl, ?_, rfl⟩
      exact ⟨.s, rfl, Or.inr ⟨by decide, ⟨_, _, rfl, by decide⟩, rfl⟩⟩
  · simp only [Code.KeysOKList, Code.KeysOK, Code.KeysOKPairs, Code.plainPairs, Code.plain, and_true,
      List.map_cons, List.map_nil]
    exact ⟨[.str ['k']], rfl, by simp⟩

/-- A signature without `v` (`a(ay)`, depth 4): the hypotheses of `C01_roundtrip_noVariant_fuel_free` that are new. -/
example : allNoVariant [.array (.struct [.array (.basic .y)])] = true ∧
    tyDepthAll [.array (.struct [.array (.basic .y)])] = 4 := by decide

/-! ## State-leak round (2026-09-30): the calls without a descriptor list

The harness now also calls `marshal(sig, values, off, lendian)` / `unmarshal(sig, data, off, lendian)` with the `oobFDs`
keyword left out (the model's `none`), and decodes the same bytes with different lists.  For conforming values that
hold no descriptor (`RepFields .. false ..`: the conformance relation with the flag "no list", under which a UNIX_FD
cannot be represented) the round trip holds without a list, and the decoder's answer is the same for EVERY `fds`
- no list, or any list whatever it holds (`Proofs/Wire/NoFds`).  The model is a function of its arguments, so "a later
call behaves like the first" needs no theorem; what these add is that the argument `oobFDs` itself is irrelevant here. -/

/-- C01 without a descriptor list.  Hypotheses as `C01_roundtrip` with `RepFields .. false ..` (no descriptor among the
values; `lall`, `k'` are then arbitrary); `fds` on the decoding side is arbitrary. -/
theorem C01_roundtrip_no_list (le : Bool) (ts : List Ty) (pv : PyVal) (items : List PyVal) (vs : List Val)
    (lall : List PyVal) (k' off : Nat) (bs pre suf : Bytes) (fuel : Nat) (fds : Code.Fds)
    (hts : allWF ts = true)
    (hitems : Code.topItems pv = .ok items)
    (hrep : Code.RepFields lall vs false ts items 0 k')
    (hkeys : Code.KeysOKList items)
    (henc : Spec.encodeAll Code.genAlign (endianOf le) ts vs off = some bs)
    (hpre : pre.length = off) (hfuel : depthAll vs ≤ fuel) :
    Code.marshal fuel (renderAll ts) pv off le none = .ok (bs.length, bs, none) ∧
    Code.unmarshal fuel (renderAll ts) (pre ++ bs ++ suf) off le fds =
      .ok (bs.length, Code.plainList items) :=
  ⟨Code.NoFds.marshal_eq_spec_noFd Code.genAlign Code.padOK_gen Code.genAlign_pos le ts pv items vs lall k' off bs fuel
      hitems hrep henc hfuel,
   Code.unmarshal_eq_spec Code.genAlign Code.padOK_gen Code.genAlign_pos le fds ts vs off bs pre suf _ fuel hts henc hpre
      (Code.NoFds.fromSpecFields_of_rep_noFd lall fds vs ts items 0 k' hrep hkeys) hfuel⟩

/-- The same with no fuel variable: encoder at `|render ts| + |bytes|`, decoder at `Cost.codeFuel` (what the driver runs). -/
theorem C01_roundtrip_no_list_fuel_free (le : Bool) (ts : List Ty) (pv : PyVal) (items : List PyVal) (vs : List Val)
    (lall : List PyVal) (k' off : Nat) (bs pre suf : Bytes) (fds : Code.Fds)
    (hts : allWF ts = true)
    (hitems : Code.topItems pv = .ok items)
    (hrep : Code.RepFields lall vs false ts items 0 k')
    (hkeys : Code.KeysOKList items)
    (henc : Spec.encodeAll Code.genAlign (endianOf le) ts vs off = some bs)
    (hpre : pre.length = off) :
    Code.marshal ((renderAll ts).length + bs.length) (renderAll ts) pv off le none = .ok (bs.length, bs, none) ∧
    Code.unmarshal (Cost.codeFuel (renderAll ts) (pre ++ bs ++ suf) off) (renderAll ts) (pre ++ bs ++ suf) off le fds =
      .ok (bs.length, Code.plainList items) :=
  ⟨(C01_roundtrip_no_list le ts pv items vs lall k' off bs pre suf _ fds hts hitems hrep hkeys henc hpre
      (Spec.depthAll_le_sized _ _ ts vs off bs henc)).1,
   (C01_roundtrip_no_list le ts pv items vs lall k' off bs pre suf _ fds hts hitems hrep hkeys henc hpre
      (Nat.le_of_lt (Spec.depthAll_le_codeFuel _ _ ts vs off bs pre suf henc hpre))).2⟩

/-- C01 with ONE descriptor list used by several calls: `marshal` is entered with the list holding `k` descriptors already
(`fdl.take k`: left by earlier calls, successful or failed), appends its own behind them and writes the indices `k ..`;
`unmarshal` with the list as `marshal` left it returns the values.  (`C01_roundtrip` is the case `k = 0`.) -/
theorem C01_roundtrip_initial_list (le : Bool) (ts : List Ty) (pv : PyVal) (items : List PyVal) (vs : List Val)
    (fdl : List PyVal) (k off : Nat) (bs pre suf : Bytes) (fuel : Nat)
    (hts : allWF ts = true)
    (hitems : Code.topItems pv = .ok items)
    (hrep : Code.RepFields fdl vs true ts items k fdl.length)
    (hkeys : Code.KeysOKList items)
    (henc : Spec.encodeAll Code.genAlign (endianOf le) ts vs off = some bs)
    (hpre : pre.length = off) (hfuel : depthAll vs ≤ fuel) :
    Code.marshal fuel (renderAll ts) pv off le (some (fdl.take k)) = .ok (bs.length, bs, some fdl) ∧
    Code.unmarshal fuel (renderAll ts) (pre ++ bs ++ suf) off le (some fdl) =
      .ok (bs.length, Code.plainList items) := by
  constructor
  · have h := Code.NoFds.marshal_eq_spec_from Code.genAlign Code.padOK_gen Code.genAlign_pos le ts pv items vs fdl k
      fdl.length off bs fuel hitems hrep henc hfuel
    simpa using h
  · exact Code.unmarshal_eq_spec Code.genAlign Code.padOK_gen Code.genAlign_pos le (some fdl) ts vs off bs pre suf _
      fuel hts henc hpre
      (Code.fromSpecFields_of_rep fdl vs true ts items k fdl.length hrep hkeys) hfuel

/-- The hypotheses of `C01_roundtrip_initial_list` are satisfiable with `k = 2`: signature `yh`, values `[Byte(7), 5]`, the
list `[100, 101]` at entry, `[100, 101, 5]` afterwards; the spec value of the descriptor is its index 2. -/
example :
    let ts : List Ty := [.basic .y, .basic .h]
    let items : List PyVal := [.int .byte 7, .int .plain 5]
    let vs : List Val := [.int 7, .int 2]
    let fdl : List PyVal := [.int .plain 100, .int .plain 101, .int .plain 5]
    allWF ts = true ∧ Code.topItems (.list items) = .ok items ∧
      Code.RepFields fdl vs true ts items 2 fdl.length ∧ Code.KeysOKList items ∧
      (Spec.encodeAll Code.genAlign (endianOf true) ts vs 1).isSome = true ∧ fdl.take 2 = [.int .plain 100, .int .plain 101] := by
  refine ⟨by decide, rfl, ?_, by simp [Code.KeysOKList, Code.KeysOK], by decide, rfl⟩
  refine ⟨_, _, _, _, 2, rfl, rfl, ?_, ?_⟩
  · simp only [Code.Rep]
    exact ⟨.y, rfl, Or.inr ⟨by decide, ⟨_, rfl⟩, rfl⟩⟩
  refine ⟨_, _, _, _, 3, rfl, rfl, ?_, ⟨rfl, rfl, rfl⟩⟩
  simp only [Code.Rep]
  exact ⟨.h, rfl, Or.inl ⟨rfl, rfl, rfl, rfl, rfl, rfl⟩⟩

/-- The hypotheses are satisfiable: `yaiva{sb}`, `[Byte(7), (1, Int32(-1)), 'hi', {'k': True}]`, big endian, offset 3;
`lall`, `k'` arbitrary (here the empty list, 0). -/
example :
    let ts : List Ty := [.basic .y, .array (.basic .i), .variant, .array (.dict (.basic .s) (.basic .b))]
    let items : List PyVal := [.int .byte 7, .tuple [.int .plain 1, .int .int32 (-1)], .str .plain ['h', 'i'],
      .dict [(.str .plain ['k'], .bool true)]]
    let vs : List Val := [.int 7, .array [.int 1, .int (-1)], .variant (.basic .s) (.str [104, 105]),
      .array [.entry (.str [107]) (.bool true)]]
    allWF ts = true ∧ Code.topItems (.list items) = .ok items ∧
      Code.RepFields [] vs false ts items 0 0 ∧ Code.KeysOKList items ∧
      (Spec.encodeAll Code.genAlign (endianOf false) ts vs 3).isSome = true := by
  refine ⟨by decide, rfl, ?_, ?_, by decide⟩
  · refine ⟨_, _, _, _, 0, rfl, rfl, ?_, ?_⟩
    · simp only [Code.Rep]
      exact ⟨.y, rfl, Or.inr ⟨by decide, ⟨_, rfl⟩, rfl⟩⟩
    refine ⟨_, _, _, _, 0, rfl, rfl, ?_, ?_⟩
    · simp only [Code.Rep]
      refine ⟨_, _, rfl, trivial, rfl, ?_⟩
      refine ⟨_, _, 0, rfl, ?_, ?_⟩
      · simp only [Code.Rep]; exact ⟨.i, rfl, Or.inr ⟨by decide, ⟨_, rfl⟩, rfl⟩⟩
      refine ⟨_, _, 0, rfl, ?_, ?_⟩
      · simp only [Code.Rep]; exact ⟨.i, rfl, Or.inr ⟨by decide, ⟨_, rfl⟩, rfl⟩⟩
      exact ⟨rfl, rfl⟩
    refine ⟨_, _, _, _, 0, rfl, rfl, ?_, ?_⟩
    · simp only [Code.Rep]
      refine ⟨trivial, rfl, ?_, trivial⟩
      exact ⟨.s, rfl, Or.inr ⟨by decide, ⟨_, _, rfl, by decide⟩, rfl⟩⟩
    refine ⟨_, _, _, _, 0, rfl, rfl, ?_, ⟨rfl, rfl, rfl⟩⟩
    simp only [Code.Rep]
    refine ⟨_, _, rfl, trivial, rfl, ?_⟩
    refine ⟨_, _, 0, rfl, ?_, ⟨rfl, rfl⟩⟩
    simp only [Code.Rep]
    refine ⟨_, _, _, _, 0, rfl, trivial, rfl, ?_, ?_⟩
    · exact ⟨.s, rfl, Or.inr ⟨by decide, ⟨_, _, rfl, by decide⟩, rfl⟩⟩
    · exact ⟨.b, rfl, Or.inr ⟨by decide, rfl, rfl⟩⟩
  · simp only [Code.KeysOKList, Code.KeysOK, Code.KeysOKPairs, Code.plainPairs, Code.plain, and_true, true_and,
      List.map_cons, List.map_nil]
    exact ⟨[.str ['k']], rfl, by simp⟩

/-- A descriptor cannot be represented without a list: the premise `RepFields .. false ..` excludes `h` (so the theorem says
nothing about `marshal('h', [7])` without `oobFDs`, which raises TypeError in the code and in the model). -/
example (lall : List PyVal) (pv : PyVal) (k k' : Nat) : ¬ Code.RepFields lall [.int 0] false [.basic .h] [pv] k k' := by
  intro h
  simp only [Code.RepFields] at h
  obtain ⟨t, ts, x, xs, k1, ht, _, hr, _⟩ := h
  simp only [List.cons.injEq] at ht
  obtain ⟨rfl, _⟩ := ht
  simp only [Code.Rep] at hr
  obtain ⟨c, hc, hcase⟩ := hr
  simp only [Ty.basic.injEq] at hc
  subst hc
  rcases hcase with ⟨_, hfd, _⟩ | ⟨hne, _, _⟩
  · exact absurd hfd (by decide)
  · exact hne rfl

end Txdbus

#print axioms Txdbus.C01_roundtrip_no_list
#print axioms Txdbus.C01_roundtrip_initial_list
#print axioms Txdbus.C01_roundtrip_no_list_fuel_free
#print axioms Txdbus.C01_marshal_arity
#print axioms Txdbus.C01_roundtrip_conf
#print axioms Txdbus.C01_roundtrip_checked
#print axioms Txdbus.C01_roundtrip_valid
#print axioms Txdbus.Spec.decode_encode
#print axioms Txdbus.C01_roundtrip
#print axioms Txdbus.C01_roundtrip_any_fuel
#print axioms Txdbus.C01_roundtrip_fuel_free
#print axioms Txdbus.C01_roundtrip_valid_fuel_free
#print axioms Txdbus.C01_roundtrip_noVariant_fuel_free
#print axioms Txdbus.C01_roundtrip_conf_fuel_free
#print axioms Txdbus.C01_roundtrip_checked_fuel_free
