/-! Property theorems for C01 (stub: none yet). -/
