import TxdbusModel.Proofs.Wire.SpecRoundtrip
/-!
Property C01 - encoding then decoding any conforming value returns the same value.

`Spec.decode_encode`: the reference codec of Wire/Spec.lean round-trips, for EVERY alignment table
(positivity of the entries is not even needed), both byte orders, every list of types without empty
structs (`allWF`; weaker than signature validity), every list of values the encoder accepts (i.e. every
conforming value: ranges, string-like values without NUL, lengths within the wire limits, variants
holding a single complete type), every offset, arbitrary bytes before and after.  The decoder reports
consuming exactly the bytes the encoder produced.
-/
namespace Txdbus

theorem Spec.decode_encode (A : AlignTable) (e : Endian) (ts : List Ty) (vs : List Val) (off : Nat)
    (bs pre suf : Bytes) (hts : allWF ts = true) (hpre : pre.length = off)
    (henc : Spec.encodeAll A e ts vs off = some bs) :
    Spec.decode A e ts (pre ++ bs ++ suf) off = some (vs, bs.length) := by
  unfold Spec.decode
  apply Spec.decodeAll_encodeAll A e ts vs off bs pre suf _ hts hpre henc
  have h := Spec.vdepth_fields A e vs ts off bs henc
  simp only [List.length_append]
  omega

/-- The hypotheses are satisfiable by a non-trivial instance: a byte, an array of INT64 at an odd
offset, and a variant holding a struct (big endian, offset 3, with surrounding bytes). -/
example :
    let ts : List Ty := [.basic .y, .array (.basic .x), .variant]
    let vs : List Val := [.int 7, .array [.int 1, .int (-1)],
      .variant (.struct [.basic .s, .basic .q]) (.struct [.str [104, 105], .int 513])]
    allWF ts = true ∧
    (Spec.encodeAll Spec.alignTable .big ts vs 3).isSome = true := by
  decide

end Txdbus

#print axioms Txdbus.Spec.decode_encode
