/-! Property theorems for C12 (stub: none yet). -/
