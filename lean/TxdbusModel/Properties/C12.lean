import TxdbusModel.Route.Pre
import TxdbusModel.Proofs.Route.Match
import TxdbusModel.Proofs.Route.Router
import TxdbusModel.Proofs.Route.Text
import TxdbusModel.Proofs.Route.Proxy
import TxdbusModel.Proofs.Route.Client
import TxdbusModel.Proofs.Route.TextSpec
import TxdbusModel.Proofs.Route.Namespace
import TxdbusModel.Proofs.Route.Daemon
/-!
# C12 - a signal reaches exactly the callbacks whose match rule it satisfies

Property theorems only (lemmas live in `Proofs/Route/`).  Code models: `Route/Rule`, `Route/Router`,
`Route/Text`, `Route/Client`, `Route/Proxy` (twins of txdbus/router.py, client.py, bus.py, objects.py);
Spec: `Route/Spec` (`specMatches`, the abstract registry `SpecRouter`).  All theorems are stated for
`Tables.gen`, the tables regenerated from the source on every run.
-/
namespace Txdbus.Route

open Spec

/-! ## 0. the tables of the current source are the ones the proofs are about -/

/-- (All tables are derived by probing the code of the tree under test - see tools/tables/c12_route.py - so they
describe behaviour, not the private layout of `Rule` objects.)  `router._mtypes`, the message attributes
compared by `Rule.match`, what `MessageRouter.addMatch` evaluates each parameter as, how the type constraint is translated, whether the client escapes apostrophes (all fields of
`Tables`), the keys of the rule text written by
`DBusClientConnection.addMatch` with the variable written under each, the `kwargs` keys of
`Bus.dbus_AddMatch`, the keyword arguments of the `addMatch` call in `notifyOnSignal`.  All lists are
emitted in a canonical order: reordering the `if` chain / the `add` calls in the source is not
observable through the property and changes nothing here. -/
theorem tables_current :
    Tables.gen = Tables.cur
    ∧ Gen.Route.busKwargKeys = curBusKeys
    ∧ Gen.Route.clientTextKeys =
        [("type".toList, "mtype".toList), ("sender".toList, "sender".toList), ("interface".toList, "interface".toList),
         ("member".toList, "member".toList), ("path".toList, "path".toList),
         ("path_namespace".toList, "path_namespace".toList), ("destination".toList, "destination".toList),
         ("arg%d".toList, "arg".toList), ("arg%dpath".toList, "arg_path".toList), ("arg0namespace".toList, "arg0namespace".toList)]
    ∧ Gen.Route.notifyKwargs =
        [("mtype".toList, "'signal'".toList), ("interface".toList, "interfaceName".toList),
         ("member".toList, "signalName".toList), ("path".toList, "objectPath".toList)] := by decide

theorem gen_eq_cur : Tables.gen = Tables.cur := tables_current.1

/-- `_mtypes` is the specification's table of message type names. -/
theorem mtypes_table_is_spec (s : Str) (n : Nat) :
    Tables.gen.mtypes.lookup s = some n ↔ Spec.mtypeName n = some s := by
  rw [gen_eq_cur]; exact cur_mtypes_lookup s n

/-! ## 1. `Rule.match` is `specMatches` -/

/-- For every well-formed rule (no constraint value is the empty string) and every message:
`MessageRouter.addMatch` succeeds, and the stored rule's `match` invokes the callback if and only if
the message satisfies every constraint of the rule - type, interface, member, path, path namespace
(that path or a descendant), destination, exact string arguments, argument paths. -/
theorem match_eq_spec (a : RuleArgs) (m : Msg) (hwf : a.WF) :
    ∃ r, mkRule Tables.gen a = .ok r ∧ (r.match m = .call ↔ specMatches a m = true) := by
  rw [gen_eq_cur]
  exact ⟨explicitRule a, mkRule_cur a, explicit_match_iff a m hwf⟩

/-- `match_eq_spec_with`.  The same over ALL keys, `arg0namespace` included, for either router: with
`evalArg0 = true` (`Rule.matchWith true`: `Rule.match` followed by the `arg0namespace` clause of fixes/C14-05) the
callback is invoked iff the message satisfies `specMatchesFull` - every constraint above AND "the first argument is
a string that is the namespace or lies below it"; with `false` this is `match_eq_spec`.  No hypothesis about
`arg0namespace` being absent: only that its value, like every other, is not the empty string. -/
theorem match_eq_spec_with (evalArg0 : Bool) (a : RuleArgs) (m : Msg) (hwf : a.WFAll) :
    ∃ r, mkRule Tables.gen a = .ok r ∧ (r.matchWith evalArg0 m = .call ↔ specMatchesWith evalArg0 a m = true) := by
  rw [gen_eq_cur]
  exact ⟨explicitRule a, mkRule_cur a, explicit_matchWith_iff evalArg0 a m hwf⟩

/-- `match_eq_spec_full`: the evaluated form - the router after fixes/C14-05 against the specification over all keys. -/
theorem match_eq_spec_full (a : RuleArgs) (m : Msg) (hwf : a.WFAll) :
    ∃ r, mkRule Tables.gen a = .ok r ∧ (r.matchWith true m = .call ↔ specMatchesFull a m = true) :=
  match_eq_spec_with true a m hwf

/-- `match_eq_spec_gen`: the router of the tree under test (`Rule.matchGen`, the switch `Gen.Route.evaluatesArg0ns`
is probed from the source on every run) against the relation it is measured against in the history theorems
below; `gen_relation_is_full_spec` says when that relation is the specification over all keys. -/
theorem match_eq_spec_gen (a : RuleArgs) (m : Msg) (hwf : a.WFAll) :
    ∃ r, mkRule Tables.gen a = .ok r ∧ (r.matchGen m = .call ↔ specMatchesGen a m = true) :=
  match_eq_spec_with _ a m hwf

theorem gen_relation_is_full_spec (h : Gen.Route.evaluatesArg0ns = true) (a : RuleArgs) (m : Msg) :
    specMatchesGen a m = specMatchesFull a m := by
  unfold specMatchesGen specMatchesWith; rw [h]; rfl

/-- ... and in any case the two relations differ only on rules that carry `arg0namespace`. -/
theorem gen_relation_without_arg0namespace (a : RuleArgs) (m : Msg) (h : a.arg0ns = none) :
    specMatchesGen a m = specMatchesFull a m := by
  unfold specMatchesGen specMatchesWith specMatchesFull
  split <;> simp [h, optAll]

/-- The finding `arg0namespace-constraint-ignored`: txdbus as found (`Rule.match` = `matchWith false`) hands a
signal whose first argument is `com.exa` to the callback of a rule `arg0namespace='com.ex'`, which the signal does
not satisfy; the repaired router does not. -/
theorem found_router_ignores_arg0namespace :
    let a : RuleArgs := { arg0ns := some "com.ex".toList }
    let m : Msg := { mtype := 4, path := .some "/a".toList, iface := .some "a.b".toList, member := .some "M".toList,
                     dest := .none, sender := .none, body := some [.str "com.exa".toList] }
    specMatchesFull a m = false ∧ (explicitRule a).matchWith false m = .call
      ∧ (explicitRule a).matchWith true m = .skip := by decide

/-- The hypothesis is satisfiable by a rule that uses every constraint key. -/
example : RuleArgs.WFAll
    { mtype := some "signal".toList, iface := some "a.b".toList, member := some "M".toList,
      path := some "/a/b".toList, pathNs := some "/a".toList, dest := some ":1.1".toList,
      args := some [(0, "x".toList), (1, [])], argPaths := some [(2, "/aa/".toList)], arg0ns := some "x".toList } :=
  ⟨⟨by decide, by decide, by decide, by decide, by decide, by decide⟩, by decide⟩

/-- ... and a rule with `arg0namespace` does match a signal whose first argument lies in the namespace. -/
example : specMatchesFull { mtype := some "signal".toList, arg0ns := some "com.ex".toList }
    { mtype := 4, path := .some "/a/b".toList, iface := .some "a.b".toList, member := .some "M".toList,
      dest := .none, sender := .none, body := some [.str "com.ex.a".toList] } = true := by decide

/-- The hypothesis is satisfiable by a rule that uses every constraint key. -/
example : RuleArgs.WF
    { mtype := some "signal".toList, iface := some "a.b".toList, member := some "M".toList,
      path := some "/a/b".toList, pathNs := some "/a".toList, dest := some ":1.1".toList,
      args := some [(0, "x".toList), (1, [])], argPaths := some [(2, "/aa/".toList)] } :=
  ⟨by decide, by decide, by decide, by decide, by decide, by decide⟩

/-- ... and such a rule does match a signal that satisfies it (the theorem is not vacuous). -/
example : specMatches
    { mtype := some "signal".toList, iface := some "a.b".toList, pathNs := some "/a".toList,
      args := some [(0, "x".toList)], argPaths := some [(1, "/aa/".toList)] }
    { mtype := 4, path := .some "/a/b".toList, iface := .some "a.b".toList, member := .some "M".toList,
      dest := .none, sender := .none, body := some [.str "x".toList, .str "/aa/bb".toList] } = true := by decide

/-- "That path or a descendant of it", independently of the character-level test: `specMatches`'s
path_namespace condition holds iff the components of the namespace are an initial stretch of the
components of the path (or the namespace is the root).  Holds for all strings. -/
theorem namespace_is_component_prefix (ns p : Str) :
    Spec.inNamespace ns p = true ↔ descendantOrSelf ns p :=
  inNamespace_iff_components ns p

/-! ## 2. routing over all add/remove histories

"All histories" means all sequences of `Op`: callbacks may raise (any exception, `raises` is arbitrary)
but do not call back into the router while a message is being routed (non-re-entrant histories; the
public client API cannot re-enter, see notes/C12.md). -/

/-- `route_exact`.  Run any history of `addMatch` / `delMatch` / `routeMessage` operations on a fresh
`MessageRouter`, with callbacks raising or not as `raises` says.  What the caller observes (ids
returned, `KeyError`s, and for every routed message the list of (rule id, callback) pairs invoked) is
exactly what the abstract registry prescribes: ids are handed out in order, a routed message invokes
the currently registered rules that `specMatchesGen` (the relation of `match_eq_spec_gen`: the specification over
all keys once the tree evaluates `arg0namespace`), each once, in registration order.  Well-formed (`Op.WF`) now
means: no constraint value, `arg0namespace` included, is the empty string. -/
theorem route_exact (raises : Nat → Cb → Bool) (h : List Op) (hwf : ∀ op ∈ h, op.WF) :
    (Router.run Tables.gen raises {} h).2.map Obs.view = (SpecRouter.run {} h).2.map some := by
  rw [gen_eq_cur]
  exact (sim_run raises h {} {} sim_init hwf).2

/-- What is invoked does not depend on which callbacks raise. -/
theorem route_independent_of_raising (raises₁ raises₂ : Nat → Cb → Bool) (h : List Op) (hwf : ∀ op ∈ h, op.WF) :
    (Router.run Tables.gen raises₁ {} h).2.map Obs.view = (Router.run Tables.gen raises₂ {} h).2.map Obs.view := by
  rw [route_exact raises₁ h hwf, route_exact raises₂ h hwf]

/-- After any history, a routed message invokes exactly the live registrations whose rule it satisfies
(stated on the final state), and no rule more than once. -/
theorem invoked_exact_each_once (raises : Nat → Cb → Bool) (h : List Op) (hwf : ∀ op ∈ h, op.WF) (m : Msg) :
    let s := (Router.run Tables.gen raises {} h).1
    let g := (SpecRouter.run {} h).1
    (s.route raises m).invoked = (g.live.filter (fun r => specMatchesGen r.args m)).map (fun r => (r.id, r.cb))
    ∧ ((s.route raises m).invoked.map (·.1)).Nodup := by
  intro s g
  have hsim : Sim s g := by
    show Sim (Router.run Tables.gen raises {} h).1 _
    rw [gen_eq_cur]; exact (sim_run raises h {} {} sim_init hwf).1
  have hinv : SpecInv g := specInv_run h {} specInv_init
  have heq : (s.route raises m).invoked
      = (g.live.filter (fun r => specMatchesGen r.args m)).map (fun r => (r.id, r.cb)) := by
    unfold Router.route
    rw [hsim.rules, routeList_invoked raises m g.live hsim.wf]
  refine ⟨heq, ?_⟩
  rw [heq, List.map_map]
  have hsub : ((g.live.filter (fun r => specMatchesGen r.args m)).map ((fun x : Nat × Cb => x.1) ∘ fun r => (r.id, r.cb))).Sublist
      (g.live.map (·.id)) := by
    have : ((fun x : Nat × Cb => x.1) ∘ fun (r : Reg) => (r.id, r.cb)) = (·.id) := rfl
    rw [this]
    exact List.Sublist.map _ List.filter_sublist
  exact (List.Pairwise.sublist hsub hinv.sorted).imp (fun hlt => Nat.ne_of_lt hlt)

/-- Once `delMatch(id)` succeeded, no later message - after any further history - invokes rule `id`. -/
theorem removed_never_invoked (raises : Nat → Cb → Bool) (h₁ h₂ : List Op) (id : Nat) (m : Msg)
    (hwf₁ : ∀ op ∈ h₁, op.WF) (hwf₂ : ∀ op ∈ h₂, op.WF)
    (s₂ : Router) (hdel : (Router.run Tables.gen raises {} h₁).1.del id = some s₂) :
    id ∉ ((Router.run Tables.gen raises s₂ h₂).1.route raises m).invoked.map (·.1) := by
  rw [gen_eq_cur] at hdel ⊢
  have hs1 := (sim_run raises h₁ {} {} sim_init hwf₁).1
  have hi1 : SpecInv (SpecRouter.run {} h₁).1 := specInv_run h₁ {} specInv_init
  generalize (Router.run Tables.cur raises {} h₁).1 = s₁ at hs1 hdel
  generalize (SpecRouter.run {} h₁).1 = g₁ at hs1 hi1
  -- the deletion succeeded, so the id was live
  have hany : g₁.live.any (fun r => r.id = id) = true := by
    unfold Router.del at hdel
    rw [hs1.rules, any_entry] at hdel
    cases hb : g₁.live.any (fun r => r.id = id) with
    | true => rfl
    | false => rw [hb] at hdel; simp at hdel
  have hstep := sim_step raises s₁ g₁ (.del id) hs1 trivial
  have hs2 : Sim s₂ (g₁.step (.del id)).1 := by
    have : (s₁.step Tables.cur raises (.del id)).1 = s₂ := by
      simp only [Router.step, hdel]
    rw [← this]; exact hstep.1
  have hlt : id < (g₁.step (.del id)).1.count := by
    simp only [SpecRouter.step, hany, if_true]
    rw [List.any_eq_true] at hany
    obtain ⟨r, hr, hrid⟩ := hany
    have := hi1.lt r hr
    simp at hrid
    omega
  have hdead : ∀ r ∈ (g₁.step (.del id)).1.live, r.id ≠ id := by
    simp only [SpecRouter.step, hany, if_true]
    intro r hr
    have := (List.mem_filter.mp hr).2
    simpa using this
  have hdead' := dead_stays_dead h₂ _ id hlt hdead
  have hs3 := (sim_run raises h₂ s₂ _ hs2 hwf₂).1
  unfold Router.route
  rw [hs3.rules, routeList_invoked raises m _ hs3.wf]
  intro hmem
  simp only [List.map_map, List.mem_map, Function.comp] at hmem
  obtain ⟨r, hr, hrid⟩ := hmem
  exact hdead' r (List.mem_filter.mp hr).1 hrid

/-- Rule ids are never reused: the ids returned over any history are strictly increasing. -/
theorem ids_never_reused (raises : Nat → Cb → Bool) (h : List Op) (hwf : ∀ op ∈ h, op.WF) :
    (returnedIds (Router.run Tables.gen raises {} h).2).Pairwise (· < ·) := by
  rw [returnedIds_eq _ _ (route_exact raises h hwf)]
  exact (addedIds_run h {}).1

/-- A history that exercises the theorems: two rules, a matching signal, a removal, the signal again. -/
example :
    let sig : Msg := { mtype := 4, path := .some "/a/b".toList, iface := .some "a.b".toList,
                       member := .some "M".toList, dest := .none, sender := .none, body := none }
    (Router.run Tables.cur (fun _ cb => cb == 0) {}
      [.add 0 { pathNs := some "/a".toList }, .add 1 { mtype := some "signal".toList },
       .route sig, .del 0, .route sig]).2
    = [.added 0, .added 1, .routed { invoked := [(0, 0), (1, 1)], logged := 1 }, .deleted,
       .routed { invoked := [(1, 1)], logged := 0 }] := by decide

/-! ## 3. the rule text -/

/-- `rule_text_roundtrip`.  For EVERY rule - values may contain commas, equals signs, backslashes and
apostrophes; the rule may be empty - `Bus.dbus_AddMatch` recovers from the text written by
`DBusClientConnection.addMatch` exactly the constraints the client was given (`arg=[]` and `arg=None`
being the same rule).  No hypothesis: the client escapes apostrophes (C12-05), the bus scans with the
quoting rules (C12-06). -/
theorem rule_text_roundtrip (a : RuleArgs) : parseRuleGen (renderRule a) = .ok a.normalize := by
  unfold parseRuleGen
  rw [tables_current.2.1]
  exact parse_render a

/-- `client_text_means_constraints`.  The text written by `DBusClientConnection.addMatch`, read with the
grammar of the DBus specification (`Spec.ruleTextMeaning`: comma-separated `key=value`, apostrophe
quoting, backslash-apostrophe outside quotes; keys `type`, ..., `argN`, `argNpath` with decimal `N`) -
a definition that never looks at txdbus - means exactly the constraints of the rule.  For every rule. -/
theorem client_text_means_constraints (a : RuleArgs) :
    ruleTextMeaning (renderRule a) = some (constraintsOf a) :=
  text_means_constraints a

/-- What `Bus.dbus_AddMatch` extracts from the client's text and what the specification says the text
means are the same constraints - for every rule. -/
theorem bus_reads_what_the_text_means (a : RuleArgs) :
    ∃ b, parseRuleGen (renderRule a) = .ok b ∧ ruleTextMeaning (renderRule a) = some (constraintsOf b) := by
  refine ⟨a.normalize, rule_text_roundtrip a, ?_⟩
  rw [text_means_constraints a]
  congr 1
  unfold constraintsOf RuleArgs.normalize
  cases ha : a.args with
  | none =>
    cases hp : a.argPaths with
    | none => simp [normPairs]
    | some l => cases l <;> simp [normPairs]
  | some l =>
    cases l with
    | nil =>
      cases hp : a.argPaths with
      | none => simp [normPairs]
      | some l' => cases l' <;> simp [normPairs]
    | cons x t =>
      cases hp : a.argPaths with
      | none => simp [normPairs]
      | some l' => cases l' <;> simp [normPairs]

/-- Beyond the client's own texts: whenever the specification reads a text as a list of `key=value`
pairs, `_parseMatchRule` returns exactly that list (unquoted values, values with commas, equals signs,
escaped apostrophes, ...). -/
theorem bus_scanner_follows_spec (text : Str) (ps : List (Str × Str)) (h : parseRuleText text = some ps) :
    parseMatchRule text = .ok ps := by
  unfold parseRuleText at h
  unfold parseMatchRule
  cases text with
  | nil => simp at h; simp [busItems, ← h]
  | cons c t =>
    simp only [List.isEmpty_cons, Bool.false_eq_true, if_false] at h
    exact busItems_of_spec _ _ _ h

/-- ... and the rule the bus stores from that text is the rule the client stores locally.  (For a rule
with an empty-string constraint value this holds only because both routers drop the value while the text
still says `interface=''`: such rules are outside `match_eq_spec`, see `RuleArgs.WF`.) -/
theorem bus_rule_is_client_rule (a : RuleArgs) : mkRule Tables.gen a.normalize = mkRule Tables.gen a := by
  unfold mkRule
  congr 1
  funext r pk
  unfold addStep
  cases r with
  | error e => rfl
  | ok r =>
    cases Param.ofName pk.1 with
    | none => rfl
    | some p =>
      simp only
      cases p <;> try rfl
      · simp only [RuleArgs.get, RuleArgs.normalize]
        exact normPairs_if a.args (fun v => Except.ok (Rule.add Tables.gen r pk.snd (Tables.gen.storedValue Param.args v))) _
      · simp only [RuleArgs.get, RuleArgs.normalize]
        exact normPairs_if a.argPaths (fun v => Except.ok (Rule.add Tables.gen r pk.snd (Tables.gen.storedValue Param.argPaths v))) _

/-- The text itself, on an example: `type`, an `argN` with a two-digit index, a comma, an equals sign and an
escaped apostrophe inside values. -/
example : renderRule { mtype := some "signal".toList, path := some "/a".toList,
                       args := some [(12, "it's".toList), (0, "a,b=c".toList)] }
    = "type='signal',path='/a',arg12='it'\\''s',arg0='a,b=c'".toList := by decide

/-- The empty rule (no constraint at all) is the empty text; the bus reads it as the rule without
constraints (it matches every message). -/
theorem empty_rule_accepted : renderRule {} = [] ∧ parseRule curBusKeys [] = .ok {} := ⟨rfl, rfl⟩

/-! ## 4. the proxy's signal subscription -/

/-- `proxy_gate`.  `callback_caller` hands the signal's arguments to the user callback if and only if the
signal's signature is the declared one (an absent signature and `''` being the same); the arguments
are the body, unchanged. -/
theorem proxy_gate (declared received : Option Str) (body : Option (List Arg)) :
    (∀ args, proxyGate declared received body = some args → sigNorm declared = sigNorm received ∧ args = body.getD [])
    ∧ (sigNorm declared = sigNorm received → proxyGate declared received body = some (body.getD [])) := by
  rw [proxyGate_args]
  constructor
  · intro args h
    cases hv : isSignatureValid declared received with
    | false => rw [hv] at h; simp at h
    | true =>
      rw [hv] at h
      simp only [if_true, Option.some.injEq] at h
      exact ⟨(isSignatureValid_iff _ _).mp hv, h.symm⟩
  · intro h
    rw [(isSignatureValid_iff _ _).mpr h]
    rfl

/-- The rule `notifyOnSignal` registers (`mtype='signal', path, member, interface`) together with the
gate: the user callback receives the arguments iff the message is that signal of that object with the
declared signature. -/
theorem proxy_delivery (path member iface : Str) (hp : path ≠ []) (hm : member ≠ []) (hi : iface ≠ [])
    (declared received : Option Str) (m : Msg) :
    ∃ r, mkRule Tables.gen { mtype := some "signal".toList, path := some path, member := some member, iface := some iface } = .ok r
      ∧ ((r.match m = .call ∧ (proxyGate declared received m.body).isSome)
          ↔ (m.mtype = 4 ∧ m.path = .some path ∧ m.member = .some member ∧ m.iface = .some iface
              ∧ sigNorm declared = sigNorm received)) := by
  have hwf : RuleArgs.WF { mtype := some "signal".toList, path := some path, member := some member, iface := some iface } :=
    ⟨by simp, by simpa using hi, by simpa using hm, by simpa using hp, by simp, by simp⟩
  obtain ⟨r, hr, hiff⟩ := match_eq_spec _ m hwf
  refine ⟨r, hr, ?_⟩
  rw [hiff, proxyGate_args]
  have hsig : (Spec.mtypeName m.mtype == some "signal".toList) = true ↔ m.mtype = 4 := by
    constructor
    · intro h
      have h' := beq_iff_eq.mp h
      unfold Spec.mtypeName at h'
      split at h' <;> first | assumption | exact absurd h' (by decide) | simp at h'
    · intro h; rw [h]; decide
  simp only [specMatches, Spec.optAll, Option.getD_none, List.all_nil, Bool.and_true, Bool.and_eq_true, beq_iff_eq,
    hsig]
  cases hv : isSignatureValid declared received with
  | false =>
    have : ¬ sigNorm declared = sigNorm received := fun e => by
      rw [(isSignatureValid_iff _ _).mpr e] at hv; cases hv
    simp [this]
  | true =>
    have := (isSignatureValid_iff _ _).mp hv
    simp only [if_true, Option.isSome_some, and_true, this]
    constructor
    · rintro ⟨⟨⟨h1, h2⟩, h3⟩, h4⟩; exact ⟨h1, h4, h3, h2⟩
    · rintro ⟨h1, h2, h3, h4⟩; exact ⟨⟨⟨h1, h4⟩, h3⟩, h2⟩

/-- `proxy_select`.  Which declaration a subscription refers to: `notifyOnSignal(name, cb, interface)`
takes the first interface of the proxy that passes the `interface=` filter and declares `name`; the
rule it registers names that interface and the gate uses that interface's declared signature; it raises
`AttributeError` exactly when no such interface exists. -/
theorem proxy_select (name : Str) (req : Option Str) (ifs : List IfaceDecl) :
    (∀ n sg, selectSignal name req ifs = some (n, sg) →
      ∃ pre i post, ifs = pre ++ i :: post ∧ i.name = n ∧ i.signals.lookup name = some sg ∧ passes req i
        ∧ ∀ j ∈ pre, ¬ (passes req j ∧ (j.signals.lookup name).isSome))
    ∧ (selectSignal name req ifs = none ↔ ∀ i ∈ ifs, ¬ (passes req i ∧ (i.signals.lookup name).isSome)) :=
  ⟨fun n sg h => selectSignal_some name req ifs n sg h, selectSignal_none name req ifs⟩

/-- `proxy_cancel`.  `cancelSignalNotification(id)` calls `conn.delMatch(id)` iff `id` is a current
subscription of this proxy; afterwards it is none (a second cancel does nothing) and every other
subscription of the proxy is untouched - for any number of subscriptions. -/
theorem proxy_cancel (p : ProxySubs) (id : Nat) :
    ((p.cancel id).2 = if id ∈ p.rules then some id else none)
    ∧ id ∉ (p.cancel id).1.rules
    ∧ (∀ j, j ≠ id → (j ∈ (p.cancel id).1.rules ↔ j ∈ p.rules))
    ∧ ((p.cancel id).1.cancel id).2 = none := by
  obtain ⟨h1, h2, h3⟩ := cancel_spec p id
  refine ⟨h1, h2, h3, ?_⟩
  have := (cancel_spec (p.cancel id).1 id).1
  rw [this]; simp [h2]

/-- `proxy_cancel_per_proxy`.  Several proxies - on one connection or on several, where rule ids are numbered from 0
on each - each have their own set of cancellable ids: `cancelSignalNotification(id)` on proxy `p` calls `delMatch(id)`
iff `id` is a current subscription OF `p` (whatever equal ids other proxies hold, and whatever they cancelled
before), and neither a subscription (`on_ok`) nor a cancel on `p` changes what any other proxy `q` may cancel. -/
theorem proxy_cancel_per_proxy (t : List ProxySubs) (p id : Nat) :
    ((ProxyTable.cancel t p id).2 = if id ∈ (ProxyTable.get t p).rules then some id else none)
    ∧ id ∉ (ProxyTable.get (ProxyTable.cancel t p id).1 p).rules
    ∧ (∀ q, q ≠ p → ProxyTable.get (ProxyTable.cancel t p id).1 q = ProxyTable.get t q)
    ∧ (∀ q, q ≠ p → ProxyTable.get (ProxyTable.onOk t p id) q = ProxyTable.get t q) := by
  obtain ⟨h1, h2, _, _⟩ := proxy_cancel (ProxyTable.get t p) id
  refine ⟨h1, ?_, ?_, ?_⟩
  · simp only [ProxyTable.cancel, ProxyTable.get_put, if_true]; exact h2
  · intro q hq; simp only [ProxyTable.cancel, ProxyTable.get_put, hq, if_false]
  · intro q hq; simp only [ProxyTable.onOk, ProxyTable.get_put, hq, if_false]

/-- Two proxies on two connections both hold rule id 0; after the first cancelled its id 0, the second's
`cancelSignalNotification(0)` still calls `delMatch(0)` on its own connection. -/
example : let t := ProxyTable.onOk (ProxyTable.onOk [] 0 0) 1 0
    (ProxyTable.cancel (ProxyTable.cancel t 0 0).1 1 0).2 = some 0 := by decide

/-! ## 5. the client connection -/

/-- `client_refines_router`.  Over every history of `addMatch` / `delMatch` calls, replies from the daemon
(in any order, success or error) and incoming signals, the connection's local router is the result of a
router history (`Client.routerTrace`): an acknowledged `AddMatch` is one `addMatch`, an acknowledged
`RemoveMatch` of a registered id is one `delMatch`, a signal is one `routeMessage`, nothing else touches it. -/
theorem client_refines_router (raises : Nat → Cb → Bool) (h : List COp) (c : Client) :
    (Client.run Tables.gen raises c h).1.router
      = (Router.run Tables.gen raises c.router (Client.routerTrace Tables.gen raises c h)).1 :=
  client_run_router Tables.gen raises h c

/-- `client_signal_exact`.  `Spec.ClientSpec.run {} h` is computed from the events alone (a registration
exists from the acknowledgement of its AddMatch to the acknowledgement of a RemoveMatch for its id; it
never looks at the code model).  After any client history: a signal invokes exactly the registrations
of that registry which it satisfies, and `match_rules` holds for each of them the text rendered from its
constraints - which is both what `AddMatch` carried and what `delMatch` puts into `RemoveMatch`. -/
theorem client_signal_exact (raises : Nat → Cb → Bool) (h : List COp) (hwf : ∀ op ∈ h, op.WF) (m : Msg) :
    let c := (Client.run Tables.gen raises {} h).1
    let g := (ClientSpec.run {} h).reg
    (c.router.route raises m).invoked = (g.live.filter (fun r => specMatchesGen r.args m)).map (fun r => (r.id, r.cb))
    ∧ c.matchRules = g.live.map (fun r => (r.id, renderRule r.args)) := by
  intro c g
  have hl : Link c (ClientSpec.run {} h) := by
    show Link (Client.run Tables.gen raises {} h).1 _
    rw [gen_eq_cur]; exact link_run raises h {} {} link_init hwf
  have hc : CInv c g := hl.inv
  refine ⟨?_, hc.texts⟩
  unfold Router.route
  rw [hc.sim.rules, routeList_invoked raises m g.live hc.sim.wf]

/-! ## 5b. the client connection together with a daemon that follows the DBus specification

`Route/Daemon.lean`: the daemon keeps, per connection, a MULTISET of rule texts - `AddMatch` adds one entry (also
for a text it already holds), `RemoveMatch` removes one entry and fails with `MatchRuleNotFound` when there is
none - and forwards a broadcast signal while some held rule matches it (`Spec.textMatches`: the text read with
the specification's grammar, every constraint evaluated, `sender` and `arg0namespace` included).  The client is
the code model; what it writes reaches the daemon in the order written; the daemon's replies are delivered by
the history (`deliver k`), in any order and with any delay; `accepts` says which texts the daemon takes as rules
(any function).  Hypothesis `SingleRemoval`: the application does not call `delMatch(id)` again while the
`RemoveMatch` of an earlier `delMatch(id)` is unanswered (a second `RemoveMatch` with the same text would, by the
specification, remove the identical rule of ANOTHER registration - witness below). -/

/-- `bus_rules_mirror_local_rules`.  For every history of the connection and its daemon: whenever no reply is
outstanding, the rules the daemon holds for the connection are, as a multiset, exactly the texts of the locally
registered rules (`match_rules.values()`): one `AddMatch` per `addMatch`, one `RemoveMatch` per `delMatch`,
identical texts counted as often as they are registered. -/
theorem bus_rules_mirror_local_rules (accepts : Str → Bool) (raises : Nat → Cb → Bool) (h : List SOp)
    (hs : System.SingleRemoval Tables.gen accepts raises {} h) :
    let s := (System.run Tables.gen accepts raises {} h).1
    s.client.quiescent = true → s.daemon.rules.Perm s.client.localTexts := by
  intro s hq
  have hd : DInv s := by
    show DInv (System.run Tables.gen accepts raises {} h).1
    rw [gen_eq_cur] at hs ⊢
    exact dinv_run accepts raises h {} dinv_init hs
  exact dinv_mirror s hd hq

/-- The daemon, reading the client's text with the specification's grammar, selects exactly the messages that
satisfy the rule over ALL keys (`specMatchesFull`: `arg0namespace` included) - for every rule without `sender`,
the one constraint only a daemon can evaluate. -/
theorem daemon_reads_rule_as_spec (a : RuleArgs) (m : Msg) (hs : a.sender = none) :
    Spec.textMatches (renderRule a) m = specMatchesFull a m :=
  textMatches_render_full a m hs

/-- `live_rules_keep_receiving`.  End to end, for every history of the connection and its daemon that ends with no
reply outstanding: let `g` be the registry computed from the events the client saw alone (`Spec.ClientSpec`: a
registration exists from the acknowledgement of its AddMatch to the acknowledgement of its RemoveMatch).  A
broadcast signal that satisfies the rule of a registration of `g` over all keys (`specMatchesFull`) IS forwarded by the
daemon - however many registrations with the same text were added and removed before - invokes that registration,
and invokes exactly the registrations of `g` whose rule it satisfies (`specMatchesGen`), each once. -/
theorem live_rules_keep_receiving (accepts : Str → Bool) (raises : Nat → Cb → Bool) (h : List SOp)
    (hwf : ∀ cb a, SOp.addMatch cb a ∈ h → a.WFAll)
    (hs : System.SingleRemoval Tables.gen accepts raises {} h) (m : Msg) :
    let s := (System.run Tables.gen accepts raises {} h).1
    let g := (ClientSpec.run {} (System.clientOps Tables.gen accepts raises {} h)).reg
    s.client.quiescent = true →
    ∀ r ∈ g.live, r.args.sender = none → specMatchesFull r.args m = true →
      ∃ routed, (s.step Tables.gen accepts raises (.signal m)).2 = .client (.routed routed) ∧
        routed.invoked = (g.live.filter (fun r => specMatchesGen r.args m)).map (fun r => (r.id, r.cb))
        ∧ (r.id, r.cb) ∈ routed.invoked := by
  intro s g hq r hr hsn hm
  have hmirror := bus_rules_mirror_local_rules accepts raises h hs hq
  have hcl : s.client = (Client.run Tables.gen raises {} (System.clientOps Tables.gen accepts raises {} h)).1 :=
    run_client Tables.gen accepts raises h {}
  have hex := client_signal_exact raises (System.clientOps Tables.gen accepts raises {} h)
    (clientOps_wf Tables.gen accepts raises h {} hwf) m
  simp only at hex
  rw [← hcl] at hex
  obtain ⟨hinv, htexts⟩ := hex
  have hfw : s.daemon.forwards m = true := by
    unfold Daemon.forwards
    rw [hmirror.any_eq, List.any_eq_true]
    refine ⟨renderRule r.args, ?_, ?_⟩
    · unfold Client.localTexts
      rw [htexts]
      simp only [List.map_map, List.mem_map]
      exact ⟨r, hr, rfl⟩
    · rw [textMatches_render_full r.args m hsn]; exact hm
  refine ⟨s.client.router.route raises m, ?_, hinv, ?_⟩
  · simp only [System.step, hfw, if_true, Client.step]
  · rw [hinv, List.mem_map]
    exact ⟨r, List.mem_filter.mpr ⟨hr, specMatchesGen_of_full r.args m hm⟩, rfl⟩

/-- The hypotheses are satisfiable by the history the property is about: two registrations with identical
constraints (the second added after the first was acknowledged), removal of the first, everything delivered. -/
def twinHistory : List SOp :=
  [.addMatch 0 { member := some "M".toList }, .deliver 0, .addMatch 1 { member := some "M".toList }, .deliver 1,
   .delMatch 0, .deliver 2]

example : System.SingleRemoval Tables.cur Spec.textIsRule (fun _ _ => false) {} twinHistory
    ∧ (System.run Tables.cur Spec.textIsRule (fun _ _ => false) {} twinHistory).1.client.quiescent = true
    ∧ (System.run Tables.cur Spec.textIsRule (fun _ _ => false) {} twinHistory).1.daemon.rules
        = ["member='M'".toList] := by
  decide +kernel

/-- Why `SingleRemoval` is a hypothesis: `delMatch(0)` called twice before the first reply writes two `RemoveMatch`
with the same text; the daemon honours the second by dropping the identical rule of registration 1, which is
still registered locally - the daemon holds nothing, `match_rules` still has one entry. -/
theorem double_removal_takes_the_twins_rule :
    let h : List SOp := [.addMatch 0 { member := some "M".toList }, .deliver 0,
      .addMatch 1 { member := some "M".toList }, .deliver 1, .delMatch 0, .delMatch 0, .deliver 2, .deliver 3]
    let s := (System.run Tables.cur Spec.textIsRule (fun _ _ => false) {} h).1
    s.client.quiescent = true ∧ s.daemon.rules = [] ∧ s.client.localTexts = ["member='M'".toList] := by
  decide +kernel

/-! ## 6. witnesses: the snapshot before the repairs violates the property at these inputs

(`Pre.outcome` is the model of the unrepaired `router.py`; each line is also the replay of the defect on
the implementation - see corpus/C12.) -/

def sigMsg (path : String) (body : Option (List Arg)) : Msg :=
  { mtype := 4, path := .some path.toList, iface := .some "a.b".toList, member := .some "M".toList,
    dest := .none, sender := .none, body := body }

/-- F15: a rule `type='error'` received signals. -/
theorem prefix_mtype_constraint_ignored :
    Pre.outcome { mtype := some "error".toList } (sigMsg "/a/b" none) = some .call
    ∧ specMatches { mtype := some "error".toList } (sigMsg "/a/b" none) = false := by decide

/-- F16: `path_namespace='/a/b'` matched the sibling `/a/bc`. -/
theorem prefix_path_namespace_sibling :
    Pre.outcome { pathNs := some "/a/b".toList } (sigMsg "/a/bc" none) = some .call
    ∧ specMatches { pathNs := some "/a/b".toList } (sigMsg "/a/bc" none) = false := by decide

/-- F17: `arg0='x'` matched a signal without arguments. -/
theorem prefix_arg_constraint_skipped_no_body :
    Pre.outcome { args := some [(0, "x".toList)] } (sigMsg "/a/b" none) = some .call
    ∧ specMatches { args := some [(0, "x".toList)] } (sigMsg "/a/b" none) = false := by decide

/-- F17: `arg0path='/aa/bb'` matched `/aa/bbc`. -/
theorem prefix_argpath_plain_startswith :
    Pre.outcome { argPaths := some [(0, "/aa/bb".toList)] } (sigMsg "/a/b" (some [.str "/aa/bbc".toList])) = some .call
    ∧ specMatches { argPaths := some [(0, "/aa/bb".toList)] } (sigMsg "/a/b" (some [.str "/aa/bbc".toList])) = false := by
  decide

/-- F17: `arg0path='/aa/bb/'` did not match `/aa/`. -/
theorem prefix_argpath_trailing_slash :
    Pre.outcome { argPaths := some [(0, "/aa/bb/".toList)] } (sigMsg "/a/b" (some [.str "/aa/".toList])) = some .skip
    ∧ specMatches { argPaths := some [(0, "/aa/bb/".toList)] } (sigMsg "/a/b" (some [.str "/aa/".toList])) = true := by
  decide

/-- C12-05: without the escaping (`renderRuleWith false`, the client before the repair) the text for
`arg0="it's"` is `arg0='it's'`, which is not a rule at all by the specification's grammar. -/
theorem prefix_apostrophe_unescaped :
    renderRuleWith false { args := some [(0, "it's".toList)] } = "arg0='it's'".toList
    ∧ ruleTextMeaning (renderRuleWith false { args := some [(0, "it's".toList)] }) = none
    ∧ ruleTextMeaning (renderRule { args := some [(0, "it's".toList)] }) = some [.arg 0 "it's".toList] := by decide

end Txdbus.Route

#print axioms Txdbus.Route.tables_current
#print axioms Txdbus.Route.gen_eq_cur
#print axioms Txdbus.Route.mtypes_table_is_spec
#print axioms Txdbus.Route.match_eq_spec
#print axioms Txdbus.Route.match_eq_spec_with
#print axioms Txdbus.Route.match_eq_spec_full
#print axioms Txdbus.Route.match_eq_spec_gen
#print axioms Txdbus.Route.gen_relation_is_full_spec
#print axioms Txdbus.Route.gen_relation_without_arg0namespace
#print axioms Txdbus.Route.found_router_ignores_arg0namespace
#print axioms Txdbus.Route.namespace_is_component_prefix
#print axioms Txdbus.Route.route_exact
#print axioms Txdbus.Route.route_independent_of_raising
#print axioms Txdbus.Route.invoked_exact_each_once
#print axioms Txdbus.Route.removed_never_invoked
#print axioms Txdbus.Route.ids_never_reused
#print axioms Txdbus.Route.rule_text_roundtrip
#print axioms Txdbus.Route.client_text_means_constraints
#print axioms Txdbus.Route.bus_reads_what_the_text_means
#print axioms Txdbus.Route.bus_rule_is_client_rule
#print axioms Txdbus.Route.empty_rule_accepted
#print axioms Txdbus.Route.bus_scanner_follows_spec
#print axioms Txdbus.Route.proxy_gate
#print axioms Txdbus.Route.proxy_delivery
#print axioms Txdbus.Route.proxy_select
#print axioms Txdbus.Route.proxy_cancel
#print axioms Txdbus.Route.proxy_cancel_per_proxy
#print axioms Txdbus.Route.client_refines_router
#print axioms Txdbus.Route.client_signal_exact
#print axioms Txdbus.Route.bus_rules_mirror_local_rules
#print axioms Txdbus.Route.daemon_reads_rule_as_spec
#print axioms Txdbus.Route.live_rules_keep_receiving
#print axioms Txdbus.Route.double_removal_takes_the_twins_rule
#print axioms Txdbus.Route.prefix_mtype_constraint_ignored
#print axioms Txdbus.Route.prefix_path_namespace_sibling
#print axioms Txdbus.Route.prefix_arg_constraint_skipped_no_body
#print axioms Txdbus.Route.prefix_argpath_plain_startswith
#print axioms Txdbus.Route.prefix_argpath_trailing_slash
#print axioms Txdbus.Route.prefix_apostrophe_unescaped
