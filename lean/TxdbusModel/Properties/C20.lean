import TxdbusModel.Proofs.Proto.FdsSender
import TxdbusModel.Properties.C04
import TxdbusModel.Gen.FdsRules
import TxdbusModel.Proofs.Proto.FdsMsg
import TxdbusModel.Proofs.Msg.Tables
/-!
# C20 - file descriptors stay attached to the message that carried them

Code model: Proto/Fds.lean (sender: `marshalBV` = `marshal_unix_fd` over a body tree, `marshalMsg` =
the `unix_fds` rule of `_marshal`, `sendMessage`, `callRemote`; receiver: `recvEv` =
`fileDescriptorReceived` / `dataReceived` + `rawDBusMessageReceived`, on top of the framing model of
C04).  Environment model: `Consistent ms evs` (Proto/Fds.lean) - what a stream socket may do.

Extension 2026-09-30 (section "C20 composed with C03" below, namespace `Txdbus.Proto.FdsE2E`): the abstract
parser `info` instantiated with C03's `parseMessage` model (`infoOfParse`), `info_of_constructed` (what it finds in
a constructed message is what the sender model wrote), `descriptors_end_to_end` (+ `_sender`, `_after_handshake`):
constructed messages, any interleaving of the environment model, C04 framing + C03 parse + the queue discipline:
every message gets exactly its descriptors, C03's parse with C01's codec on the real queue returns the message sent,
nothing is left queued.

Definitions used in the statements (Proofs/Proto/FdsLemmas.lean, FdsRun.lean):
`MsgOK info m` - the abstract parser finds in `m.raw` the index values `m.idx`, a `unix_fds` header equal
to the number of descriptors sent with `m` (absent when there are none), and every index refers to one
of the message's own descriptors (what `sender_layout` guarantees for txdbus's own sender);
`GoodFrom ms ds` - `ds` are deliveries of the first messages of `ms`, in order, each with every `h`
argument resolved to the descriptor sent at that position with that very message, the queue at that
moment being the message's own descriptors followed by early arrivals of later messages, and exactly
the message's own descriptors removed afterwards.
-/
namespace Txdbus.Proto

variable {α : Type}

/-- **C20.1**  `callRemote` (a fresh out-of-band list per call) for an arbitrary body: the
out-of-band list is the descriptor arguments in argument order, the index values written are
`0 .. k-1` in argument order, the `unix_fds` header is `k` (absent iff there are no descriptors), and the
transport sees one `sendFileDescriptor` per descriptor, in argument order, all before the one `write`. -/
theorem sender_layout (body : List BV) :
    (callRemote true body).1.oob = fdLeavesL body ∧
    (callRemote true body).1.indices = List.range (fdLeavesL body).length ∧
    (callRemote true body).1.header =
      (if (fdLeavesL body).isEmpty then none else some (fdLeavesL body).length) ∧
    (callRemote true body).2 = (fdLeavesL body).map SendEv.sendFd ++ [SendEv.write] := by
  simp [callRemote, marshalMsg, sendMessage, marshalBVs_spec, List.range_eq_range']

/-- C20.1 for a caller-supplied list that already holds `oob0` (direct construction of a
`MethodCallMessage`): indices continue after the entries already present, the header counts all
entries, and all of them are sent ahead of the bytes. -/
theorem sender_layout_general (body : List BV) (oob0 : List Nat) :
    (marshalMsg true body oob0).oob = oob0 ++ fdLeavesL body ∧
    (marshalMsg true body oob0).indices = List.range' oob0.length (fdLeavesL body).length ∧
    (marshalMsg true body oob0).header =
      (if (oob0 ++ fdLeavesL body).isEmpty then none else some (oob0.length + (fdLeavesL body).length)) ∧
    sendMessage (marshalMsg true body oob0) = (oob0 ++ fdLeavesL body).map SendEv.sendFd ++ [SendEv.write] := by
  simp [marshalMsg, sendMessage, marshalBVs_spec]

/-- A message without a signature marshals no body: no index, no header, nothing but the bytes is sent
by `callRemote`. -/
theorem sender_no_signature (body : List BV) :
    callRemote false body = (⟨none, [], []⟩, [SendEv.write]) := by
  simp [callRemote, marshalMsg, sendMessage]

/-- With the sender's layout (`idx = 0 .. k-1`) every descriptor argument resolves, in order, to the
message's descriptors. -/
theorem resolved_all (m : Msg) (h : m.idx = List.range m.fds.length) :
    m.idx.map (fun j => m.fds[j]?) = m.fds.map some := by
  rw [h]
  apply List.ext_getElem?
  intro i
  simp only [List.getElem?_map]
  by_cases hi : i < m.fds.length
  · simp [hi]
  · simp [hi]

/-- **C20.2**  For every sequence of messages `ms` (well-formed for framing; parsed consistently with
what was sent, `MsgOK`), every event sequence `evs` a stream socket can produce for them (`Consistent`:
bytes in order cut arbitrarily into reads, descriptors in sending order, those of message `i` no later
than the read containing its last byte - possibly long before, while earlier messages are incomplete),
a receiver starting in binary mode with empty buffer and empty queue:

* delivers the messages in order, each with every `h` argument resolved to the descriptor sent at that
  position with that very message; at that moment the queue is `fds(i) ++ early arrivals of later
  messages`, and exactly `|fds(i)|` entries are removed (`GoodFrom`);
* has delivered every complete message (the buffer holds no complete message; bytes seen = bytes of the
  delivered messages ++ buffer);
* keeps exactly the descriptors of undelivered messages queued. -/
theorem attribution (A : Auth α) (info : Bytes → MsgInfo) (ms : List Msg) (evs : List Ev) (s : St α)
    (hok : ∀ m ∈ ms, Spec.WellFormed m.raw ∧ MsgOK info m)
    (hc : Consistent ms evs)
    (hs : s.authenticated = true) (hbuf : s.buffer = []) (hnext : s.nextMsgLen = 0) :
    GoodFrom ms (recvRun A info ⟨s, []⟩ evs).2 ∧
    bytesOf evs = bytesUpTo ms (recvRun A info ⟨s, []⟩ evs).2.length ++ (recvRun A info ⟨s, []⟩ evs).1.st.buffer ∧
    ¬ Spec.hasFrame (recvRun A info ⟨s, []⟩ evs).1.st.buffer ∧
    fdsOf evs = fdsUpTo ms (recvRun A info ⟨s, []⟩ evs).2.length ++ (recvRun A info ⟨s, []⟩ evs).1.queue := by
  have inv0 : Inv ms (⟨s, []⟩ : Recv α) [] 0 := by
    refine ⟨Nat.zero_le _, ?_, ?_, ?_, hs⟩
    · simp [bytesOf, bytesUpTo, hbuf]
    · simp [fdsOf, fdsUpTo]
    · refine Or.inl ⟨hnext, ?_⟩
      show s.buffer.length < 16
      rw [hbuf]; decide
  obtain ⟨k', _, inv', hlen, hgood⟩ := recv_run_inv A info ms hok evs [] ⟨s, []⟩ 0 (by simpa using hc) inv0
  simp only [Nat.sub_zero, List.drop_zero, List.nil_append] at hlen hgood inv'
  rw [hlen]
  exact ⟨hgood, inv'.hbytes, framed_noFrame _ inv'.hframed, inv'.hfds⟩

/-- **C20.2 on a connection that starts in line mode**  The descriptor queue exists from
`connectionMade` on.  The stream is a handshake (as in C04 `handoff`: lines without CR LF, within the
limit, the authenticator answering cont ... cont success) followed by the messages `ms`; `evsA` are the
events before the read that completes the handshake, `read (d1 ++ d2)` is that read (`d1` the end of the
handshake, `d2` the first message bytes, either may be empty), `evsB` what follows.  Descriptors may
arrive anywhere (`ConsistentAfter`): before the first read, among the handshake reads, together with
the final handshake line - as long as those of message `i` are there when its last byte is read.
Then the conclusion of `attribution` holds for the whole run. -/
theorem attribution_after_handshake (A : Auth α) (info : Bytes → MsgInfo) (ms : List Msg) (s : St α)
    (hs : List Bytes) (last : Bytes) (a1 a' : α) (evsA evsB : List Ev) (d1 d2 : Bytes)
    (hr : Ready s) (ha : s.authenticated = false) (hbuf : s.buffer = []) (hcl : s.closed = false)
    (hnext : s.nextMsgLen = 0)
    (hlines : ∀ l ∈ hs ++ [last], Spec.hasCRLF l = false ∧ l.length ≤ Txdbus.Gen.ProtoConst.maxAuthLength)
    (hrun : authRun A s.auth hs = some a1) (hlast : A.handle a1 last = (a', .success))
    (hH : bytesOf evsA ++ d1 = Spec.unlines (hs ++ [last]))
    (hok : ∀ m ∈ ms, Spec.WellFormed m.raw ∧ MsgOK info m)
    (hc : ConsistentAfter (Spec.unlines (hs ++ [last])).length ms (evsA ++ .read (d1 ++ d2) :: evsB)) :
    GoodFrom ms (recvRun A info ⟨s, []⟩ (evsA ++ .read (d1 ++ d2) :: evsB)).2 ∧
    bytesOf (evsA ++ .read (d1 ++ d2) :: evsB) =
      Spec.unlines (hs ++ [last]) ++
        bytesUpTo ms (recvRun A info ⟨s, []⟩ (evsA ++ .read (d1 ++ d2) :: evsB)).2.length ++
        (recvRun A info ⟨s, []⟩ (evsA ++ .read (d1 ++ d2) :: evsB)).1.st.buffer ∧
    ¬ Spec.hasFrame (recvRun A info ⟨s, []⟩ (evsA ++ .read (d1 ++ d2) :: evsB)).1.st.buffer ∧
    fdsOf (evsA ++ .read (d1 ++ d2) :: evsB) =
      fdsUpTo ms (recvRun A info ⟨s, []⟩ (evsA ++ .read (d1 ++ d2) :: evsB)).2.length ++
        (recvRun A info ⟨s, []⟩ (evsA ++ .read (d1 ++ d2) :: evsB)).1.queue := by
  -- cut the read that completes the handshake at the end of the handshake
  have hsplit : recvRun A info ⟨s, []⟩ (evsA ++ .read (d1 ++ d2) :: evsB) =
      recvRun A info ⟨s, []⟩ ((evsA ++ [.read d1]) ++ .read d2 :: evsB) := by
    rw [recvRun_append, recvRun_read_split A info _ d1 d2 evsB (recvRun_ready A info ⟨s, []⟩ evsA hr),
      ← recvRun_append]
    simp
  -- the handshake part is quiet and ends in binary mode with an empty buffer
  have hreads : (readsOf (evsA ++ [.read d1])).flatten = Spec.unlines (hs ++ [last]) ++ [] := by
    rw [flatten_readsOf, bytesOf_append]; simpa [bytesOf] using hH
  have hne : readsOf (evsA ++ [.read d1]) ≠ [] := by
    rw [readsOf_append]; simp [readsOf]
  have hho := handoff A s hs last [] (readsOf (evsA ++ [.read d1])) a1 a' hr ha hbuf hcl hnext hlines hrun hlast
    hne hreads
  have hq := recvRun_quiet A info s [] (evsA ++ [.read d1]) (by rw [hho.2.1, frames_nil])
  -- the binary part, the descriptors of the handshake phase already queued
  have hcons := consistentAfter_binary _ ms evsA evsB d1 d2 (by rw [hH]) (fun m hm => (hok m hm).1.1) hc
  have hfds1 : fdsOf (evsA ++ [.read d1]) = fdsOf evsA := by rw [fdsOf_append]; simp [fdsOf]
  have inv0 : Inv ms (⟨(run A s (readsOf (evsA ++ [.read d1]))).1, fdsOf evsA⟩ : Recv α)
      ((fdsOf evsA).map Ev.fd) 0 := by
    refine ⟨Nat.zero_le _, ?_, ?_, hho.2.2.2.2.2, hho.2.2.2.1⟩
    · rw [bytesOf_map_fd]
      show [] = bytesUpTo ms 0 ++ (run A s (readsOf (evsA ++ [.read d1]))).1.buffer
      rw [hho.2.2.1, frames_nil]; simp [bytesUpTo]
    · rw [fdsOf_map_fd]; simp [fdsUpTo]
  obtain ⟨k', _, inv', hlen, hgood⟩ := recv_run_inv A info ms hok (.read d2 :: evsB) _ _ 0 hcons inv0
  rw [hsplit, recvRun_append, hq]
  simp only [List.nil_append, hfds1, Nat.sub_zero, List.drop_zero] at hlen hgood inv' ⊢
  rw [hlen]
  refine ⟨hgood, ?_, framed_noFrame _ inv'.hframed, ?_⟩
  · have hb := inv'.hbytes
    rw [bytesOf_append, bytesOf_map_fd] at hb
    simp only [bytesOf, List.nil_append] at hb
    rw [bytesOf_append]
    simp only [bytesOf]
    have e : bytesOf evsA ++ (d1 ++ d2 ++ bytesOf evsB) = (bytesOf evsA ++ d1) ++ (d2 ++ bytesOf evsB) := by
      simp [List.append_assoc]
    rw [e, hH, hb]
    simp [List.append_assoc]
  have := inv'.hfds
  rw [fdsOf_append, fdsOf_map_fd] at this
  rw [fdsOf_append]
  simpa [fdsOf] using this

/-- **C20.1 + C20.2 composed.**  The messages are what `callRemote` sends for arbitrary bodies
(`sentMsg raw body`: descriptors = the descriptor arguments in argument order, indices `0..k-1`), their
bytes `raw` are well-formed for framing (C03) and the parser reads back the header field and the indices
that were written (C01-C03 round trip - the one link that is an assumption here, see ASSUMPTIONS).  Then
for every event sequence a stream socket may produce every delivered message carries, in every `h`
argument, exactly the descriptor passed for that argument: `args = (descriptor arguments).map some`. -/
theorem attribution_callRemote (A : Auth α) (info : Bytes → MsgInfo) (pairs : List (Bytes × List BV))
    (evs : List Ev) (s : St α)
    (hp : ∀ p ∈ pairs, Spec.WellFormed p.1 ∧
      info p.1 = ⟨(callRemote true p.2).1.header, (callRemote true p.2).1.indices⟩)
    (hc : Consistent (pairs.map (fun p => sentMsg p.1 p.2)) evs)
    (hs : s.authenticated = true) (hbuf : s.buffer = []) (hnext : s.nextMsgLen = 0) :
    (recvRun A info ⟨s, []⟩ evs).2.map (fun d => (d.raw, d.args)) =
      (pairs.take (recvRun A info ⟨s, []⟩ evs).2.length).map (fun p => (p.1, (fdLeavesL p.2).map some)) := by
  have hok : ∀ m ∈ pairs.map (fun p => sentMsg p.1 p.2), Spec.WellFormed m.raw ∧ MsgOK info m := by
    intro m hm
    obtain ⟨p, hpm, rfl⟩ := List.mem_map.1 hm
    exact ⟨(hp p hpm).1, msgOK_of_callRemote info p.1 p.2 (hp p hpm).2⟩
  have hidx : ∀ m ∈ pairs.map (fun p => sentMsg p.1 p.2), m.idx = List.range m.fds.length := by
    intro m hm
    obtain ⟨p, _, rfl⟩ := List.mem_map.1 hm
    simp [sentMsg, callRemote, marshalMsg, marshalBVs_spec, List.range_eq_range']
  have h := attribution A info _ evs s hok hc hs hbuf hnext
  rw [goodFrom_args _ _ h.1 hidx, ← List.map_take, List.map_map]
  apply List.map_congr_left
  intro p _
  simp [sentMsg, callRemote, marshalMsg, marshalBVs_spec, Function.comp_def]

/-- The receive order induced by the sender's own transport calls (each `sendFileDescriptor` a
descriptor arrival, each `write` one read, nothing reordered) is `Consistent`: `sendMessage`'s order
"descriptors first, then the bytes" is what puts a message's descriptors ahead of its last byte. -/
theorem sender_calls_consistent (pairs : List (Bytes × List BV)) (hlen : ∀ p ∈ pairs, 16 ≤ p.1.length) :
    Consistent (pairs.map (fun p => sentMsg p.1 p.2))
      (pairs.map (fun p => (callRemote true p.2).2.map (toEv p.1))).flatten := by
  rw [← canonical_eq_transport]
  apply canonical_consistent
  intro m hm
  obtain ⟨p, hpm, rfl⟩ := List.mem_map.1 hm
  exact hlen p hpm

/-- **Tie to the source.**  The rules of descriptor handling that Proto/Fds.lean mirrors
(`marshalBV`: index = length before the append; `marshalMsg`: header = length of the list iff non-empty;
`sendMessage`: one `sendFd` per entry in order, then `write`; `deliver`: index into the whole queue,
`IndexError` -> none, exactly the declared count removed; `recvEv (.fd n)`: unconditional append;
`callRemote`: fresh list) hold for the repository under test - regenerated on every run by
tools/tables/c20_fds.py from the AST (or, for an unknown shape, from the behaviour on crafted inputs) -
and `_marshal` emits the count under the header code that `message._hcode` names `unix_fds`. -/
theorem model_rules_match_source :
    Gen.FdsRules.indexBeforeAppend = true ∧ Gen.FdsRules.resolveByIndex = true ∧
    Gen.FdsRules.headerCountIsLen = true ∧ Gen.FdsRules.sendEachThenWrite = true ∧
    Gen.FdsRules.consumeDeclared = true ∧ Gen.FdsRules.queueAlwaysAppends = true ∧
    Gen.FdsRules.callRemoteFreshList = true ∧
    Gen.FdsRules.unixFdsHeaderCode = Gen.ProtoConst.unixFdsCode := by decide

/-! ## Boundary of the claim (outside the property: a sender that does not follow `sender_layout`) -/

/-- A message that declares no descriptors but carries an `h` argument with index 0 reads the
descriptor of a LATER message that arrived early, and leaves it queued (`unmarshal_unix_fd` indexes the
whole queue, not the declared part).  txdbus's own sender never produces such a message. -/
theorem index_beyond_declared_reaches_later_message :
    deliver (fun _ => ⟨none, [0]⟩) [7] [] = ([7], ⟨[], [some 7], [7], [7]⟩) := by
  decide

/-! ## The hypotheses are satisfiable -/

/-- a 16-byte message sent with descriptor 5, its body index 0 (abstractly) -/
example : Consistent [⟨tinyMsg16, [5], [0]⟩] [.fd 5, .read tinyMsg16] ∧
    Consistent [⟨tinyMsg16, [5], [0]⟩] [.read (tinyMsg16.take 3), .fd 5, .read (tinyMsg16.drop 3)] := by
  refine ⟨⟨by decide, by decide, ?_⟩, ⟨by decide, by decide, ?_⟩⟩
  · intro p hp k hk hle
    have hk' : k = 0 ∨ k = 1 := by simp at hk; omega
    rcases hk' with rfl | rfl
    · simp [fdsUpTo]
    · rcases p with _ | ⟨e1, _ | ⟨e2, _ | ⟨e3, p⟩⟩⟩
      · simp [bytesOf, bytesUpTo, tinyMsg16] at hle
      · obtain ⟨t, ht⟩ := hp
        simp at ht
        obtain ⟨rfl, _⟩ := ht
        simp [bytesOf, bytesUpTo, tinyMsg16] at hle
      · obtain ⟨t, ht⟩ := hp
        simp at ht
        obtain ⟨rfl, rfl, _⟩ := ht
        simp [fdsOf, fdsUpTo]
      · obtain ⟨t, ht⟩ := hp
        simp at ht
  · intro p hp k hk hle
    have hk' : k = 0 ∨ k = 1 := by simp at hk; omega
    rcases hk' with rfl | rfl
    · simp [fdsUpTo]
    · rcases p with _ | ⟨e1, _ | ⟨e2, _ | ⟨e3, _ | ⟨e4, p⟩⟩⟩⟩
      · simp [bytesOf, bytesUpTo, tinyMsg16] at hle
      · obtain ⟨t, ht⟩ := hp
        simp at ht
        obtain ⟨rfl, _⟩ := ht
        simp [bytesOf, bytesUpTo, tinyMsg16] at hle
      · obtain ⟨t, ht⟩ := hp
        simp at ht
        obtain ⟨rfl, rfl, _⟩ := ht
        simp [fdsOf, fdsUpTo]
      · obtain ⟨t, ht⟩ := hp
        simp at ht
        obtain ⟨rfl, rfl, rfl, _⟩ := ht
        simp [fdsOf, fdsUpTo]
      · obtain ⟨t, ht⟩ := hp
        simp at ht

/-- `attribution_after_handshake`: handshake `BEGIN\r\n`, the descriptor arrives before the single read
that holds the handshake line and the message -/
example : bytesOf [Ev.fd 5] ++ (beginLine ++ [13, 10]) = Spec.unlines ([] ++ [beginLine]) ∧
    ConsistentAfter (Spec.unlines ([] ++ [beginLine])).length [⟨tinyMsg16, [5], [0]⟩]
      ([Ev.fd 5] ++ Ev.read ((beginLine ++ [13, 10]) ++ tinyMsg16) :: []) := by
  refine ⟨by decide, by decide, by decide, ?_⟩
  intro p hp k hk hle
  have hk' : k = 0 ∨ k = 1 := by simp at hk; omega
  rcases hk' with rfl | rfl
  · simp [fdsUpTo]
  · rcases p with _ | ⟨e1, _ | ⟨e2, _ | ⟨e3, p⟩⟩⟩
    · simp [bytesOf, bytesUpTo, tinyMsg16, Spec.unlines, beginLine] at hle
    · obtain ⟨t, ht⟩ := hp
      simp at ht
      obtain ⟨rfl, _⟩ := ht
      simp [bytesOf, bytesUpTo, tinyMsg16, Spec.unlines, beginLine] at hle
    · obtain ⟨t, ht⟩ := hp
      simp at ht
      obtain ⟨rfl, rfl, _⟩ := ht
      simp [fdsOf, fdsUpTo]
    · obtain ⟨t, ht⟩ := hp
      simp at ht

example : Spec.WellFormed tinyMsg16 ∧
    MsgOK (fun _ => ⟨some 1, [0]⟩) ⟨tinyMsg16, [5], [0]⟩ := by
  refine ⟨by decide, rfl, Or.inl rfl, ?_⟩
  intro j hj
  simp at hj
  subst hj
  decide

/-! ## C20 composed with C03 (and C04, C01): extension 2026-09-30

Model: Proto/FdsMsg.lean (`infoOfParse`, `parsedDelivery`, `oobAfter`, `sendConstructed`, `bvOfFields`);
lemmas: Proofs/Proto/FdsMsg.lean (`SentFd`, `SentFdOK`, `ParsedFrom`, `info_of_sent`, `parsedAs_of_sent`, ...). -/

namespace FdsE2E
open Txdbus.Code
open Txdbus.Msg (Tables BodyCodec Call construct parseMessage wireCodec)

/-- **C20 ∘ C03 ∘ C01, item 1: `info` instantiated.**  `infoOfParse` (Proto/FdsMsg.lean) is the abstract parser of
`attribution` read off C03's `parseMessage` model: `declared` = the `unix_fds` attribute that header field 9 sets,
`indices` = the values at the `h` positions of the body (the body bytes and the SIGNATURE attribute C03's
`parseMessage` finds, decoded in the message's byte order).  For EVERY method call the C03 model constructs with
`oobFDs=[]`, a non-empty signature `renderAll ts` and a body in C01's domain (the premises of C03
`parse_marshal_c01`) whose descriptor arguments are, in wire order, the `k` numbers `ds`
(`Code.RepFields (ds.map fdVal) vs true ts items 0 k`):

* `infoOfParse (raw m) = { declared := k (absent iff k = 0), indices := [0, …, k-1] }`;
* that is exactly what the SENDER model of Proto/Fds.lean (`callRemote` on the body's `BV` abstraction
  `bvOfFields ds vs ts`, theorem `sender_layout`) wrote: the same header, the same indices;
* and the out-of-band list of that sender model is `ds`.

(Byte order: C03's constructors always serialise little-endian - `DBusMessage.endian = ord('l')` - so there is no
big-endian constructed message to state this for; `infoOfParse` itself follows the first byte of the message.
A caller-supplied non-empty `oobFDs` list is outside C03's `parse_marshal_c01` and therefore outside this theorem;
the layout for it is `sender_layout_general`.) -/
theorem info_of_constructed (na : Char → Bool) (maxLen : Nat) (st st' : Msg.St)
    (c : Call PyVal) (m : Msg.Msg PyVal) (hs : 1 ≤ st.nextSerial)
    (ts : List Ty) (pv : PyVal) (items : List PyVal) (vs : List Val) (ds : List Nat) (bs : Bytes) (fuel : Nat)
    (hsig : c.signature = some (renderAll ts)) (hne : renderAll ts ≠ []) (hbody : c.body = some pv)
    (hoob : c.oob = some [])
    (hts : allWF ts = true) (hitems : Code.topItems pv = .ok items)
    (hrep : Code.RepFields (ds.map fdVal) vs true ts items 0 ds.length)
    (henc : Spec.encodeAll Code.genAlign (Txdbus.endianOf true) ts vs 0 = some bs) (hfuel : depthAll vs ≤ fuel)
    (h : construct Gen.Message.tables (wireCodec fuel) na maxLen st c = (st', .ok m)) :
    infoOfParse Gen.Message.tables m.raw = ⟨if ds.isEmpty then none else some ds.length, List.range ds.length⟩ ∧
    infoOfParse Gen.Message.tables m.raw =
      ⟨(callRemote true (bvOfFields ds vs ts)).1.header, (callRemote true (bvOfFields ds vs ts)).1.indices⟩ ∧
    (callRemote true (bvOfFields ds vs ts)).1.oob = ds := by
  have h1 := info_of_constructed_gen _ Msg.genTables_ok na maxLen st st' c m hs ts pv items vs ds bs fuel hsig hne hbody
    hoob hts hitems hrep henc hfuel h
  have hl : fdLeavesL (bvOfFields ds vs ts) = ds := by
    simpa using bvOfFields_of_rep ds vs true ts items 0 ds.length hrep
  refine ⟨h1, ?_, ?_⟩
  · rw [h1]; simp [callRemote, marshalMsg, marshalBVs_spec, hl, List.range_eq_range']
  · simp [callRemote, marshalMsg, marshalBVs_spec, hl]

/-- **C20 end to end for txdbus-constructed messages (little-endian; descriptors only in method calls with `oobFDs=[]`)
- C20 ∘ C04 ∘ C03 ∘ C01, item 2.**  (Returns, errors, signals and big-endian messages CARRYING descriptors cannot be built by
txdbus; for them the receiver half is `attribution` with `MsgOK` as a hypothesis.)  `xs` are sent messages, each made by a constructor call of
C03's model under the premises of C03's parse theorems (`SentFdOK`: a method call with `oobFDs=[]` whose body
carries the descriptors `x.ds` in its `h` arguments - any signature, the same number several times, none at all -,
or any constructor without descriptors, with or without a body), in the sender model's vocabulary
(`SentFd.toMsg x` = bytes `x.msg.raw`, descriptors and indices as `callRemote` lays them out).  The environment
delivers bytes and descriptors under ANY interleaving the environment model allows (`Consistent`: bytes in order,
cut into reads anywhere; descriptors in sending order, those of a message no later than the read with its last
byte, possibly much earlier).  The receiver is the composition of C04's framing model, C03's `parseMessage`
(`infoOfParse`) and the `_receivedFDs` discipline of `rawDBusMessageReceived` (`deliver`: index into the whole
queue, then `queue[unix_fds:]`), fresh in binary mode.  Then:

* `ParsedFrom`: the deliveries are the messages in order, each once; for every delivery the queue was
  `x.ds ++ early arrivals of later messages`, exactly `|x.ds|` entries were removed, `args = x.ds.map some`
  (every `h` argument resolved to the descriptor attached at that position to THIS message - none misattributed),
  and C03's `parseMessage` with C01's code model as body codec, run on that very queue (the code's call
  `parseMessage(raw, self._receivedFDs)`), returns the message that was sent: class, serial, flags, header
  attributes, and the body `Code.plainList x.items` with the sender's descriptors at the `h` positions;
  and C04's model of the whole of `rawDBusMessageReceived` (`Receive.handleFrame`, Proto/Receive.lean: that parse,
  `self._receivedFDs[m.unix_fds:]`, the `if mt == 1 … elif mt == 4` chain), run on that queue, hands that message to
  the hook of its type and leaves exactly the queue `deliver` computed (`queueAfter`): the abstract `info` / `deliver`
  pair of Proto/Fds.lean and the literal model agree on every delivery;
* (the same in one equation; `d.args` is the abstract receiver's SPEC-level reading of the `h` positions -
  `infoOfParse` decodes the body with C01's specification decoder -, not an observation of the code model: what the
  code model's parse hands over is the `ParsedAs` clause above; for constructed messages both are `x.ds`)
  `(raw, args)` of the deliveries = `(x.msg.raw, x.ds.map some)` of the first messages;
* every complete message was delivered; the final queue holds exactly the descriptors of undelivered messages;
* when all bytes have arrived: every message was delivered, nothing is buffered, NO descriptor is left queued.

Proof: `attribution` instantiated with `infoOfParse`; `MsgOK` from `info_of_sent` (item 1) through
`msgOK_of_callRemote`; `Spec.WellFormed` from C03 `marshal_wellformed` + C04 `wellFormed_of_layout`
(`wellFormed_of_sentFd`); the parse on the real queue from C03 `parse_marshal` + C01 `unmarshal_eq_spec` with
`rep_agree` (the codec only looks at the queue entries the message's indices name). -/
theorem descriptors_end_to_end (na : Char → Bool) (maxLen : Nat) (hmax : maxLen ≤ Msg.Spec.maxMessage) (fuel : Nat)
    (A : Auth α) (xs : List SentFd) (evs : List Ev) (s : St α)
    (hxs : ∀ x ∈ xs, SentFdOK Gen.Message.tables na maxLen fuel x)
    (hc : Consistent (xs.map SentFd.toMsg) evs)
    (hs : s.authenticated = true) (hbuf : s.buffer = []) (hnext : s.nextMsgLen = 0) :
    ParsedFrom Gen.Message.tables fuel xs (recvRun A (infoOfParse Gen.Message.tables) ⟨s, []⟩ evs).2 ∧
    (recvRun A (infoOfParse Gen.Message.tables) ⟨s, []⟩ evs).2.map (fun d => (d.raw, d.args)) =
      (xs.take (recvRun A (infoOfParse Gen.Message.tables) ⟨s, []⟩ evs).2.length).map
        (fun x => (x.msg.raw, x.ds.map some)) ∧
    bytesOf evs =
      ((xs.take (recvRun A (infoOfParse Gen.Message.tables) ⟨s, []⟩ evs).2.length).map (·.msg.raw)).flatten ++
        (recvRun A (infoOfParse Gen.Message.tables) ⟨s, []⟩ evs).1.st.buffer ∧
    ¬ Spec.hasFrame (recvRun A (infoOfParse Gen.Message.tables) ⟨s, []⟩ evs).1.st.buffer ∧
    fdsOf evs =
      ((xs.take (recvRun A (infoOfParse Gen.Message.tables) ⟨s, []⟩ evs).2.length).map (·.ds)).flatten ++
        (recvRun A (infoOfParse Gen.Message.tables) ⟨s, []⟩ evs).1.queue ∧
    (bytesOf evs = (xs.map (·.msg.raw)).flatten →
      (recvRun A (infoOfParse Gen.Message.tables) ⟨s, []⟩ evs).2.length = xs.length ∧
      (recvRun A (infoOfParse Gen.Message.tables) ⟨s, []⟩ evs).1.st.buffer = [] ∧
      (recvRun A (infoOfParse Gen.Message.tables) ⟨s, []⟩ evs).1.queue = []) := by
  have hT := Msg.genTables_ok
  have hwf : ∀ m ∈ xs.map SentFd.toMsg, Spec.WellFormed m.raw := by
    intro m hm
    obtain ⟨x, hx, rfl⟩ := List.mem_map.1 hm
    exact wellFormed_of_sentFd _ hT na maxLen fuel hmax x (hxs x hx)
  have hok : ∀ m ∈ xs.map SentFd.toMsg, Spec.WellFormed m.raw ∧ MsgOK (infoOfParse Gen.Message.tables) m := by
    intro m hm
    refine ⟨hwf m hm, ?_⟩
    obtain ⟨x, hx, rfl⟩ := List.mem_map.1 hm
    exact msgOK_of_callRemote _ x.msg.raw x.body (info_of_sent _ hT na maxLen fuel x (hxs x hx))
  obtain ⟨a1, a2, a3, a4⟩ := attribution A (infoOfParse Gen.Message.tables) _ evs s hok hc hs hbuf hnext
  generalize hR : recvRun A (infoOfParse Gen.Message.tables) ⟨s, []⟩ evs = R at a1 a2 a3 a4 ⊢
  have hpf := parsedFrom_of_goodFrom _ hT na maxLen fuel xs R.2 hxs a1
  have hraws : ∀ n, bytesUpTo (xs.map SentFd.toMsg) n = ((xs.take n).map (·.msg.raw)).flatten := by
    intro n
    simp only [bytesUpTo, ← List.map_take, List.map_map]
    rfl
  have hfdss : ∀ n, fdsUpTo (xs.map SentFd.toMsg) n = ((xs.take n).map (·.ds)).flatten := by
    intro n
    simp only [fdsUpTo, ← List.map_take, List.map_map]
    congr 1
    apply List.map_congr_left
    intro y hy
    exact (toMsg_fds _ na maxLen fuel y (hxs y (List.mem_of_mem_take hy))).2.1
  refine ⟨hpf, parsedFrom_args _ fuel xs R.2 hpf, by rw [← hraws]; exact a2, a3, by rw [← hfdss]; exact a4, ?_⟩
  intro hall
  have hlen : R.2.length ≤ (xs.map SentFd.toMsg).length := by
    have := congrArg List.length (parsedFrom_args _ fuel xs R.2 hpf)
    simp only [List.length_map, List.length_take] at this ⊢
    omega
  have hb : bytesUpTo (xs.map SentFd.toMsg) (xs.map SentFd.toMsg).length =
      bytesUpTo (xs.map SentFd.toMsg) R.2.length ++ R.1.st.buffer := by
    rw [← a2, hall, hraws, List.length_map, List.take_length]
  obtain ⟨e1, e2⟩ := all_delivered (xs.map SentFd.toMsg) hwf R.2.length hlen R.1.st.buffer hb a3
  refine ⟨by simpa using e1, e2, ?_⟩
  have hp := hc.2.1
  rw [a4, e1] at hp
  have := hp.length_le
  simp only [List.length_append] at this
  exact List.eq_nil_of_length_eq_zero (by omega)


/-- **The sender of the composition.**  `sendMessage` on a method call made by C03's constructor model
(`oobFDs=[]`, body in C01's domain with descriptor arguments `ds`): `msg.oobFDs` afterwards (`oobAfter`: what
`marshal.marshal` appended to the caller's list) is `ds`, and the transport calls (`sendConstructed`: one
`sendFileDescriptor` per entry, then the `write`) are exactly those of the sender model of Proto/Fds.lean
(`callRemote` on the body's `BV` abstraction; `sender_layout`). -/
theorem sender_sends_constructed (a : Msg.CallArgs PyVal) (ts : List Ty) (pv : PyVal) (items : List PyVal)
    (vs : List Val) (ds : List Nat) (bs : Bytes) (fuel : Nat)
    (hsig : a.signature = some (renderAll ts)) (hne : renderAll ts ≠ []) (hbody : a.body = some pv)
    (hoob : a.oobFDs = some []) (hitems : Code.topItems pv = .ok items)
    (hrep : Code.RepFields (ds.map fdVal) vs true ts items 0 ds.length)
    (henc : Spec.encodeAll Code.genAlign (Txdbus.endianOf true) ts vs 0 = some bs) (hfuel : depthAll vs ≤ fuel) :
    oobAfter fuel a = some (ds.map fdVal) ∧
    sendConstructed (oobAfter fuel a) = some (callRemote true (bvOfFields ds vs ts)).2 :=
  sender_sends_constructed_gen a ts pv items vs ds bs fuel hsig hne hbody hoob hitems hrep henc hfuel

/-- The receive order induced by the sender's own transport calls for constructed messages (`senderEvs`: each
message's `sendFileDescriptor` calls as descriptor arrivals, then its `write` as one read) is `Consistent`, and
carries all the bytes. -/
theorem senderEvs_consistent (na : Char → Bool) (maxLen : Nat) (hmax : maxLen ≤ Msg.Spec.maxMessage) (fuel : Nat)
    (xs : List SentFd) (hxs : ∀ x ∈ xs, SentFdOK Gen.Message.tables na maxLen fuel x) :
    Consistent (xs.map SentFd.toMsg) (senderEvs xs) ∧ bytesOf (senderEvs xs) = (xs.map (·.msg.raw)).flatten := by
  have hlen : ∀ p ∈ xs.map (fun x => (x.msg.raw, x.body)), 16 ≤ p.1.length := by
    intro p hp
    obtain ⟨x, hx, rfl⟩ := List.mem_map.1 hp
    exact (wellFormed_of_sentFd _ Msg.genTables_ok na maxLen fuel hmax x (hxs x hx)).1
  have h := sender_calls_consistent (xs.map (fun x => (x.msg.raw, x.body))) hlen
  have e1 : (xs.map (fun x => (x.msg.raw, x.body))).map (fun p => sentMsg p.1 p.2) = xs.map SentFd.toMsg := by
    rw [List.map_map]; rfl
  have e2 : ((xs.map (fun x => (x.msg.raw, x.body))).map (fun p => (callRemote true p.2).2.map (toEv p.1))).flatten
      = senderEvs xs := by
    rw [List.map_map]; rfl
  rw [e1, e2] at h
  refine ⟨h, ?_⟩
  have hb := bytesOf_canonical (xs.map SentFd.toMsg)
  rw [← e1, canonical_eq_transport, e2, e1] at hb
  rw [hb]
  simp only [bytesUpTo, List.take_length, List.map_map]
  rfl

/-- **Sender and receiver joined** (txdbus-constructed messages; no hypothesis about the environment left): the sender
performs `sendMessage` for the constructed messages `xs` one after the other - `senderEvsCode`: for every message the
transport calls of the CODE-level sender (`sendOfCall`: `msg.oobFDs` after the constructor, one `sendFileDescriptor` per
entry, then the `write`; `sendOfCall_sent`: equal to the sender model's calls in all three branches of `SentFdOK`) -,
the receiver sees the transport calls in that order: every message is delivered with exactly its descriptors, C03's
parse on the real queue returns the messages sent, nothing stays buffered, no descriptor stays queued. -/
theorem descriptors_end_to_end_sender (na : Char → Bool) (maxLen : Nat) (hmax : maxLen ≤ Msg.Spec.maxMessage)
    (fuel : Nat) (A : Auth α) (xs : List SentFd) (s : St α)
    (hxs : ∀ x ∈ xs, SentFdOK Gen.Message.tables na maxLen fuel x)
    (hs : s.authenticated = true) (hbuf : s.buffer = []) (hnext : s.nextMsgLen = 0) :
    senderEvsCode fuel xs = senderEvs xs ∧
    ParsedFrom Gen.Message.tables fuel xs
      (recvRun A (infoOfParse Gen.Message.tables) ⟨s, []⟩ (senderEvsCode fuel xs)).2 ∧
    (recvRun A (infoOfParse Gen.Message.tables) ⟨s, []⟩ (senderEvsCode fuel xs)).2.map (fun d => (d.raw, d.args)) =
      xs.map (fun x => (x.msg.raw, x.ds.map some)) ∧
    (recvRun A (infoOfParse Gen.Message.tables) ⟨s, []⟩ (senderEvsCode fuel xs)).1.st.buffer = [] ∧
    (recvRun A (infoOfParse Gen.Message.tables) ⟨s, []⟩ (senderEvsCode fuel xs)).1.queue = [] := by
  have hcode := senderEvsCode_eq Gen.Message.tables na maxLen fuel xs hxs
  rw [hcode]
  obtain ⟨hc, hb⟩ := senderEvs_consistent na maxLen hmax fuel xs hxs
  obtain ⟨h1, h2, _, _, _, h6⟩ := descriptors_end_to_end na maxLen hmax fuel A xs (senderEvs xs) s hxs hc hs hbuf hnext
  obtain ⟨e1, e2, e3⟩ := h6 hb
  refine ⟨rfl, h1, ?_, e2, e3⟩
  rw [h2, e1, List.take_length]

/-- **The literal receiver.**  Hypotheses of `descriptors_end_to_end`.  The receiver written out literally
(`litRecvRun`, Proto/FdsMsg.lean: `fileDescriptorReceived` appends to the queue; `dataReceived` = C04's framing step, then
for every frame C04's model of the whole of `rawDBusMessageReceived`, `Receive.handleFrame`: `parseMessage(raw,
self._receivedFDs)` with C01's codec, `self._receivedFDs[m.unix_fds:]`, the hook of the message type; an escaping exception
ends the connection) run over the same events does, step for step, what the abstract receiver `recvRun (infoOfParse)` does:
same framing state, same queue (as Python ints), never crashes, one hook call per delivery (`litCallOf`); and the hook
calls are (`LitFrom`): for the first messages of `xs`, in order, the hook of the message's type with the message sent. -/
theorem descriptors_end_to_end_literal (na : Char → Bool) (maxLen : Nat) (hmax : maxLen ≤ Msg.Spec.maxMessage)
    (fuel : Nat) (A : Auth α) (xs : List SentFd) (evs : List Ev) (s : St α)
    (hxs : ∀ x ∈ xs, SentFdOK Gen.Message.tables na maxLen fuel x)
    (hc : Consistent (xs.map SentFd.toMsg) evs)
    (hs : s.authenticated = true) (hbuf : s.buffer = []) (hnext : s.nextMsgLen = 0) :
    litRecvRun Gen.Message.tables fuel A ⟨s, [], false⟩ evs =
      (⟨(recvRun A (infoOfParse Gen.Message.tables) ⟨s, []⟩ evs).1.st,
        (recvRun A (infoOfParse Gen.Message.tables) ⟨s, []⟩ evs).1.queue.map fdVal, false⟩,
       (recvRun A (infoOfParse Gen.Message.tables) ⟨s, []⟩ evs).2.map (litCallOf Gen.Message.tables fuel)) ∧
    LitFrom Gen.Message.tables xs (litRecvRun Gen.Message.tables fuel A ⟨s, [], false⟩ evs).2 := by
  have hpf := (descriptors_end_to_end na maxLen hmax fuel A xs evs s hxs hc hs hbuf hnext).1
  have hag := agrees_of_parsedFrom _ fuel xs _ hpf
  have hsim := litRecvRun_sim Gen.Message.tables fuel A (infoOfParse Gen.Message.tables) evs ⟨s, []⟩ hag
  simp only [List.map_nil] at hsim
  refine ⟨hsim, ?_⟩
  rw [hsim]
  exact litCalls_of_parsedFrom _ fuel xs _ hpf

/-- **C20 end to end on a connection that starts in line mode.**  `descriptors_end_to_end` behind an authentication
handshake (as in `attribution_after_handshake`: the descriptor queue exists from `connectionMade` on; descriptors may
arrive before the first read, among the handshake reads, together with the final handshake line; `read (d1 ++ d2)`
is the read that completes the handshake): the deliveries are the sent messages in order, each with exactly its
descriptors, C03's parse on the real queue returns the messages sent, every complete message was delivered (bytes seen
= handshake ++ delivered messages ++ buffer, the buffer holds no complete message), the queue holds the descriptors of
undelivered messages, and when all bytes have arrived every message was delivered and no descriptor is left queued.
Fragment: txdbus-constructed messages (little-endian; descriptors only in method calls) - as `descriptors_end_to_end`. -/
theorem descriptors_end_to_end_after_handshake (na : Char → Bool) (maxLen : Nat)
    (hmax : maxLen ≤ Msg.Spec.maxMessage) (fuel : Nat) (A : Auth α) (xs : List SentFd) (s : St α)
    (hs : List Bytes) (last : Bytes) (a1 a' : α) (evsA evsB : List Ev) (d1 d2 : Bytes)
    (hr : Ready s) (ha : s.authenticated = false) (hbuf : s.buffer = []) (hcl : s.closed = false)
    (hnext : s.nextMsgLen = 0)
    (hlines : ∀ l ∈ hs ++ [last], Spec.hasCRLF l = false ∧ l.length ≤ Txdbus.Gen.ProtoConst.maxAuthLength)
    (hrun : authRun A s.auth hs = some a1) (hlast : A.handle a1 last = (a', .success))
    (hH : bytesOf evsA ++ d1 = Spec.unlines (hs ++ [last]))
    (hxs : ∀ x ∈ xs, SentFdOK Gen.Message.tables na maxLen fuel x)
    (hc : ConsistentAfter (Spec.unlines (hs ++ [last])).length (xs.map SentFd.toMsg)
      (evsA ++ .read (d1 ++ d2) :: evsB)) :
    ParsedFrom Gen.Message.tables fuel xs
      (recvRun A (infoOfParse Gen.Message.tables) ⟨s, []⟩ (evsA ++ .read (d1 ++ d2) :: evsB)).2 ∧
    (recvRun A (infoOfParse Gen.Message.tables) ⟨s, []⟩ (evsA ++ .read (d1 ++ d2) :: evsB)).2.map
        (fun d => (d.raw, d.args)) =
      (xs.take (recvRun A (infoOfParse Gen.Message.tables) ⟨s, []⟩ (evsA ++ .read (d1 ++ d2) :: evsB)).2.length).map
        (fun x => (x.msg.raw, x.ds.map some)) ∧
    bytesOf (evsA ++ .read (d1 ++ d2) :: evsB) =
      Spec.unlines (hs ++ [last]) ++
        ((xs.take (recvRun A (infoOfParse Gen.Message.tables) ⟨s, []⟩ (evsA ++ .read (d1 ++ d2) :: evsB)).2.length).map
          (·.msg.raw)).flatten ++
        (recvRun A (infoOfParse Gen.Message.tables) ⟨s, []⟩ (evsA ++ .read (d1 ++ d2) :: evsB)).1.st.buffer ∧
    ¬ Spec.hasFrame (recvRun A (infoOfParse Gen.Message.tables) ⟨s, []⟩ (evsA ++ .read (d1 ++ d2) :: evsB)).1.st.buffer ∧
    fdsOf (evsA ++ .read (d1 ++ d2) :: evsB) =
      ((xs.take (recvRun A (infoOfParse Gen.Message.tables) ⟨s, []⟩ (evsA ++ .read (d1 ++ d2) :: evsB)).2.length).map
        (·.ds)).flatten ++
        (recvRun A (infoOfParse Gen.Message.tables) ⟨s, []⟩ (evsA ++ .read (d1 ++ d2) :: evsB)).1.queue ∧
    (bytesOf (evsA ++ .read (d1 ++ d2) :: evsB) = Spec.unlines (hs ++ [last]) ++ (xs.map (·.msg.raw)).flatten →
      (recvRun A (infoOfParse Gen.Message.tables) ⟨s, []⟩ (evsA ++ .read (d1 ++ d2) :: evsB)).2.length = xs.length ∧
      (recvRun A (infoOfParse Gen.Message.tables) ⟨s, []⟩ (evsA ++ .read (d1 ++ d2) :: evsB)).1.st.buffer = [] ∧
      (recvRun A (infoOfParse Gen.Message.tables) ⟨s, []⟩ (evsA ++ .read (d1 ++ d2) :: evsB)).1.queue = []) := by
  have hT := Msg.genTables_ok
  have hwf : ∀ m ∈ xs.map SentFd.toMsg, Spec.WellFormed m.raw := by
    intro m hm
    obtain ⟨x, hx, rfl⟩ := List.mem_map.1 hm
    exact wellFormed_of_sentFd _ hT na maxLen fuel hmax x (hxs x hx)
  have hok : ∀ m ∈ xs.map SentFd.toMsg, Spec.WellFormed m.raw ∧ MsgOK (infoOfParse Gen.Message.tables) m := by
    intro m hm
    refine ⟨hwf m hm, ?_⟩
    obtain ⟨x, hx, rfl⟩ := List.mem_map.1 hm
    exact msgOK_of_callRemote _ x.msg.raw x.body (info_of_sent _ hT na maxLen fuel x (hxs x hx))
  obtain ⟨b1, b2, b3, b4⟩ := attribution_after_handshake A (infoOfParse Gen.Message.tables) _ s hs last a1 a' evsA evsB
    d1 d2 hr ha hbuf hcl hnext hlines hrun hlast hH hok hc
  generalize hR : recvRun A (infoOfParse Gen.Message.tables) ⟨s, []⟩ (evsA ++ .read (d1 ++ d2) :: evsB) = R
    at b1 b2 b3 b4 ⊢
  have hpf := parsedFrom_of_goodFrom _ hT na maxLen fuel xs R.2 hxs b1
  have hraws : ∀ n, bytesUpTo (xs.map SentFd.toMsg) n = ((xs.take n).map (·.msg.raw)).flatten := by
    intro n
    simp only [bytesUpTo, ← List.map_take, List.map_map]
    rfl
  have hfdss : ∀ n, fdsUpTo (xs.map SentFd.toMsg) n = ((xs.take n).map (·.ds)).flatten := by
    intro n
    simp only [fdsUpTo, ← List.map_take, List.map_map]
    congr 1
    apply List.map_congr_left
    intro y hy
    exact (toMsg_fds _ na maxLen fuel y (hxs y (List.mem_of_mem_take hy))).2.1
  refine ⟨hpf, parsedFrom_args _ fuel xs R.2 hpf, by rw [← hraws]; exact b2, b3, by rw [← hfdss]; exact b4, ?_⟩
  intro hall
  have hlen : R.2.length ≤ (xs.map SentFd.toMsg).length := by
    have := congrArg List.length (parsedFrom_args _ fuel xs R.2 hpf)
    simp only [List.length_map, List.length_take] at this ⊢
    omega
  have hb : bytesUpTo (xs.map SentFd.toMsg) (xs.map SentFd.toMsg).length =
      bytesUpTo (xs.map SentFd.toMsg) R.2.length ++ R.1.st.buffer := by
    rw [hall, List.append_assoc] at b2
    have := List.append_cancel_left b2
    rw [← this, hraws, List.length_map, List.take_length]
  obtain ⟨e1, e2⟩ := all_delivered (xs.map SentFd.toMsg) hwf R.2.length hlen R.1.st.buffer hb b3
  refine ⟨by simpa using e1, e2, ?_⟩
  have hp := hc.2.1
  rw [b4, e1] at hp
  have := hp.length_le
  simp only [List.length_append] at this
  exact List.eq_nil_of_length_eq_zero (by omega)


/-! ## The hypotheses are satisfiable -/

/-- `MethodCallMessage('/a', 'm', signature='hh', body=[7, 7], oobFDs=[])`: two descriptor arguments, the same
descriptor number twice. -/
def exFdArgs : Msg.CallArgs PyVal :=
  { path := some "/a".toList, member := some "m".toList, signature := some "hh".toList,
    body := some (.list [.int .plain 7, .int .plain 7]), oobFDs := some [] }

def exFdCall : Msg.Call PyVal := .methodCall exFdArgs

/-- `SignalMessage('/a', 'm', 'a.b')`: no signature, no descriptors. -/
def exPlainSignal : Msg.Call PyVal :=
  .signal { path := some "/a".toList, member := some "m".toList, interface := some "a.b".toList }

/-- `SentFdOK` for the two concrete calls made one after the other in a fresh process (serials 1 and 2), and
what the theorems say about them: the parser finds `unix_fds = 2`, indices `[0, 1]` in the first and nothing in
the second; the sender's own transport calls `f7 f7 W W`, replayed into a receiver, give two deliveries, the
first with the arguments `[7, 7]`, the queue empty at the end. -/
example :
    ∃ (st1 st2 : Msg.St) (m1 m2 : Msg.Msg PyVal),
      construct Gen.Message.tables (wireCodec 2) (fun _ => false) Gen.Message.maxMsgLen
        (Msg.St.init Gen.Message.tables) exFdCall = (st1, .ok m1) ∧
      construct Gen.Message.tables (wireCodec 2) (fun _ => false) Gen.Message.maxMsgLen st1 exPlainSignal
        = (st2, .ok m2) ∧
      SentFdOK Gen.Message.tables (fun _ => false) Gen.Message.maxMsgLen 2
        ⟨m1, exFdCall, [7, 7], [.basic .h, .basic .h], [.int 0, .int 1], [.int .plain 7, .int .plain 7]⟩ ∧
      SentFdOK Gen.Message.tables (fun _ => false) Gen.Message.maxMsgLen 2 ⟨m2, exPlainSignal, [], [], [], []⟩ ∧
      infoOfParse Gen.Message.tables m1.raw = ⟨some 2, [0, 1]⟩ ∧
      infoOfParse Gen.Message.tables m2.raw = ⟨none, []⟩ ∧
      senderEvs [⟨m1, exFdCall, [7, 7], [.basic .h, .basic .h], [.int 0, .int 1], [.int .plain 7, .int .plain 7]⟩,
                 ⟨m2, exPlainSignal, [], [], [], []⟩] = [.fd 7, .fd 7, .read m1.raw, .read m2.raw] ∧
      (recvRun idleAuth (infoOfParse Gen.Message.tables) ⟨{ St.init true () with authenticated := true }, []⟩
        [.fd 7, .fd 7, .read m1.raw, .read m2.raw]).2.map (fun d => (d.raw, d.args)) =
        [(m1.raw, [some 7, some 7]), (m2.raw, [])] ∧
      (recvRun idleAuth (infoOfParse Gen.Message.tables) ⟨{ St.init true () with authenticated := true }, []⟩
        [.fd 7, .fd 7, .read m1.raw, .read m2.raw]).1.queue = [] := by
  obtain ⟨st1, m1, h1⟩ := construct_shape20 (T := Gen.Message.tables) (C := wireCodec 2)
    (na := fun _ => false) (maxLen := Gen.Message.maxMsgLen) (st := Msg.St.init Gen.Message.tables) (c := exFdCall)
    (by decide +kernel)
  have e1 : (construct Gen.Message.tables (wireCodec 2) (fun _ => false) Gen.Message.maxMsgLen
      (Msg.St.init Gen.Message.tables) exFdCall).1 = ⟨2⟩ := by decide +kernel
  rw [h1] at e1
  simp only at e1
  subst e1
  obtain ⟨st2, m2, h2⟩ := construct_shape20 (T := Gen.Message.tables) (C := wireCodec 2)
    (na := fun _ => false) (maxLen := Gen.Message.maxMsgLen) (st := ⟨2⟩) (c := exPlainSignal) (by decide +kernel)
  have hx1 : SentFdOK Gen.Message.tables (fun _ => false) Gen.Message.maxMsgLen 2
      ⟨m1, exFdCall, [7, 7], [.basic .h, .basic .h], [.int 0, .int 1], [.int .plain 7, .int .plain 7]⟩ :=
    ⟨Msg.St.init Gen.Message.tables, ⟨2⟩, by decide, h1,
      Or.inr ⟨.list [.int .plain 7, .int .plain 7], [0, 0, 0, 0, 1, 0, 0, 0], rfl,
        (by decide : renderAll [Ty.basic .h, Ty.basic .h] ≠ []), rfl,
        (by decide : allWF [Ty.basic .h, Ty.basic .h] = true), rfl,
        by simp [Code.KeysOKList, Code.KeysOK],
        (by decide +kernel : Spec.encodeAll Code.genAlign (Txdbus.endianOf true) [Ty.basic .h, Ty.basic .h]
          [Val.int 0, Val.int 1] 0 = some [0, 0, 0, 0, 1, 0, 0, 0]),
        (by decide : depthAll [Val.int 0, Val.int 1] ≤ 2), Or.inl ⟨rfl, exFd_rep⟩⟩⟩
  have hx2 : SentFdOK Gen.Message.tables (fun _ => false) Gen.Message.maxMsgLen 2 ⟨m2, exPlainSignal, [], [], [], []⟩ :=
    ⟨⟨2⟩, st2, by decide, h2, Or.inl ⟨Or.inl rfl, Or.inl rfl, rfl, rfl, rfl, rfl⟩⟩
  have hall : ∀ x ∈ [(⟨m1, exFdCall, [7, 7], [.basic .h, .basic .h], [.int 0, .int 1], [.int .plain 7, .int .plain 7]⟩ : SentFd),
      ⟨m2, exPlainSignal, [], [], [], []⟩], SentFdOK Gen.Message.tables (fun _ => false) Gen.Message.maxMsgLen 2 x := by
    intro x hx
    simp only [List.mem_cons, List.not_mem_nil, or_false] at hx
    rcases hx with rfl | rfl
    · exact hx1
    · exact hx2
  have i1 := info_of_sent _ Msg.genTables_ok _ _ _ _ hx1
  have i2 := info_of_sent _ Msg.genTables_ok _ _ _ _ hx2
  have hev : senderEvs [(⟨m1, exFdCall, [7, 7], [.basic .h, .basic .h], [.int 0, .int 1], [.int .plain 7, .int .plain 7]⟩ : SentFd),
      ⟨m2, exPlainSignal, [], [], [], []⟩] = [.fd 7, .fd 7, .read m1.raw, .read m2.raw] := by
    simp [senderEvs, SentFd.body, bvOfFields, bvOf, callRemote, marshalMsg, marshalBVs, marshalBV, sendMessage, toEv]
  obtain ⟨dc, _, d2, _, d4⟩ := descriptors_end_to_end_sender (fun _ => false) Gen.Message.maxMsgLen (by decide) 2 idleAuth _
    { St.init true () with authenticated := true } hall rfl rfl rfl
  rw [dc, hev] at d2 d4
  refine ⟨⟨2⟩, st2, m1, m2, h1, h2, hx1, hx2, ?_, ?_, hev, d2, d4⟩
  · rw [i1]; simp [SentFd.body, bvOfFields, bvOf, callRemote, marshalMsg, marshalBVs, marshalBV]
  · rw [i2]; simp [SentFd.body, bvOfFields, callRemote, marshalMsg, marshalBVs]


/-- `info_of_constructed` and `sender_sends_constructed` applied to the call `exFdCall` (signature `hh`, body
`[7, 7]`, `oobFDs=[]`), every premise discharged: the parser finds `unix_fds = 2` and the indices `[0, 1]`; the
caller's list holds `[7, 7]` afterwards and `sendMessage` makes the transport calls `f7 f7 W`. -/
example (st' : Msg.St) (m : Msg.Msg PyVal)
    (h : construct Gen.Message.tables (wireCodec 2) (fun _ => false) Gen.Message.maxMsgLen
      (Msg.St.init Gen.Message.tables) exFdCall = (st', .ok m)) :
    infoOfParse Gen.Message.tables m.raw = ⟨some 2, [0, 1]⟩ ∧
    oobAfter 2 exFdArgs = some [fdVal 7, fdVal 7] ∧
    sendConstructed (oobAfter 2 exFdArgs) = some [.sendFd 7, .sendFd 7, .write] := by
  have henc : Spec.encodeAll Code.genAlign (Txdbus.endianOf true) [Ty.basic .h, Ty.basic .h] [Val.int 0, Val.int 1] 0
      = some [0, 0, 0, 0, 1, 0, 0, 0] := by decide +kernel
  have i := (info_of_constructed (fun _ => false) Gen.Message.maxMsgLen (Msg.St.init Gen.Message.tables) st' exFdCall m
    (by decide) [.basic .h, .basic .h] (.list [.int .plain 7, .int .plain 7]) [.int .plain 7, .int .plain 7]
    [.int 0, .int 1] [7, 7] [0, 0, 0, 0, 1, 0, 0, 0] 2 rfl (by decide) rfl rfl (by decide) rfl exFd_rep henc (by decide) h).1
  have s := sender_sends_constructed exFdArgs
    [.basic .h, .basic .h] (.list [.int .plain 7, .int .plain 7]) [.int .plain 7, .int .plain 7]
    [.int 0, .int 1] [7, 7] [0, 0, 0, 0, 1, 0, 0, 0] 2 rfl (by decide) rfl rfl rfl exFd_rep henc (by decide)
  refine ⟨by rw [i]; rfl, s.1, ?_⟩
  rw [s.2]
  simp [bvOfFields, bvOf, callRemote, marshalMsg, marshalBVs, marshalBV, sendMessage]

/-- `descriptors_end_to_end_after_handshake` instantiated: a client connection that starts in line mode, the
authenticator reporting success on `BEGIN`; both descriptors of the first message arrive BEFORE the single read
that carries `BEGIN\r\n` and the two messages.  Every premise is discharged; the theorem yields the two deliveries
with the arguments `[7, 7]` and `[]`, and an empty queue. -/
example (st2 : Msg.St) (m1 m2 : Msg.Msg PyVal)
    (h1 : construct Gen.Message.tables (wireCodec 2) (fun _ => false) Gen.Message.maxMsgLen
      (Msg.St.init Gen.Message.tables) exFdCall = (⟨2⟩, .ok m1))
    (h2 : construct Gen.Message.tables (wireCodec 2) (fun _ => false) Gen.Message.maxMsgLen ⟨2⟩ exPlainSignal
      = (st2, .ok m2)) :
    (recvRun okAuth (infoOfParse Gen.Message.tables) ⟨St.init true (), []⟩
        ([.fd 7, .fd 7] ++ .read ((beginLine ++ [13, 10]) ++ (m1.raw ++ m2.raw)) :: [])).2.map
          (fun d => (d.raw, d.args)) = [(m1.raw, [some 7, some 7]), (m2.raw, [])] ∧
    (recvRun okAuth (infoOfParse Gen.Message.tables) ⟨St.init true (), []⟩
        ([.fd 7, .fd 7] ++ .read ((beginLine ++ [13, 10]) ++ (m1.raw ++ m2.raw)) :: [])).1.queue = [] := by
  have hx1 : SentFdOK Gen.Message.tables (fun _ => false) Gen.Message.maxMsgLen 2
      ⟨m1, exFdCall, [7, 7], [.basic .h, .basic .h], [.int 0, .int 1], [.int .plain 7, .int .plain 7]⟩ :=
    ⟨Msg.St.init Gen.Message.tables, ⟨2⟩, by decide, h1,
      Or.inr ⟨.list [.int .plain 7, .int .plain 7], [0, 0, 0, 0, 1, 0, 0, 0], rfl,
        (by decide : renderAll [Ty.basic .h, Ty.basic .h] ≠ []), rfl,
        (by decide : allWF [Ty.basic .h, Ty.basic .h] = true), rfl,
        by simp [Code.KeysOKList, Code.KeysOK],
        (by decide +kernel : Spec.encodeAll Code.genAlign (Txdbus.endianOf true) [Ty.basic .h, Ty.basic .h]
          [Val.int 0, Val.int 1] 0 = some [0, 0, 0, 0, 1, 0, 0, 0]),
        (by decide : depthAll [Val.int 0, Val.int 1] ≤ 2), Or.inl ⟨rfl, exFd_rep⟩⟩⟩
  have hx2 : SentFdOK Gen.Message.tables (fun _ => false) Gen.Message.maxMsgLen 2 ⟨m2, exPlainSignal, [], [], [], []⟩ :=
    ⟨⟨2⟩, st2, by decide, h2, Or.inl ⟨Or.inl rfl, Or.inl rfl, rfl, rfl, rfl, rfl⟩⟩
  let x1 : SentFd := ⟨m1, exFdCall, [7, 7], [.basic .h, .basic .h], [.int 0, .int 1], [.int .plain 7, .int .plain 7]⟩
  let x2 : SentFd := ⟨m2, exPlainSignal, [], [], [], []⟩
  have hall : ∀ x ∈ [x1, x2], SentFdOK Gen.Message.tables (fun _ => false) Gen.Message.maxMsgLen 2 x := by
    intro x hx
    simp only [List.mem_cons, List.not_mem_nil, or_false] at hx
    rcases hx with rfl | rfl
    · exact hx1
    · exact hx2
  obtain ⟨r1, f1, _⟩ := toMsg_fds Gen.Message.tables _ _ _ x1 hx1
  obtain ⟨r2, f2, _⟩ := toMsg_fds Gen.Message.tables _ _ _ x2 hx2
  have hlen1 : 16 ≤ m1.raw.length :=
    (wellFormed_of_sentFd _ Msg.genTables_ok _ _ _ (by decide) x1 hx1).1
  -- the environment: `BEGIN\r\n` is 7 bytes; the descriptors are there before the only read
  have hc : ConsistentAfter (Spec.unlines ([] ++ [beginLine])).length ([x1, x2].map SentFd.toMsg)
      ([.fd 7, .fd 7] ++ .read ((beginLine ++ [13, 10]) ++ (m1.raw ++ m2.raw)) :: []) := by
    have hb : bytesUpTo ([x1, x2].map SentFd.toMsg) 2 = m1.raw ++ m2.raw := by
      simp [bytesUpTo, r1, r2, x1, x2]
    have hf : fdsUpTo ([x1, x2].map SentFd.toMsg) 2 = [7, 7] := by
      simp [fdsUpTo, f1, f2, x1, x2]
    refine ⟨?_, ?_, ?_⟩
    · show List.drop 7 (bytesOf _) <+: bytesUpTo _ 2
      rw [hb]
      simp [bytesOf, beginLine]
    · show fdsOf _ <+: fdsUpTo _ 2
      rw [hf]; simp [fdsOf]
    · intro p hp k hk hle
      have hk2 : k ≤ 2 := by simpa using hk
      have hfk : (fdsUpTo ([x1, x2].map SentFd.toMsg) k).length ≤ 2 := by
        rcases (by omega : k = 0 ∨ k = 1 ∨ k = 2) with rfl | rfl | rfl
        · simp [fdsUpTo]
        · simp [fdsUpTo, f1, x1]
        · rw [hf]; simp
      rcases p with _ | ⟨e1, _ | ⟨e2, _ | ⟨e3, p⟩⟩⟩
      · cases k with
        | zero => simp [fdsUpTo]
        | succ k =>
          exfalso
          simp only [bytesOf, List.length_nil] at hle
          simp [Spec.unlines, beginLine] at hle
      · obtain ⟨t, ht⟩ := hp
        simp at ht
        obtain ⟨rfl, _⟩ := ht
        simp [bytesOf, Spec.unlines, beginLine] at hle
      · obtain ⟨t, ht⟩ := hp
        simp at ht
        obtain ⟨rfl, rfl, _⟩ := ht
        simp [bytesOf, Spec.unlines, beginLine] at hle
      · obtain ⟨t, ht⟩ := hp
        simp at ht
        obtain ⟨rfl, rfl, rfl, hp'⟩ := ht
        have hpn : p = [] := hp'.1
        subst hpn
        simpa [fdsOf] using hfk
  obtain ⟨_, d2, _, _, _, d4⟩ := descriptors_end_to_end_after_handshake (fun _ => false) Gen.Message.maxMsgLen (by decide) 2
    okAuth [x1, x2] (St.init true ()) [] beginLine () () [.fd 7, .fd 7] [] (beginLine ++ [13, 10]) (m1.raw ++ m2.raw)
    (Or.inl rfl) rfl rfl rfl rfl (by intro l hl; simp at hl; subst hl; decide) rfl rfl (by decide) hall hc
  have hall_bytes : bytesOf ([Ev.fd 7, .fd 7] ++ .read ((beginLine ++ [13, 10]) ++ (m1.raw ++ m2.raw)) :: []) =
      Spec.unlines ([] ++ [beginLine]) ++ ([x1, x2].map (·.msg.raw)).flatten := by
    simp [bytesOf, Spec.unlines, x1, x2]
  obtain ⟨e1, _, e3⟩ := d4 hall_bytes
  refine ⟨?_, e3⟩
  rw [d2, e1]
  rfl

/-- `MethodCallMessage('/a', 'm', signature='h', body=[9], oobFDs=[])` -/
def exFdCall2 : Msg.Call PyVal :=
  .methodCall { path := some "/a".toList, member := some "m".toList, signature := some "h".toList,
                body := some (.list [.int .plain 9]), oobFDs := some [] }

example : (construct Gen.Message.tables (wireCodec 2) (fun _ => false) Gen.Message.maxMsgLen ⟨2⟩ exFdCall2).2.toOption.isSome
    = true := by decide +kernel

/-- **A later message's descriptor queued early.**  Two descriptor-carrying calls (`hh` with `[7, 7]`, then `h` with `[9]`);
ALL three descriptors arrive before the first byte (`earliest_consistent`: an event sequence the environment allows), so
descriptor 9 of the SECOND message sits in the queue while the first message is parsed.  `descriptors_end_to_end`, every
premise discharged: the first message gets `[7, 7]`, the second `[9]`, nothing stays queued. -/
example (st3 : Msg.St) (m1 m3 : Msg.Msg PyVal)
    (h1 : construct Gen.Message.tables (wireCodec 2) (fun _ => false) Gen.Message.maxMsgLen
      (Msg.St.init Gen.Message.tables) exFdCall = (⟨2⟩, .ok m1))
    (h3 : construct Gen.Message.tables (wireCodec 2) (fun _ => false) Gen.Message.maxMsgLen ⟨2⟩ exFdCall2
      = (st3, .ok m3)) :
    (recvRun idleAuth (infoOfParse Gen.Message.tables) ⟨{ St.init true () with authenticated := true }, []⟩
        [.fd 7, .fd 7, .fd 9, .read m1.raw, .read m3.raw]).2.map (fun d => (d.raw, d.args)) =
      [(m1.raw, [some 7, some 7]), (m3.raw, [some 9])] ∧
    (recvRun idleAuth (infoOfParse Gen.Message.tables) ⟨{ St.init true () with authenticated := true }, []⟩
        [.fd 7, .fd 7, .fd 9, .read m1.raw, .read m3.raw]).1.queue = [] := by
  have hx1 : SentFdOK Gen.Message.tables (fun _ => false) Gen.Message.maxMsgLen 2
      ⟨m1, exFdCall, [7, 7], [.basic .h, .basic .h], [.int 0, .int 1], [.int .plain 7, .int .plain 7]⟩ :=
    ⟨Msg.St.init Gen.Message.tables, ⟨2⟩, by decide, h1,
      Or.inr ⟨.list [.int .plain 7, .int .plain 7], [0, 0, 0, 0, 1, 0, 0, 0], rfl,
        (by decide : renderAll [Ty.basic .h, Ty.basic .h] ≠ []), rfl,
        (by decide : allWF [Ty.basic .h, Ty.basic .h] = true), rfl,
        by simp [Code.KeysOKList, Code.KeysOK],
        (by decide +kernel : Spec.encodeAll Code.genAlign (Txdbus.endianOf true) [Ty.basic .h, Ty.basic .h]
          [Val.int 0, Val.int 1] 0 = some [0, 0, 0, 0, 1, 0, 0, 0]),
        (by decide : depthAll [Val.int 0, Val.int 1] ≤ 2), Or.inl ⟨rfl, exFd_rep⟩⟩⟩
  have hrep3 : Code.RepFields ([9].map fdVal) [.int 0] true [.basic .h] [.int .plain 9] 0 1 := by
    refine ⟨_, _, _, _, 1, rfl, rfl, ?_, ⟨rfl, rfl, rfl⟩⟩
    simp only [Code.Rep]
    exact ⟨.h, rfl, Or.inl ⟨rfl, rfl, rfl, rfl, rfl, rfl⟩⟩
  have hx3 : SentFdOK Gen.Message.tables (fun _ => false) Gen.Message.maxMsgLen 2
      ⟨m3, exFdCall2, [9], [.basic .h], [.int 0], [.int .plain 9]⟩ :=
    ⟨⟨2⟩, st3, by decide, h3,
      Or.inr ⟨.list [.int .plain 9], [0, 0, 0, 0], rfl,
        (by decide : renderAll [Ty.basic .h] ≠ []), rfl,
        (by decide : allWF [Ty.basic .h] = true), rfl,
        by simp [Code.KeysOKList, Code.KeysOK],
        (by decide +kernel : Spec.encodeAll Code.genAlign (Txdbus.endianOf true) [Ty.basic .h]
          [Val.int 0] 0 = some [0, 0, 0, 0]),
        (by decide : depthAll [Val.int 0] ≤ 2), Or.inl ⟨rfl, hrep3⟩⟩⟩
  let x1 : SentFd := ⟨m1, exFdCall, [7, 7], [.basic .h, .basic .h], [.int 0, .int 1], [.int .plain 7, .int .plain 7]⟩
  let x3 : SentFd := ⟨m3, exFdCall2, [9], [.basic .h], [.int 0], [.int .plain 9]⟩
  have hall : ∀ x ∈ [x1, x3], SentFdOK Gen.Message.tables (fun _ => false) Gen.Message.maxMsgLen 2 x := by
    intro x hx
    simp only [List.mem_cons, List.not_mem_nil, or_false] at hx
    rcases hx with rfl | rfl
    · exact hx1
    · exact hx3
  obtain ⟨r1, f1, _⟩ := toMsg_fds Gen.Message.tables _ _ _ x1 hx1
  obtain ⟨r3, f3, _⟩ := toMsg_fds Gen.Message.tables _ _ _ x3 hx3
  have hb : bytesUpTo ([x1, x3].map SentFd.toMsg) 2 = m1.raw ++ m3.raw := by
    simp [bytesUpTo, r1, r3, x1, x3]
  have hf : fdsUpTo ([x1, x3].map SentFd.toMsg) 2 = [7, 7, 9] := by
    simp [fdsUpTo, f1, f3, x1, x3]
  have hc := earliest_consistent ([x1, x3].map SentFd.toMsg) [m1.raw, m3.raw]
    (by
      intro m hm
      obtain ⟨x, hx, rfl⟩ := List.mem_map.1 hm
      exact (wellFormed_of_sentFd _ Msg.genTables_ok _ _ _ (by decide) x (hall x hx)).1)
    (by rw [show ([x1, x3].map SentFd.toMsg).length = 2 from rfl, hb]; simp)
  rw [show ([x1, x3].map SentFd.toMsg).length = 2 from rfl, hf] at hc
  simp only [List.map_cons, List.map_nil, List.cons_append, List.nil_append] at hc
  obtain ⟨_, d2, _, _, _, d6⟩ := descriptors_end_to_end (fun _ => false) Gen.Message.maxMsgLen (by decide) 2 idleAuth
    [x1, x3] _ { St.init true () with authenticated := true } hall hc rfl rfl rfl
  obtain ⟨e1, _, e3⟩ := d6 (by simp [bytesOf, x1, x3])
  refine ⟨?_, e3⟩
  rw [d2, e1]
  rfl

end FdsE2E

end Txdbus.Proto

open Txdbus.Proto in
#print axioms sender_layout
open Txdbus.Proto in
#print axioms sender_layout_general
open Txdbus.Proto in
#print axioms sender_no_signature
open Txdbus.Proto in
#print axioms resolved_all
open Txdbus.Proto in
#print axioms attribution
open Txdbus.Proto in
#print axioms attribution_after_handshake
open Txdbus.Proto in
#print axioms attribution_callRemote
open Txdbus.Proto in
#print axioms sender_calls_consistent
open Txdbus.Proto in
#print axioms model_rules_match_source
open Txdbus.Proto in
#print axioms index_beyond_declared_reaches_later_message
open Txdbus.Proto.FdsE2E in
#print axioms info_of_constructed
open Txdbus.Proto.FdsE2E in
#print axioms descriptors_end_to_end
open Txdbus.Proto.FdsE2E in
#print axioms sender_sends_constructed
open Txdbus.Proto.FdsE2E in
#print axioms senderEvs_consistent
open Txdbus.Proto.FdsE2E in
#print axioms descriptors_end_to_end_sender
open Txdbus.Proto.FdsE2E in
#print axioms descriptors_end_to_end_literal
open Txdbus.Proto.FdsE2E in
#print axioms descriptors_end_to_end_after_handshake
