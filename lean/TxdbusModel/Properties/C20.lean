import TxdbusModel.Proofs.Proto.FdsSender
import TxdbusModel.Properties.C04
import TxdbusModel.Gen.FdsRules
/-!
# C20 - file descriptors stay attached to the message that carried them

Code model: Proto/Fds.lean (sender: `marshalBV` = `marshal_unix_fd` over a body tree, `marshalMsg` =
the `unix_fds` rule of `_marshal`, `sendMessage`, `callRemote`; receiver: `recvEv` =
`fileDescriptorReceived` / `dataReceived` + `rawDBusMessageReceived`, on top of the framing model of
C04).  Environment model: `Consistent ms evs` (Proto/Fds.lean) - what a stream socket may do.

Definitions used in the statements (Proofs/Proto/FdsLemmas.lean, FdsRun.lean):
`MsgOK info m` - the abstract parser finds in `m.raw` the index values `m.idx`, a `unix_fds` header equal
to the number of descriptors sent with `m` (absent when there are none), and every index refers to one
of the message's own descriptors (what `sender_layout` guarantees for txdbus's own sender);
`GoodFrom ms ds` - `ds` are deliveries of the first messages of `ms`, in order, each with every `h`
argument resolved to the descriptor sent at that position with that very message, the queue at that
moment being the message's own descriptors followed by early arrivals of later messages, and exactly
the message's own descriptors removed afterwards.
-/
namespace Txdbus.Proto

variable {α : Type}

/-- **C20.1**  `callRemote` (a fresh out-of-band list per call) for an arbitrary body: the
out-of-band list is the descriptor arguments in argument order, the index values written are
`0 .. k-1` in argument order, the `unix_fds` header is `k` (absent iff there are no descriptors), and the
transport sees one `sendFileDescriptor` per descriptor, in argument order, all before the one `write`. -/
theorem sender_layout (body : List BV) :
    (callRemote true body).1.oob = fdLeavesL body ∧
    (callRemote true body).1.indices = List.range (fdLeavesL body).length ∧
    (callRemote true body).1.header =
      (if (fdLeavesL body).isEmpty then none else some (fdLeavesL body).length) ∧
    (callRemote true body).2 = (fdLeavesL body).map SendEv.sendFd ++ [SendEv.write] := by
  simp [callRemote, marshalMsg, sendMessage, marshalBVs_spec, List.range_eq_range']

/-- C20.1 for a caller-supplied list that already holds `oob0` (direct construction of a
`MethodCallMessage`): indices continue after the entries already present, the header counts all
entries, and all of them are sent ahead of the bytes. -/
theorem sender_layout_general (body : List BV) (oob0 : List Nat) :
    (marshalMsg true body oob0).oob = oob0 ++ fdLeavesL body ∧
    (marshalMsg true body oob0).indices = List.range' oob0.length (fdLeavesL body).length ∧
    (marshalMsg true body oob0).header =
      (if (oob0 ++ fdLeavesL body).isEmpty then none else some (oob0.length + (fdLeavesL body).length)) ∧
    sendMessage (marshalMsg true body oob0) = (oob0 ++ fdLeavesL body).map SendEv.sendFd ++ [SendEv.write] := by
  simp [marshalMsg, sendMessage, marshalBVs_spec]

/-- A message without a signature marshals no body: no index, no header, nothing but the bytes is sent
by `callRemote`. -/
theorem sender_no_signature (body : List BV) :
    callRemote false body = (⟨none, [], []⟩, [SendEv.write]) := by
  simp [callRemote, marshalMsg, sendMessage]

/-- With the sender's layout (`idx = 0 .. k-1`) every descriptor argument resolves, in order, to the
message's descriptors. -/
theorem resolved_all (m : Msg) (h : m.idx = List.range m.fds.length) :
    m.idx.map (fun j => m.fds[j]?) = m.fds.map some := by
  rw [h]
  apply List.ext_getElem?
  intro i
  simp only [List.getElem?_map]
  by_cases hi : i < m.fds.length
  · simp [hi]
  · simp [hi]

/-- **C20.2**  For every sequence of messages `ms` (well-formed for framing; parsed consistently with
what was sent, `MsgOK`), every event sequence `evs` a stream socket can produce for them (`Consistent`:
bytes in order cut arbitrarily into reads, descriptors in sending order, those of message `i` no later
than the read containing its last byte - possibly long before, while earlier messages are incomplete),
a receiver starting in binary mode with empty buffer and empty queue:

* delivers the messages in order, each with every `h` argument resolved to the descriptor sent at that
  position with that very message; at that moment the queue is `fds(i) ++ early arrivals of later
  messages`, and exactly `|fds(i)|` entries are removed (`GoodFrom`);
* has delivered every complete message (the buffer holds no complete message; bytes seen = bytes of the
  delivered messages ++ buffer);
* keeps exactly the descriptors of undelivered messages queued. -/
theorem attribution (A : Auth α) (info : Bytes → MsgInfo) (ms : List Msg) (evs : List Ev) (s : St α)
    (hok : ∀ m ∈ ms, Spec.WellFormed m.raw ∧ MsgOK info m)
    (hc : Consistent ms evs)
    (hs : s.authenticated = true) (hbuf : s.buffer = []) (hnext : s.nextMsgLen = 0) :
    GoodFrom ms (recvRun A info ⟨s, []⟩ evs).2 ∧
    bytesOf evs = bytesUpTo ms (recvRun A info ⟨s, []⟩ evs).2.length ++ (recvRun A info ⟨s, []⟩ evs).1.st.buffer ∧
    ¬ Spec.hasFrame (recvRun A info ⟨s, []⟩ evs).1.st.buffer ∧
    fdsOf evs = fdsUpTo ms (recvRun A info ⟨s, []⟩ evs).2.length ++ (recvRun A info ⟨s, []⟩ evs).1.queue := by
  have inv0 : Inv ms (⟨s, []⟩ : Recv α) [] 0 := by
    refine ⟨Nat.zero_le _, ?_, ?_, ?_, hs⟩
    · simp [bytesOf, bytesUpTo, hbuf]
    · simp [fdsOf, fdsUpTo]
    · refine Or.inl ⟨hnext, ?_⟩
      show s.buffer.length < 16
      rw [hbuf]; decide
  obtain ⟨k', _, inv', hlen, hgood⟩ := recv_run_inv A info ms hok evs [] ⟨s, []⟩ 0 (by simpa using hc) inv0
  simp only [Nat.sub_zero, List.drop_zero, List.nil_append] at hlen hgood inv'
  rw [hlen]
  exact ⟨hgood, inv'.hbytes, framed_noFrame _ inv'.hframed, inv'.hfds⟩

/-- **C20.2 on a connection that starts in line mode**  The descriptor queue exists from
`connectionMade` on.  The stream is a handshake (as in C04 `handoff`: lines without CR LF, within the
limit, the authenticator answering cont ... cont success) followed by the messages `ms`; `evsA` are the
events before the read that completes the handshake, `read (d1 ++ d2)` is that read (`d1` the end of the
handshake, `d2` the first message bytes, either may be empty), `evsB` what follows.  Descriptors may
arrive anywhere (`ConsistentAfter`): before the first read, among the handshake reads, together with
the final handshake line - as long as those of message `i` are there when its last byte is read.
Then the conclusion of `attribution` holds for the whole run. -/
theorem attribution_after_handshake (A : Auth α) (info : Bytes → MsgInfo) (ms : List Msg) (s : St α)
    (hs : List Bytes) (last : Bytes) (a1 a' : α) (evsA evsB : List Ev) (d1 d2 : Bytes)
    (hr : Ready s) (ha : s.authenticated = false) (hbuf : s.buffer = []) (hcl : s.closed = false)
    (hnext : s.nextMsgLen = 0)
    (hlines : ∀ l ∈ hs ++ [last], Spec.hasCRLF l = false ∧ l.length ≤ Txdbus.Gen.ProtoConst.maxAuthLength)
    (hrun : authRun A s.auth hs = some a1) (hlast : A.handle a1 last = (a', .success))
    (hH : bytesOf evsA ++ d1 = Spec.unlines (hs ++ [last]))
    (hok : ∀ m ∈ ms, Spec.WellFormed m.raw ∧ MsgOK info m)
    (hc : ConsistentAfter (Spec.unlines (hs ++ [last])).length ms (evsA ++ .read (d1 ++ d2) :: evsB)) :
    GoodFrom ms (recvRun A info ⟨s, []⟩ (evsA ++ .read (d1 ++ d2) :: evsB)).2 ∧
    bytesOf (evsA ++ .read (d1 ++ d2) :: evsB) =
      Spec.unlines (hs ++ [last]) ++
        bytesUpTo ms (recvRun A info ⟨s, []⟩ (evsA ++ .read (d1 ++ d2) :: evsB)).2.length ++
        (recvRun A info ⟨s, []⟩ (evsA ++ .read (d1 ++ d2) :: evsB)).1.st.buffer ∧
    ¬ Spec.hasFrame (recvRun A info ⟨s, []⟩ (evsA ++ .read (d1 ++ d2) :: evsB)).1.st.buffer ∧
    fdsOf (evsA ++ .read (d1 ++ d2) :: evsB) =
      fdsUpTo ms (recvRun A info ⟨s, []⟩ (evsA ++ .read (d1 ++ d2) :: evsB)).2.length ++
        (recvRun A info ⟨s, []⟩ (evsA ++ .read (d1 ++ d2) :: evsB)).1.queue := by
  -- cut the read that completes the handshake at the end of the handshake
  have hsplit : recvRun A info ⟨s, []⟩ (evsA ++ .read (d1 ++ d2) :: evsB) =
      recvRun A info ⟨s, []⟩ ((evsA ++ [.read d1]) ++ .read d2 :: evsB) := by
    rw [recvRun_append, recvRun_read_split A info _ d1 d2 evsB (recvRun_ready A info ⟨s, []⟩ evsA hr),
      ← recvRun_append]
    simp
  -- the handshake part is quiet and ends in binary mode with an empty buffer
  have hreads : (readsOf (evsA ++ [.read d1])).flatten = Spec.unlines (hs ++ [last]) ++ [] := by
    rw [flatten_readsOf, bytesOf_append]; simpa [bytesOf] using hH
  have hne : readsOf (evsA ++ [.read d1]) ≠ [] := by
    rw [readsOf_append]; simp [readsOf]
  have hho := handoff A s hs last [] (readsOf (evsA ++ [.read d1])) a1 a' hr ha hbuf hcl hnext hlines hrun hlast
    hne hreads
  have hq := recvRun_quiet A info s [] (evsA ++ [.read d1]) (by rw [hho.2.1, frames_nil])
  -- the binary part, the descriptors of the handshake phase already queued
  have hcons := consistentAfter_binary _ ms evsA evsB d1 d2 (by rw [hH]) (fun m hm => (hok m hm).1.1) hc
  have hfds1 : fdsOf (evsA ++ [.read d1]) = fdsOf evsA := by rw [fdsOf_append]; simp [fdsOf]
  have inv0 : Inv ms (⟨(run A s (readsOf (evsA ++ [.read d1]))).1, fdsOf evsA⟩ : Recv α)
      ((fdsOf evsA).map Ev.fd) 0 := by
    refine ⟨Nat.zero_le _, ?_, ?_, hho.2.2.2.2.2, hho.2.2.2.1⟩
    · rw [bytesOf_map_fd]
      show [] = bytesUpTo ms 0 ++ (run A s (readsOf (evsA ++ [.read d1]))).1.buffer
      rw [hho.2.2.1, frames_nil]; simp [bytesUpTo]
    · rw [fdsOf_map_fd]; simp [fdsUpTo]
  obtain ⟨k', _, inv', hlen, hgood⟩ := recv_run_inv A info ms hok (.read d2 :: evsB) _ _ 0 hcons inv0
  rw [hsplit, recvRun_append, hq]
  simp only [List.nil_append, hfds1, Nat.sub_zero, List.drop_zero] at hlen hgood inv' ⊢
  rw [hlen]
  refine ⟨hgood, ?_, framed_noFrame _ inv'.hframed, ?_⟩
  · have hb := inv'.hbytes
    rw [bytesOf_append, bytesOf_map_fd] at hb
    simp only [bytesOf, List.nil_append] at hb
    rw [bytesOf_append]
    simp only [bytesOf]
    have e : bytesOf evsA ++ (d1 ++ d2 ++ bytesOf evsB) = (bytesOf evsA ++ d1) ++ (d2 ++ bytesOf evsB) := by
      simp [List.append_assoc]
    rw [e, hH, hb]
    simp [List.append_assoc]
  have := inv'.hfds
  rw [fdsOf_append, fdsOf_map_fd] at this
  rw [fdsOf_append]
  simpa [fdsOf] using this

/-- **C20.1 + C20.2 composed.**  The messages are what `callRemote` sends for arbitrary bodies
(`sentMsg raw body`: descriptors = the descriptor arguments in argument order, indices `0..k-1`), their
bytes `raw` are well-formed for framing (C03) and the parser reads back the header field and the indices
that were written (C01-C03 round trip - the one link that is an assumption here, see ASSUMPTIONS).  Then
for every event sequence a stream socket may produce every delivered message carries, in every `h`
argument, exactly the descriptor passed for that argument: `args = (descriptor arguments).map some`. -/
theorem attribution_callRemote (A : Auth α) (info : Bytes → MsgInfo) (pairs : List (Bytes × List BV))
    (evs : List Ev) (s : St α)
    (hp : ∀ p ∈ pairs, Spec.WellFormed p.1 ∧
      info p.1 = ⟨(callRemote true p.2).1.header, (callRemote true p.2).1.indices⟩)
    (hc : Consistent (pairs.map (fun p => sentMsg p.1 p.2)) evs)
    (hs : s.authenticated = true) (hbuf : s.buffer = []) (hnext : s.nextMsgLen = 0) :
    (recvRun A info ⟨s, []⟩ evs).2.map (fun d => (d.raw, d.args)) =
      (pairs.take (recvRun A info ⟨s, []⟩ evs).2.length).map (fun p => (p.1, (fdLeavesL p.2).map some)) := by
  have hok : ∀ m ∈ pairs.map (fun p => sentMsg p.1 p.2), Spec.WellFormed m.raw ∧ MsgOK info m := by
    intro m hm
    obtain ⟨p, hpm, rfl⟩ := List.mem_map.1 hm
    exact ⟨(hp p hpm).1, msgOK_of_callRemote info p.1 p.2 (hp p hpm).2⟩
  have hidx : ∀ m ∈ pairs.map (fun p => sentMsg p.1 p.2), m.idx = List.range m.fds.length := by
    intro m hm
    obtain ⟨p, _, rfl⟩ := List.mem_map.1 hm
    simp [sentMsg, callRemote, marshalMsg, marshalBVs_spec, List.range_eq_range']
  have h := attribution A info _ evs s hok hc hs hbuf hnext
  rw [goodFrom_args _ _ h.1 hidx, ← List.map_take, List.map_map]
  apply List.map_congr_left
  intro p _
  simp [sentMsg, callRemote, marshalMsg, marshalBVs_spec, Function.comp_def]

/-- The receive order induced by the sender's own transport calls (each `sendFileDescriptor` a
descriptor arrival, each `write` one read, nothing reordered) is `Consistent`: `sendMessage`'s order
"descriptors first, then the bytes" is what puts a message's descriptors ahead of its last byte. -/
theorem sender_calls_consistent (pairs : List (Bytes × List BV)) (hlen : ∀ p ∈ pairs, 16 ≤ p.1.length) :
    Consistent (pairs.map (fun p => sentMsg p.1 p.2))
      (pairs.map (fun p => (callRemote true p.2).2.map (toEv p.1))).flatten := by
  rw [← canonical_eq_transport]
  apply canonical_consistent
  intro m hm
  obtain ⟨p, hpm, rfl⟩ := List.mem_map.1 hm
  exact hlen p hpm

/-- **Tie to the source.**  The rules of descriptor handling that Proto/Fds.lean mirrors
(`marshalBV`: index = length before the append; `marshalMsg`: header = length of the list iff non-empty;
`sendMessage`: one `sendFd` per entry in order, then `write`; `deliver`: index into the whole queue,
`IndexError` -> none, exactly the declared count removed; `recvEv (.fd n)`: unconditional append;
`callRemote`: fresh list) hold for the repository under test - regenerated on every run by
tools/tables/c20_fds.py from the AST (or, for an unknown shape, from the behaviour on crafted inputs) -
and `_marshal` emits the count under the header code that `message._hcode` names `unix_fds`. -/
theorem model_rules_match_source :
    Gen.FdsRules.indexBeforeAppend = true ∧ Gen.FdsRules.resolveByIndex = true ∧
    Gen.FdsRules.headerCountIsLen = true ∧ Gen.FdsRules.sendEachThenWrite = true ∧
    Gen.FdsRules.consumeDeclared = true ∧ Gen.FdsRules.queueAlwaysAppends = true ∧
    Gen.FdsRules.callRemoteFreshList = true ∧
    Gen.FdsRules.unixFdsHeaderCode = Gen.ProtoConst.unixFdsCode := by decide

/-! ## Boundary of the claim (outside the property: a sender that does not follow `sender_layout`) -/

/-- A message that declares no descriptors but carries an `h` argument with index 0 reads the
descriptor of a LATER message that arrived early, and leaves it queued (`unmarshal_unix_fd` indexes the
whole queue, not the declared part).  txdbus's own sender never produces such a message. -/
theorem index_beyond_declared_reaches_later_message :
    deliver (fun _ => ⟨none, [0]⟩) [7] [] = ([7], ⟨[], [some 7], [7], [7]⟩) := by
  decide

/-! ## The hypotheses are satisfiable -/

/-- a 16-byte message sent with descriptor 5, its body index 0 (abstractly) -/
example : Consistent [⟨tinyMsg16, [5], [0]⟩] [.fd 5, .read tinyMsg16] ∧
    Consistent [⟨tinyMsg16, [5], [0]⟩] [.read (tinyMsg16.take 3), .fd 5, .read (tinyMsg16.drop 3)] := by
  refine ⟨⟨by decide, by decide, ?_⟩, ⟨by decide, by decide, ?_⟩⟩
  · intro p hp k hk hle
    have hk' : k = 0 ∨ k = 1 := by simp at hk; omega
    rcases hk' with rfl | rfl
    · simp [fdsUpTo]
    · rcases p with _ | ⟨e1, _ | ⟨e2, _ | ⟨e3, p⟩⟩⟩
      · simp [bytesOf, bytesUpTo, tinyMsg16] at hle
      · obtain ⟨t, ht⟩ := hp
        simp at ht
        obtain ⟨rfl, _⟩ := ht
        simp [bytesOf, bytesUpTo, tinyMsg16] at hle
      · obtain ⟨t, ht⟩ := hp
        simp at ht
        obtain ⟨rfl, rfl, _⟩ := ht
        simp [fdsOf, fdsUpTo]
      · obtain ⟨t, ht⟩ := hp
        simp at ht
  · intro p hp k hk hle
    have hk' : k = 0 ∨ k = 1 := by simp at hk; omega
    rcases hk' with rfl | rfl
    · simp [fdsUpTo]
    · rcases p with _ | ⟨e1, _ | ⟨e2, _ | ⟨e3, _ | ⟨e4, p⟩⟩⟩⟩
      · simp [bytesOf, bytesUpTo, tinyMsg16] at hle
      · obtain ⟨t, ht⟩ := hp
        simp at ht
        obtain ⟨rfl, _⟩ := ht
        simp [bytesOf, bytesUpTo, tinyMsg16] at hle
      · obtain ⟨t, ht⟩ := hp
        simp at ht
        obtain ⟨rfl, rfl, _⟩ := ht
        simp [fdsOf, fdsUpTo]
      · obtain ⟨t, ht⟩ := hp
        simp at ht
        obtain ⟨rfl, rfl, rfl, _⟩ := ht
        simp [fdsOf, fdsUpTo]
      · obtain ⟨t, ht⟩ := hp
        simp at ht

/-- `attribution_after_handshake`: handshake `BEGIN\r\n`, the descriptor arrives before the single read
that holds the handshake line and the message -/
example : bytesOf [Ev.fd 5] ++ (beginLine ++ [13, 10]) = Spec.unlines ([] ++ [beginLine]) ∧
    ConsistentAfter (Spec.unlines ([] ++ [beginLine])).length [⟨tinyMsg16, [5], [0]⟩]
      ([Ev.fd 5] ++ Ev.read ((beginLine ++ [13, 10]) ++ tinyMsg16) :: []) := by
  refine ⟨by decide, by decide, by decide, ?_⟩
  intro p hp k hk hle
  have hk' : k = 0 ∨ k = 1 := by simp at hk; omega
  rcases hk' with rfl | rfl
  · simp [fdsUpTo]
  · rcases p with _ | ⟨e1, _ | ⟨e2, _ | ⟨e3, p⟩⟩⟩
    · simp [bytesOf, bytesUpTo, tinyMsg16, Spec.unlines, beginLine] at hle
    · obtain ⟨t, ht⟩ := hp
      simp at ht
      obtain ⟨rfl, _⟩ := ht
      simp [bytesOf, bytesUpTo, tinyMsg16, Spec.unlines, beginLine] at hle
    · obtain ⟨t, ht⟩ := hp
      simp at ht
      obtain ⟨rfl, rfl, _⟩ := ht
      simp [fdsOf, fdsUpTo]
    · obtain ⟨t, ht⟩ := hp
      simp at ht

example : Spec.WellFormed tinyMsg16 ∧
    MsgOK (fun _ => ⟨some 1, [0]⟩) ⟨tinyMsg16, [5], [0]⟩ := by
  refine ⟨by decide, rfl, Or.inl rfl, ?_⟩
  intro j hj
  simp at hj
  subst hj
  decide

end Txdbus.Proto

open Txdbus.Proto in
#print axioms sender_layout
open Txdbus.Proto in
#print axioms sender_layout_general
open Txdbus.Proto in
#print axioms sender_no_signature
open Txdbus.Proto in
#print axioms resolved_all
open Txdbus.Proto in
#print axioms attribution
open Txdbus.Proto in
#print axioms attribution_after_handshake
open Txdbus.Proto in
#print axioms attribution_callRemote
open Txdbus.Proto in
#print axioms sender_calls_consistent
open Txdbus.Proto in
#print axioms model_rules_match_source
open Txdbus.Proto in
#print axioms index_beyond_declared_reaches_later_message
