/-! Property theorems for C20 (stub: none yet). -/
