/-! Property theorems for C13 (stub: none yet). -/
