import TxdbusModel.Proofs.Bus.Semantics
import TxdbusModel.Proofs.Bus.Belief
import TxdbusModel.Proofs.Bus.SpecExec
import TxdbusModel.Proofs.Bus.Lookup
import TxdbusModel.Proofs.Bus.LookupRoute
import TxdbusModel.Proofs.Bus.LookupRouteRun
import TxdbusModel.Bus.NamesPre
/-!
# Property C13 — built-in bus: a name has one live owner; ownership follows request flags

Code model `Txdbus.Bus` (`Bus/Names.lean`, mirrors txdbus/bus.py after fixes C13-01..03),
specification `Txdbus.Bus.Spec` (`Bus/SpecNames.lean`).  All theorems are about *every* state a
fresh bus can reach by *any* finite history of connects, disconnects, RequestName (any flag
word), ReleaseName, GetNameOwner, ListQueuedOwners by any number of connections on any number
of names (`Reachable`), and about every step from such a state.

* `s.queue n`  — the queue of name `n` (connections, head = owner);  `s.owner n` its head;
* `s.connected c` — `c` is a connection the bus knows;  `s.flag c n` — `c`'s own table entry.
-/
namespace Txdbus.Bus

open Txdbus.Gen.C13Codes

/-! ## 1. Invariants of every reachable state -/

/-- Queues are duplicate-free, every queued connection is connected and has the name in its own
table, no empty queue is stored, unique names are fresh. -/
theorem inv_reachable {s : State} (h : Reachable s) : Inv s := inv_of_reachable h

/-- The invariant is preserved by every successful step, whoever issues it. -/
theorem inv_step {s s' : State} {op : Op} {evs : List Event} (hI : Inv s)
    (h : step s op = .ok (s', evs)) : Inv s' := (step_refines hI h).1

/-- The owner of a name (the head of its queue - one by construction; that no second connected
client *believes* it owns the name is `at_most_one_believer` below) is a connected client and
does not also wait in the queue; everybody who waits is connected and waits once. -/
theorem at_most_one_owner_and_alive {s : State} (h : Reachable s) (n : Name) :
    (∀ o, s.owner n = some o → s.connected o = true ∧ o ∉ (s.queue n).tail) ∧
    (∀ c, c ∈ s.queue n → s.connected c = true ∧ (s.queue n).count c = 1) := by
  have hI := inv_of_reachable h
  refine ⟨?_, ?_⟩
  · intro o ho
    unfold State.owner at ho
    cases hq : s.queue n with
    | nil => rw [hq] at ho; cases ho
    | cons x rest =>
      rw [hq] at ho
      simp only [List.head?_cons, Option.some.injEq] at ho
      subst ho
      refine ⟨hI.alive n x (by rw [hq]; simp), ?_⟩
      have := hI.nodup n
      rw [hq] at this
      exact (List.nodup_cons.mp this).1
  · intro c hc
    refine ⟨hI.alive n c hc, ?_⟩
    rw [(hI.nodup n).count]; simp [hc]

/-- On a reachable state no operation of a connected caller makes Python raise
(no KeyError / IndexError / AttributeError path is taken). -/
theorem step_never_raises {s : State} (h : Reachable s) (op : Op)
    (hc : ∀ c, op.caller = some c → s.connected c = true) :
    ∃ s' evs, step s op = .ok (s', evs) := step_ok (inv_of_reachable h) op hc

/-- Every history in which each operation is sent by a connection that is connected at that
moment runs to its end (so the history-level theorems below are not vacuous for it). -/
theorem wellformed_history_runs (ops : List Op) (hw : WellFormed State.init ops) :
    ∃ s evss, run State.init ops = .ok (s, evss) := run_ok_of_wellFormed ops inv_init hw

/-! ## 2. RequestName -/

/-- The owner is replaced iff it allowed replacement (in its latest request) and the requester
asked to replace; otherwise the requester waits (once, keeping its place if it already waited)
iff it did not decline queueing; every other connection keeps its place; events and reply code
are as listed in `RequestSemantics`. -/
theorem request_semantics {s : State} (h : Reachable s) {c : Conn} (hc : s.connected c = true)
    (n : Name) (w : Nat) :
    ∃ s' evs, step s (.request c n w) = .ok (s', evs) ∧ RequestSemantics s c n w s' evs := by
  have hI := inv_of_reachable h
  obtain ⟨s', evs, h1, p⟩ := requestName_post hI hc n w
  exact ⟨s', evs, h1, requestSemantics_of_post hI p⟩

/-- The reply code states the caller's resulting relation to the name:
owner (1 or 4) iff it now owns it, queued (2) iff it waits, refused (3) iff it neither owns nor waits. -/
theorem reply_states_relation {s : State} (h : Reachable s) {c : Conn} {n : Name} {w : Nat}
    {s' : State} {evs : List Event} (hs : step s (.request c n w) = .ok (s', evs)) :
    ∃ code, evs.getLast? = some (.reply c code) ∧
      ((code = nameAcquired ∨ code = nameAlreadyOwner) ↔ s'.owner n = some c) ∧
      (code = nameInQueue ↔ (c ∈ s'.queue n ∧ s'.owner n ≠ some c)) ∧
      (code = nameInUse ↔ c ∉ s'.queue n) := by
  have hI := inv_of_reachable h
  have hc := requestName_connected hs
  obtain ⟨s1, ev1, h1, p⟩ := requestName_post hI hc n w
  have : step s (.request c n w) = requestName s c n w := rfl
  rw [this, h1] at hs
  cases hs
  exact reply_relation_of_post hI p

/-! ## 3. ReleaseName and disconnect -/

/-- After a release the caller neither owns nor waits; if it was the owner the longest-waiting
connection is the new owner and is sent NameAcquired; codes released / non-existent / not-owner. -/
theorem release_semantics {s : State} (h : Reachable s) {c : Conn} (hc : s.connected c = true)
    (n : Name) :
    ∃ s' evs, step s (.release c n) = .ok (s', evs) ∧ ReleaseSemantics s c n s' evs := by
  have hI := inv_of_reachable h
  obtain ⟨s', evs, code, h1, p⟩ := releaseName_post hI hc n
  exact ⟨s', _, h1, releaseSemantics_of_post hI p⟩

/-- After a disconnect the connection is in no queue of any name; wherever it was the owner the
longest-waiting connection is the new owner and is sent NameAcquired; nothing else is sent. -/
theorem disconnect_semantics {s : State} (h : Reachable s) {c : Conn} (hc : s.connected c = true) :
    ∃ s' evs, step s (.disconnect c) = .ok (s', evs) ∧ DisconnectSemantics s c s' evs := by
  have hI := inv_of_reachable h
  obtain ⟨s', evs, h1, p⟩ := disconnect_post hI hc
  exact ⟨s', evs, h1, disconnectSemantics_of_post hI p⟩

/-- "... and is told so", over whole histories: a connection that tracks the NameAcquired /
NameLost signals it receives (`told d n false (all events so far)`) believes it owns a name
exactly when it is the owner - after every history from a fresh bus, for every connected
client and every name. -/
theorem signals_track_ownership {ops : List Op} {s : State} {evss : List (List Event)}
    (h : run State.init ops = .ok (s, evss)) (d : Conn) (n : Name) (hd : s.connected d = true) :
    told d n false evss.flatten = true ↔ s.owner n = some d :=
  (bel_run inv_init bel_init h).owner_iff d n hd

/-- Hence two connected clients never both believe they own the same name. -/
theorem at_most_one_believer {ops : List Op} {s : State} {evss : List (List Event)}
    (h : run State.init ops = .ok (s, evss)) (n : Name) (d1 d2 : Conn)
    (h1 : s.connected d1 = true) (h2 : s.connected d2 = true)
    (b1 : told d1 n false evss.flatten = true) (b2 : told d2 n false evss.flatten = true) :
    d1 = d2 := by
  have e1 := (signals_track_ownership h d1 n h1).mp b1
  have e2 := (signals_track_ownership h d2 n h2).mp b2
  rw [e1] at e2
  exact Option.some.inj e2

/-! ## 4. Lookups and listings agree with the table -/

theorem queries_agree {s : State} (h : Reachable s) (c : Conn) (n : Name) :
    step s (.getOwner c n) = .ok (s, [match s.owner n with
                                       | some o => .replyOwner c o
                                       | none => .replyNoOwner c]) ∧
    step s (.listQueued c n) = .ok (s, [if s.queue n = [] then .replyNoOwner c
                                        else .replyQueue c (s.queue n)]) := by
  have hI := inv_of_reachable h
  constructor
  · show getNameOwner s c n = _
    rw [getNameOwner_post hI c n]
    unfold State.owner
    cases s.queue n <;> rfl
  · show listQueuedOwners s c n = _
    rw [listQueuedOwners_post s c n]
    cases s.queue n <;> rfl

/-! ## 5. Refinement of the specification -/

/-- Every successful step of the code model from a state satisfying the invariant is a step of
`SpecNames` between the abstracted states, with the same replies and NameAcquired / NameLost
signals in the same order (the NameOwnerChanged broadcasts, which the specification leaves open,
dropped). -/
theorem refines_spec {s s' : State} {op : Op} {evs : List Event} (hI : Inv s)
    (h : step s op = .ok (s', evs)) :
    Spec.Step (abs s) op (evs.filterMap Event.toSpec) (abs s') := (step_refines hI h).2

/-- Whole histories from a fresh bus. -/
theorem run_refines_spec {ops : List Op} {s : State} {evss : List (List Event)}
    (h : run State.init ops = .ok (s, evss)) :
    Spec.Run Spec.State.init ops (evss.map (fun evs => evs.filterMap Event.toSpec)) (abs s) := by
  have := (run_refines inv_init h).2
  rw [abs_init] at this
  exact this

/-- The executable instance of the specification that the driver runs against the harness's
reference table (stream `spec-vs-reference`) only makes steps the specification allows. -/
theorem spec_exec_sound {names : List Name} {fresh : Conn} {σ σ' : Spec.State} {op : Op}
    {evs : List Spec.Ev} (hnd : names.Nodup) (hcover : ∀ n, σ.queue n ≠ [] → n ∈ names)
    (h : Spec.exec names fresh σ op = some (σ', evs)) : Spec.Step σ op evs σ' :=
  Spec.exec_sound hnd hcover h

/-! ## 6. Tables from the source, client side -/

/-- The constants of txdbus.client / bus.py / error.py are those of the DBus specification. -/
theorem codes_match_spec :
    nameAcquired = Spec.ReqReply.primaryOwner.code ∧ nameInQueue = Spec.ReqReply.inQueue.code ∧
    nameInUse = Spec.ReqReply.exists_.code ∧ nameAlreadyOwner = Spec.ReqReply.alreadyOwner.code ∧
    nameReleased = Spec.RelReply.released.code ∧ nameNonExistent = Spec.RelReply.nonExistent.code ∧
    nameNotOwner = Spec.RelReply.notOwner.code ∧
    busMaskAllowReplacement = Spec.flagAllowReplacement ∧
    busMaskReplaceExisting = Spec.flagReplaceExisting ∧ busMaskDoNotQueue = Spec.flagDoNotQueue ∧
    clientMaskAllowReplacement = Spec.flagAllowReplacement ∧
    clientMaskReplaceExisting = Spec.flagReplaceExisting ∧
    clientMaskDoNotQueue = Spec.flagDoNotQueue ∧
    clientSuccessCodes = [Spec.ReqReply.primaryOwner.code, Spec.ReqReply.alreadyOwner.code] ∧
    failedReason nameInQueue = 1 ∧ failedReason nameInUse = 2 := by decide

/-- The bus decodes exactly the three booleans `requestBusName` encoded. -/
theorem client_flags_roundtrip (a r d : Bool) :
    decodeFlags (clientFlags a r d) = { allow := a, replace := r, dnq := d } := by
  cases a <;> cases r <;> cases d <;> decide

/-- `requestBusName(..., errbackUnlessAcquired=True)` succeeds iff the caller owns the name after
the request; otherwise it raises FailedToAcquireName carrying the reply code. -/
theorem client_success_iff_owner {s : State} (h : Reachable s) {c : Conn} {n : Name} {w : Nat}
    {s' : State} {evs : List Event} (hs : step s (.request c n w) = .ok (s', evs)) :
    ∃ code, evs.getLast? = some (.reply c code) ∧
      (clientOnResult true code = .ok code ↔ s'.owner n = some c) ∧
      (clientOnResult true code = .error code ↔ s'.owner n ≠ some c) ∧
      clientOnResult false code = .ok code := by
  obtain ⟨code, hlast, hown, _, _⟩ := reply_states_relation h hs
  refine ⟨code, hlast, ?_, ?_, rfl⟩
  · rw [clientOnResult_ok_iff, hown]
  · rw [clientOnResult_error_iff, hown]

/-! ## 9. The router reads the table as the specification does (extension 2026-09-30, seam with C14)

`routerLookup s d` mirrors the destination resolution of `Bus.sendMessage`; `(abs s).ownerOf d` is the
owner of `d` in the words of the specification (`Spec.State.ownerOf`), `abs s` being the specification
state the same history leads to (`run_refines_spec`). -/

/-- In every reachable state, for every destination name: the connection the router's lookup returns is
exactly the specification's owner and it is connected; for a well-known name it is the head of the
queue and it is `none` iff the specification says the name has no owner; for the unique name `:1.k` it
is connection `k` iff `k` is still connected, otherwise nobody, never anybody else; any other colon name
has no receiver. -/
theorem router_lookup_is_spec_owner {s : State} (h : Reachable s) :
    (∀ d, routerLookup s d = (abs s).ownerOf d) ∧
    (∀ d o, routerLookup s d = some o → s.connected o = true) ∧
    (∀ n, routerLookup s (.wellKnown n) = s.owner n ∧
          (routerLookup s (.wellKnown n) = none ↔ (abs s).queue n = [])) ∧
    (∀ k, (routerLookup s (.unique k) = some k ↔ s.connected k = true) ∧
          (routerLookup s (.unique k) = none ↔ s.connected k = false) ∧
          (∀ j, routerLookup s (.unique k) = some j → j = k)) ∧
    routerLookup s .foreign = none := by
  have hI := inv_of_reachable h
  refine ⟨fun d => routerLookup_abs hI d, fun d o ho => routerLookup_alive hI ho, ?_, ?_, rfl⟩
  · intro n
    refine ⟨routerLookup_wellKnown hI n, ?_⟩
    rw [routerLookup_wellKnown hI n]
    show _ ↔ absQueue s n = []
    rw [absQueue_eq_nil]
    unfold State.owner
    cases s.queue n <;> simp
  · intro k
    rw [routerLookup_unique]
    by_cases hk : s.connected k = true
    · simp [hk]
    · simp [hk]

/-- Histories in which RequestName / ReleaseName / connects / disconnects are interleaved with
addressed messages (`send`) and GetNameOwner of any name (`ask`): the code model's run is a run of the
specification with the same observations - every message is received by the owner the specification
determines at that point of the history (or by nobody), every question is answered with it. -/
theorem lookup_follows_history {hs : List HStep} {s : State} {outs : List HOut}
    (h : runL State.init hs = .ok (s, outs)) :
    Spec.RunL Spec.State.init hs (outs.map HOut.toSpec) (abs s) := by
  have := (runL_refines inv_init h).2
  rw [abs_init] at this
  exact this

/-- "... at that moment": cut a history at any message.  The history before it runs, the specification
follows it to a state `σ1`, the message is received by `σ1`'s owner of the destination - a connection
that is connected in `σ1` - or by nobody if `σ1` has no owner for it; whatever happens afterwards
(`h2`) does not matter. -/
theorem lookup_at_that_moment {h1 h2 : List HStep} {c : Conn} {d : Dest} {s : State} {outs : List HOut}
    (h : runL State.init (h1 ++ HStep.send c d :: h2) = .ok (s, outs)) :
    ∃ s1 o1 σ1, runL State.init h1 = .ok (s1, o1) ∧
      Spec.RunL Spec.State.init h1 (o1.map HOut.toSpec) σ1 ∧
      outs[h1.length]? = some (.delivered (σ1.ownerOf d)) ∧
      (∀ o, σ1.ownerOf d = some o → σ1.connected o = true) := by
  obtain ⟨s1, o1, o2, ha, hb, hc⟩ := runL_append h
  obtain ⟨hI1, hrun⟩ := runL_refines inv_init ha
  rw [abs_init] at hrun
  refine ⟨s1, o1, abs s1, ha, hrun, ?_, ?_⟩
  · have hlen : o1.length = h1.length := by
      have := runL_length ha
      exact this
    simp only [runL, stepL] at hb
    cases hr : runL s1 h2 with
    | error e => simp [hr] at hb
    | ok r =>
      obtain ⟨s2, os2⟩ := r
      simp only [hr] at hb
      cases hb
      rw [hc, ← hlen, routerLookup_abs hI1 d]
      simp
  · intro o ho
    rw [← routerLookup_abs hI1 d] at ho
    exact routerLookup_alive hI1 ho

/-- The states of a history with lookups are the states of the plain name history (a message or a
question is other traffic): every theorem about `Reachable` states applies between the steps. -/
theorem lookups_change_nothing {hs : List HStep} {s : State} {outs : List HOut}
    (h : runL State.init hs = .ok (s, outs)) :
    ∃ evss, run State.init (hs.map HStep.toOp) = .ok (s, evss) := runL_state inv_init h

/-- `queries_agree` for every name: GetNameOwner of a unique name, of any other colon name and of a
well-known name answers the router's lookup (NameHasNoOwner iff the router would drop the message),
never raises and changes nothing; for a well-known name it is the modelled `dbus_GetNameOwner`, and
ListQueuedOwners lists a queue that starts with the same connection, resp. answers NameHasNoOwner
iff the lookup finds nobody (txdbus has no NameHasOwner method; this is the same question). -/
theorem queries_agree_any_name {s : State} (h : Reachable s) (c : Conn) (d : Dest) :
    getNameOwnerOf s c d = .ok (s, [match routerLookup s d with
                                    | some o => .replyOwner c o
                                    | none => .replyNoOwner c]) ∧
    (∀ n, d = .wellKnown n →
      step s (.getOwner c n) = getNameOwnerOf s c d ∧
      step s (.listQueued c n) = .ok (s, [match routerLookup s d with
                                          | some o => .replyQueue c (o :: (s.queue n).tail)
                                          | none => .replyNoOwner c])) := by
  have hI := inv_of_reachable h
  refine ⟨?_, ?_⟩
  · rw [getNameOwnerOf_post hI c d]
    unfold lookupEvent
    cases routerLookup s d <;> rfl
  · intro n hd
    subst hd
    refine ⟨rfl, ?_⟩
    rw [(queries_agree h c n).2, routerLookup_wellKnown hI n]
    unfold State.owner
    cases s.queue n <;> simp

/-! ## 7. The hypotheses are satisfiable -/

/-- Two connections, the second waits behind the first: a reachable state with a connected owner,
a non-trivial queue and a caller to which every theorem above applies. -/
example : ∃ s, Reachable s ∧ s.connected 1 = true ∧ s.connected 2 = true ∧ s.queue 0 = [1, 2] := by
  have h := @reachable_of_run [.connect, .connect, .request 1 0 0, .request 2 0 0] State.init
  refine ⟨_, h Reachable.init rfl, ?_, ?_, ?_⟩ <;> decide

example : observe [.connect, .connect, .request 1 0 1, .request 2 0 0, .request 2 0 2] 0
    = some ([2], [1, 2], [.nameLost 1 0, .nameAcquired 2 0, .ownerChanged 0 (some 1) (some 2), .reply 2 1]) := by
  decide

/-- Two connections, the second waits behind the first: the router finds the owner for the well-known
name, each connected client under its unique name, nobody for a unique name not handed out. -/
example : ∃ s, Reachable s ∧ routerLookup s (.wellKnown 0) = some 1 ∧ routerLookup s (.unique 2) = some 2 ∧
    routerLookup s (.unique 3) = none ∧ routerLookup s (.wellKnown 1) = none := by
  have h := @reachable_of_run [.connect, .connect, .request 1 0 0, .request 2 0 0] State.init
  refine ⟨_, h Reachable.init rfl, ?_, ?_, ?_, ?_⟩ <;> decide

/-- A history with lookups: the same destination is received by 1, then (after a replacement) by 2,
then (after 2 disconnected) by nobody, and the unique name of 2 has no receiver any more either. -/
example : (runL State.init [.op .connect, .op .connect, .op (.request 1 0 1), .send 2 (.wellKnown 0),
      .op (.request 2 0 2), .send 1 (.wellKnown 0), .send 1 (.unique 2), .ask 1 (.unique 2),
      .op (.disconnect 2), .send 1 (.wellKnown 0), .send 1 (.unique 2), .ask 1 (.unique 2)]).toOption.map
      (fun r => r.2.filterMap (fun o => match o with
                                        | .delivered t => some (some t)
                                        | .events [.replyOwner _ o] => some (some (some o))
                                        | .events [.replyNoOwner _] => some none
                                        | _ => none))
    = some [some (some 1), some (some 2), some (some 2), some (some 2), some none, some none, none] := by
  decide

/-! ## 8. Pre-fix witnesses: the model of the code before C13-01..03 violates the property
(`Pre.observe history name` = queue of the name, connected connections, events of the last step) -/

/-- F18 (C13-01): a request with flags 0 for an owned name is answered IN_USE (3) and not queued. -/
theorem prefix_request_without_replace_not_queued :
    Pre.observe [.connect, .connect, .request 1 0 0, .request 2 0 0] 0
      = some ([1], [1, 2], [.reply 2 3]) ∧
    observe [.connect, .connect, .request 1 0 0, .request 2 0 0] 0
      = some ([1, 2], [1, 2], [.reply 2 2]) := by decide

/-- F19 (C13-02): a queued connection asking again is queued twice. -/
theorem prefix_queued_twice :
    Pre.observe [.connect, .connect, .request 1 0 0, .request 2 0 2, .request 2 0 2] 0
      = some ([1, 2, 2], [1, 2], [.reply 2 2]) ∧
    observe [.connect, .connect, .request 1 0 0, .request 2 0 2, .request 2 0 2] 0
      = some ([1, 2], [1, 2], [.reply 2 2]) := by decide

/-- (C13-02): a queued connection asking again with DO_NOT_QUEUE is refused but keeps waiting. -/
theorem prefix_refused_but_still_queued :
    Pre.observe [.connect, .connect, .request 1 0 0, .request 2 0 2, .request 2 0 6] 0
      = some ([1, 2], [1, 2], [.reply 2 3]) ∧
    observe [.connect, .connect, .request 1 0 0, .request 2 0 2, .request 2 0 6] 0
      = some ([1], [1, 2], [.reply 2 3]) := by decide

/-- F19 (C13-03): a queued connection releasing is answered NOT_OWNER (3) and keeps waiting. -/
theorem prefix_queued_release_not_owner :
    Pre.observe [.connect, .connect, .request 1 0 0, .request 2 0 2, .release 2 0] 0
      = some ([1, 2], [1, 2], [.reply 2 3]) ∧
    observe [.connect, .connect, .request 1 0 0, .request 2 0 2, .release 2 0] 0
      = some ([1], [1, 2], [.reply 2 1]) := by decide

/-- F19 (C13-03): a connection that disconnects while queued stays queued and becomes the owner
when the owner releases: the owner is not connected, and NameAcquired goes to a dead transport. -/
theorem prefix_dead_queued_client_becomes_owner :
    Pre.observe [.connect, .connect, .request 1 0 0, .request 2 0 2, .disconnect 2, .release 1 0] 0
      = some ([2], [1], [.nameLost 1 0, .nameAcquired 2 0, .reply 1 1]) ∧
    observe [.connect, .connect, .request 1 0 0, .request 2 0 2, .disconnect 2, .release 1 0] 0
      = some ([], [1], [.nameLost 1 0, .reply 1 1]) := by decide

/-- F19 at the seam with C14: before C13-03 the router's lookup for the well-known name finds a
connection that has disconnected (a message for the name is written to a closed transport); on the
repaired model nobody is found (`router_lookup_is_spec_owner` fails for the pre-fix model). -/
theorem prefix_router_finds_dead_owner :
    Pre.lookupAfter [.connect, .connect, .request 1 0 0, .request 2 0 2, .disconnect 2, .release 1 0]
      (.wellKnown 0) = some (some 2, false) ∧
    lookupAfter [.connect, .connect, .request 1 0 0, .request 2 0 2, .disconnect 2, .release 1 0]
      (.wellKnown 0) = some (none, false) := by decide

/-- Not a defect, documented: ReleaseName leaves the name in the caller's own table, so the table
is a superset of (not exactly) the names whose queue contains the connection (`Inv.tabled` is
one-directional).  The stale entry is never read (`refines_spec` holds with it). -/
theorem stale_table_entry_witness :
    (run State.init [.connect, .request 1 0 1, .release 1 0]).toOption.map
      (fun r => (r.1.queue 0, r.1.flag 1 0)) = some ([], some true) := by decide

end Txdbus.Bus

/-! ## 10. C14's routing model on C13's name table (extension 2026-09-30)

C14's model (`Txdbus.BusRoute`) keeps the heads of the queues in its own field `owners`, changed only
by the `setOwner` / `unsetOwner` effects its events carry; `unicast_exact` / `owner_unique` of C14
hold for every effect list and need no hypothesis about that table - but say nothing about who is in
it.  `OwnersAgree enc φ s o`: C14's table `o` holds, for every well-known name, the connection C13's
`routerLookup s` finds (`enc` = the name's string, `φ` = C13's connection number -> C14's index).
`ownerEffects enc φ names s s'` = the effects C13's model computes for a step `s -> s'`. -/
namespace Txdbus.NamesRoute

open Txdbus.BusRoute (Cfg ConnId Effect applyEffects)

variable {ρ : Type} {enc : Bus.Name → BusRoute.Name} {φ : Bus.Conn → ConnId}

/-- Every successful step of C13's model (any operation, from any state satisfying the invariant):
C14's `applyEffects`, given the effects C13 computes for the names the operation can change (with any
signals in between: `agree_applyEffects`), leaves C14's table in agreement with C13's lookup. -/
theorem owners_follow_names_step (he : NameEnc enc) (cfg : Cfg ρ) {s s' : Bus.State} (hI : Bus.Inv s)
    {op : Bus.Op} {evs : List Bus.Event} (hs : Bus.step s op = .ok (s', evs))
    (r : BusRoute.State ρ) (ha : OwnersAgree enc φ s r.owners) :
    OwnersAgree enc φ s' (applyEffects cfg r (ownerEffects enc φ (Bus.changedNames s op) s s')).1.owners :=
  agree_step he cfg hI hs r ha

/-- Whole histories (name operations interleaved with lookups) from a fresh bus: a C14 table that starts
empty and is fed the effect lists of C13's model, in order, agrees with C13's lookup after the history
(hence, prefixes being histories, at every moment of it). -/
theorem owners_follow_names_history (he : NameEnc enc) (cfg : Cfg ρ) {hs : List Bus.HStep} {s : Bus.State}
    {outs : List Bus.HOut} (h : Bus.runL Bus.State.init hs = .ok (s, outs))
    (r : BusRoute.State ρ) (hr0 : r.owners = []) :
    OwnersAgree enc φ s (applyEffects cfg r (runEffects enc φ Bus.State.init hs).flatten).1.owners := by
  rw [applyEffects_owners, hr0]
  exact agree_run he Bus.inv_init (fun n => rfl) h

/-- On such a table C14's model of the lookup (`BusRoute.resolve`) IS C13's (`Bus.routerLookup`). -/
theorem router_models_agree (he : NameEnc enc) {s : Bus.State} (r : BusRoute.State ρ)
    (ha : OwnersAgree enc φ s r.owners) (n : Bus.Name) :
    BusRoute.resolve r (enc n) = (Bus.routerLookup s (.wellKnown n)).map φ :=
  resolve_is_routerLookup he r ha n

/-- C14's `unicast_exact` for the bus whose names are managed by C13's model: after ANY history of C14's
model whose table agrees with a reachable state `s` of C13's model, a message for a well-known name sent
by a live connection is delivered exactly once, to the connection C13's specification names as the owner
in `abs s` (a connection that is connected according to C13), and to nobody when there is no owner. -/
theorem unicast_reaches_spec_owner {cfg : Cfg ρ} (hr : cfg.Repaired) (h : List (BusRoute.Event ρ))
    (he : NameEnc enc) {s : Bus.State} (hs : Bus.Reachable s)
    (ha : OwnersAgree enc φ s (BusRoute.final cfg BusRoute.State.init h).owners)
    (i : ConnId) (m : BusRoute.Msg) (op : BusRoute.BusOp ρ) (n : Bus.Name)
    (hm : BusRoute.Addressed m (enc n)) (hl : BusRoute.Live (BusRoute.final cfg BusRoute.State.init h) i) :
    ∃ nm, BusRoute.nameOf (BusRoute.step cfg (BusRoute.final cfg BusRoute.State.init h) (.msg i m op)).1 i = some nm ∧
      (BusRoute.step cfg (BusRoute.final cfg BusRoute.State.init h) (.msg i m op)).2.deliveries =
        (match (Bus.abs s).ownerOf (.wellKnown n) with
         | some k => [⟨φ k, .fwd i (BusRoute.remarshal m nm)⟩]
         | none => []) ∧
      (∀ k, (Bus.abs s).ownerOf (.wellKnown n) = some k → s.connected k = true) :=
  unicast_reaches_names_owner hr h he hs ha i m op n hm hl

/-- What C13 adds to C14's `owner_unique`: the (unique) owner of a well-known name is a LIVE connection
of C14's model as soon as the connections C13 has connected are (C14's invariant leaves `owners` free). -/
theorem wellknown_owner_is_live (he : NameEnc enc) {s : Bus.State} (hs : Bus.Reachable s)
    (r : BusRoute.State ρ) (ha : OwnersAgree enc φ s r.owners)
    (hlive : ∀ k, s.connected k = true → BusRoute.Live r (φ k))
    (j : ConnId) (n : Bus.Name) (hj : BusRoute.Owns r j (enc n)) : BusRoute.Live r j :=
  names_owner_live he hs r ha hlive j n hj

/-! The hypotheses are satisfiable: strings `a`, `aa`, ... for the names; C13 history: 1 owns name 0,
2 waits, 1 disconnects; C14 history: two connections, the first disconnects and the effect list of that
disconnect is the one C13's model computes (`setOwner (enc 0) 1`: hand-over to the waiter);
`exEnc`, `exHist`, `exBase` are in Proofs/Bus/LookupRoute.lean. -/
example (cfg : Cfg ρ) :
    ∃ (h : List (BusRoute.Event ρ)) (s : Bus.State), Bus.Reachable s ∧
      Bus.routerLookup s (.wellKnown 0) = some 2 ∧
      OwnersAgree exEnc (fun k => k - 1) s (BusRoute.final cfg BusRoute.State.init h).owners ∧
      BusRoute.Live (BusRoute.final cfg BusRoute.State.init h) 1 ∧
      BusRoute.Owns (BusRoute.final cfg BusRoute.State.init h) 1 (exEnc 0) := by
  obtain ⟨s, outs, hrun⟩ : ∃ s outs, Bus.runL Bus.State.init exHist = .ok (s, outs) := ⟨_, _, rfl⟩
  have hlook : Bus.routerLookup s (.wellKnown 0) = some 2 := by
    have : (Bus.runL Bus.State.init exHist).toOption.map (fun r => Bus.routerLookup r.1 (.wellKnown 0))
        = some (some 2) := by decide
    rw [hrun] at this
    simpa [Except.toOption] using this
  have hreach : Bus.Reachable s := by
    obtain ⟨evss, h2⟩ := Bus.lookups_change_nothing hrun
    exact Bus.reachable_of_run Bus.Reachable.init h2
  let effs := (runEffects exEnc (fun k => k - 1) Bus.State.init exHist).flatten
  have hfin : BusRoute.final cfg BusRoute.State.init [.connect, .connect, .disconnect 0 effs]
      = (applyEffects cfg (exBase (ρ := ρ)) effs).1 := by
    generalize effs = e
    rfl
  have hagree := owners_follow_names_history (φ := fun k => k - 1) exEnc_ok cfg hrun (exBase (ρ := ρ)) rfl
  refine ⟨[.connect, .connect, .disconnect 0 effs], s, hreach, hlook, ?_, ?_, ?_⟩
  · rw [hfin]; exact hagree
  · rw [hfin]
    show BusRoute.connected _ 1 = true
    rw [BusRoute.connected_congr _ _ (BusRoute.applyEffects_frame cfg exBase effs).1]
    rfl
  · rw [hfin, owns_wellKnown exEnc_ok, hagree 0, hlook]
    rfl

/-! ## 11. One bus: C13's model and C14's model run together (extension 2026-09-30, revised after review 3)

`Linked enc s hs es` (Proofs/Bus/LookupRouteRun.lean): the history `es` of C14's model is a run of the same
bus as the history `hs` of C13's model.  A C13 `connect` is `connect` + that connection's Hello (any such
message); a RequestName / ReleaseName is ANY call to the bus by that connection classified `.exec effs`
whose owner part is what C13's model computes (signals free); a `disconnect` likewise; and between these
ANY message event of C14's model that carries no owner effect - AddMatch (so match rules exist),
broadcasts, addressed messages of any type, a second Hello, traffic of dead or unknown connection indices.
`Joint enc s r`: both invariants, equal counters, connection `i` of C14 carries `:1.(i+1)` and is live iff
C13 has `i+1` connected, `OwnersAgree`.  Nothing is assumed about rules or Hello flags.

**Why `_partial`.**  Missing from `Linked`: C14 histories in which a connection authenticates and stays
silent, or whose first message is not Hello, while others are named (then C13's number and C14's index are
not `k - 1` apart; the real bus and C13's model agree there - corpus 15, stream family `first-message` -
but the joint theorem would need a map through `nameOf`).  Also by construction, not by observation: the
owner part of the effect lists is C13's (`ownerEffects` = `Bus.ownerChanges`, which the stream
`router-lookup-bytes` compares with the real bus through the driver command `e`).  The full statement would
be: for EVERY history of C14's model whose effect lists are those of the name operations in it, every
unicast goes to C13's specification owner. -/

/-- Every history of C13's model has a linked history of C14's model (the statements below are not vacuous). -/
theorem linked_history_exists {hs : List Bus.HStep} {s : Bus.State} {outs : List Bus.HOut}
    (h : Bus.runL Bus.State.init hs = .ok (s, outs)) :
    Linked (ρ := ρ) enc Bus.State.init hs (gen enc Bus.State.init hs) := linked_gen h

/-- The joint invariant holds after every pair of linked histories. -/
theorem joint_bus_invariant_partial {cfg : Cfg ρ} (hr : cfg.Repaired) (he : NameEnc enc)
    {hs : List Bus.HStep} {es : List (BusRoute.Event ρ)} (hl : Linked enc Bus.State.init hs es)
    {s : Bus.State} {outs : List Bus.HOut} (h : Bus.runL Bus.State.init hs = .ok (s, outs)) :
    Joint enc s (BusRoute.final cfg BusRoute.State.init es) :=
  joint_linked hr he hl (Joint.init enc) h

/-- **Composition of C13 and C14** (partial: see the section header).  Let `h1` (C13's model, to `s1`) and
`es` (C14's model, to `r1`) be linked.  Then ANY message `m` whose destination is the string of ANY
destination `d` (well-known, `:1.k`, other colon name; not the bus, not empty), sent by a connection `c`
that C13 has connected, under ANY classification `op` - any type, any sender field, any body, whatever
match rules anybody holds: C14's model delivers it exactly once, re-marshalled under the sender's true
name `:1.c`, to the connection that C13's SPECIFICATION names as the owner of `d` at that moment - `abs s1`,
the specification state that the specification's own run of `h1` reaches (second conjunct) - or to nobody
when the specification has no owner; the state of C14's model does not change; the receiver is connected in
C13's model, live in C14's and carries the unique name `:1.k` there. -/
theorem joint_bus_unicast_partial {cfg : Cfg ρ} (hr : cfg.Repaired) (he : NameEnc enc)
    (fgn : BusRoute.Name) (hf : fgn.head? = some ':') (hf2 : ∀ k, fgn ≠ BusRoute.uniqueNameOf k)
    {h1 : List Bus.HStep} {es : List (BusRoute.Event ρ)} (hl : Linked enc Bus.State.init h1 es)
    {s1 : Bus.State} {o1 : List Bus.HOut} (h : Bus.runL Bus.State.init h1 = .ok (s1, o1))
    {c : Bus.Conn} (hc : s1.connected c = true) (d : Bus.Dest)
    (m : BusRoute.Msg) (op : BusRoute.BusOp ρ) (hm : BusRoute.Addressed m (destStr enc fgn d)) :
    (BusRoute.step cfg (BusRoute.final cfg BusRoute.State.init es) (.msg (phi c) m op)).1 =
      BusRoute.final cfg BusRoute.State.init es ∧
    Bus.Spec.RunL Bus.Spec.State.init h1 (o1.map Bus.HOut.toSpec) (Bus.abs s1) ∧
    (BusRoute.step cfg (BusRoute.final cfg BusRoute.State.init es) (.msg (phi c) m op)).2.deliveries =
      (match (Bus.abs s1).ownerOf d with
       | some k => [⟨phi k, .fwd (phi c) (BusRoute.remarshal m (BusRoute.uniqueNameOf c))⟩]
       | none => []) ∧
    (∀ k, (Bus.abs s1).ownerOf d = some k → s1.connected k = true ∧
      BusRoute.Live (BusRoute.final cfg BusRoute.State.init es) (phi k) ∧
      BusRoute.nameOf (BusRoute.final cfg BusRoute.State.init es) (phi k) = some (BusRoute.uniqueNameOf k)) := by
  have J := joint_bus_invariant_partial (cfg := cfg) hr he hl h
  have hI := J.invN
  obtain ⟨a, b⟩ := J.send hr he fgn hf hf2 hc d m op hm
  refine ⟨a, Bus.lookup_follows_history h, ?_, ?_⟩
  · rw [b, Bus.routerLookup_abs hI]
    cases (Bus.abs s1).ownerOf d <;> rfl
  · intro k hk
    rw [← Bus.routerLookup_abs hI] at hk
    have hck := Bus.routerLookup_alive hI hk
    obtain ⟨_, _, x, hget, hxn, hxl⟩ := J.conn_of hck
    refine ⟨hck, ?_, ?_⟩
    · show BusRoute.connected _ (phi k) = true
      rw [BusRoute.connected_of_getElem _ _ _ hget]; exact hxl
    · rw [BusRoute.nameOf_of_getElem _ _ _ hget]; exact hxn

/-- The bus's own name (review F2): in a joint state a message addressed to `org.freedesktop.DBus` is
forwarded to nobody - whoever holds that name in C13's table (C13's `stepL (.sendBus c)` = `delivered none`,
`Spec.StepL`: "answered by the bus and not forwarded"). -/
theorem joint_bus_self_addressed_partial {cfg : Cfg ρ} (hr : cfg.Repaired) (he : NameEnc enc)
    {h1 : List Bus.HStep} {es : List (BusRoute.Event ρ)} (hl : Linked enc Bus.State.init h1 es)
    {s1 : Bus.State} {o1 : List Bus.HOut} (h : Bus.runL Bus.State.init h1 = .ok (s1, o1))
    {c : Bus.Conn} (hc : s1.connected c = true) (m : BusRoute.Msg) (op : BusRoute.BusOp ρ)
    (hm : m.dest = some BusRoute.busName) :
    Bus.stepL s1 (.sendBus c) = .ok (s1, .delivered none) ∧
    ∀ dl ∈ (BusRoute.step cfg (BusRoute.final cfg BusRoute.State.init es) (.msg (phi c) m op)).2.deliveries,
      dl.what.isFwd = false :=
  ⟨rfl, (joint_bus_invariant_partial (cfg := cfg) hr he hl h).sendBus hr hc m op hm⟩

/-- In the joint system C14's owner of a well-known name is always a live connection (what C14's
`owner_unique` cannot say on its own). -/
theorem joint_bus_owner_is_live_partial {cfg : Cfg ρ} (hr : cfg.Repaired) (he : NameEnc enc)
    {hs : List Bus.HStep} {es : List (BusRoute.Event ρ)} (hl : Linked enc Bus.State.init hs es)
    {s : Bus.State} {outs : List Bus.HOut} (h : Bus.runL Bus.State.init hs = .ok (s, outs))
    (j : ConnId) (n : Bus.Name) (hj : BusRoute.Owns (BusRoute.final cfg BusRoute.State.init es) j (enc n)) :
    BusRoute.Live (BusRoute.final cfg BusRoute.State.init es) j := by
  have J := joint_bus_invariant_partial (cfg := cfg) hr he hl h
  obtain ⟨evss, h2⟩ := Bus.lookups_change_nothing h
  exact J.owner_live he (Bus.reachable_of_run Bus.Reachable.init h2) j n hj

/-- The hypotheses are satisfiable: the example history runs (and has a linked history by
`linked_history_exists`, to which any owner-free traffic may be added), its sender 2 is connected at the
end, the name has an owner; `exEnc` / `exForeign` are admissible strings; a message of any type with a
forged sender is `Addressed`. -/
example : ∃ s1 o1, Bus.runL Bus.State.init exHist = .ok (s1, o1) ∧ s1.connected 2 = true ∧
    (Bus.abs s1).ownerOf (.wellKnown 0) = some 2 ∧ (Bus.abs s1).ownerOf (.unique 1) = none ∧
    NameEnc exEnc ∧ exForeign.head? = some ':' ∧ (∀ k, exForeign ≠ BusRoute.uniqueNameOf k) ∧
    BusRoute.Addressed exMsg (destStr exEnc exForeign (.wellKnown 0)) := by
  obtain ⟨s, outs, hrun⟩ : ∃ s outs, Bus.runL Bus.State.init exHist = .ok (s, outs) := ⟨_, _, rfl⟩
  have hI := (Bus.runL_refines Bus.inv_init hrun).1
  have h3 : (Bus.runL Bus.State.init exHist).toOption.map (fun r =>
      (r.1.connected 2, Bus.routerLookup r.1 (.wellKnown 0), Bus.routerLookup r.1 (.unique 1)))
      = some (true, some 2, none) := by decide
  rw [hrun] at h3
  simp only [Except.toOption, Option.map_some, Option.some.injEq, Prod.mk.injEq] at h3
  refine ⟨s, outs, hrun, h3.1, ?_, ?_, exEnc_ok, exForeign_ok.1, exForeign_ok.2, rfl,
    (exEnc_addressed 0).1, (exEnc_addressed 0).2⟩
  · rw [← Bus.routerLookup_abs hI]; exact h3.2.1
  · rw [← Bus.routerLookup_abs hI]; exact h3.2.2

/-- A linked history with foreign traffic in it: an AddMatch by connection 0 and a broadcast by a dead index
between the steps of the example. -/
example : ∃ es : List (BusRoute.Event Unit), Linked exEnc Bus.State.init exHist es ∧ es.length = 9 := by
  obtain ⟨s, outs, hrun⟩ : ∃ s outs, Bus.runL Bus.State.init exHist = .ok (s, outs) := ⟨_, _, rfl⟩
  have hl := linked_history_exists (ρ := Unit) (enc := exEnc) hrun
  refine ⟨.msg 0 (busCallMsg nameMember) (.addMatch ()) ::
          .msg 7 (default : BusRoute.Msg) .always :: gen exEnc Bus.State.init exHist,
    Linked.neutral _ _ _ (fun _ h => by cases h) (Linked.neutral _ _ _ (fun _ h => by cases h) hl), ?_⟩
  decide

end Txdbus.NamesRoute

#print axioms Txdbus.Bus.inv_reachable
#print axioms Txdbus.Bus.inv_step
#print axioms Txdbus.Bus.at_most_one_owner_and_alive
#print axioms Txdbus.Bus.step_never_raises
#print axioms Txdbus.Bus.wellformed_history_runs
#print axioms Txdbus.Bus.request_semantics
#print axioms Txdbus.Bus.reply_states_relation
#print axioms Txdbus.Bus.release_semantics
#print axioms Txdbus.Bus.disconnect_semantics
#print axioms Txdbus.Bus.signals_track_ownership
#print axioms Txdbus.Bus.at_most_one_believer
#print axioms Txdbus.Bus.queries_agree
#print axioms Txdbus.Bus.refines_spec
#print axioms Txdbus.Bus.run_refines_spec
#print axioms Txdbus.Bus.spec_exec_sound
#print axioms Txdbus.Bus.codes_match_spec
#print axioms Txdbus.Bus.client_flags_roundtrip
#print axioms Txdbus.Bus.client_success_iff_owner
#print axioms Txdbus.Bus.prefix_request_without_replace_not_queued
#print axioms Txdbus.Bus.prefix_queued_twice
#print axioms Txdbus.Bus.prefix_refused_but_still_queued
#print axioms Txdbus.Bus.prefix_queued_release_not_owner
#print axioms Txdbus.Bus.prefix_dead_queued_client_becomes_owner
#print axioms Txdbus.Bus.stale_table_entry_witness
#print axioms Txdbus.Bus.router_lookup_is_spec_owner
#print axioms Txdbus.Bus.lookup_follows_history
#print axioms Txdbus.Bus.lookup_at_that_moment
#print axioms Txdbus.Bus.lookups_change_nothing
#print axioms Txdbus.Bus.queries_agree_any_name
#print axioms Txdbus.Bus.prefix_router_finds_dead_owner
#print axioms Txdbus.NamesRoute.owners_follow_names_step
#print axioms Txdbus.NamesRoute.owners_follow_names_history
#print axioms Txdbus.NamesRoute.router_models_agree
#print axioms Txdbus.NamesRoute.unicast_reaches_spec_owner
#print axioms Txdbus.NamesRoute.wellknown_owner_is_live
#print axioms Txdbus.NamesRoute.linked_history_exists
#print axioms Txdbus.NamesRoute.joint_bus_invariant_partial
#print axioms Txdbus.NamesRoute.joint_bus_unicast_partial
#print axioms Txdbus.NamesRoute.joint_bus_self_addressed_partial
#print axioms Txdbus.NamesRoute.joint_bus_owner_is_live_partial
