/-! Property theorems for C19 (stub: none yet). -/
