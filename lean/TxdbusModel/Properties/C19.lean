import TxdbusModel.Proofs.Sig.Split
import TxdbusModel.Proofs.Sig.Parse
import TxdbusModel.Proofs.Wire.Infer
import TxdbusModel.Proofs.Wire.Claim
import TxdbusModel.Proofs.Wire.VariantBridge
import TxdbusModel.Sig.ArgCount
import TxdbusModel.Wire.InferOrig
import TxdbusModel.Gen.Wrappers
/-!
# C19 - Signatures split into complete types; inferred variant types always encode

Models: `Sig/Split.lean` (genCompleteTypes + find_end), `Sig/ArgCount.lean` (interface.py),
`Wire/Infer.lean` (sigFromPy after repairs 6ba9f66 and fixes/C19-01), spec side `Sig/Ty.lean`
(`render`), `Sig/Parse.lean` (grammar parser), `Wire/InferTy.lean` (type-level inference).
Only property theorems here; lemmas are in `Proofs/Sig/*`, `Proofs/Wire/Infer.lean`.
-/
namespace Txdbus.C19
open Txdbus

/-! ## 1. Splitting: exactly the decomposition the grammar defines, at any nesting depth -/

/-- `list(genCompleteTypes(sig))` on the rendering of ANY list of types (any depth, validity not
needed) is the list of the renderings. -/
theorem split_render (ts : List Ty) :
    genCompleteTypes (renderAll ts) = .ok (ts.map Ty.render) :=
  genCompleteTypes_renderAll ts

/-- The generator consumed lazily (`zip(genCompleteTypes(sig), values)`, `for ct in ...`) yields the
same pieces and raises nothing. -/
theorem split_render_lazy (ts : List Ty) :
    lazyPieces (renderAll ts) = (ts.map Ty.render, none) :=
  lazyPieces_renderAll ts

/-- One `next()`: the first complete type, whatever follows it. -/
theorem split_first (t : Ty) (rest : List Char) :
    firstType (t.render ++ rest) = .ok (t.render, rest) :=
  firstType_render t rest

/-- The pieces concatenate to the input - for EVERY input on which splitting succeeds, valid or not. -/
theorem split_concat (s : List Char) (ps : List (List Char)) (h : genCompleteTypes s = .ok ps) :
    ps.flatten = s :=
  genCompleteTypes_concat s ps h

/-- Each piece of a valid signature is one complete type. -/
theorem split_each_complete (ts : List Ty) (ps : List (List Char))
    (h : genCompleteTypes (renderAll ts) = .ok ps) : ∀ p ∈ ps, ∃ t : Ty, p = t.render := by
  rw [split_render] at h
  cases h
  intro p hp
  obtain ⟨t, _, rfl⟩ := List.mem_map.mp hp
  exact ⟨t, rfl⟩

/-- The number of pieces is the number of complete types. -/
theorem split_count (ts : List Ty) : countCompleteTypes (renderAll ts) = .ok ts.length :=
  countCompleteTypes_renderAll ts

/-- `render` is injective (it has the grammar parser as a left inverse). -/
theorem render_injective (t u : Ty) (h : t.render = u.render) : t = u :=
  Txdbus.render_injective h

/-- The decomposition is unique: any way of cutting a signature into renderings of complete types is
the one the splitter returns. -/
theorem decomposition_unique (ts us : List Ty) (h : (us.map Ty.render).flatten = renderAll ts) :
    genCompleteTypes (renderAll ts) = .ok (us.map Ty.render) := by
  rw [← renderAll_eq_flatten] at h
  rw [renderAll_injective h]
  exact split_render ts

/-- The splitter agrees with the independent grammar parser on every signature of the grammar. -/
theorem split_agrees_with_grammar (ts : List Ty) :
    (parseTypes (renderAll ts)).map (List.map Ty.render) = (genCompleteTypes (renderAll ts)).toOption := by
  rw [parseTypes_renderAll, split_render]; rfl

/-- interface.py: a freshly declared method / signal gets exactly the number of complete types of its
signatures as `nargs` / `nret`. -/
theorem argcount_eq_types (as rs : List Ty) :
    addMethod { sigIn := renderAll as, sigOut := renderAll rs } =
      .ok { nargs := as.length, nret := rs.length, sigIn := renderAll as, sigOut := renderAll rs } ∧
    addSignal { sig := renderAll as } = .ok { nargs := as.length, sig := renderAll as } := by
  simp [addMethod, addSignal, countCompleteTypes_renderAll]

example : genCompleteTypes "a{s(iv)}a(ai)x".toList = .ok ["a{s(iv)}".toList, "a(ai)".toList, "x".toList] := by
  decide
example : ∃ ts : List Ty, renderAll ts = "a{s(iv)}a(ai)x".toList :=
  ⟨[.array (.dict (.basic .s) (.struct [.basic .i, .variant])), .array (.struct [.array (.basic .i)]), .basic .x],
   by decide⟩

/-! Malformed input is mirrored, not repaired (witnesses of the modelled error behaviour). -/
example : genCompleteTypes "i(".toList = .error .typeError := by decide
example : genCompleteTypes "ia".toList = .error .stopIteration := by decide
example : lazyPieces "a{s(iv)}i(".toList = (["a{s(iv)}".toList, "i".toList], some .typeError) := by decide
example : genCompleteTypes "i)".toList = .ok ["i".toList, ")".toList] := by decide

/-! ## 2. Inference: always one complete type; wrappers select their type -/

/-- Whenever `sigFromPy` succeeds on a value built from the builtin and wrapper classes (no object
with its own `dbusSignature`), the result is the rendering of ONE complete type - the type
`inferTy v` of the documented rules. -/
theorem infer_single_complete_type (v : PyVal) (hv : v.noCustomSig = true) (s : List Char)
    (h : sigFromPy v = .ok s) : ∃ t : Ty, inferTy v = some t ∧ s = t.render := by
  rw [sigFromPy_eq_inferTy v hv] at h
  cases ht : inferTy v with
  | none => simp [ht, renderRes] at h
  | some t =>
    simp only [ht, renderRes] at h
    cases h
    exact ⟨t, rfl, rfl⟩

/-- ... and therefore the variant marshaller's `genCompleteTypes(vsig)` sees exactly one piece. -/
theorem infer_splits_into_one (v : PyVal) (hv : v.noCustomSig = true) (s : List Char)
    (h : sigFromPy v = .ok s) : genCompleteTypes s = .ok [s] := by
  obtain ⟨t, _, rfl⟩ := infer_single_complete_type v hv s h
  exact genCompleteTypes_render t

/-- Inference fails only with MarshallingError, and exactly when the rules give no type. -/
theorem infer_fails_iff (v : PyVal) (hv : v.noCustomSig = true) :
    (∃ e, sigFromPy v = .error e) ↔ inferTy v = none := by
  rw [sigFromPy_eq_inferTy v hv]
  cases inferTy v <;> simp [renderRes]

/-- "Always a single complete type" in the sense of the DBus specification: whenever inference succeeds
(on a value without custom `dbusSignature` objects) the signature is the rendering of ONE type that is
well formed - no empty struct, dict entries only as array elements, basic keys.  No side condition on the
shape of the value: since fixes/C19-03 the empty tuple and non-basic dict keys have no inferred type. -/
theorem infer_valid_type (v : PyVal) (hv : v.noCustomSig = true) (s : List Char)
    (h : sigFromPy v = .ok s) : ∃ t : Ty, s = t.render ∧ t.wf = true ∧ parseType s = some t := by
  rw [sigFromPy_eq_inferTy v hv] at h
  cases ht : inferTy v with
  | none => simp [ht, renderRes] at h
  | some t =>
    simp only [ht, renderRes] at h
    cases h
    exact ⟨t, rfl, inferTy_wf v t ht, parseType_render t⟩

/-- Values that have no DBus type are refused, not given an invalid signature. -/
theorem no_type_no_signature :
    sigFromPy (.tuple []) = .error .marshalling ∧
    sigFromPy (.list [.tuple []]) = .error .marshalling ∧
    sigFromPy (.dict [(.tuple [.int .plain 1, .int .plain 2], .int .plain 3)]) = .error .marshalling := by
  decide

/-- The explicit wrapper classes select exactly their DBus type, whatever the value. -/
theorem wrapper_selects_type :
    (∀ n, sigFromPy (.int .byte n) = .ok ['y']) ∧ (∀ n, sigFromPy (.int .boolean n) = .ok ['b']) ∧
    (∀ n, sigFromPy (.int .int16 n) = .ok ['n']) ∧ (∀ n, sigFromPy (.int .uint16 n) = .ok ['q']) ∧
    (∀ n, sigFromPy (.int .int32 n) = .ok ['i']) ∧ (∀ n, sigFromPy (.int .uint32 n) = .ok ['u']) ∧
    (∀ n, sigFromPy (.int .int64 n) = .ok ['x']) ∧ (∀ n, sigFromPy (.int .uint64 n) = .ok ['t']) ∧
    (∀ s, sigFromPy (.str .signature s) = .ok ['g']) ∧ (∀ s, sigFromPy (.str .objectPath s) = .ok ['o']) := by
  simp [sigFromPy, IntCls.dbusSignature, StrCls.dbusSignature]

/-- Python class names of the model's integer / string classes. -/
def intClsName : IntCls → String
  | .plain => "int" | .byte => "Byte" | .boolean => "Boolean" | .int16 => "Int16" | .uint16 => "UInt16"
  | .int32 => "Int32" | .uint32 => "UInt32" | .int64 => "Int64" | .uint64 => "UInt64"
def strClsName : StrCls → String
  | .plain => "str" | .signature => "Signature" | .objectPath => "ObjectPath"

def allIntCls : List IntCls := [.byte, .boolean, .int16, .uint16, .int32, .uint32, .int64, .uint64]
def allStrCls : List StrCls := [.signature, .objectPath]

/-- The wrapper table of the model IS the table of the source (regenerated on every run): the
classes with a `dbusSignature` attribute, their bases, their signatures; `variantClassMap` is its inverse. -/
theorem wrapper_table_matches_source :
    Gen.Wrappers.wrapperClasses =
      allIntCls.filterMap (fun c => c.dbusSignature.map fun s => (intClsName c, "int", s)) ++
      allStrCls.filterMap (fun c => c.dbusSignature.map fun s => (strClsName c, "str", s)) ∧
    Gen.Wrappers.variantClassMap = Gen.Wrappers.wrapperClasses.map (fun (n, _, s) => (s, n)) := by
  decide

/-- The step function `(below, breaks)` found by probing `sigFromPy` on integers. -/
def stepSig (below : Char) (breaks : List (Int × Char)) (n : Int) : Char :=
  breaks.foldl (fun acc b => if b.1 ≤ n then b.2 else acc) below

/-- The plain-int rule of the model IS the rule found by probing the source, for every integer that a DBus
integer type can hold (what happens beyond 64 bits is not part of the property and not tied). -/
theorem int_rule_matches_source (n : Int) (hlo : -9223372036854775808 ≤ n) (hhi : n < 18446744073709551616) :
    intSig n = [stepSig Gen.Wrappers.intBelow Gen.Wrappers.intBreaks n] := by
  have hb : Gen.Wrappers.intBelow = 'x' := by decide
  have hk : Gen.Wrappers.intBreaks =
      [(-2147483648, 'i'), (2147483648, 'x'), (9223372036854775808, 't')] := by
    decide
  rw [hb, hk]
  unfold intSig stepSig
  simp only [List.foldl]
  repeat' split
  all_goals first | rfl | (exfalso; omega)

/-- The probe values of tools/tables/c19_wrappers.py, as model values (same names, same order). -/
def probeValues : List (String × PyVal) :=
  let i (n : Int) : PyVal := .int .plain n
  let s (c : Char) : PyVal := .str .plain [c]
  let big : PyVal := .int .plain 1099511627776
  [("True", .bool true), ("1.5", .float 0x3FF8000000000000), ("'x'", s 'x'), ("bytearray", .bytearray [120]),
   ("None", .none),
   ("Byte", .int .byte 1), ("Boolean", .int .boolean 1), ("Int16", .int .int16 1), ("UInt16", .int .uint16 1),
   ("Int32", .int .int32 1), ("UInt32", .int .uint32 1), ("Int64", .int .int64 1), ("UInt64", .int .uint64 1),
   ("Signature", .str .signature ['i']), ("ObjectPath", .str .objectPath ['/']),
   ("[]", .list []), ("{}", .dict []), ("()", .tuple []),
   ("[1]", .list [i 1]), ("[1,2]", .list [i 1, i 2]), ("[1,'a']", .list [i 1, s 'a']),
   ("[1,True]", .list [i 1, .bool true]), ("[True,1]", .list [.bool true, i 1]),
   ("[1,UInt64(1)]", .list [i 1, .int .uint64 1]), ("[UInt64(1),1]", .list [.int .uint64 1, i 1]),
   ("['a',ObjectPath]", .list [s 'a', .str .objectPath ['/']]),
   ("[1,2**40]", .list [i 1, big]), ("[2**40,1]", .list [big, i 1]),
   ("[[]]", .list [.list []]), ("[[],[1]]", .list [.list [], .list [i 1]]), ("[[1],[]]", .list [.list [i 1], .list []]),
   ("[None]", .list [.none]), ("[1,None]", .list [i 1, .none]),
   ("(1,'a')", .tuple [i 1, s 'a']), ("((1,),[2])", .tuple [.tuple [i 1], .list [i 2]]),
   ("[()]", .list [.tuple []]), ("(None,)", .tuple [.none]),
   ("{'a':1}", .dict [(s 'a', i 1)]), ("{'a':1,'b':2}", .dict [(s 'a', i 1), (s 'b', i 2)]),
   ("{'a':1,'b':'x'}", .dict [(s 'a', i 1), (s 'b', s 'x')]),
   ("{'a':2,'b':True}", .dict [(s 'a', i 2), (s 'b', .bool true)]),
   ("{'a':True,'b':2}", .dict [(s 'a', .bool true), (s 'b', i 2)]),
   ("{'a':1,'b':2**40}", .dict [(s 'a', i 1), (s 'b', big)]), ("{'a':2**40,'b':1}", .dict [(s 'a', big), (s 'b', i 1)]),
   ("{'k':'a',1:'b'}", .dict [(s 'k', s 'a'), (i 1, s 'b')]), ("{1:'a','k':'b'}", .dict [(i 1, s 'a'), (s 'k', s 'b')]),
   ("{(1,2):3}", .dict [(.tuple [i 1, i 2], i 3)]), ("{1.5:[]}", .dict [(.float 0x3FF8000000000000, .list [])]),
   ("{'a':{}}", .dict [(s 'a', .dict [])]), ("{'a':None}", .dict [(s 'a', .none)]),
   ("{'a':1,'b':None}", .dict [(s 'a', i 1), (s 'b', .none)])]

def showSig : Except PyErr (List Char) → List Char
  | .ok s => s
  | .error _ => "!".toList

/-- On every probe value the model answers what the source answers (every rule of `sigFromPy`: class
tests and their order, the literals 'a' '(' ')' 'a{' '}' 'v', emptiness, exact-class homogeneity, last key /
first value, values without a DBus type). -/
theorem probes_match_model :
    Gen.Wrappers.probes.map (fun p => (p.1, p.2.toList)) =
      probeValues.map (fun p => (p.1, showSig (sigFromPy p.2))) := by
  decide

/-- The range rule in one statement: a plain int gets the smallest of INT32 / INT64 / UINT64 that
holds it (and 't' for everything else, which then cannot encode - outside the claim). -/
theorem plain_int_rule (n : Int) :
    sigFromPy (.int .plain n) = .ok [(intBasic n).code] ∧
    ((-2147483648 ≤ n ∧ n < 2147483648) → intBasic n = .i) ∧
    ((¬ (-2147483648 ≤ n ∧ n < 2147483648)) → (-9223372036854775808 ≤ n ∧ n < 9223372036854775808) → intBasic n = .x) ∧
    (9223372036854775808 ≤ n → intBasic n = .t) := by
  refine ⟨?_, ?_, ?_, ?_⟩
  · simp [sigFromPy, IntCls.dbusSignature, intSig_eq, Ty.render]
  · intro h; simp [intBasic, h]
  · intro h1 h2; simp [intBasic, h1, h2]
  · intro h
    have h1 : ¬ (-2147483648 ≤ n ∧ n < 2147483648) := by omega
    have h2 : ¬ (-9223372036854775808 ≤ n ∧ n < 9223372036854775808) := by omega
    simp [intBasic, h1, h2]

example : sigFromPy (.dict [(.str .plain ['a'], .list [.int .plain 1, .bool true]),
                            (.str .plain ['b'], .list [])]) = .ok "a{sav}".toList := by decide
example : (PyVal.dict [(.str .plain ['a'], .list [.int .plain 1, .bool true])]).noCustomSig = true := by decide

/-! ## 3. Witnesses: the code before the repairs violates the property -/

/-- F28 (repaired by 6ba9f66): the snapshot inferred 'i' for 2^40, which INT32 cannot hold; the
repaired rule gives 'x'.  Replay: corpus/C19/f28-int-2pow40.json. -/
theorem prefix_model_f28_infers_i :
    sigFromPyOrig (.int .plain 1099511627776) = .ok ['i'] ∧
    ¬ ((-2147483648 : Int) ≤ 1099511627776 ∧ (1099511627776 : Int) < 2147483648) ∧
    sigFromPy (.int .plain 1099511627776) = .ok ['x'] := by
  decide

/-- C19-01 (fixes/C19-01-dict-value-signature.patch): `{'a': 2, 'b': True}` - the values differ in
Python type (int, bool), the snapshot judged `same` against `int` but took the signature of the last
value, `a{sb}`, under which 2 travels as the boolean True; after C19-01 it was `a{si}`, after C19-02
(exact class) the values travel as variants, `a{sv}`, like the list `[2, True]` (`av`).
Replay: corpus/C19/dict-value-from-last-bool.json. -/
theorem prefix_model_dict_value_from_last :
    sigFromPyOrig (.dict [(.str .plain ['a'], .int .plain 2), (.str .plain ['b'], .bool true)])
      = .ok "a{sb}".toList ∧
    sigFromPy (.dict [(.str .plain ['a'], .int .plain 2), (.str .plain ['b'], .bool true)])
      = .ok "a{sv}".toList ∧
    sigFromPy (.list [.int .plain 2, .bool true]) = .ok "av".toList := by
  decide

/-- C19-02 (fixes/C19-02-exact-class-homogeneity.patch): `[1, UInt64(2**40)]` - elements of different
Python classes; the snapshot's `isinstance` test called them the same and inferred `ai`, which cannot hold
2^40; the repaired rule sends them as variants.  Replay: corpus/C19/subclass-under-base-type.json. -/
theorem prefix_model_subclass_under_base_type :
    sigFromPyOrig (.list [.int .plain 1, .int .uint64 1099511627776]) = .ok "ai".toList ∧
    sigFromPy (.list [.int .plain 1, .int .uint64 1099511627776]) = .ok "av".toList := by
  decide

/-- C19-03 (fixes/C19-03-no-dbus-type.patch): the snapshot gave `()` and a tuple-keyed dict signatures
that are not complete types.  Replay: corpus/C19/empty-tuple.json, tuple-key.json. -/
theorem prefix_model_invalid_signatures :
    sigFromPyOrig (.tuple []) = .ok "()".toList ∧
    sigFromPyOrig (.dict [(.tuple [.int .plain 1, .int .plain 2], .int .plain 3)]) = .ok "a{(ii)i}".toList ∧
    (∀ t : Ty, t.wf = true → t.render ≠ "()".toList) := by
  refine ⟨by decide, by decide, ?_⟩
  intro t hwf h
  have h2 : (Ty.struct []).render = "()".toList := by simp [Ty.render, renderAll]
  have := Txdbus.render_injective (h.trans h2.symm)
  subst this
  simp [Ty.wf] at hwf

/-! ## 4. Variant round trip

`variant_roundtrip` is the second half of the property on the code model of marshal.py (Wire/Code.lean:
marshal_variant / unmarshal_variant and everything below them), composed of
  (a) `variant_roundtrip_partial` (kept, it is the inference side): inside the claim, `sigFromPy v` is the
      rendering of ONE type `t`, the splitter cuts it into exactly that piece, and `v` CONFORMS to `t`
      (`Travels`);
  (b) Proofs/Wire/VariantBridge.lean: a conforming value denotes a spec value (`Code.Rep`) that the reference
      encoder accepts at every offset, as long as the value is not larger than the wire format allows;
  (c) `C01_roundtrip` (Properties/C01.lean: `Code.marshal_eq_spec`, `Code.unmarshal_eq_spec`,
      `Spec.decode_encode`, `Code.fromSpecFields_of_rep`). -/

/-- (a): inside the claim the inferred signature is one complete type, splits into itself, and the
value conforms to it. -/
theorem variant_roundtrip_partial (okPath : List Char → Bool) (v : PyVal) (h : InClaim okPath v) :
    ∃ t : Ty, sigFromPy v = .ok t.render ∧ genCompleteTypes t.render = .ok [t.render] ∧
      lazyPieces t.render = ([t.render], none) ∧ Travels okPath v t := by
  obtain ⟨t, ht, htr⟩ := claim_travels okPath v h
  refine ⟨t, sigFromPy_of_inferTy v t ht, genCompleteTypes_render t, ?_, htr⟩
  have := lazyPieces_renderAll [t]
  simpa [renderAll] using this

/-- VARIANT ROUND TRIP.  For every Python value `v` inside the claim (`InClaim`: in each container the
elements have the class of the first one and share its DBus type, or differ in Python class; every scalar
fits the type inferred for it; dict keys share one basic type), with
  * `hkeys`: the keys of every dict hashable and pairwise different under Python equality (what a real
    dict guarantees; `Code.KeysOK` of C01),
  * `hs`, `hw`: within the limits of the wire format - every inferred signature at most 255 characters, the
    value not larger than an array may be (`PyVal.wt`, a generous bound of the encoded size, <= 2^26),
`marshal('v', [v], off, lendian, [])` of the code model SUCCEEDS with some bytes `bs`, reporting `len(bs)`,
and `unmarshal('v', pre + bs + suf, off, lendian, [])` returns exactly `[plain v]` - `v` with typed wrappers
as plain values, tuples as lists, byte arrays as lists of integers, floats bit for bit (so NaN included;
for NaN-free `v` without tuples / byte arrays this is equality under Python `==`) - and consumes exactly
`len(bs)` bytes: both byte orders, every start offset, arbitrary bytes before and after, every step budget
from `fuel0` on.  `okPathV` = `validateObjectPath` accepts.
Not covered (the only gap to the statement): instances of the `Boolean` wrapper class - they are sent as a
boolean and come back as `bool` (Python-equal, but not `plain`), and C01's `Rep` relates type 'b' to `bool`
values only; `fitsBasic` therefore leaves them outside `InClaim`.  The harness covers them. -/
theorem variant_roundtrip (le : Bool) (v : PyVal) (off : Nat) (pre suf : Bytes)
    (h : InClaim okPathV v) (hkeys : Code.KeysOK v) (hs : v.sigsShort = true) (hw : v.wt ≤ Spec.maxArray)
    (hpre : pre.length = off) :
    ∃ bs fuel0, ∀ fuel, fuel0 ≤ fuel →
      Code.marshal fuel ['v'] (.list [v]) off le (some []) = .ok (bs.length, bs, some []) ∧
      Code.unmarshal fuel ['v'] (pre ++ bs ++ suf) off le (some []) = .ok (bs.length, [Code.plain v]) := by
  obtain ⟨t, ht, htr⟩ := claim_travels okPathV v h
  exact variant_roundtrip_travels le v t off pre suf ht htr hkeys hs hw hpre

/-- The same for every value that merely CONFORMS to the type inferred for it (`Travels`) - this also
covers containers such as `[[1], []]` whose elements have one class but not one inferred type, yet all
conform to the first element's type. -/
theorem variant_roundtrip_conforming (le : Bool) (v : PyVal) (t : Ty) (off : Nat) (pre suf : Bytes)
    (ht : inferTy v = some t) (htr : Travels okPathV v t) (hkeys : Code.KeysOK v)
    (hs : v.sigsShort = true) (hw : v.wt ≤ Spec.maxArray) (hpre : pre.length = off) :
    ∃ bs fuel0, ∀ fuel, fuel0 ≤ fuel →
      Code.marshal fuel ['v'] (.list [v]) off le (some []) = .ok (bs.length, bs, some []) ∧
      Code.unmarshal fuel ['v'] (pre ++ bs ++ suf) off le (some []) = .ok (bs.length, [Code.plain v]) :=
  variant_roundtrip_travels le v t off pre suf ht htr hkeys hs hw hpre

/-- The conformance hypothesis is exactly where the two repaired defects sat: the types the snapshot
inferred are types the values do NOT conform to. -/
theorem prefix_inferred_types_do_not_fit (okPath : List Char → Bool) :
    ¬ Travels okPath (.int .plain 1099511627776) (.basic .i) ∧
    ¬ Travels okPath (.dict [(.str .plain ['a'], .int .plain 2), (.str .plain ['b'], .bool true)])
        (.array (.dict (.basic .s) (.basic .b))) := by
  constructor
  · intro h
    cases h with
    | basic _ _ hf => simp [fitsBasic, Basic.intRange?] at hf
  · intro h
    cases h with
    | dict _ _ _ _ hv =>
      have := hv (.str .plain ['a'], .int .plain 2) (by simp)
      cases this with
      | basic _ _ hf => simp [fitsBasic, Basic.intRange?] at hf

/-- evaluation of the small side conditions of the examples below -/
local macro "ev" : tactic =>
  `(tactic| simp [inferTy, IntCls.basic?, intBasic, StrCls.basic, fitsBasic, Basic.intRange?, PyVal.asInt?,
      PyVal.isScalar, PyVal.pyType])

/-- The hypotheses of `variant_roundtrip_partial` are satisfiable by non-trivial values:
`{'a': 2, 'b': True}` (values of different Python classes: variants) and
`[1, 'x']` (nested variants). -/
example (okPath : List Char → Bool) :
    InClaim okPath (.dict [(.str .plain ['a'], .int .plain 2), (.str .plain ['b'], .bool true)]) := by
  refine .dictMixed _ _ _ .s (by decide) ?_ ?_ (.scalar _ .i (by ev) (by ev) (by ev)) ?_
  · intro kv hkv
    simp at hkv
    rcases hkv with rfl | rfl <;> ev
  · intro kv hkv
    simp at hkv
    rcases hkv with rfl | rfl <;> ev
  · intro kv hkv
    simp at hkv; subst hkv
    exact .scalar _ .b (by ev) (by ev) (by ev)

example (okPath : List Char → Bool) : InClaim okPath (.list [.int .plain 1, .str .plain ['x']]) := by
  refine .listMixed _ _ (by decide) (.scalar _ .i (by ev) (by ev) (by ev)) ?_
  intro e he
  simp at he; subst he
  exact .scalar _ .s (by ev) (by ev) (by ev)

/-- The side conditions of `variant_roundtrip` are satisfiable together with `InClaim` (see the examples
above): `[1, 'x']` and `[[1], []]` (the latter through `variant_roundtrip_conforming`). -/
example : Code.KeysOK (.list [.int .plain 1, .str .plain ['x']]) ∧
    (PyVal.list [.int .plain 1, .str .plain ['x']]).sigsShort = true ∧
    (PyVal.list [.int .plain 1, .str .plain ['x']]).wt ≤ Spec.maxArray := by
  refine ⟨by simp [Code.KeysOK, Code.KeysOKList], by decide, by decide⟩

example : inferTy (.list [.list [.int .plain 1], .list []]) = some (.array (.array (.basic .i))) ∧
    Travels okPathV (.list [.list [.int .plain 1], .list []]) (.array (.array (.basic .i))) := by
  refine ⟨by simp [inferTy, sameClass, PyVal.pyType, IntCls.basic?, intBasic], .list _ _ (by simp [Ty.notEntry]) ?_⟩
  intro e he
  simp at he
  rcases he with rfl | rfl
  · refine .list _ _ (by simp [Ty.notEntry]) ?_
    intro e he
    simp at he; subst he
    exact .basic _ _ (by ev)
  · exact .list _ _ (by simp [Ty.notEntry]) (by simp)

end Txdbus.C19

#print axioms Txdbus.C19.split_render
#print axioms Txdbus.C19.split_render_lazy
#print axioms Txdbus.C19.split_first
#print axioms Txdbus.C19.split_concat
#print axioms Txdbus.C19.split_each_complete
#print axioms Txdbus.C19.split_count
#print axioms Txdbus.C19.render_injective
#print axioms Txdbus.C19.decomposition_unique
#print axioms Txdbus.C19.split_agrees_with_grammar
#print axioms Txdbus.C19.argcount_eq_types
#print axioms Txdbus.C19.infer_single_complete_type
#print axioms Txdbus.C19.infer_splits_into_one
#print axioms Txdbus.C19.infer_fails_iff
#print axioms Txdbus.C19.no_type_no_signature
#print axioms Txdbus.C19.infer_valid_type
#print axioms Txdbus.C19.wrapper_selects_type
#print axioms Txdbus.C19.wrapper_table_matches_source
#print axioms Txdbus.C19.int_rule_matches_source
#print axioms Txdbus.C19.probes_match_model
#print axioms Txdbus.C19.plain_int_rule
#print axioms Txdbus.C19.prefix_model_f28_infers_i
#print axioms Txdbus.C19.prefix_model_dict_value_from_last
#print axioms Txdbus.C19.prefix_model_subclass_under_base_type
#print axioms Txdbus.C19.prefix_model_invalid_signatures
#print axioms Txdbus.C19.variant_roundtrip_partial
#print axioms Txdbus.C19.variant_roundtrip
#print axioms Txdbus.C19.variant_roundtrip_conforming
#print axioms Txdbus.C19.prefix_inferred_types_do_not_fit
