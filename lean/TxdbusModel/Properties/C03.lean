import TxdbusModel.Proofs.Msg.Main
import TxdbusModel.Proofs.Msg.WithWire
import TxdbusModel.Msg.PreFix
import TxdbusModel.Gen.Message
import TxdbusModel.Proofs.Msg.GeneralMsg
import TxdbusModel.Proofs.Msg.GeneralForeign
import TxdbusModel.Proofs.Msg.GeneralShape
import TxdbusModel.Proofs.Msg.Forward
import TxdbusModel.Proofs.Msg.ForwardOk
import TxdbusModel.Proofs.Msg.Again
/-!
# C03 - Every constructible message serialises well-formed and parses back intact

Property theorems about the code model of txdbus/message.py (`Msg/Message.lean`: the four
constructors, `_marshal`, `parseMessage`; `Msg/HeaderCode.lean`: `marshal` / `unmarshal` on the header
signature) against the specification of the message format (`Msg/SpecMsg.lean`, `Msg/HeaderWire.lean`),
for the tables extracted from the repository (`Gen/Message.lean`; `tables_ok` re-checks on every run the
facts about them that the proofs use).

All theorems hold for every constructor call / every run of calls / every foreign message; nothing is
bounded.  What they are parameterised by, and why:

* `C : BodyCodec β` - what `marshal.marshal(signature, body, oobFDs)` and `marshal.unmarshal(signature,
  rawBody, lendian, oobFDs)` do.  The message layer treats the body as bytes; the round trip of the body
  codec (C01) enters `parse_marshal` / `parse_foreign` as the explicit hypothesis `hC`, nothing else is
  assumed about `C`.
* `na : Char → Bool` - `str.isdigit` on non-ASCII characters (C18's opaque parameter; no outcome depends on it).
* `SigNoNul c` - the `signature` argument contains no NUL.  `marshal_signature` does not validate its
  argument (the source says "XXX validate signature"); a valid DBus signature never contains NUL.
* `maxLen ≤ 2^27` - the `_maxMsgLen` of the message's class (the theorems cover the lowered limits that
  tests/test_message.py uses as well as the real one, `Gen.Message.maxMsgLen = 2^27` by `tables_ok`).

Header fields are the 13 basic types (`HVal`): what message.py itself puts into a header, and unknown
fields of basic variant types in foreign messages.  Container-typed variants in unknown header fields
are outside the fragment `Msg/HeaderCode.lean` models (see notes/C03.md).
-/
namespace Txdbus.Msg

open Main

/-- The facts about the tables of message.py (and the alignment column of `dbus_types`) that the
theorems below use hold for the tables extracted from the repository under test. -/
theorem tables_ok : Gen.Message.tables.OK := genTables_ok

/-- **Serialises to a well-formed DBus message.**  A successfully constructed message `m` (any of the
four classes, any subset of optional arguments, any flags, any body the codec accepted), built when
the counter stood at `st.nextSerial ≥ 1`, is byte for byte

    fixed (16 bytes) ++ fieldArray ++ pad ++ body

where `fixed` = `'l'`, the type code of its class, the flag bits (`0x1` unless expectReply, `0x2` unless
autoStart), version 1, the UINT32 body length (= `body.length`), the UINT32 serial (= the fresh counter
value, non-zero), the UINT32 length of the field array (= `fieldArray.length`); `pad` is fewer than 8
zero bytes that bring the header to a multiple of 8; `rawHeader` / `rawPadding` / `rawBody` are these
parts; the field array is the specification encoding of exactly the non-None attributes of the
class's `_headerAttrs` (plus `unix_fds` when descriptors were collected), each once, with the typing of
`m.toSpec`; EVERY FIELD HAS THE TYPE THE SPECIFICATION'S HEADER-FIELD TABLE GIVES ITS CODE (`Spec.fieldType`: PATH 'o',
INTERFACE/MEMBER/ERROR_NAME/DESTINATION/SENDER 's', REPLY_SERIAL/UNIX_FDS 'u', SIGNATURE 'g' - a table of the
specification in Msg/SpecMsg.lean, independent of `_marshal`'s wrapper typing: dropping the ObjectPath wrapper or
typing REPLY_SERIAL 'i' breaks this conjunct); the fields the specification REQUIRES for the message type are
present (when the `path` argument is given: `path=None` is outside the documented argument types and builds a call
without PATH); the whole is at most `maxLen` bytes; and the strict decoder of the specification - which checks sizes,
field types and required fields - accepts the bytes and returns that message (the 2^26 limit on the header array is
the one thing `_marshal` does not enforce: a premise of the last clause). -/
theorem marshal_wellformed {β : Type} (C : BodyCodec β) (na : Char → Bool) (maxLen : Nat)
    (hmax : maxLen ≤ Spec.maxMessage) (st st' : St) (c : Call β) (m : Msg β)
    (hs : 1 ≤ st.nextSerial) (hsig : SigNoNul c)
    (h : construct Gen.Message.tables C na maxLen st c = (st', .ok m)) :
    ∃ sm : SpecMsg, m.toSpec Gen.Message.tables = some sm ∧
      m.raw = Spec.fixedPart sm (Spec.fieldArray sm).length ++ Spec.fieldArray sm ++ Spec.headerPad sm ++ m.rawBody ∧
      m.rawHeader = Spec.fixedPart sm (Spec.fieldArray sm).length ++ Spec.fieldArray sm ∧
      m.rawPadding = Spec.headerPad sm ∧
      (Spec.fixedPart sm (Spec.fieldArray sm).length).length = 16 ∧
      (m.rawHeader ++ m.rawPadding).length % 8 = 0 ∧
      m.rawPadding.length < 8 ∧ (∀ b ∈ m.rawPadding, b = 0) ∧
      Spec.fixedPart sm (Spec.fieldArray sm).length =
        [108, UInt8.ofNat (Gen.Message.tables.messageType m.cls),
         UInt8.ofNat (flagsByte m.expectReply m.autoStart), 1]
          ++ encUInt .little 4 m.rawBody.length ++ encUInt .little 4 m.serial
          ++ encUInt .little 4 (Spec.fieldArray sm).length ∧
      Gen.Message.tables.messageType m.cls < 256 ∧ m.rawBody.length < 4294967296 ∧
      (Spec.fieldArray sm).length < 4294967296 ∧
      m.serial = st.nextSerial ∧ m.serial ≠ 0 ∧ m.serial < 4294967296 ∧ st'.nextSerial = st.nextSerial + 1 ∧
      sm.fields.map (·.1) =
        (liveEntries m.attrs (Gen.Message.tables.entries m.cls (hasFds m))).map (·.2.1) ∧
      (sm.fields.map (·.1)).Nodup ∧ sm.fields.all Field.wf = true ∧
      (∀ f ∈ sm.fields, Spec.fieldType f.1 = some f.2.ty) ∧
      (c.pathGiven → ∀ code ∈ Spec.requiredCodes (Gen.Message.tables.messageType m.cls), code ∈ sm.fields.map (·.1)) ∧
      m.raw.length ≤ maxLen ∧
      (c.pathGiven → (Spec.fieldArray sm).length ≤ Spec.maxArray → Spec.decodeMsg m.raw = some sm) :=
  Main.marshal_wellformed Gen.Message.tables tables_ok C na maxLen hmax st st' c m hs hsig h

/-- **Fresh non-zero serials.**  Over any run of constructor calls on the shared counter (failing calls
interleaved anywhere), the serials of the messages that were constructed are strictly increasing
(hence pairwise distinct), at least 1, and below 2^32 (a call made when the counter has reached 2^32
fails in `struct.pack`: no message, no wrapped serial). -/
theorem serial_fresh {β : Type} (C : BodyCodec β) (na : Char → Bool) (maxLen : Nat)
    (cs : List (Call β)) (st : St) (hs : 1 ≤ st.nextSerial) :
    (okSerials (constructAll Gen.Message.tables C na maxLen st cs).1).Pairwise (· < ·) ∧
    (∀ s ∈ okSerials (constructAll Gen.Message.tables C na maxLen st cs).1,
        1 ≤ s ∧ st.nextSerial ≤ s ∧ s < 4294967296) :=
  Main.serial_fresh Gen.Message.tables tables_ok C na maxLen cs st hs

/-- The counter of a fresh process (`DBusMessage._nextSerial` as the class is defined) satisfies the
premise of `serial_fresh` and `marshal_wellformed`. -/
theorem serial_init : 1 ≤ (St.init Gen.Message.tables).nextSerial := by decide

/-- **Parsing the bytes recovers the message.**  `parseMessage(m.rawMessage, fdsAfter)` of a constructed
message succeeds and returns an object of the same class with the same serial, both flags, every one of
the nine header attributes (equal as Python values: `UInt32(5) == 5`), the same three raw parts, and -
when there is a non-empty signature - the decoded body, provided the body codec round-trips that body
(`hC`: whatever the codec produced for this body decodes, with the descriptor list `fdsAfter` handed to
parseMessage, to `decoded` - discharged by C01 in `parse_marshal_with_C01` / `parse_marshal_with_C01_none`). -/
theorem parse_marshal {β : Type} (C : BodyCodec β) (na : Char → Bool) (maxLen : Nat)
    (st st' : St) (c : Call β) (m : Msg β) (hs : 1 ≤ st.nextSerial) (hsig : SigNoNul c)
    (h : construct Gen.Message.tables C na maxLen st c = (st', .ok m))
    (fdsAfter : Option (List PyVal)) (decoded : β)
    (hC : ∀ sg, m.attrs .signature = .str .plain sg → sg ≠ [] →
        ∃ bytes fds', C.marshal sg m.body c.oob = .ok (bytes, fds') ∧ C.unmarshal sg bytes true fdsAfter = .ok decoded) :
    ∃ m' : Msg β, parseMessage Gen.Message.tables C m.raw fdsAfter = .ok m' ∧
      m'.cls = m.cls ∧ m'.serial = m.serial ∧ m'.expectReply = m.expectReply ∧ m'.autoStart = m.autoStart ∧
      (∀ a, m'.attrs a = plain (m.attrs a)) ∧
      m'.body = (if truthy (m.attrs .signature) then some decoded else none) ∧
      m'.rawHeader = m.rawHeader ∧ m'.rawPadding = m.rawPadding ∧ m'.rawBody = m.rawBody ∧
      m'.otherFlags = 0 ∧ m.otherFlags = 0 :=
  Main.parse_marshal Gen.Message.tables tables_ok C na maxLen st st' c m hs hsig h fdsAfter decoded hC

/-- `parse_marshal` with nothing assumed about the body codec: the message model instantiated with the code
model of txdbus's own `marshal` / `unmarshal` (`wireCodec`, Wire/Code.lean) and C01's round-trip theorem in the
place of `hC`.  For a method call with `oobFDs=[]` whose signature is the rendering of types `ts` without empty
structs and whose body conforms to it in the sense of C01 (`Code.RepFields`, distinct hashable dict keys, values
within the limits of the wire format), `parseMessage(m.rawMessage, fds collected)` returns the call with the
normalised body (tuples as lists, wrappers as plain values, ...).  (`oobFDs=None`: next theorem.) -/
theorem parse_marshal_with_C01 (na : Char → Bool) (maxLen : Nat) (st st' : St)
    (a : CallArgs PyVal) (m : Msg PyVal) (hs : 1 ≤ st.nextSerial)
    (ts : List Ty) (pv : PyVal) (items : List PyVal) (vs : List Val) (fdl : List PyVal) (bs : Bytes) (fuel : Nat)
    (hsig : a.signature = some (renderAll ts)) (hne : renderAll ts ≠ []) (hbody : a.body = some pv)
    (hoob : a.oobFDs = some [])
    (hts : allWF ts = true) (hitems : Code.topItems pv = .ok items)
    (hrep : Code.RepFields fdl vs true ts items 0 fdl.length) (hkeys : Code.KeysOKList items)
    (henc : Spec.encodeAll Code.genAlign (endianOf true) ts vs 0 = some bs) (hfuel : depthAll vs ≤ fuel)
    (h : construct Gen.Message.tables (wireCodec fuel) na maxLen st (.methodCall a) = (st', .ok m)) :
    ∃ m' : Msg PyVal, parseMessage Gen.Message.tables (wireCodec fuel) m.raw (some fdl) = .ok m' ∧
      m'.cls = m.cls ∧ m'.serial = m.serial ∧ m'.expectReply = m.expectReply ∧ m'.autoStart = m.autoStart ∧
      (∀ x, m'.attrs x = plain (m.attrs x)) ∧
      m'.body = some (.list (Code.plainList items)) ∧ m'.rawBody = bs ∧ m.rawBody = bs :=
  parse_marshal_wire Gen.Message.tables tables_ok na maxLen st st' a m hs ts pv items vs fdl bs fuel hsig hne hbody
    hoob hts hitems hrep hkeys henc hfuel h

/-- The same for ANY of the four constructors called without a descriptor list (`oobFDs=None`: the default of
`MethodCallMessage`, and what `MethodReturnMessage`, `ErrorMessage`, `SignalMessage` always pass): the body conforms
to `ts` without descriptors (`Code.RepFields … false …`); `lall` is whatever list of received descriptors the
protocol hands to `parseMessage`.  (C01's proof of `marshal_eq_spec` re-run with `fd = false`, Proofs/Msg/WithWire.lean.) -/
theorem parse_marshal_with_C01_none (na : Char → Bool) (maxLen : Nat) (st st' : St)
    (c : Call PyVal) (m : Msg PyVal) (hs : 1 ≤ st.nextSerial)
    (ts : List Ty) (pv : PyVal) (items : List PyVal) (vs : List Val) (lall : List PyVal) (bs : Bytes) (fuel : Nat)
    (hsig : c.signature = some (renderAll ts)) (hne : renderAll ts ≠ []) (hbody : c.body = some pv)
    (hoob : c.oob = none)
    (hts : allWF ts = true) (hitems : Code.topItems pv = .ok items)
    (hrep : Code.RepFields lall vs false ts items 0 0) (hkeys : Code.KeysOKList items)
    (henc : Spec.encodeAll Code.genAlign (endianOf true) ts vs 0 = some bs) (hfuel : depthAll vs ≤ fuel)
    (h : construct Gen.Message.tables (wireCodec fuel) na maxLen st c = (st', .ok m)) :
    ∃ m' : Msg PyVal, parseMessage Gen.Message.tables (wireCodec fuel) m.raw (some lall) = .ok m' ∧
      m'.cls = m.cls ∧ m'.serial = m.serial ∧ m'.expectReply = m.expectReply ∧ m'.autoStart = m.autoStart ∧
      (∀ x, m'.attrs x = plain (m.attrs x)) ∧
      m'.body = some (.list (Code.plainList items)) ∧ m'.rawBody = bs ∧ m.rawBody = bs :=
  parse_marshal_wire_none Gen.Message.tables tables_ok na maxLen st st' c m hs ts pv items vs lall bs fuel hsig hne hbody
    hoob hts hitems hrep hkeys henc hfuel h

/-- **C03 composed with C01: `parse_marshal` with no hypothesis about the codec.**  The body codec is `wireCodec fuel`
(Msg/WireCodec.lean): C01's code model of `marshal.marshal` / `marshal.unmarshal` at the offsets message.py uses
(startByte 0 of the 8-aligned body, byte order of the message).  For ANY of the four constructors, called without a
descriptor list (`oobFDs=None`) or with an empty one (`oobFDs=[]`), with a non-empty signature `renderAll ts` and a body
in C01's stated domain - `ts` without empty structs, the `variableList` `pv` conforming to `ts` and denoting the spec
values `vs` (`Code.RepFields`), dict keys hashable and pairwise distinct, the values within the wire limits
(`Spec.encodeAll … = some bs`), `fuel` at least the nesting depth - `parseMessage(m.rawMessage, fdl)` returns the same
class, serial, both flags, every header attribute AND the same body values (`Code.plainList items`: C01's normal form -
tuples as lists, wrappers as plain values); `rawBody` is the specification encoding `bs`; the raw header and padding and
the flag bits are those of `m`, as in `parse_marshal` (`bs` at the body's real offset in the message: `body_in_place`).
(`hC` of `parse_marshal` is
proved for this instance: `wireCodec_hC` / `parse_marshal_wire_core` in Proofs/Msg/WithWire.lean, from
`Code.marshal_eq_spec`, `Code.unmarshal_eq_spec`, `Code.fromSpecFields_of_rep` - the lemmas `C01_roundtrip` is made of.) -/
theorem parse_marshal_c01 (na : Char → Bool) (maxLen : Nat) (st st' : St)
    (c : Call PyVal) (m : Msg PyVal) (hs : 1 ≤ st.nextSerial)
    (ts : List Ty) (pv : PyVal) (items : List PyVal) (vs : List Val) (fdl : List PyVal) (bs : Bytes) (fuel : Nat)
    (hsig : c.signature = some (renderAll ts)) (hne : renderAll ts ≠ []) (hbody : c.body = some pv)
    (hoob : c.oob = none ∨ c.oob = some [])
    (hts : allWF ts = true) (hitems : Code.topItems pv = .ok items)
    (hrep : Code.RepFields fdl vs c.oob.isSome ts items 0 (if c.oob.isSome then fdl.length else 0))
    (hkeys : Code.KeysOKList items)
    (henc : Spec.encodeAll Code.genAlign (endianOf true) ts vs 0 = some bs) (hfuel : depthAll vs ≤ fuel)
    (h : construct Gen.Message.tables (wireCodec fuel) na maxLen st c = (st', .ok m)) :
    ∃ m' : Msg PyVal, parseMessage Gen.Message.tables (wireCodec fuel) m.raw (some fdl) = .ok m' ∧
      m'.cls = m.cls ∧ m'.serial = m.serial ∧ m'.expectReply = m.expectReply ∧ m'.autoStart = m.autoStart ∧
      (∀ x, m'.attrs x = plain (m.attrs x)) ∧
      m'.body = some (.list (Code.plainList items)) ∧ m'.rawBody = bs ∧ m.rawBody = bs ∧ m.body = some pv ∧
      m'.rawHeader = m.rawHeader ∧ m'.rawPadding = m.rawPadding ∧ m'.otherFlags = 0 ∧ m.otherFlags = 0 :=
  parse_marshal_c01_gen Gen.Message.tables tables_ok na maxLen st st' c m hs ts pv items vs fdl bs fuel hsig hne hbody hoob
    hts hitems hrep hkeys henc hfuel h

/-- The same with C01's EXECUTABLE premises (those of `C01_roundtrip_checked`: `Code.toSpecTop` computes the spec values
and the descriptors of the body, `Code.keysOKCheck` checks the dict keys), for a call with `oobFDs=[]`; the decoded body is
`Code.plainBList items` (a `Boolean` wrapper decodes to its bool).  Instantiated on a concrete message below. -/
theorem parse_marshal_c01_checked (na : Char → Bool) (maxLen : Nat) (st st' : St)
    (c : Call PyVal) (m : Msg PyVal) (hs : 1 ≤ st.nextSerial)
    (n : Nat) (ts : List Ty) (pv : PyVal) (vs : List Val) (fdl : List PyVal) (bs : Bytes) (fuel : Nat)
    (hsig : c.signature = some (renderAll ts)) (hne : renderAll ts ≠ []) (hbody : c.body = some pv)
    (hoob : c.oob = some [])
    (hts : allWF ts = true) (hchk : Code.toSpecTop n ts pv = some (vs, fdl)) (hkeys : Code.keysOKCheck pv = true)
    (henc : Spec.encodeAll Code.genAlign (endianOf true) ts vs 0 = some bs) (hfuel : depthAll vs ≤ fuel)
    (h : construct Gen.Message.tables (wireCodec fuel) na maxLen st c = (st', .ok m)) :
    ∃ items, Code.structFields pv = some items ∧
    ∃ m' : Msg PyVal, parseMessage Gen.Message.tables (wireCodec fuel) m.raw (some fdl) = .ok m' ∧
      m'.cls = m.cls ∧ m'.serial = m.serial ∧ m'.expectReply = m.expectReply ∧ m'.autoStart = m.autoStart ∧
      (∀ x, m'.attrs x = plain (m.attrs x)) ∧
      m'.body = some (.list (Code.plainBList items)) ∧ m'.rawBody = bs ∧ m.rawBody = bs ∧ m.body = some pv ∧
      m'.rawHeader = m.rawHeader ∧ m'.rawPadding = m.rawPadding ∧ m'.otherFlags = 0 ∧ m.otherFlags = 0 :=
  parse_marshal_c01_checked_gen Gen.Message.tables tables_ok na maxLen st st' c m hs n ts pv vs fdl bs fuel hsig hne hbody
    hoob hts hchk hkeys henc hfuel h

/-- `parse_marshal_c01_checked` for `oobFDs=None` - ANY of the four constructors (returns, errors, signals, default calls):
the executable premise is `toSpecTopNoFd` (Msg/WireCodec.lean: `Code.toSpecTop` read without a descriptor list).  The
driver's `buildw` operation evaluates exactly these premises (or those of `parse_marshal_c01_checked` when a list is
given) on every generated case of the stream `wire-codec` and reports `cert=1`. -/
theorem parse_marshal_c01_checked_none (na : Char → Bool) (maxLen : Nat) (st st' : St)
    (c : Call PyVal) (m : Msg PyVal) (hs : 1 ≤ st.nextSerial)
    (n : Nat) (ts : List Ty) (pv : PyVal) (vs : List Val) (fdl : List PyVal) (bs : Bytes) (fuel : Nat)
    (hsig : c.signature = some (renderAll ts)) (hne : renderAll ts ≠ []) (hbody : c.body = some pv)
    (hoob : c.oob = none)
    (hts : allWF ts = true) (hchk : toSpecTopNoFd n ts pv = some vs) (hkeys : Code.keysOKCheck pv = true)
    (henc : Spec.encodeAll Code.genAlign (endianOf true) ts vs 0 = some bs) (hfuel : depthAll vs ≤ fuel)
    (h : construct Gen.Message.tables (wireCodec fuel) na maxLen st c = (st', .ok m)) :
    ∃ items, Code.structFields pv = some items ∧
    ∃ m' : Msg PyVal, parseMessage Gen.Message.tables (wireCodec fuel) m.raw (some fdl) = .ok m' ∧
      m'.cls = m.cls ∧ m'.serial = m.serial ∧ m'.expectReply = m.expectReply ∧ m'.autoStart = m.autoStart ∧
      (∀ x, m'.attrs x = plain (m.attrs x)) ∧
      m'.body = some (.list (Code.plainBList items)) ∧ m'.rawBody = bs ∧ m.rawBody = bs ∧ m.body = some pv ∧
      m'.rawHeader = m.rawHeader ∧ m'.rawPadding = m.rawPadding ∧ m'.otherFlags = 0 ∧ m.otherFlags = 0 :=
  parse_marshal_c01_checked_none_gen Gen.Message.tables tables_ok na maxLen st st' c m hs n ts pv vs fdl bs fuel hsig hne
    hbody hoob hts hchk hkeys henc hfuel h

/-- **The body in its place.**  `parse_marshal_c01*` give `m.rawBody = bs` with `bs` the specification encoding of the
body at offset 0 - what `marshal.marshal(signature, body)` computes.  The specification counts alignment from the start
of the MESSAGE, where the body sits behind `rawHeader ++ rawPadding`: that offset is a multiple of 8, every alignment of
`dbus_types` divides 8 (`Code.genAlign_dvd8`, evaluated on Gen/Wire.lean's table), so `bs` IS the encoding at the
body's real offset (`Spec.encodeAll_shift`, Proofs/Msg/BodyShift.lean), and `rawMessage = rawHeader ++ rawPadding ++ bs`.
Holds for every body codec (only `m.rawBody = bs` is used), either byte order. -/
theorem body_in_place {β : Type} (C : BodyCodec β) (na : Char → Bool) (maxLen : Nat)
    (hmax : maxLen ≤ Spec.maxMessage) (st st' : St) (c : Call β) (m : Msg β) (hs : 1 ≤ st.nextSerial)
    (hsig : SigNoNul c) (h : construct Gen.Message.tables C na maxLen st c = (st', .ok m))
    (e : Endian) (ts : List Ty) (vs : List Val) (bs : Bytes)
    (henc : Spec.encodeAll Code.genAlign e ts vs 0 = some bs) (hraw : m.rawBody = bs) :
    m.raw = m.rawHeader ++ m.rawPadding ++ bs ∧ (m.rawHeader ++ m.rawPadding).length % 8 = 0 ∧
      Spec.encodeAll Code.genAlign e ts vs (m.rawHeader ++ m.rawPadding).length = some bs :=
  body_in_place_gen Gen.Message.tables tables_ok C na maxLen hmax st st' c m hs hsig h e ts vs bs henc hraw

/-- A message without a body (no signature, or the empty one) asks nothing of the codec. -/
theorem parse_marshal_no_body (na : Char → Bool) (maxLen : Nat) (st st' : St)
    (c : Call PyVal) (m : Msg PyVal) (hs : 1 ≤ st.nextSerial) (fuel : Nat) (fdsArg : Option (List PyVal))
    (hsig : c.signature = none ∨ c.signature = some [])
    (h : construct Gen.Message.tables (wireCodec fuel) na maxLen st c = (st', .ok m)) :
    ∃ m' : Msg PyVal, parseMessage Gen.Message.tables (wireCodec fuel) m.raw fdsArg = .ok m' ∧
      m'.cls = m.cls ∧ m'.serial = m.serial ∧ m'.expectReply = m.expectReply ∧ m'.autoStart = m.autoStart ∧
      (∀ x, m'.attrs x = plain (m.attrs x)) ∧ m'.body = none ∧ m'.rawBody = [] ∧ m.rawBody = [] :=
  parse_marshal_no_body_gen Gen.Message.tables tables_ok na maxLen st st' c m hs fuel fdsArg hsig h

/-- `marshal_wellformed` has no hypothesis about the codec (it holds for every `BodyCodec`); its one premise about the
signature, `SigNoNul`, holds for every signature that is the rendering of types - in particular for every body in C01's domain. -/
theorem sigNoNul_of_render {β : Type} (c : Call β) (ts : List Ty) (hsig : c.signature = some (renderAll ts)) :
    SigNoNul c := by
  intro sg hsg
  rw [hsig] at hsg
  simp only [Option.some.injEq] at hsg
  subst hsg
  exact render_noNul ts

/-- **Parsing what another implementation would send.**  Let `w` be any valid message of the
specification (`SpecMsg.valid`: sizes, the header-field type table, the required fields of its type; either byte
order; `Spec.encodeMsg w` are its bytes) whose field list is, in any order,
the known fields `known` (no attribute addressed twice) together with any number of fields `extra`
whose codes `_hcode` does not know.  Then `parseMessage` succeeds with the class of `w`'s type code, its
serial, both flag bits, the remaining flag bits in `otherFlags` (repair 24fc328: `flags & ~0x3`), every attribute = the
value of the known field that addresses it (None when there is none) - independent of the order of the list and of the
unknown fields -, the body bytes, and
the decoded body when the signature field (of type `g`) is non-empty and the body codec decodes `w.body`
in `w`'s byte order (`hC`: discharged by C02's decoder theorem). -/
theorem parse_foreign {β : Type} (C : BodyCodec β) (w : SpecMsg) (hw : w.valid = true)
    (cls : MsgClass) (hcls : w.mtype = Gen.Message.tables.messageType cls)
    (known extra : List Field) (hperm : w.fields.Perm (known ++ extra))
    (hextra : ∀ f ∈ extra, lookupAttr Gen.Message.tables f.1 = none)
    (hknown : (known.map (fun f => lookupAttr Gen.Message.tables f.1)).Nodup)
    (fds : Option (List PyVal)) (hfd : ∀ f ∈ w.fields, f.2.ty = .h → fds ≠ none)
    (decoded : β)
    (hC : ∀ sg, fieldFor Gen.Message.tables known .signature = some (.text .g sg) → sg ≠ [] →
        C.unmarshal sg w.body (decide (w.endian = .little)) fds = .ok decoded) :
    ∃ m' : Msg β, parseMessage Gen.Message.tables C (Spec.encodeMsg w) fds = .ok m' ∧
      m'.cls = cls ∧ m'.serial = w.serial ∧
      m'.expectReply = decide (w.flags % 2 = 0) ∧ m'.autoStart = decide (w.flags / 2 % 2 = 0) ∧
      (∀ a, m'.attrs a = match fieldFor Gen.Message.tables known a with
                         | some hv => pyOf fds hv
                         | none => .none) ∧
      m'.body = (match fieldFor Gen.Message.tables known .signature with
                 | some (.text _ (_ :: _)) => some decoded
                 | _ => none) ∧
      m'.rawBody = w.body ∧ (m'.rawHeader ++ m'.rawPadding ++ m'.rawBody) = Spec.encodeMsg w ∧
      m'.otherFlags = w.flags / 4 * 4 :=
  Main.parse_foreign Gen.Message.tables tables_ok C w hw cls hcls known extra hperm hextra hknown fds hfd
    decoded hC

/-- `parse_foreign` with nothing assumed about the body codec: txdbus's own codec model (`wireCodec`) and C02's
decoder theorem (`Code.unmarshal_eq_spec`) in the place of `hC`.  The body of `w` is the specification encoding, in
`w`'s byte order, of values `vs` of types `ts` (no empty structs) and its SIGNATURE field says `ts`; the parsed body
is the decoding of `vs`. -/
theorem parse_foreign_with_C02 (w : SpecMsg) (hw : w.valid = true)
    (cls : MsgClass) (hcls : w.mtype = Gen.Message.tables.messageType cls)
    (known extra : List Field) (hperm : w.fields.Perm (known ++ extra))
    (hextra : ∀ f ∈ extra, lookupAttr Gen.Message.tables f.1 = none)
    (hknown : (known.map (fun f => lookupAttr Gen.Message.tables f.1)).Nodup)
    (fds : Option (List PyVal)) (hfd : ∀ f ∈ w.fields, f.2.ty = .h → fds ≠ none)
    (ts : List Ty) (vs : List Val) (values : List PyVal) (fuel : Nat)
    (hsigf : fieldFor Gen.Message.tables known .signature = some (.text .g (renderAll ts))) (hne : renderAll ts ≠ [])
    (hts : allWF ts = true)
    (henc : Spec.encodeAll Code.genAlign w.endian ts vs 0 = some w.body)
    (hval : Code.fromSpecFields fds vs ts = some values) (hfuel : depthAll vs ≤ fuel) :
    ∃ m' : Msg PyVal, parseMessage Gen.Message.tables (wireCodec fuel) (Spec.encodeMsg w) fds = .ok m' ∧
      m'.cls = cls ∧ m'.serial = w.serial ∧
      m'.expectReply = decide (w.flags % 2 = 0) ∧ m'.autoStart = decide (w.flags / 2 % 2 = 0) ∧
      (∀ a, m'.attrs a = match fieldFor Gen.Message.tables known a with
                         | some hv => pyOf fds hv
                         | none => .none) ∧
      m'.body = some (.list values) ∧ m'.rawBody = w.body :=
  parse_foreign_wire Gen.Message.tables tables_ok w hw cls hcls known extra hperm hextra hknown fds hfd ts vs values fuel
    hsigf hne hts henc hval hfuel

/-- **"... or the spec-conformant bytes another implementation would produce for the same message, in either byte
order".**  For a constructed message `m` with specification message `sm`: whatever valid message `w` of the same type
carries `sm`'s fields in any order, together with any fields of unknown code - either byte order, its own serial,
flags and body encoding - `parseMessage (Spec.encodeMsg w)` returns `m`'s class and every header attribute of `m`. -/
theorem parse_foreign_of_constructed {β : Type} (C : BodyCodec β) (na : Char → Bool) (maxLen : Nat) (st st' : St)
    (c : Call β) (m : Msg β) (h : construct Gen.Message.tables C na maxLen st c = (st', .ok m)) :
    ∃ sm : SpecMsg, m.toSpec Gen.Message.tables = some sm ∧
      ∀ (w : SpecMsg) (extra : List Field), w.valid = true → w.mtype = sm.mtype →
        w.fields.Perm (sm.fields ++ extra) → (∀ f ∈ extra, lookupAttr Gen.Message.tables f.1 = none) →
        ∀ (fds : Option (List PyVal)), (∀ f ∈ w.fields, f.2.ty = .h → fds ≠ none) →
        ∀ (decoded : β), (∀ sg, fieldFor Gen.Message.tables sm.fields .signature = some (.text .g sg) → sg ≠ [] →
            C.unmarshal sg w.body (decide (w.endian = .little)) fds = .ok decoded) →
        ∃ m' : Msg β, parseMessage Gen.Message.tables C (Spec.encodeMsg w) fds = .ok m' ∧
          m'.cls = m.cls ∧ m'.serial = w.serial ∧
          m'.expectReply = decide (w.flags % 2 = 0) ∧ m'.autoStart = decide (w.flags / 2 % 2 = 0) ∧
          (∀ a, m'.attrs a = plain (m.attrs a)) ∧
          m'.body = (if truthy (m.attrs .signature) then some decoded else none) ∧ m'.rawBody = w.body ∧
          m'.otherFlags = w.flags / 4 * 4 :=
  Main.parse_foreign_of_constructed Gen.Message.tables tables_ok C na maxLen st st' c m h

/-- **... in either byte order, WITH the body and no hypothesis about the codec** (`parse_foreign_of_constructed` composed
with C01/C02 as `parse_marshal_c01` is).  `m` constructed with `wireCodec` from a signature `renderAll ts` and a body
whose items denote the spec values `vs` (`Code.RepFields`, any descriptor bookkeeping `fd k k'`).  Any valid message `w`
of the same type with `m`'s header fields in any order plus unknown fields, in EITHER byte order, whose body is the
specification encoding of `vs` in `w`'s byte order, parses to `m`'s class, every header attribute of `m`, and the same
body values `Code.plainList items`.  What is NOT derived: that `vs` encodes in the other byte order whenever it encodes
little-endian (no such lemma in Proofs/Wire yet; the limits do not depend on the byte order) - the premise says `w.body`
is that encoding. -/
theorem parse_foreign_of_constructed_c01 (na : Char → Bool) (maxLen : Nat) (st st' : St)
    (c : Call PyVal) (m : Msg PyVal)
    (ts : List Ty) (items : List PyVal) (vs : List Val) (fdl : List PyVal) (fd : Bool) (k k' : Nat) (fuel : Nat)
    (hsig : c.signature = some (renderAll ts)) (hne : renderAll ts ≠ [])
    (hts : allWF ts = true) (hrep : Code.RepFields fdl vs fd ts items k k') (hkeys : Code.KeysOKList items)
    (hfuel : depthAll vs ≤ fuel)
    (h : construct Gen.Message.tables (wireCodec fuel) na maxLen st c = (st', .ok m)) :
    ∃ sm : SpecMsg, m.toSpec Gen.Message.tables = some sm ∧
      ∀ (w : SpecMsg) (extra : List Field), w.valid = true → w.mtype = sm.mtype →
        w.fields.Perm (sm.fields ++ extra) → (∀ f ∈ extra, lookupAttr Gen.Message.tables f.1 = none) →
        Spec.encodeAll Code.genAlign w.endian ts vs 0 = some w.body →
        ∃ m' : Msg PyVal, parseMessage Gen.Message.tables (wireCodec fuel) (Spec.encodeMsg w) (some fdl) = .ok m' ∧
          m'.cls = m.cls ∧ m'.serial = w.serial ∧
          m'.expectReply = decide (w.flags % 2 = 0) ∧ m'.autoStart = decide (w.flags / 2 % 2 = 0) ∧
          (∀ a, m'.attrs a = plain (m.attrs a)) ∧
          m'.body = some (.list (Code.plainList items)) ∧ m'.rawBody = w.body ∧
          m'.otherFlags = w.flags / 4 * 4 :=
  parse_foreign_of_constructed_c01_gen Gen.Message.tables tables_ok na maxLen st st' c m ts items vs fdl fd k k' fuel
    hsig hne hts hrep hkeys hfuel h

/-- **The constructed object is the message the arguments describe**: the class of the constructor that was called, the
REQUESTED `expectReply` / `autoStart` (True for the three classes without these arguments), every argument under its own
attribute and nothing else, the body argument; `rawBody` is what the body codec returned for (signature, body, oobFDs)
and `unix_fds` the number of descriptors it collected.  (Ties the theorems about `m` to the call `c`.) -/
theorem constructed_from_arguments {β : Type} (C : BodyCodec β) (na : Char → Bool) (maxLen : Nat) (st st' : St)
    (c : Call β) (m : Msg β) (h : construct Gen.Message.tables C na maxLen st c = (st', .ok m)) :
    (∀ a, c = .methodCall a →
       m.cls = .methodCall ∧ m.expectReply = a.expectReply ∧ m.autoStart = a.autoStart ∧
       m.attrs .path = strAttr a.path ∧ m.attrs .member = strAttr a.member ∧
       m.attrs .interface = strAttr a.interface ∧ m.attrs .destination = strAttr a.destination ∧
       m.attrs .signature = strAttr a.signature ∧
       m.attrs .errorName = .none ∧ m.attrs .replySerial = .none ∧ m.attrs .sender = .none) ∧
    (∀ a, c = .methodReturn a →
       m.cls = .methodReturn ∧ m.expectReply = true ∧ m.autoStart = true ∧
       m.attrs .replySerial = .int .uint32 a.replySerial ∧ m.attrs .destination = strAttr a.destination ∧
       m.attrs .signature = strAttr a.signature ∧
       m.attrs .path = .none ∧ m.attrs .member = .none ∧ m.attrs .interface = .none ∧
       m.attrs .errorName = .none ∧ m.attrs .sender = .none) ∧
    (∀ a, c = .error a →
       m.cls = .error ∧ m.expectReply = true ∧ m.autoStart = true ∧
       m.attrs .errorName = strAttr a.errorName ∧ m.attrs .replySerial = .int .uint32 a.replySerial ∧
       m.attrs .destination = strAttr a.destination ∧ m.attrs .signature = strAttr a.signature ∧
       m.attrs .sender = strAttr a.sender ∧
       m.attrs .path = .none ∧ m.attrs .member = .none ∧ m.attrs .interface = .none) ∧
    (∀ a, c = .signal a →
       m.cls = .signal ∧ m.expectReply = true ∧ m.autoStart = true ∧
       m.attrs .path = strAttr a.path ∧ m.attrs .member = strAttr a.member ∧
       m.attrs .interface = strAttr a.interface ∧ m.attrs .destination = strAttr a.destination ∧
       m.attrs .signature = strAttr a.signature ∧
       m.attrs .errorName = .none ∧ m.attrs .replySerial = .none ∧ m.attrs .sender = .none) ∧
    m.body = c.body ∧
    (match c.signature with
     | some (ch :: cs) =>
       ∃ fds', C.marshal (ch :: cs) c.body c.oob = .ok (m.rawBody, fds') ∧
         m.attrs .unixFds = (match fds' with
                             | some (fd :: l) => .int .plain (((fd :: l).length : Nat) : Nat)
                             | _ => .none)
     | _ => m.rawBody = [] ∧ m.attrs .unixFds = .none) :=
  Main.constructed_from_arguments Gen.Message.tables tables_ok C na maxLen st st' c m h

/-- **What cannot be constructed.**  If a constructor returns a message then the message is at most
`maxLen` bytes long (for the classes of message.py: `maxLen = 2^27`), and its path, interface, member,
destination and error name - each when present - belong to the DBus grammar (the grammar predicates of
C18); a method call is not on the reserved path; member (method call, signal), interface (signal) and
error name (error) are present.  Contrapositive: an argument outside the grammar, the reserved path, or
a body that makes the message longer than the limit, and the constructor raises. -/
theorem cannot_construct {β : Type} (C : BodyCodec β) (na : Char → Bool) (maxLen : Nat)
    (st st' : St) (c : Call β) (m : Msg β) (h : construct Gen.Message.tables C na maxLen st c = (st', .ok m)) :
    m.raw.length ≤ maxLen ∧
    (∀ s, m.attrs .path = .str .plain s →
        Valid.GrammarObjectPath s ∧ (m.cls = .methodCall → s ≠ Gen.Message.tables.reservedPath)) ∧
    (∀ s, m.attrs .interface = .str .plain s → Valid.GrammarInterfaceName s) ∧
    (∀ s, m.attrs .member = .str .plain s → Valid.GrammarMemberName s) ∧
    (∀ s, m.attrs .destination = .str .plain s → Valid.GrammarBusName s) ∧
    (∀ s, m.attrs .errorName = .str .plain s → Valid.GrammarErrorName s) ∧
    (m.cls = .methodCall ∨ m.cls = .signal → ∃ s, m.attrs .member = .str .plain s) ∧
    (m.cls = .signal → ∃ s, m.attrs .interface = .str .plain s) ∧
    (m.cls = .error → ∃ s, m.attrs .errorName = .str .plain s) :=
  Main.cannot_construct Gen.Message.tables tables_ok C na maxLen st st' c m h

/-- The specification's own round trip: the strict decoder returns every valid message from its
encoding, in either byte order, for any field order (this is what makes `Spec.decodeMsg` a judge of
"well-formed" that accepts everything `Spec.encodeMsg` can produce). -/
theorem spec_decode_encode (m : SpecMsg) (hm : m.valid = true) : Spec.decodeMsg (Spec.encodeMsg m) = some m :=
  Spec.decodeMsg_encodeMsg m hm

/-! ## The hypotheses are satisfiable; concrete instances -/

/-- A body codec for the examples: bodies are byte strings that travel as they are. -/
def rawCodec : BodyCodec Bytes where
  marshal := fun _ body fds => .ok (body.getD [], fds)
  unmarshal := fun _ raw _ _ => .ok raw

/-- `MethodCallMessage('/a', 'm')` as the first message of a process: the bytes the real code produces
(`6c01000100000000010000001a000000 01016f00020000002f61000000000000 03017300010000006d00 000000000000`). -/
example :
    ((construct Gen.Message.tables rawCodec (fun _ => false) Gen.Message.maxMsgLen (St.init Gen.Message.tables)
        (.methodCall { path := some "/a".toList, member := some "m".toList })).2.toOption.map Msg.raw)
      = some [0x6c, 1, 0, 1, 0, 0, 0, 0, 1, 0, 0, 0, 0x1a, 0, 0, 0,
              1, 1, 0x6f, 0, 2, 0, 0, 0, 0x2f, 0x61, 0, 0, 0, 0, 0, 0,
              3, 1, 0x73, 0, 1, 0, 0, 0, 0x6d, 0, 0, 0, 0, 0, 0, 0] := by decide +kernel

/-- ... and `parseMessage` of these bytes gives the call back (`parse_marshal` on a concrete instance). -/
example :
    ((parseMessage Gen.Message.tables rawCodec
        [0x6c, 1, 0, 1, 0, 0, 0, 0, 1, 0, 0, 0, 0x1a, 0, 0, 0,
         1, 1, 0x6f, 0, 2, 0, 0, 0, 0x2f, 0x61, 0, 0, 0, 0, 0, 0,
         3, 1, 0x73, 0, 1, 0, 0, 0, 0x6d, 0, 0, 0, 0, 0, 0, 0] none).toOption.map
      fun m => (Gen.Message.messageType m.cls, m.serial, m.expectReply, m.autoStart, m.rawBody))
      = some (1, 1, true, true, []) := by decide +kernel

/-- A big-endian method return with an unknown field (code 200, a BYTE) before the known ones is a valid
message of the specification: the premises of `parse_foreign` are satisfiable. -/
example :
    (SpecMsg.valid ⟨.big, 2, 1, 7, [(200, .num .y 5), (5, .num .u 3), (6, .text .s ":1.2".toList)], []⟩) = true := by
  decide +kernel

/-- The joint premises of `parse_foreign` are satisfiable: a big-endian method return with flags 5 whose field list is
[unknown code 200, REPLY_SERIAL, DESTINATION] = a permutation of `known ++ extra`. -/
example :
    let w : SpecMsg := ⟨.big, 2, 5, 7, [(200, .num .y 5), (5, .num .u 3), (6, .text .s ":1.2".toList)], []⟩
    let known : List Field := [(5, .num .u 3), (6, .text .s ":1.2".toList)]
    let extra : List Field := [(200, .num .y 5)]
    w.valid = true ∧ w.mtype = Gen.Message.tables.messageType .methodReturn ∧
      w.fields.Perm (known ++ extra) ∧ (∀ f ∈ extra, lookupAttr Gen.Message.tables f.1 = none) ∧
      (known.map (fun f => lookupAttr Gen.Message.tables f.1)).Nodup ∧
      (∀ f ∈ w.fields, f.2.ty = .h → (none : Option (List PyVal)) ≠ none) ∧
      fieldFor Gen.Message.tables known .signature = none := by
  refine ⟨by decide +kernel, by decide, ?_, by decide, by decide, by decide, by decide⟩
  exact (List.perm_append_comm (l₁ := [(200, HVal.num .y 5)]) (l₂ := [(5, HVal.num .u 3), (6, HVal.text .s ":1.2".toList)]))

/-- The invalid names of the statement are refused by the constructors (an instance of `cannot_construct`). -/
example :
    (construct Gen.Message.tables rawCodec (fun _ => false) Gen.Message.maxMsgLen (St.init Gen.Message.tables)
        (.methodCall { path := some "/a".toList, member := some "m".toList, interface := some "a.".toList })).2.toOption.isNone
      = true := by decide +kernel

/-- The premises of `parse_marshal_with_C01` are satisfiable: `MethodCallMessage('/a', 'm', signature='i', body=[7], oobFDs=[])`. -/
example :
    let ts : List Ty := [.basic .i]
    let items : List PyVal := [.int .plain 7]
    let vs : List Val := [.int 7]
    allWF ts = true ∧ Code.topItems (.list items) = .ok items ∧
      Code.RepFields [] vs true ts items 0 0 ∧ Code.KeysOKList items ∧
      Spec.encodeAll Code.genAlign (endianOf true) ts vs 0 = some [7, 0, 0, 0] ∧ depthAll vs ≤ 2 ∧
      ((construct Gen.Message.tables (wireCodec 2) (fun _ => false) Gen.Message.maxMsgLen (St.init Gen.Message.tables)
        (.methodCall { path := some "/a".toList, member := some "m".toList, signature := some (renderAll ts),
                       body := some (.list items), oobFDs := some [] })).2.toOption.map Msg.rawBody) = some [7, 0, 0, 0] := by
  refine ⟨by decide, rfl, ?_, ?_, by decide +kernel, by decide, by decide +kernel⟩
  · refine ⟨_, _, _, _, 0, rfl, rfl, ?_, ⟨rfl, rfl, rfl⟩⟩
    simp only [Code.Rep]
    exact ⟨.i, rfl, Or.inr ⟨by decide, ⟨_, rfl⟩, rfl⟩⟩
  · simp [Code.KeysOKList, Code.KeysOK]

/-- `parse_marshal_c01_checked` on a concrete message with a non-trivial body: `MethodCallMessage('/a', 'm',
signature='saivh', body=['hi', (1, Int32(-2)), UInt32(7), 42], oobFDs=[])` (a string, a tuple for an array, a variant whose
content is inferred 'u', a descriptor) as the first message of a process.  Every premise is discharged by evaluation, and
the theorem yields: parsing its 104 bytes with the collected descriptor list `[42]` returns the body
`['hi', [1, -2], 7, 42]`. -/
example :
    ∃ m m', (construct Gen.Message.tables (wireCodec 4) (fun _ => false) Gen.Message.maxMsgLen (St.init Gen.Message.tables)
        (.methodCall { path := some "/a".toList, member := some "m".toList,
                       signature := some "saivh".toList,
                       body := some (.list [.str .plain "hi".toList, .tuple [.int .plain 1, .int .int32 (-2)],
                                            .int .uint32 7, .int .plain 42]),
                       oobFDs := some [] })).2 = .ok m ∧
      parseMessage Gen.Message.tables (wireCodec 4) m.raw (some [.int .plain 42]) = .ok m' ∧
      m'.body = some (.list [.str .plain "hi".toList, .list [.int .plain 1, .int .plain (-2)], .int .plain 7, .int .plain 42]) ∧
      m'.serial = 1 ∧ m.rawBody.length = 32 := by
  let ts : List Ty := [.basic .s, .array (.basic .i), .variant, .basic .h]
  let pv : PyVal := .list [.str .plain "hi".toList, .tuple [.int .plain 1, .int .int32 (-2)], .int .uint32 7, .int .plain 42]
  let c : Call PyVal := .methodCall { path := some "/a".toList, member := some "m".toList, signature := some "saivh".toList,
                                      body := some pv, oobFDs := some [] }
  let vs : List Val := [.str [104, 105], .array [.int 1, .int (-2)], .variant (.basic .u) (.int 7), .int 0]
  let bs : Bytes := [2, 0, 0, 0, 104, 105, 0, 0, 8, 0, 0, 0, 1, 0, 0, 0, 254, 255, 255, 255, 1, 117, 0, 0, 7, 0, 0, 0, 0, 0, 0, 0]
  cases hr : construct Gen.Message.tables (wireCodec 4) (fun _ => false) Gen.Message.maxMsgLen (St.init Gen.Message.tables) c with
  | mk st' r =>
    cases r with
    | error e =>
      exfalso
      have : (construct Gen.Message.tables (wireCodec 4) (fun _ => false) Gen.Message.maxMsgLen
                (St.init Gen.Message.tables) c).2.toOption.isSome = true := by decide +kernel
      rw [hr] at this
      cases this
    | ok m =>
      obtain ⟨items, hitems, m', p1, _, p3, _, _, _, p7, _, p9, _⟩ :=
        parse_marshal_c01_checked (fun _ => false) Gen.Message.maxMsgLen (St.init Gen.Message.tables) st' c m (by decide)
          20 ts pv vs [.int .plain 42] bs 4 rfl (by decide) rfl rfl (by decide) rfl rfl (by decide +kernel) (by decide) hr
      have hi : items = [.str .plain "hi".toList, .tuple [.int .plain 1, .int .int32 (-2)], .int .uint32 7, .int .plain 42] := by
        have : Code.structFields pv = some [.str .plain "hi".toList, .tuple [.int .plain 1, .int .int32 (-2)], .int .uint32 7, .int .plain 42] := rfl
        rw [this] at hitems
        exact (Option.some.inj hitems).symm
      subst hi
      have hm1 : m.serial = 1 := by
        have := (construct_ok Gen.Message.tables tables_ok (wireCodec 4) (fun _ => false) Gen.Message.maxMsgLen
          (St.init Gen.Message.tables) st' c m hr)
        obtain ⟨sm, hb⟩ := this
        exact hb.serial
      refine ⟨m, m', rfl, p1, ?_, by rw [p3, hm1], by rw [p9]; rfl⟩
      rw [p7]
      rfl

/-- `parse_marshal_c01` ITSELF (the relational premises `Code.RepFields`, `Code.KeysOKList`) instantiated for every
constructor and both branches of `hoob`: a call `c` with signature 'i', body `[7]`, that constructs.  Its premises are
proved here once (the `oobFDs=None` branch reads `RepFields … false … 0 0`, the `oobFDs=[]` branch `RepFields … true … 0 0`
with the collected list `[]`), and the theorem yields: parsing the bytes gives the body `[7]`, the four body bytes, and
the raw header of `m`. -/
theorem c01_instance (c : Call PyVal) (st' : St) (m : Msg PyVal)
    (hsig : c.signature = some "i".toList) (hbody : c.body = some (.list [.int .plain 7]))
    (hoob : c.oob = none ∨ c.oob = some [])
    (h : construct Gen.Message.tables (wireCodec 2) (fun _ => false) Gen.Message.maxMsgLen (St.init Gen.Message.tables) c
          = (st', .ok m)) :
    ∃ m' : Msg PyVal, parseMessage Gen.Message.tables (wireCodec 2) m.raw (some []) = .ok m' ∧
      m'.cls = m.cls ∧ m'.body = some (.list [.int .plain 7]) ∧ m.rawBody = [7, 0, 0, 0] ∧
      m'.rawHeader = m.rawHeader ∧ m'.otherFlags = 0 := by
  have hrep : ∀ fd : Bool, Code.RepFields [] [.int 7] fd [.basic .i] [.int .plain 7] 0 0 := by
    intro fd
    refine ⟨_, _, _, _, 0, rfl, rfl, ?_, ⟨rfl, rfl, rfl⟩⟩
    simp only [Code.Rep]
    exact ⟨.i, rfl, Or.inr ⟨by decide, ⟨_, rfl⟩, rfl⟩⟩
  have hrep' : Code.RepFields [] [.int 7] c.oob.isSome [.basic .i] [.int .plain 7] 0
      (if c.oob.isSome then ([] : List PyVal).length else 0) := by
    rcases hoob with ho | ho <;> rw [ho] <;> exact hrep _
  obtain ⟨m', p1, p2, _, _, _, _, p7, _, p9, _, p11, _, p13, _⟩ :=
    parse_marshal_c01 (fun _ => false) Gen.Message.maxMsgLen (St.init Gen.Message.tables) st' c m (by decide)
      [.basic .i] (.list [.int .plain 7]) [.int .plain 7] [.int 7] [] [7, 0, 0, 0] 2 hsig (by decide) hbody hoob
      (by decide) rfl hrep' (by simp [Code.KeysOKList, Code.KeysOK]) (by decide +kernel) (by decide) h
  exact ⟨m', p1, p2, p7, p9, p11, p13⟩

/-- A construction that evaluates to a message gives the `(st', .ok m)` shape the theorems ask for. -/
theorem construct_shape {β : Type} {T : Tables} {C : BodyCodec β} {na : Char → Bool} {maxLen : Nat} {st : St} {c : Call β}
    (hok : (construct T C na maxLen st c).2.toOption.isSome = true) :
    ∃ st' m, construct T C na maxLen st c = (st', .ok m) := by
  cases hr : construct T C na maxLen st c with
  | mk st' r =>
    cases r with
    | error e => rw [hr] at hok; cases hok
    | ok m => exact ⟨st', m, rfl⟩

/-- `MethodReturnMessage(5, signature='i', body=[7])` (`oobFDs=None`). -/
example : ∃ st' m m', construct Gen.Message.tables (wireCodec 2) (fun _ => false) Gen.Message.maxMsgLen
      (St.init Gen.Message.tables) (.methodReturn { replySerial := 5, signature := some "i".toList,
                                                     body := some (.list [.int .plain 7]) }) = (st', .ok m) ∧
    parseMessage Gen.Message.tables (wireCodec 2) m.raw (some []) = .ok m' ∧ m'.cls = m.cls ∧
    m'.body = some (.list [.int .plain 7]) ∧ m.rawBody = [7, 0, 0, 0] := by
  obtain ⟨st', m, h⟩ := construct_shape (T := Gen.Message.tables) (C := wireCodec 2) (na := fun _ => false)
    (maxLen := Gen.Message.maxMsgLen) (st := St.init Gen.Message.tables)
    (c := .methodReturn { replySerial := 5, signature := some "i".toList, body := some (.list [.int .plain 7]) })
    (by decide +kernel)
  obtain ⟨m', q1, q2, q3, q4, _⟩ := c01_instance _ st' m rfl rfl (Or.inl rfl) h
  exact ⟨st', m, m', h, q1, q2, q3, q4⟩

/-- `ErrorMessage('a.E', 5, signature='i', body=[7], sender=':1.2')` (`oobFDs=None`). -/
example : ∃ st' m m', construct Gen.Message.tables (wireCodec 2) (fun _ => false) Gen.Message.maxMsgLen
      (St.init Gen.Message.tables) (.error { errorName := some "a.E".toList, replySerial := 5, signature := some "i".toList,
                                             body := some (.list [.int .plain 7]), sender := some ":1.2".toList }) = (st', .ok m) ∧
    parseMessage Gen.Message.tables (wireCodec 2) m.raw (some []) = .ok m' ∧ m'.cls = m.cls ∧
    m'.body = some (.list [.int .plain 7]) ∧ m.rawBody = [7, 0, 0, 0] := by
  obtain ⟨st', m, h⟩ := construct_shape (T := Gen.Message.tables) (C := wireCodec 2) (na := fun _ => false)
    (maxLen := Gen.Message.maxMsgLen) (st := St.init Gen.Message.tables)
    (c := .error { errorName := some "a.E".toList, replySerial := 5, signature := some "i".toList,
                   body := some (.list [.int .plain 7]), sender := some ":1.2".toList })
    (by decide +kernel)
  obtain ⟨m', q1, q2, q3, q4, _⟩ := c01_instance _ st' m rfl rfl (Or.inl rfl) h
  exact ⟨st', m, m', h, q1, q2, q3, q4⟩

/-- `SignalMessage('/a', 'm', 'a.b', signature='i', body=[7])` (`oobFDs=None`). -/
example : ∃ st' m m', construct Gen.Message.tables (wireCodec 2) (fun _ => false) Gen.Message.maxMsgLen
      (St.init Gen.Message.tables) (.signal { path := some "/a".toList, member := some "m".toList,
                                              interface := some "a.b".toList, signature := some "i".toList,
                                              body := some (.list [.int .plain 7]) }) = (st', .ok m) ∧
    parseMessage Gen.Message.tables (wireCodec 2) m.raw (some []) = .ok m' ∧ m'.cls = m.cls ∧
    m'.body = some (.list [.int .plain 7]) ∧ m.rawBody = [7, 0, 0, 0] := by
  obtain ⟨st', m, h⟩ := construct_shape (T := Gen.Message.tables) (C := wireCodec 2) (na := fun _ => false)
    (maxLen := Gen.Message.maxMsgLen) (st := St.init Gen.Message.tables)
    (c := .signal { path := some "/a".toList, member := some "m".toList, interface := some "a.b".toList,
                    signature := some "i".toList, body := some (.list [.int .plain 7]) })
    (by decide +kernel)
  obtain ⟨m', q1, q2, q3, q4, _⟩ := c01_instance _ st' m rfl rfl (Or.inl rfl) h
  exact ⟨st', m, m', h, q1, q2, q3, q4⟩

/-- `MethodCallMessage('/a', 'm', signature='i', body=[7])` - the DEFAULT `oobFDs=None` - and the same with `oobFDs=[]`:
both branches of `hoob` on the class that has the argument. -/
example : (∃ st' m m', construct Gen.Message.tables (wireCodec 2) (fun _ => false) Gen.Message.maxMsgLen
      (St.init Gen.Message.tables) (.methodCall { path := some "/a".toList, member := some "m".toList,
                                                   signature := some "i".toList, body := some (.list [.int .plain 7]) }) = (st', .ok m) ∧
    parseMessage Gen.Message.tables (wireCodec 2) m.raw (some []) = .ok m' ∧ m'.body = some (.list [.int .plain 7])) ∧
    (∃ st' m m', construct Gen.Message.tables (wireCodec 2) (fun _ => false) Gen.Message.maxMsgLen
      (St.init Gen.Message.tables) (.methodCall { path := some "/a".toList, member := some "m".toList,
                                                   signature := some "i".toList, body := some (.list [.int .plain 7]),
                                                   oobFDs := some [] }) = (st', .ok m) ∧
    parseMessage Gen.Message.tables (wireCodec 2) m.raw (some []) = .ok m' ∧ m'.body = some (.list [.int .plain 7])) := by
  constructor
  · obtain ⟨st', m, h⟩ := construct_shape (T := Gen.Message.tables) (C := wireCodec 2) (na := fun _ => false)
      (maxLen := Gen.Message.maxMsgLen) (st := St.init Gen.Message.tables)
      (c := .methodCall { path := some "/a".toList, member := some "m".toList, signature := some "i".toList,
                          body := some (.list [.int .plain 7]) })
      (by decide +kernel)
    obtain ⟨m', q1, _, q3, _⟩ := c01_instance _ st' m rfl rfl (Or.inl rfl) h
    exact ⟨st', m, m', h, q1, q3⟩
  · obtain ⟨st', m, h⟩ := construct_shape (T := Gen.Message.tables) (C := wireCodec 2) (na := fun _ => false)
      (maxLen := Gen.Message.maxMsgLen) (st := St.init Gen.Message.tables)
      (c := .methodCall { path := some "/a".toList, member := some "m".toList, signature := some "i".toList,
                          body := some (.list [.int .plain 7]), oobFDs := some [] })
      (by decide +kernel)
    obtain ⟨m', q1, _, q3, _⟩ := c01_instance _ st' m rfl rfl (Or.inr rfl) h
    exact ⟨st', m, m', h, q1, q3⟩

/-- `parse_marshal_c01_checked_none` on a signal with a non-trivial body: `SignalMessage('/a', 'm', 'a.b', signature='a{sv}b',
body=[{'k': Int16(-3)}, Boolean(1)])` - every premise by evaluation; the parsed body is `[{'k': -3}, True]`. -/
example : ∃ st' m m', construct Gen.Message.tables (wireCodec 5) (fun _ => false) Gen.Message.maxMsgLen
      (St.init Gen.Message.tables) (.signal { path := some "/a".toList, member := some "m".toList,
                                              interface := some "a.b".toList, signature := some "a{sv}b".toList,
                                              body := some (.list [.dict [(.str .plain "k".toList, .int .int16 (-3))], .int .boolean 1]) }) = (st', .ok m) ∧
    parseMessage Gen.Message.tables (wireCodec 5) m.raw (some []) = .ok m' ∧
    m'.body = some (.list [.dict [(.str .plain "k".toList, .int .plain (-3))], .bool true]) ∧ m'.rawHeader = m.rawHeader := by
  let ts : List Ty := [.array (.dict (.basic .s) .variant), .basic .b]
  let pv : PyVal := .list [.dict [(.str .plain "k".toList, .int .int16 (-3))], .int .boolean 1]
  let c : Call PyVal := .signal { path := some "/a".toList, member := some "m".toList, interface := some "a.b".toList,
                                  signature := some "a{sv}b".toList, body := some pv }
  obtain ⟨st', m, h⟩ := construct_shape (T := Gen.Message.tables) (C := wireCodec 5) (na := fun _ => false)
    (maxLen := Gen.Message.maxMsgLen) (st := St.init Gen.Message.tables) (c := c) (by decide +kernel)
  have hv : ∃ vs bs, toSpecTopNoFd 20 ts pv = some vs ∧
      Spec.encodeAll Code.genAlign (endianOf true) ts vs 0 = some bs ∧ depthAll vs ≤ 5 := by
    exact ⟨[.array [.entry (.str [107]) (.variant (.basic .n) (.int (-3)))], .bool true],
      [12, 0, 0, 0, 0, 0, 0, 0, 1, 0, 0, 0, 107, 0, 1, 110, 0, 0, 253, 255, 1, 0, 0, 0], rfl, by decide +kernel, by decide⟩
  obtain ⟨vs, bs, h1, h2, h3⟩ := hv
  obtain ⟨items, hitems, m', p1, _, _, _, _, _, p7, _, _, _, p11, _⟩ :=
    parse_marshal_c01_checked_none (fun _ => false) Gen.Message.maxMsgLen (St.init Gen.Message.tables) st' c m (by decide)
      20 ts pv vs [] bs 5 rfl (by decide) rfl rfl (by decide) h1 rfl h2 h3 h
  have hi : items = [.dict [(.str .plain "k".toList, .int .int16 (-3))], .int .boolean 1] := by
    have : Code.structFields pv = some [.dict [(.str .plain "k".toList, .int .int16 (-3))], .int .boolean 1] := rfl
    rw [this] at hitems
    exact (Option.some.inj hitems).symm
  subst hi
  exact ⟨st', m, m', h, p1, by rw [p7]; rfl, p11⟩


/-! ## Extension 2026-09-30: the GENERAL wire codec on the header signature (what `_marshal` / `parseMessage` call)

`Msg/HeaderCode.lean` (the codec the theorems above are about) is `marshal.marshal` / `marshal.unmarshal` specialised
by hand to `'yyyyuua(yv)'`.  The real code calls the general functions; C01/C02's code model of those is Wire/Code.lean.
The two theorems below close the seam: on the header signature the general model IS the specialised one.  The fragment,
precisely:
  * decoder - every byte string on which the specialised decoder does not answer `PyErr.other`; it answers `other`
    exactly when it reaches a header field whose variant signature starts with a type code of `dbus_types` and is not
    exactly ONE BASIC type code (`unmarshalVariant`, Msg/HeaderCode.lean: a container, a variant, or several types) -
    then the general decoder goes on decoding that field (or fails in it), i.e. LEAVES the fragment; with any other
    exception the general decoder FAILS with the same exception;
  * encoder - every list of header values on which the specialised encoder does not answer `PyErr.other`; it answers
    `other` exactly when it reaches a header value whose inferred signature (`sigFromPy`) is not one of `y u s o g`
    (one character) after everything before it was marshalled; `headerCode_encode_fragment`: header values of the
    classes `_marshal` produces (str, ObjectPath, Signature, Byte, UInt32) never leave it.
Step budget of the general model: `fuel + 4` for any `fuel` (array, struct, variant, basic value: four nested per-type
calls), shown sufficient by the theorems themselves (the result does not depend on `fuel`). -/

/-- The alignment column of Gen/Message.lean (probed from `marshal.pad`) agrees with `pad[...]` of the general model
(Gen/Wire.lean's `dbus_types` column) on EVERY character: the same alignment, and 0 exactly where `pad` has no key. -/
theorem pad_agree : PadAgree Gen.Message.align := gen_padAgree

/-- **HeaderCode's decoder = C01's `Code.unmarshal` on `yyyyuua(yv)` at offset 0**, for every byte string, byte order,
descriptor list: same header (as the Python values `unmarshal` returns: `HeaderVals.toPy`), same byte count, same exception. -/
theorem headerCode_eq_general_decode (le : Bool) (fds : Option (List PyVal)) (fuel : Nat) (data : Bytes)
    (hne : unmarshalHeader Gen.Message.align le data fds ≠ .error .other) :
    Code.unmarshal (fuel + 4) Gen.Message.headerFormat data 0 le fds =
      match unmarshalHeader Gen.Message.align le data fds with
      | .error e => .error e
      | .ok h => .ok (h.nheader, h.toPy) :=
  unmarshalHeader_eq_general Gen.Message.align pad_agree gen_alignOK le fds fuel data hne

/-- **HeaderCode's encoder = C01's `Code.marshal` on `yyyyuua(yv)`** and the list `[endian, type, flags, version,
bodyLength, serial, headers]` at startByte 0 without a descriptor list, for ALL Python values in the seven positions and
any header list: the same bytes (`_marshal` keeps `[1]`, the chunks), the same exception. -/
theorem headerCode_eq_general_encode (le : Bool) (fuel : Nat) (v0 v1 v2 v3 v4 v5 : PyVal) (hs : List (PyVal × PyVal))
    (hne : marshalHeader Gen.Message.align le v0 v1 v2 v3 v4 v5 hs ≠ .error .other) :
    (match Code.marshal (fuel + 4) Gen.Message.headerFormat (headerArgs v0 v1 v2 v3 v4 v5 hs) 0 le none with
     | .ok (_, bs, _) => .ok bs
     | .error e => .error e) = marshalHeader Gen.Message.align le v0 v1 v2 v3 v4 v5 hs :=
  marshalHeader_eq_general Gen.Message.align pad_agree gen_alignOK le fuel v0 v1 v2 v3 v4 v5 hs hne

/-- **When HeaderCode's decoder fails with `PyErr.other`, the general decoder LEAVES THE FRAGMENT** (necessary condition on
the bytes; the form anchored to the decoder's walk is `headerCode_outside_fragment_anchored` below) (with any other exception
it fails with the same exception: `headerCode_eq_general_decode`): some header field's variant, at some offset of the
message, carries a signature that starts with a type code of `dbus_types` and is not exactly one basic type code (a
container, a variant, or more than one type) - the general decoder goes on into that value.  Never an exhausted loop budget. -/
theorem headerCode_outside_fragment (le : Bool) (data : Bytes) (fds : Option (List PyVal))
    (h : unmarshalHeader Gen.Message.align le data fds = .error .other) :
    ∃ off nsig ch more, unmarshalSignature le (rdAt data off) = .ok (nsig, ch :: more) ∧ Gen.Message.align ch ≠ 0 ∧
      (more ≠ [] ∨ Basic.ofCode? ch = none) :=
  unmarshalHeader_other Gen.Message.align gen_alignOK le data fds h

/-- The ANCHORED form (review 3, 1.3): `headerCode_outside_fragment` states a NECESSARY condition on the bytes (`∃ off`: such a
signature stands somewhere); this statement ties it to the decoder's own walk - at that offset HeaderCode's `unmarshal_variant`
itself answers `other`, i.e. the walk over the field array reached that variant (everything before it decoded, the loop budget
`rest.length + 1` was not exhausted: `unmarshalItems_other`). -/
theorem headerCode_outside_fragment_anchored (le : Bool) (data : Bytes) (fds : Option (List PyVal))
    (h : unmarshalHeader Gen.Message.align le data fds = .error .other) :
    ∃ off, unmarshalVariant Gen.Message.align le (rdAt data off) fds = .error .other :=
  unmarshalHeader_other_anchored Gen.Message.align gen_alignOK le data fds h

/-- Whatever the general decoder returns for the header signature - on ANY byte string, inside or outside the fragment -
has the shape `parseMessage` reads (`hval[1]`, `hval[2]`, `hval[5]`, `for code, v in hval[6]`): `headerOfPy` never fails,
the `PyErr.other` branch of `parseMessageG`'s header reading is dead. -/
theorem general_result_shape (fuel : Nat) (data : Bytes) (le : Bool) (fds : Option (List PyVal)) (n : Nat) (vs : List PyVal)
    (h : Code.unmarshal fuel Gen.Message.headerFormat data 0 le fds = .ok (n, vs)) : ∃ hv, headerOfPy n vs = .ok hv :=
  headerOfPy_general fuel data le fds n vs h

/-- The encoder's fragment contains every header list `_marshal` can build: entries `[code, typed value]` with a value of
class str / ObjectPath / Signature / Byte / UInt32 (`AllIs hs fs`: each denotes a specification field). -/
theorem headerCode_encode_fragment (le : Bool) (v0 v1 v2 v3 v4 v5 : PyVal) (hs : List (PyVal × PyVal)) (fs : List Field)
    (hall : AllIs hs fs) : marshalHeader Gen.Message.align le v0 v1 v2 v3 v4 v5 hs ≠ .error .other :=
  marshalHeader_ne_other Gen.Message.align gen_alignOK le v0 v1 v2 v3 v4 v5 hs fs hall

/-- The hypothesis of `headerCode_eq_general_decode` holds on the header of `MethodCallMessage('/a', 'm')`, and the
conclusion evaluates: the general decoder returns 42 bytes and `[108, 1, 0, 1, 0, 1, [[1, '/a'], [3, 'm']]]`. -/
example :
    let raw : Bytes := [0x6c, 1, 0, 1, 0, 0, 0, 0, 1, 0, 0, 0, 0x1a, 0, 0, 0,
              1, 1, 0x6f, 0, 2, 0, 0, 0, 0x2f, 0x61, 0, 0, 0, 0, 0, 0,
              3, 1, 0x73, 0, 1, 0, 0, 0, 0x6d, 0, 0, 0, 0, 0, 0, 0]
    unmarshalHeader Gen.Message.align true raw none ≠ .error .other ∧
    (Code.unmarshal 4 Gen.Message.headerFormat raw 0 true none).toOption.map (·.1) = some 42 := by
  exact ⟨(outside_false_iff _).mp (by decide +kernel), by decide +kernel⟩

/-- OUTSIDE the fragment: a method return whose unknown field 20 holds a variant of type `ai` (array of INT32).  The
specialised decoder answers `other`; the general decoder decodes it (`[[5, 3], [20, [7]]]`). -/
example :
    let raw : Bytes := [0x6c, 2, 0, 1, 0, 0, 0, 0, 7, 0, 0, 0, 0x18, 0, 0, 0,
              5, 1, 0x75, 0, 3, 0, 0, 0,
              20, 2, 0x61, 0x69, 0, 0, 0, 0, 4, 0, 0, 0, 7, 0, 0, 0]
    outside (unmarshalHeader Gen.Message.align true raw none) = true ∧
    (Code.unmarshal 6 Gen.Message.headerFormat raw 0 true none).toOption.map (·.1) = some 40 := by
  decide +kernel

/-- The hypothesis of `headerCode_eq_general_encode` on the header list of `MethodCallMessage('/a', 'm')`; outside: a
header value that is a list (inferred signature `as`). -/
example :
    marshalHeader Gen.Message.align true (.int .plain 108) (.int .plain 1) (.int .plain 0) (.int .plain 1) (.int .plain 0)
      (.int .plain 1) [(.int .plain 1, .str .objectPath "/a".toList), (.int .plain 3, .str .plain "m".toList)] ≠ .error .other ∧
    outside (marshalHeader Gen.Message.align true (.int .plain 108) (.int .plain 1) (.int .plain 0) (.int .plain 1) (.int .plain 0)
      (.int .plain 1) [(.int .plain 2, .list [.str .plain "x".toList])]) = true := by
  exact ⟨(outside_false_iff _).mp (by decide +kernel), by decide +kernel⟩

/-- **Every constructor call**: the message model whose `_marshal` encodes the header with the GENERAL code model
(`constructG`, Msg/General.lean) returns exactly what the model with the specialised encoder returns - the same message
or the same exception, and the same counter - for every call, body codec and state (a constructor never stores a value
outside the encoder's fragment in a header attribute). -/
theorem construct_general_eq {β : Type} (C : BodyCodec β) (fuel : Nat) (na : Char → Bool) (maxLen : Nat) (st : St)
    (c : Call β) :
    constructG Gen.Message.tables C (fuel + 4) na maxLen st c = construct Gen.Message.tables C na maxLen st c :=
  constructG_eq Gen.Message.tables tables_ok pad_agree C fuel na maxLen st c

/-- **parseMessage**: the model that decodes the header with the GENERAL code model (`parseMessageG`) agrees with the
specialised one on every byte string whose header stays inside the decoder's fragment ... -/
theorem parse_general_eq {β : Type} (C : BodyCodec β) (fuel : Nat) (raw : Bytes) (fds : Option (List PyVal))
    (hne : ∀ b0 rest, raw = b0 :: rest → unmarshalHeader Gen.Message.align (b0 == 108) raw fds ≠ .error .other) :
    parseMessageG Gen.Message.tables C (fuel + 4) raw fds = parseMessage Gen.Message.tables C raw fds :=
  parseMessageG_eq Gen.Message.tables tables_ok pad_agree C fuel raw fds hne

/-- ... in particular whenever the specialised model returns a message. -/
theorem parse_general_of_ok {β : Type} (C : BodyCodec β) (fuel : Nat) (raw : Bytes) (fds : Option (List PyVal))
    (m : Msg β) (h : parseMessage Gen.Message.tables C raw fds = .ok m) :
    parseMessageG Gen.Message.tables C (fuel + 4) raw fds = .ok m :=
  parseMessageG_of_ok Gen.Message.tables tables_ok pad_agree C fuel raw fds m h

/-- What `parseMessageG` is made of: the general decoder on the header signature at offset 0, in the byte order of the
first byte, read as `parseMessage` reads `hval`. -/
theorem parse_general_calls {β : Type} (C : BodyCodec β) (fuel : Nat) (raw : Bytes) (fds : Option (List PyVal))
    (m : Msg β) (h : parseMessageG Gen.Message.tables C fuel raw fds = .ok m) :
    ∃ b0 rest n vs hv, raw = b0 :: rest ∧
      Code.unmarshal fuel Gen.Message.headerFormat raw 0 (b0 == 108) fds = .ok (n, vs) ∧ headerOfPy n vs = .ok hv ∧
      parseAfterHeader Gen.Message.tables C raw (b0 == 108) fds hv = .ok m :=
  parseMessageG_calls Gen.Message.tables C fuel raw fds m h

/-- **`marshal_wellformed` about the general codec.**  A message constructed by the model that calls the GENERAL encoder:
its `rawHeader` IS what `Code.marshal` returns for `yyyyuua(yv)` and `[108, type, flags, 1, len(rawBody), serial, headers]`
(`headers` = `_marshal`'s header list of the object), little endian, startByte 0 - and it is the well-formed message of
`marshal_wellformed` (all its clauses). -/
theorem marshal_wellformed_general {β : Type} (C : BodyCodec β) (fuel : Nat) (na : Char → Bool) (maxLen : Nat)
    (hmax : maxLen ≤ Spec.maxMessage) (st st' : St) (c : Call β) (m : Msg β)
    (hs : 1 ≤ st.nextSerial) (hsig : SigNoNul c)
    (h : constructG Gen.Message.tables C (fuel + 4) na maxLen st c = (st', .ok m)) :
    (∃ headers n f, buildHeaders m.attrs (Gen.Message.tables.entries m.cls (hasFds m)) = .ok headers ∧
      Code.marshal (fuel + 4) Gen.Message.headerFormat
        (headerArgs (.int .plain ((108 : Nat) : Nat)) (.int .plain (Gen.Message.messageType m.cls : Nat))
          (.int .plain (flagsByte m.expectReply m.autoStart : Nat)) (.int .plain ((1 : Nat) : Nat))
          (.int .plain (m.rawBody.length : Nat)) (.int .plain (m.serial : Nat)) headers)
        0 true none = .ok (n, m.rawHeader, f)) ∧
    ∃ sm : SpecMsg, m.toSpec Gen.Message.tables = some sm ∧
      m.raw = Spec.fixedPart sm (Spec.fieldArray sm).length ++ Spec.fieldArray sm ++ Spec.headerPad sm ++ m.rawBody ∧
      m.rawHeader = Spec.fixedPart sm (Spec.fieldArray sm).length ++ Spec.fieldArray sm ∧
      m.rawPadding = Spec.headerPad sm ∧
      (m.rawHeader ++ m.rawPadding).length % 8 = 0 ∧ m.rawPadding.length < 8 ∧ (∀ b ∈ m.rawPadding, b = 0) ∧
      m.serial = st.nextSerial ∧ m.serial ≠ 0 ∧ m.serial < 4294967296 ∧
      (sm.fields.map (·.1)).Nodup ∧ sm.fields.all Field.wf = true ∧
      (∀ f ∈ sm.fields, Spec.fieldType f.1 = some f.2.ty) ∧
      (c.pathGiven → ∀ code ∈ Spec.requiredCodes (Gen.Message.tables.messageType m.cls), code ∈ sm.fields.map (·.1)) ∧
      m.raw.length ≤ maxLen ∧
      (c.pathGiven → (Spec.fieldArray sm).length ≤ Spec.maxArray → Spec.decodeMsg m.raw = some sm) := by
  have hcall := constructG_header Gen.Message.tables C (fuel + 4) na maxLen st st' c m h
  rw [construct_general_eq] at h
  obtain ⟨sm, p1, p2, p3, p4, _, p6, p7, p8, _, _, _, _, p13, p14, p15, _, _, p18, p19, p20, p21, p22, p23⟩ :=
    marshal_wellformed C na maxLen hmax st st' c m hs hsig h
  exact ⟨hcall, sm, p1, p2, p3, p4, p6, p7, p8, p13, p14, p15, p18, p19, p20, p21, p22, p23⟩

/-- **`parse_marshal` about the general codec**: construct with the general header encoder, parse with the general header
decoder - what txdbus really runs on both sides - and get the message back (`parse_marshal`'s conclusion). -/
theorem parse_marshal_general {β : Type} (C : BodyCodec β) (fuel fuel' : Nat) (na : Char → Bool) (maxLen : Nat)
    (st st' : St) (c : Call β) (m : Msg β) (hs : 1 ≤ st.nextSerial) (hsig : SigNoNul c)
    (h : constructG Gen.Message.tables C (fuel + 4) na maxLen st c = (st', .ok m))
    (fdsAfter : Option (List PyVal)) (decoded : β)
    (hC : ∀ sg, m.attrs .signature = .str .plain sg → sg ≠ [] →
        ∃ bytes fds', C.marshal sg m.body c.oob = .ok (bytes, fds') ∧ C.unmarshal sg bytes true fdsAfter = .ok decoded) :
    ∃ m' : Msg β, parseMessageG Gen.Message.tables C (fuel' + 4) m.raw fdsAfter = .ok m' ∧
      m'.cls = m.cls ∧ m'.serial = m.serial ∧ m'.expectReply = m.expectReply ∧ m'.autoStart = m.autoStart ∧
      (∀ a, m'.attrs a = plain (m.attrs a)) ∧
      m'.body = (if truthy (m.attrs .signature) then some decoded else none) ∧
      m'.rawHeader = m.rawHeader ∧ m'.rawPadding = m.rawPadding ∧ m'.rawBody = m.rawBody ∧
      m'.otherFlags = 0 ∧ m.otherFlags = 0 := by
  rw [construct_general_eq] at h
  obtain ⟨m', p1, rest⟩ := parse_marshal C na maxLen st st' c m hs hsig h fdsAfter decoded hC
  exact ⟨m', parse_general_of_ok C fuel' m.raw fdsAfter m' p1, rest⟩

/-- **`parse_foreign` about the general codec** (basic-typed header fields; containers: next theorem). -/
theorem parse_foreign_general {β : Type} (C : BodyCodec β) (fuel : Nat) (w : SpecMsg) (hw : w.valid = true)
    (cls : MsgClass) (hcls : w.mtype = Gen.Message.tables.messageType cls)
    (known extra : List Field) (hperm : w.fields.Perm (known ++ extra))
    (hextra : ∀ f ∈ extra, lookupAttr Gen.Message.tables f.1 = none)
    (hknown : (known.map (fun f => lookupAttr Gen.Message.tables f.1)).Nodup)
    (fds : Option (List PyVal)) (hfd : ∀ f ∈ w.fields, f.2.ty = .h → fds ≠ none)
    (decoded : β)
    (hC : ∀ sg, fieldFor Gen.Message.tables known .signature = some (.text .g sg) → sg ≠ [] →
        C.unmarshal sg w.body (decide (w.endian = .little)) fds = .ok decoded) :
    ∃ m' : Msg β, parseMessageG Gen.Message.tables C (fuel + 4) (Spec.encodeMsg w) fds = .ok m' ∧
      m'.cls = cls ∧ m'.serial = w.serial ∧
      m'.expectReply = decide (w.flags % 2 = 0) ∧ m'.autoStart = decide (w.flags / 2 % 2 = 0) ∧
      (∀ a, m'.attrs a = match fieldFor Gen.Message.tables known a with
                         | some hv => pyOf fds hv
                         | none => .none) ∧
      m'.body = (match fieldFor Gen.Message.tables known .signature with
                 | some (.text _ (_ :: _)) => some decoded
                 | _ => none) ∧
      m'.rawBody = w.body ∧ (m'.rawHeader ++ m'.rawPadding ++ m'.rawBody) = Spec.encodeMsg w ∧
      m'.otherFlags = w.flags / 4 * 4 := by
  obtain ⟨m', p1, rest⟩ := parse_foreign C w hw cls hcls known extra hperm hextra hknown fds hfd decoded hC
  exact ⟨m', parse_general_of_ok C fuel _ fds m' p1, rest⟩

/-- **Gap (b) closed: header fields whose variant holds a container** (any well-formed type).  The foreign message is
laid out by C01/C02's wire specification itself (`Spec.encodeAll` on `yyyyuua(yv)`, either byte order, the generated
alignment table): header values `[mark, type, flags, 1, len(body), serial, [(code, VARIANT t v), …]]`, padding to 8, body.
`py f` is C02's meaning of field `f`'s wire value (`Code.fromSpec`).  `parseMessageG` - the general decoder, as txdbus
runs it - returns the class, serial, flags, every attribute = the decoded value of the known field addressing it (None
without one) whatever the other fields hold, the three raw parts, and the decoded body.  Step budget: `gDepth fields` =
3 + the deepest field value. -/
theorem parse_foreign_containers {β : Type} (C : BodyCodec β) (e : Endian)
    (cls : MsgClass) (fl se : Nat) (fields : List GField) (hdr body : Bytes) (fds : Code.Fds)
    (py : GField → PyVal) (fuel : Nat)
    (henc : Spec.encodeAll Code.genAlign e gHeaderTys
      (gHeaderVals (Spec.endianByte e).toNat (Gen.Message.tables.messageType cls) fl body.length se fields) 0 = some hdr)
    (hpy : ∀ f ∈ fields, Code.fromSpec fds f.2.2 f.2.1 = some (py f)) (hfuel : gDepth fields ≤ fuel)
    (known extra : List (Nat × PyVal))
    (hperm : (fields.map fun f => (f.1, py f)).Perm (known ++ extra))
    (hextra : ∀ f ∈ extra, lookupAttr Gen.Message.tables f.1 = none)
    (hknown : (known.map (fun f => lookupAttr Gen.Message.tables f.1)).Nodup)
    (decoded : β)
    (hsig : (known.find? (fun f => lookupAttr Gen.Message.tables f.1 == some Attr.signature)) = none ∨
      ∃ f sg, known.find? (fun f => lookupAttr Gen.Message.tables f.1 == some Attr.signature) = some f ∧
        f.2 = .str .plain sg ∧ sg.length ≤ 255 ∧
        (sg ≠ [] → C.unmarshal sg body (decide (e = .little)) fds = .ok decoded)) :
    ∃ m' : Msg β, parseMessageG Gen.Message.tables C fuel (hdr ++ zeros (padLen 8 hdr.length) ++ body) fds = .ok m' ∧
      m'.cls = cls ∧ m'.serial = se ∧
      m'.expectReply = decide (fl % 2 = 0) ∧ m'.autoStart = decide (fl / 2 % 2 = 0) ∧ m'.otherFlags = fl / 4 * 4 ∧
      (∀ a, m'.attrs a = match known.find? (fun f => lookupAttr Gen.Message.tables f.1 == some a) with
                         | some f => f.2
                         | none => .none) ∧
      m'.rawHeader = hdr ∧ m'.rawPadding = zeros (padLen 8 hdr.length) ∧ m'.rawBody = body ∧
      m'.body = (match known.find? (fun f => lookupAttr Gen.Message.tables f.1 == some Attr.signature) with
                 | some (_, .str _ (_ :: _)) => some decoded
                 | _ => none) :=
  parse_foreign_containers_gen Gen.Message.tables tables_ok C e cls fl se fields hdr body fds py fuel henc hpy hfuel
    known extra hperm hextra hknown decoded hsig

/-- The premises of `parse_foreign_containers` on a big-endian method return with REPLY_SERIAL 3 and an unknown field 20
holding the array `[7]` of INT32 (type `ai`): the encoding exists (40 bytes), the values decode, the budget is 5. -/
example :
    let fields : List GField := [(5, .basic .u, .int 3), (20, .array (.basic .i), .array [.int 7])]
    (Spec.encodeAll Code.genAlign .big gHeaderTys (gHeaderVals 66 2 0 0 7 fields) 0).map List.length = some 40 ∧
    (∀ f ∈ fields, ∃ pv, Code.fromSpec none f.2.2 f.2.1 = some pv) ∧ gDepth fields = 5 ∧
    Code.fromSpec none (.array [.int 7]) (.array (.basic .i)) = some (.list [.int .plain 7]) := by
  refine ⟨by decide +kernel, ?_, by decide, rfl⟩
  intro f hf
  simp only [List.mem_cons, List.not_mem_nil, or_false] at hf
  rcases hf with rfl | rfl
  · exact ⟨_, rfl⟩
  · exact ⟨_, rfl⟩

/-- `parse_foreign_containers` FULLY instantiated (review 3, 1.4): every premise discharged on that message - the 40 header
bytes are the specification encoding (`henc`, by evaluation), `py` = C02's decoding of each field, `known` = [REPLY_SERIAL],
`extra` = [field 20 holding `[7]`], no signature field - and the conclusion read off: the general-codec parse returns a
method return with serial 7, `reply_serial = 3`, every other attribute None, the header bytes kept. -/
example :
    ∃ m' : Msg Bytes,
      parseMessageG Gen.Message.tables rawCodec 5
        [66, 2, 0, 1, 0, 0, 0, 0, 0, 0, 0, 7, 0, 0, 0, 24, 5, 1, 117, 0, 0, 0, 0, 3,
         20, 2, 97, 105, 0, 0, 0, 0, 0, 0, 0, 4, 0, 0, 0, 7] none = .ok m' ∧
      m'.cls = .methodReturn ∧ m'.serial = 7 ∧ m'.expectReply = true ∧
      (m'.attrs .replySerial).asInt? = some 3 ∧ isNone (m'.attrs .path) = true ∧ isNone (m'.attrs .signature) = true ∧
      m'.rawHeader.length = 40 ∧ m'.rawBody = [] := by
  let fields : List GField := [(5, .basic .u, .int 3), (20, .array (.basic .i), .array [.int 7])]
  let py : GField → PyVal := fun f => (Code.fromSpec none f.2.2 f.2.1).getD .none
  let hdr : Bytes := [66, 2, 0, 1, 0, 0, 0, 0, 0, 0, 0, 7, 0, 0, 0, 24, 5, 1, 117, 0, 0, 0, 0, 3,
         20, 2, 97, 105, 0, 0, 0, 0, 0, 0, 0, 4, 0, 0, 0, 7]
  have henc : Spec.encodeAll Code.genAlign .big gHeaderTys
      (gHeaderVals (Spec.endianByte .big).toNat (Gen.Message.tables.messageType .methodReturn) 0 ([] : Bytes).length 7 fields) 0
        = some hdr := by decide +kernel
  have hpy : ∀ f ∈ fields, Code.fromSpec none f.2.2 f.2.1 = some (py f) := by
    intro f hf
    simp only [fields, List.mem_cons, List.not_mem_nil, or_false] at hf
    rcases hf with rfl | rfl <;> rfl
  have hperm : (fields.map fun f => (f.1, py f)).Perm
      ([(5, PyVal.int .plain 3)] ++ [(20, PyVal.list [.int .plain 7])]) := List.Perm.refl _
  obtain ⟨m', q1, q2, q3, q4, _, _, q7, q8, _, q10, _⟩ :=
    parse_foreign_containers rawCodec .big .methodReturn 0 7 fields hdr [] none py 5 henc hpy (by decide)
      [(5, .int .plain 3)] [(20, .list [.int .plain 7])] hperm (by decide) (by decide) ([] : Bytes) (Or.inl rfl)
  have hpad : zeros (padLen 8 hdr.length) = [] := by decide
  rw [hpad] at q1
  refine ⟨m', by simpa [hdr] using q1, q2, q3, by rw [q4]; decide, ?_, ?_, ?_, by rw [q8]; rfl, q10⟩
  · rw [q7 .replySerial]; rfl
  · rw [q7 .path]; rfl
  · rw [q7 .signature]; rfl

/-! ### Gap (c): the forwarding call `_marshal(False, rawBody=…)` -/

/-- The general-codec rendering of the forwarding call agrees with the specialised one unless the latter says "outside
the fragment" (a parsed message may hold a list in a known attribute; the general model then encodes it as txdbus does). -/
theorem remarshal_general_eq {β : Type} (fuel : Nat) (maxLen : Nat) (m : Msg β) (endian : Nat) (rawBody : Bytes)
    (hne : remarshal Gen.Message.tables maxLen m endian rawBody ≠ .error .other) :
    remarshalG Gen.Message.tables (fuel + 4) maxLen m endian rawBody = remarshal Gen.Message.tables maxLen m endian rawBody :=
  remarshalG_eq Gen.Message.tables tables_ok pad_agree fuel maxLen m endian rawBody hne

/-- **Re-marshal with a raw body, then parse** (what a receiver sees of a message the bus forwarded).  `m` is any
message object whose header attributes hold what `parseMessage` stores for fields of the specification's types
(`AttrFwd`: None / a plain str / an int) and ALL of whose non-None attributes are in the `_headerAttrs` table of its class;
`endian` is `ord('l')` or `ord('B')`; the signature has no NUL.  If `_marshal(False, rawBody=…)` succeeds then the bytes
are the specification encoding of the message with `m`'s type, serial, flag bits (`flagsWith`: all eight), exactly `m`'s
non-None attributes as fields with the specification's field types (`Spec.fieldType`: REPLY_SERIAL is UINT32 again, PATH
an OBJECT_PATH), and the given body, in `endian`'s byte order; and `parseMessage` of them returns the same class, serial,
flags, `otherFlags`, every attribute, the body bytes and the decoded body. -/
theorem remarshal_parse {β : Type} (C : BodyCodec β) (maxLen : Nat) (m m2 : Msg β) (endian : Nat) (rawBody : Bytes)
    (hshape : ∀ a, AttrFwd a (m.attrs a))
    (hin : ∀ a, m.attrs a ≠ .none → ∃ ent ∈ Gen.Message.tables.headerAttrs m.cls, ent.1 = a)
    (hend : endian = 108 ∨ endian = 66)
    (hnul : ∀ s, m.attrs .signature = .str .plain s → s.contains nul = false)
    (h : remarshal Gen.Message.tables maxLen m endian rawBody = .ok m2)
    (fds : Option (List PyVal)) (decoded : β)
    (hC : ∀ sg, m.attrs .signature = .str .plain sg → sg ≠ [] →
        C.unmarshal sg rawBody (endian == 108) fds = .ok decoded) :
    ∃ fs, specFieldsOf m.attrs (Gen.Message.tables.headerAttrs m.cls) = some fs ∧
      m2.raw = Spec.encodeMsg (fwdSpec Gen.Message.tables m endian fs rawBody) ∧
      fs.map (·.1) = (liveEntries m.attrs (Gen.Message.tables.headerAttrs m.cls)).map (·.2.1) ∧
      (∀ f ∈ fs, Spec.fieldType f.1 = some f.2.ty) ∧
      m2.raw.length ≤ maxLen ∧ m2.rawBody = rawBody ∧ m2.attrs = m.attrs ∧ m2.serial = m.serial ∧ m2.cls = m.cls ∧
      ∃ m3 : Msg β, parseMessage Gen.Message.tables C m2.raw fds = .ok m3 ∧
        m3.cls = m.cls ∧ m3.serial = m.serial ∧ m3.expectReply = m.expectReply ∧ m3.autoStart = m.autoStart ∧
        m3.otherFlags = m.otherFlags / 4 * 4 ∧ (∀ a, m3.attrs a = plain (m.attrs a)) ∧
        m3.body = (if truthy (m.attrs .signature) then some decoded else none) ∧
        m3.rawHeader = m2.rawHeader ∧ m3.rawPadding = m2.rawPadding ∧ m3.rawBody = rawBody :=
  remarshal_parse_gen Gen.Message.tables tables_ok C maxLen m m2 endian rawBody hshape hin hend hnul h fds decoded hC

/-- Every class's table lists `sender` (so the attribute the bus sets is always emitted). -/
theorem sender_in_every_table (cls : MsgClass) : ∃ ent ∈ Gen.Message.tables.headerAttrs cls, ent.1 = Attr.sender := by
  cases cls <;> decide

/-- **What the bus does** (bus.py:82-89: `msg.sender = uniqueName; msg.endian = raw[0]; msg._marshal(False,
rawBody=msg.rawBody)`) to a message object `m` as above: IF THE CALL RETURNS (`h`; when it does: `forward_succeeds`) the
re-marshalled message parses to the same class, serial, flags, body and header attributes EXCEPT `sender`, which is the name the
bus set.  (About the specialised model `forward` / `parseMessage`; the general-codec rendering: `forward_parse_general`.) -/
theorem forward_parse {β : Type} (C : BodyCodec β) (maxLen : Nat) (m m2 : Msg β) (endian : Nat) (sender : List Char)
    (hshape : ∀ a, AttrFwd a (m.attrs a))
    (hin : ∀ a, a ≠ .sender → m.attrs a ≠ .none → ∃ ent ∈ Gen.Message.tables.headerAttrs m.cls, ent.1 = a)
    (hend : endian = 108 ∨ endian = 66)
    (hnul : ∀ s, m.attrs .signature = .str .plain s → s.contains nul = false)
    (h : forward Gen.Message.tables maxLen m endian sender = .ok m2)
    (fds : Option (List PyVal)) (decoded : β)
    (hC : ∀ sg, m.attrs .signature = .str .plain sg → sg ≠ [] →
        C.unmarshal sg m.rawBody (endian == 108) fds = .ok decoded) :
    ∃ m3 : Msg β, parseMessage Gen.Message.tables C m2.raw fds = .ok m3 ∧
      m3.cls = m.cls ∧ m3.serial = m.serial ∧ m3.expectReply = m.expectReply ∧ m3.autoStart = m.autoStart ∧
      m3.otherFlags = m.otherFlags / 4 * 4 ∧
      (∀ a, m3.attrs a = if a = .sender then .str .plain sender else plain (m.attrs a)) ∧
      m3.body = (if truthy (m.attrs .signature) then some decoded else none) ∧ m3.rawBody = m.rawBody ∧
      m2.raw.length ≤ maxLen := by
  unfold forward at h
  have hshape' : ∀ a, AttrFwd a (({ m with attrs := setAttr m.attrs .sender (.str .plain sender) } : Msg β).attrs a) := by
    intro a
    by_cases ha : a = .sender
    · subst ha; simp only [setAttr, if_true]; exact Or.inr ⟨sender, rfl⟩
    · simp only [setAttr, ha, if_false]; exact hshape a
  have hin' : ∀ a, ({ m with attrs := setAttr m.attrs .sender (.str .plain sender) } : Msg β).attrs a ≠ .none →
      ∃ ent ∈ Gen.Message.tables.headerAttrs m.cls, ent.1 = a := by
    intro a
    by_cases ha : a = .sender
    · subst ha; intro _; exact sender_in_every_table m.cls
    · simp only [setAttr, ha, if_false]; exact hin a ha
  have hsigattr : ({ m with attrs := setAttr m.attrs .sender (.str .plain sender) } : Msg β).attrs .signature =
      m.attrs .signature := by simp [setAttr]
  obtain ⟨fs, _, _, _, _, q5, _, _, _, _, m3, r1, r2, r3, r4, r5, r6, r7, r8, _, _, r11⟩ :=
    remarshal_parse C maxLen _ m2 endian m.rawBody hshape' hin' hend (by rw [hsigattr]; exact hnul) h fds decoded
      (by rw [hsigattr]; exact hC)
  refine ⟨m3, r1, r2, r3, r4, r5, r6, ?_, ?_, r11, q5⟩
  · intro a
    rw [r7 a]
    by_cases ha : a = .sender
    · subst ha; simp [setAttr, plain]
    · simp [setAttr, ha]
  · rw [r8, hsigattr]

/-- **Received, forwarded, received again** (`parse_foreign` ∘ `forward_parse`) - CONDITIONAL ON THE FORWARDING CALL RETURNING
(`hf`; it raises e.g. when adding SENDER pushes a message over `_maxMsgLen`; sufficient conditions: `forward_succeeds`).
Any valid message of the specification
(`parse_foreign`'s premises: either byte order, any field order, any unknown fields of basic types) all of whose known
fields - SENDER aside - are in the `_headerAttrs` table of its class: the bus parses its bytes, sets `sender`, copies the
byte-order mark, re-marshals with the raw body; the destination then parses the same class, serial, flags, `otherFlags`,
body bytes and decoded body, and every attribute of the original, with `sender` = the name the bus set.  (Known fields outside
the class table: dropped - `forward_drops_field_outside_table`.) -/
theorem forward_foreign {β : Type} (C : BodyCodec β) (maxLen : Nat)
    (w : SpecMsg) (hw : w.valid = true) (cls : MsgClass) (hcls : w.mtype = Gen.Message.tables.messageType cls)
    (known extra : List Field) (hperm : w.fields.Perm (known ++ extra))
    (hextra : ∀ f ∈ extra, lookupAttr Gen.Message.tables f.1 = none)
    (hknown : (known.map (fun f => lookupAttr Gen.Message.tables f.1)).Nodup)
    (fds : Option (List PyVal)) (hfd : ∀ f ∈ w.fields, f.2.ty = .h → fds ≠ none)
    (hinTab : ∀ f ∈ known, ∀ a, lookupAttr Gen.Message.tables f.1 = some a → a ≠ .sender →
      ∃ ent ∈ Gen.Message.tables.headerAttrs cls, ent.1 = a)
    (decoded : β)
    (hC : ∀ sg, fieldFor Gen.Message.tables known .signature = some (.text .g sg) → sg ≠ [] →
        C.unmarshal sg w.body (decide (w.endian = .little)) fds = .ok decoded)
    (sender : List Char) (m m2 : Msg β)
    (hp : parseMessage Gen.Message.tables C (Spec.encodeMsg w) fds = .ok m)
    (hf : forward Gen.Message.tables maxLen m (Spec.endianByte w.endian).toNat sender = .ok m2) :
    ∃ m3 : Msg β, parseMessage Gen.Message.tables C m2.raw fds = .ok m3 ∧
      m3.cls = cls ∧ m3.serial = w.serial ∧
      m3.expectReply = decide (w.flags % 2 = 0) ∧ m3.autoStart = decide (w.flags / 2 % 2 = 0) ∧
      m3.otherFlags = w.flags / 4 * 4 ∧
      (∀ a, m3.attrs a = if a = .sender then .str .plain sender else
                         match fieldFor Gen.Message.tables known a with
                         | some hv => pyOf fds hv
                         | none => .none) ∧
      m3.body = m.body ∧ m3.rawBody = w.body ∧ m2.raw.length ≤ maxLen :=
  forward_foreign_gen Gen.Message.tables tables_ok C maxLen w hw cls hcls known extra hperm hextra hknown fds hfd hinTab
    (sender_in_every_table cls) decoded hC sender m m2 hp hf

/-- **When the bus's forwarding call returns** (review 3, 1.1: `forward_parse` / `forward_foreign` are conditional on it).
Sufficient: every attribute other than `sender` holds None or a value its marshaller accepts (`AttrSendOK`: a str without NUL
whose UTF-8 length fits 32 bits; `path` accepted by `validateObjectPath`; `signature` ASCII of at most 255 characters;
`reply_serial` an int in 0 .. 2^32-1 - an int outside that range raises struct.error, a non-path str in `path`
MarshallingError); the name the bus sets has no NUL; byte-order mark `l` / `B`; `otherFlags` one byte, the serial 32 bits;
and the RE-MARSHALLED message - with the SENDER field the bus adds, which can push a message of nearly `_maxMsgLen` over the
limit - is at most `maxLen ≤ 2^27` bytes long.  Then `forward` returns a message (to which `forward_parse` applies). -/
theorem forward_succeeds {β : Type} (maxLen : Nat) (hmax : maxLen ≤ Spec.maxMessage) (m : Msg β) (endian : Nat)
    (sender : List Char)
    (hsend : ∀ a, a ≠ .sender → AttrSendOK a (m.attrs a))
    (hsnd : sender.contains nul = false ∧ (utf8Encode sender).length < 4294967296)
    (hend : endian = 108 ∨ endian = 66) (hof : m.otherFlags < 256) (hser : m.serial < 4294967296)
    (hlen : ∀ fs, specFieldsOf (setAttr m.attrs .sender (.str .plain sender)) (Gen.Message.tables.headerAttrs m.cls) = some fs →
      (Spec.encodeMsg (fwdSpec Gen.Message.tables
        { m with attrs := setAttr m.attrs .sender (.str .plain sender) } endian fs m.rawBody)).length ≤ maxLen) :
    ∃ m2, forward Gen.Message.tables maxLen m endian sender = .ok m2 := by
  unfold forward
  have hall : ∀ a, AttrSendOK a (({ m with attrs := setAttr m.attrs .sender (.str .plain sender) } : Msg β).attrs a) := by
    intro a
    by_cases ha : a = .sender
    · subst ha
      simp only [setAttr, if_true]
      exact Or.inr ⟨sender, rfl, hsnd.1, hsnd.2⟩
    · simp only [setAttr, ha, if_false]
      exact hsend a ha
  exact remarshal_succeeds Gen.Message.tables tables_ok maxLen hmax
    ({ m with attrs := setAttr m.attrs .sender (.str .plain sender) } : Msg β) endian m.rawBody hall hend hof hser hlen

/-- The header attributes `parseMessage` leaves for a method return with REPLY_SERIAL 3 and DESTINATION ':1.2'. -/
def exampleReturnAttrs : Attr → PyVal
  | .replySerial => .int .plain 3
  | .destination => .str .plain ":1.2".toList
  | _ => .none

def exampleReturn : Msg Bytes :=
  { cls := .methodReturn, expectReply := true, autoStart := true, attrs := exampleReturnAttrs, body := none, serial := 7,
    rawHeader := [], rawPadding := [], rawBody := [] }

/-- The premises of `forward_succeeds` on a method return object with REPLY_SERIAL 3 and DESTINATION ':1.2' (what
`parseMessage` leaves for such a message), forwarded under the name ':1.9': the re-marshalled message has 56 bytes. -/
example :
    let m : Msg Bytes := exampleReturn
    (∀ a, a ≠ .sender → AttrSendOK a (m.attrs a)) ∧
    (∀ fs, specFieldsOf (setAttr m.attrs .sender (.str .plain ":1.9".toList)) (Gen.Message.tables.headerAttrs m.cls) = some fs →
      (Spec.encodeMsg (fwdSpec Gen.Message.tables
        { m with attrs := setAttr m.attrs .sender (.str .plain ":1.9".toList) } 66 fs m.rawBody)).length ≤ 134217728) := by
  intro m
  constructor
  · intro a _
    cases a <;> first
      | exact Or.inl rfl
      | exact Or.inr ⟨_, _, rfl, by decide, by decide⟩
      | exact Or.inr ⟨_, rfl, by decide, by decide⟩
  · intro fs hfs
    have hfs' : specFieldsOf (setAttr m.attrs .sender (.str .plain ":1.9".toList)) (Gen.Message.tables.headerAttrs m.cls) =
        some [(5, .num .u 3), (6, .text .s ":1.2".toList), (7, .text .s ":1.9".toList)] := by decide +kernel
    rw [hfs'] at hfs
    cases hfs
    decide +kernel

/-- **`forward_parse` about the general codec** (review 3, 1.2): the bus's step run through the model that txdbus's code
corresponds to on BOTH sides - `forwardG` (`_marshal(False, rawBody=…)` with the header through `Code.marshal`) and
`parseMessageG` (header through `Code.unmarshal`).  Same premises, same conclusion.  (`AttrFwd` keeps the header list inside the
encoder's fragment: `remarshal_ne_other_of_fwd`, `headerCode_encode_fragment`; then `remarshal_general_eq`, `parse_general_of_ok`.) -/
theorem forward_parse_general {β : Type} (C : BodyCodec β) (fuel fuel' : Nat) (maxLen : Nat) (m m2 : Msg β) (endian : Nat)
    (sender : List Char)
    (hshape : ∀ a, AttrFwd a (m.attrs a))
    (hin : ∀ a, a ≠ .sender → m.attrs a ≠ .none → ∃ ent ∈ Gen.Message.tables.headerAttrs m.cls, ent.1 = a)
    (hend : endian = 108 ∨ endian = 66)
    (hnul : ∀ s, m.attrs .signature = .str .plain s → s.contains nul = false)
    (h : forwardG Gen.Message.tables (fuel + 4) maxLen m endian sender = .ok m2)
    (fds : Option (List PyVal)) (decoded : β)
    (hC : ∀ sg, m.attrs .signature = .str .plain sg → sg ≠ [] →
        C.unmarshal sg m.rawBody (endian == 108) fds = .ok decoded) :
    ∃ m3 : Msg β, parseMessageG Gen.Message.tables C (fuel' + 4) m2.raw fds = .ok m3 ∧
      m3.cls = m.cls ∧ m3.serial = m.serial ∧ m3.expectReply = m.expectReply ∧ m3.autoStart = m.autoStart ∧
      m3.otherFlags = m.otherFlags / 4 * 4 ∧
      (∀ a, m3.attrs a = if a = .sender then .str .plain sender else plain (m.attrs a)) ∧
      m3.body = (if truthy (m.attrs .signature) then some decoded else none) ∧ m3.rawBody = m.rawBody ∧
      m2.raw.length ≤ maxLen := by
  have hshape' : ∀ a, AttrFwd a (({ m with attrs := setAttr m.attrs .sender (.str .plain sender) } : Msg β).attrs a) := by
    intro a
    by_cases ha : a = .sender
    · subst ha; simp only [setAttr, if_true]; exact Or.inr ⟨sender, rfl⟩
    · simp only [setAttr, ha, if_false]; exact hshape a
  have hf : forward Gen.Message.tables maxLen m endian sender = .ok m2 := by
    unfold forwardG at h
    unfold forward
    rw [← remarshalG_eq_of_fwd Gen.Message.tables tables_ok pad_agree fuel maxLen _ endian m.rawBody hshape']
    exact h
  obtain ⟨m3, r1, rest⟩ := forward_parse C maxLen m m2 endian sender hshape hin hend hnul hf fds decoded hC
  exact ⟨m3, parse_general_of_ok C fuel' m2.raw fds m3 r1, rest⟩

/-- `hinTab` of `forward_foreign` on the known fields of the foreign method return of the example above
(REPLY_SERIAL, DESTINATION), next to `parse_foreign`'s premises (shown satisfiable there). -/
example :
    let known : List Field := [(5, .num .u 3), (6, .text .s ":1.2".toList)]
    ∀ f ∈ known, ∀ a, lookupAttr Gen.Message.tables f.1 = some a → a ≠ .sender →
      ∃ ent ∈ Gen.Message.tables.headerAttrs .methodReturn, ent.1 = a := by
  intro known f hf a ha _
  simp only [known, List.mem_cons, List.not_mem_nil, or_false] at hf
  rcases hf with rfl | rfl
  · have : a = .replySerial := by
      have h : lookupAttr Gen.Message.tables 5 = some Attr.replySerial := by decide
      rw [h] at ha; exact (Option.some.inj ha).symm
    subst this; decide
  · have : a = .destination := by
      have h : lookupAttr Gen.Message.tables 6 = some Attr.destination := by decide
      rw [h] at ha; exact (Option.some.inj ha).symm
    subst this; decide

/-- The premises of `forward_parse` / `remarshal_parse` hold (`fwdOKB`, the executable form of `hshape`, `hin`, `hnul`:
`fwdOKB_sound`) for the object `parseMessage` returns for a foreign big-endian method return with REPLY_SERIAL, DESTINATION
and flags 5, and the forwarding call succeeds on it. -/
example :
    ∃ m : Msg Bytes,
      parseMessage Gen.Message.tables rawCodec
        (Spec.encodeMsg ⟨.big, 2, 5, 7, [(5, .num .u 3), (6, .text .s ":1.2".toList)], []⟩) none = .ok m ∧
      (∀ a, AttrFwd a (m.attrs a)) ∧
      (∀ a, a ≠ .sender → m.attrs a ≠ .none → ∃ ent ∈ Gen.Message.tables.headerAttrs m.cls, ent.1 = a) ∧
      (∀ s, m.attrs .signature = .str .plain s → s.contains nul = false) ∧
      (forward Gen.Message.tables Gen.Message.maxMsgLen m 66 ":1.9".toList).toOption.isSome = true := by
  have hp : (parseMessage Gen.Message.tables rawCodec
      (Spec.encodeMsg ⟨.big, 2, 5, 7, [(5, .num .u 3), (6, .text .s ":1.2".toList)], []⟩) none).toOption.map
        (fun m => (fwdOKB Gen.Message.tables m,
                   (forward Gen.Message.tables Gen.Message.maxMsgLen m 66 ":1.9".toList).toOption.isSome)) = some (true, true) := by
    decide +kernel
  cases hm : parseMessage Gen.Message.tables rawCodec
      (Spec.encodeMsg ⟨.big, 2, 5, 7, [(5, .num .u 3), (6, .text .s ":1.2".toList)], []⟩) none with
  | error e => rw [hm] at hp; cases hp
  | ok m =>
    rw [hm] at hp
    simp only [Except.toOption, Option.map_some, Option.some.injEq, Prod.mk.injEq] at hp
    obtain ⟨h1, h2, h3⟩ := fwdOKB_sound Gen.Message.tables m hp.1
    exact ⟨m, rfl, h1, h2, h3, hp.2⟩

/-- The text of a str attribute (for closed, decidable statements about attribute values). -/
def attrText : PyVal → Option (List Char)
  | .str _ s => some s
  | _ => none

/-- **Witness of the known finding `forward-drops-unknown-header-fields`** (C14, known_findings.json): a header field
outside the per-class table is dropped by the forwarding call.  A method return that carries PATH (code 1: not in
`MethodReturnMessage._headerAttrs`) parses with `path = '/a'`; after `forward` the re-marshalled bytes parse with `path`
None (and still with REPLY_SERIAL 3 and the sender the bus set).  Likewise UNIX_FDS (observation 3b: `unix_fds` is in no
class table).  This is why `remarshal_parse` / `forward_parse` ask for `hin`. -/
theorem forward_drops_field_outside_table :
    let raw := Spec.encodeMsg ⟨.little, 2, 0, 7, [(5, .num .u 3), (1, .text .o "/a".toList), (9, .num .u 1)], []⟩
    ((parseMessage Gen.Message.tables rawCodec raw none).toOption.map
        fun m => (attrText (m.attrs .path), (m.attrs .unixFds).asInt?, (m.attrs .replySerial).asInt?))
      = some (some "/a".toList, some 1, some 3) ∧
    (((parseMessage Gen.Message.tables rawCodec raw none).toOption.bind
        fun m => (forward Gen.Message.tables Gen.Message.maxMsgLen m 108 ":1.9".toList).toOption).bind
        fun m2 => (parseMessage Gen.Message.tables rawCodec m2.raw none).toOption).map
        (fun m3 => (isNone (m3.attrs .path), isNone (m3.attrs .unixFds), (m3.attrs .replySerial).asInt?,
                    attrText (m3.attrs .sender)))
      = some (true, true, some 3, some ":1.9".toList) := by
  decide +kernel

/-! ## The second use of one message object (state-leak round 2026-09-30; Msg/Again.lean)

`_marshal` can be called again on an object a constructor has marshalled (the bus does it with `rawBody=`; here:
`rawBody=None`, the body is encoded again).  Nothing of the first call may accumulate in the object or in the class:
the header list is rebuilt, the `unix_fds` entry is added to a COPY of the class table, the descriptor list is the
caller's.  The two theorems say that for the model of the code as written, for every constructor call, codec, counter. -/

/-- **Marshalling a constructed message again (`newSerial=False`) changes nothing**: given the `oobFDs` argument the
constructor was given (`None`, or a list with the same content), `m._marshal(False, oobFDs=…)` leaves the object as it
is - the same `rawMessage`, `rawHeader`, `rawPadding`, `rawBody`, serial, attributes (so no header field, in particular
not UNIX_FDS, appears twice) - and does not touch the serial counter, whatever it holds. -/
theorem marshal_again_same {β : Type} (C : BodyCodec β) (na : Char → Bool) (maxLen : Nat) (st st' st2 : St)
    (c : Call β) (m : Msg β) (h : construct Gen.Message.tables C na maxLen st c = (st', .ok m)) :
    marshalAgain Gen.Message.tables C maxLen st2 m false c.oob = (st2, .ok m) :=
  marshalAgain_same Gen.Message.tables tables_ok C na maxLen st st' c m h st2

/-- **Marshalling a constructed message again with a new serial is the constructor call again**, at the counter's
current value: same outcome (message or exception), same counter afterwards.  Hence every theorem above about
constructed messages (`marshal_wellformed`, `serial_fresh`, `parse_marshal`, …) holds for the re-marshalled object. -/
theorem marshal_again_new {β : Type} (C : BodyCodec β) (na : Char → Bool) (maxLen : Nat) (st st' st2 : St)
    (c : Call β) (m : Msg β) (h : construct Gen.Message.tables C na maxLen st c = (st', .ok m)) :
    marshalAgain Gen.Message.tables C maxLen st2 m true c.oob = construct Gen.Message.tables C na maxLen st2 c :=
  marshalAgain_new Gen.Message.tables tables_ok C na maxLen st st' c m h st2

/-- The re-marshalled object is well-formed with the NEW serial (how `marshal_again_new` is used). -/
example {β : Type} (C : BodyCodec β) (na : Char → Bool) (st st' st2 st3 : St) (c : Call β) (m m2 : Msg β)
    (hs : 1 ≤ st2.nextSerial)
    (h : construct Gen.Message.tables C na Gen.Message.maxMsgLen st c = (st', .ok m))
    (h2 : marshalAgain Gen.Message.tables C Gen.Message.maxMsgLen st2 m true c.oob = (st3, .ok m2)) :
    m2.serial = st2.nextSerial ∧ st3.nextSerial = st2.nextSerial + 1 ∧ m2.serial ≠ 0 := by
  rw [marshal_again_new C na Gen.Message.maxMsgLen st st' st2 c m h] at h2
  obtain ⟨sm, B⟩ := construct_ok Gen.Message.tables tables_ok C na Gen.Message.maxMsgLen st2 st3 c m2 h2
  exact ⟨B.serial, B.next, by rw [B.serial]; omega⟩

/-- The hypotheses are satisfiable, and the statement evaluated: `MethodCallMessage('/a', 'm', signature='h', body=[42],
oobFDs=[])` built at counter 1 carries UNIX_FDS = 1; marshalled again with `newSerial=False` and a fresh `[]` at counter 9
it is the same object and the counter is still 9; with `newSerial=True` it gets serial 9 and still UNIX_FDS = 1. -/
example :
    let T := Gen.Message.tables
    let c : Call PyVal := .methodCall { path := some "/a".toList, member := some "m".toList, signature := some "h".toList,
                                        body := some (.list [.int .plain 42]), oobFDs := some [] }
    ∃ st' m, construct T (wireCodec 2) (fun _ => false) Gen.Message.maxMsgLen ⟨1⟩ c = (st', .ok m) ∧
      (m.attrs .unixFds).asInt? = some 1 ∧
      (marshalAgain T (wireCodec 2) Gen.Message.maxMsgLen ⟨9⟩ m false (some [])).1 = ⟨9⟩ ∧
      ((marshalAgain T (wireCodec 2) Gen.Message.maxMsgLen ⟨9⟩ m false (some [])).2.toOption.map (·.raw)) = some m.raw ∧
      ((marshalAgain T (wireCodec 2) Gen.Message.maxMsgLen ⟨9⟩ m true (some [])).2.toOption.map
          fun m2 => (m2.serial, (m2.attrs .unixFds).asInt?)) = some (9, some 1) := by
  intro T c
  obtain ⟨st', m, h⟩ := construct_shape (T := T) (C := wireCodec 2) (na := fun _ => false)
    (maxLen := Gen.Message.maxMsgLen) (st := ⟨1⟩) (c := c) (by decide +kernel)
  have hs := marshal_again_same (wireCodec 2) (fun _ => false) Gen.Message.maxMsgLen ⟨1⟩ st' ⟨9⟩ c m h
  have hn := marshal_again_new (wireCodec 2) (fun _ => false) Gen.Message.maxMsgLen ⟨1⟩ st' ⟨9⟩ c m h
  have hc : c.oob = some [] := rfl
  rw [hc] at hs hn
  have hu : ((construct T (wireCodec 2) (fun _ => false) Gen.Message.maxMsgLen ⟨1⟩ c).2.toOption.map
      fun m => (m.attrs .unixFds).asInt?) = some (some 1) := by decide +kernel
  have h9 : ((construct T (wireCodec 2) (fun _ => false) Gen.Message.maxMsgLen ⟨9⟩ c).2.toOption.map
      fun m2 => (m2.serial, (m2.attrs .unixFds).asInt?)) = some (9, some 1) := by decide +kernel
  refine ⟨st', m, h, ?_, ?_, ?_, ?_⟩
  · rw [h] at hu; simpa [Except.toOption] using hu
  · rw [hs]
  · rw [hs]; rfl
  · rw [hn]; exact h9

/-- **Witness: a descriptor list that outlives one construction breaks the message** (what a mutable default argument
`oobFDs=[]` does on the second call, STATE_AUDIT G2).  The same call as above, handed a list that still holds the
descriptor of an EARLIER message, announces UNIX_FDS = 2 for a body with one descriptor, and the body's index is 1, not 0:
the per-call fresh list (`None` default, `[]` from the caller) is what the theorems rely on. -/
theorem shared_descriptor_list_leaks :
    let T := Gen.Message.tables
    let call (oob : List PyVal) : Call PyVal :=
      .methodCall { path := some "/a".toList, member := some "m".toList, signature := some "h".toList,
                    body := some (.list [.int .plain 42]), oobFDs := some oob }
    ((construct T (wireCodec 2) (fun _ => false) Gen.Message.maxMsgLen ⟨1⟩ (call [])).2.toOption.map
        fun m => ((m.attrs .unixFds).asInt?, m.rawBody)) = some (some 1, [0, 0, 0, 0]) ∧
    ((construct T (wireCodec 2) (fun _ => false) Gen.Message.maxMsgLen ⟨2⟩ (call [.int .plain 41])).2.toOption.map
        fun m => ((m.attrs .unixFds).asInt?, m.rawBody)) = some (some 2, [1, 0, 0, 0]) := by
  decide +kernel

/-! ## Witnesses: the code before the repairs violates the property (the replays of F4 and F5) -/

/-- F4 (repaired by 7466ae7): before the repair `parseMessage` ignored the flags byte - a call built with
`expectReply=False, autoStart=False` (flags byte 3) parsed with both True. -/
theorem prefix_parse_ignores_flags :
    ((parseMessagePreFix Gen.Message.tables rawCodec
        [0x6c, 1, 3, 1, 0, 0, 0, 0, 1, 0, 0, 0, 0x1a, 0, 0, 0,
         1, 1, 0x6f, 0, 2, 0, 0, 0, 0x2f, 0x61, 0, 0, 0, 0, 0, 0,
         3, 1, 0x73, 0, 1, 0, 0, 0, 0x6d, 0, 0, 0, 0, 0, 0, 0] none).toOption.map
      fun m => (m.expectReply, m.autoStart)) = some (true, true)
    ∧
    ((parseMessage Gen.Message.tables rawCodec
        [0x6c, 1, 3, 1, 0, 0, 0, 0, 1, 0, 0, 0, 0x1a, 0, 0, 0,
         1, 1, 0x6f, 0, 2, 0, 0, 0, 0x2f, 0x61, 0, 0, 0, 0, 0, 0,
         3, 1, 0x73, 0, 1, 0, 0, 0, 0x6d, 0, 0, 0, 0, 0, 0, 0] none).toOption.map
      fun m => (m.expectReply, m.autoStart)) = some (false, false) := by decide +kernel

/-- F5 (repaired by efe5b53): before the repair `MethodCallMessage(interface='')` skipped the validator
(`if interface:`) and was constructed, naming the invalid empty interface; the repaired constructor refuses it. -/
theorem prefix_empty_interface_constructible :
    (mkMethodCallPreFix Gen.Message.tables rawCodec (fun _ => false) Gen.Message.maxMsgLen (St.init Gen.Message.tables)
        { path := some "/a".toList, member := some "m".toList, interface := some [] }).2.toOption.isSome = true
    ∧
    (mkMethodCall Gen.Message.tables rawCodec (fun _ => false) Gen.Message.maxMsgLen (St.init Gen.Message.tables)
        { path := some "/a".toList, member := some "m".toList, interface := some [] }).2.toOption.isNone = true := by
  decide +kernel

end Txdbus.Msg

#print axioms Txdbus.Msg.tables_ok
#print axioms Txdbus.Msg.marshal_wellformed
#print axioms Txdbus.Msg.serial_fresh
#print axioms Txdbus.Msg.serial_init
#print axioms Txdbus.Msg.parse_marshal
#print axioms Txdbus.Msg.parse_marshal_c01
#print axioms Txdbus.Msg.parse_marshal_c01_checked
#print axioms Txdbus.Msg.parse_marshal_c01_checked_none
#print axioms Txdbus.Msg.body_in_place
#print axioms Txdbus.Msg.parse_foreign_of_constructed_c01
#print axioms Txdbus.Msg.c01_instance
#print axioms Txdbus.Msg.construct_shape
#print axioms Txdbus.Msg.parse_marshal_no_body
#print axioms Txdbus.Msg.sigNoNul_of_render
#print axioms Txdbus.Msg.parse_marshal_with_C01
#print axioms Txdbus.Msg.parse_marshal_with_C01_none
#print axioms Txdbus.Msg.parse_foreign
#print axioms Txdbus.Msg.parse_foreign_with_C02
#print axioms Txdbus.Msg.parse_foreign_of_constructed
#print axioms Txdbus.Msg.constructed_from_arguments
#print axioms Txdbus.Msg.cannot_construct
#print axioms Txdbus.Msg.spec_decode_encode
#print axioms Txdbus.Msg.prefix_parse_ignores_flags
#print axioms Txdbus.Msg.prefix_empty_interface_constructible
#print axioms Txdbus.Msg.pad_agree
#print axioms Txdbus.Msg.headerCode_eq_general_decode
#print axioms Txdbus.Msg.headerCode_eq_general_encode
#print axioms Txdbus.Msg.headerCode_encode_fragment
#print axioms Txdbus.Msg.headerCode_outside_fragment
#print axioms Txdbus.Msg.headerCode_outside_fragment_anchored
#print axioms Txdbus.Msg.general_result_shape
#print axioms Txdbus.Msg.construct_general_eq
#print axioms Txdbus.Msg.parse_general_eq
#print axioms Txdbus.Msg.parse_general_of_ok
#print axioms Txdbus.Msg.parse_general_calls
#print axioms Txdbus.Msg.marshal_wellformed_general
#print axioms Txdbus.Msg.parse_marshal_general
#print axioms Txdbus.Msg.parse_foreign_general
#print axioms Txdbus.Msg.parse_foreign_containers
#print axioms Txdbus.Msg.remarshal_general_eq
#print axioms Txdbus.Msg.remarshal_parse
#print axioms Txdbus.Msg.sender_in_every_table
#print axioms Txdbus.Msg.forward_parse
#print axioms Txdbus.Msg.forward_parse_general
#print axioms Txdbus.Msg.forward_succeeds
#print axioms Txdbus.Msg.forward_foreign
#print axioms Txdbus.Msg.forward_drops_field_outside_table
#print axioms Txdbus.Msg.marshal_again_same
#print axioms Txdbus.Msg.marshal_again_new
#print axioms Txdbus.Msg.shared_descriptor_list_leaks
