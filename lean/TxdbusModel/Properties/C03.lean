import TxdbusModel.Proofs.Msg.Main
import TxdbusModel.Proofs.Msg.WithWire
import TxdbusModel.Msg.PreFix
import TxdbusModel.Gen.Message
/-!
# C03 - Every constructible message serialises well-formed and parses back intact

Property theorems about the code model of txdbus/message.py (`Msg/Message.lean`: the four
constructors, `_marshal`, `parseMessage`; `Msg/HeaderCode.lean`: `marshal` / `unmarshal` on the header
signature) against the specification of the message format (`Msg/SpecMsg.lean`, `Msg/HeaderWire.lean`),
for the tables extracted from the repository (`Gen/Message.lean`; `tables_ok` re-checks on every run the
facts about them that the proofs use).

All theorems hold for every constructor call / every run of calls / every foreign message; nothing is
bounded.  What they are parameterised by, and why:

* `C : BodyCodec β` - what `marshal.marshal(signature, body, oobFDs)` and `marshal.unmarshal(signature,
  rawBody, lendian, oobFDs)` do.  The message layer treats the body as bytes; the round trip of the body
  codec (C01) enters `parse_marshal` / `parse_foreign` as the explicit hypothesis `hC`, nothing else is
  assumed about `C`.
* `na : Char → Bool` - `str.isdigit` on non-ASCII characters (C18's opaque parameter; no outcome depends on it).
* `SigNoNul c` - the `signature` argument contains no NUL.  `marshal_signature` does not validate its
  argument (the source says "XXX validate signature"); a valid DBus signature never contains NUL.
* `maxLen ≤ 2^27` - the `_maxMsgLen` of the message's class (the theorems cover the lowered limits that
  tests/test_message.py uses as well as the real one, `Gen.Message.maxMsgLen = 2^27` by `tables_ok`).

Header fields are the 13 basic types (`HVal`): what message.py itself puts into a header, and unknown
fields of basic variant types in foreign messages.  Container-typed variants in unknown header fields
are outside the fragment `Msg/HeaderCode.lean` models (see notes/C03.md).
-/
namespace Txdbus.Msg

open Main

/-- The facts about the tables of message.py (and the alignment column of `dbus_types`) that the
theorems below use hold for the tables extracted from the repository under test. -/
theorem tables_ok : Gen.Message.tables.OK := genTables_ok

/-- **Serialises to a well-formed DBus message.**  A successfully constructed message `m` (any of the
four classes, any subset of optional arguments, any flags, any body the codec accepted), built when
the counter stood at `st.nextSerial ≥ 1`, is byte for byte

    fixed (16 bytes) ++ fieldArray ++ pad ++ body

where `fixed` = `'l'`, the type code of its class, the flag bits (`0x1` unless expectReply, `0x2` unless
autoStart), version 1, the UINT32 body length (= `body.length`), the UINT32 serial (= the fresh counter
value, non-zero), the UINT32 length of the field array (= `fieldArray.length`); `pad` is fewer than 8
zero bytes that bring the header to a multiple of 8; `rawHeader` / `rawPadding` / `rawBody` are these
parts; the field array is the specification encoding of exactly the non-None attributes of the
class's `_headerAttrs` (plus `unix_fds` when descriptors were collected), each once, with the typing of
`m.toSpec`; EVERY FIELD HAS THE TYPE THE SPECIFICATION'S HEADER-FIELD TABLE GIVES ITS CODE (`Spec.fieldType`: PATH 'o',
INTERFACE/MEMBER/ERROR_NAME/DESTINATION/SENDER 's', REPLY_SERIAL/UNIX_FDS 'u', SIGNATURE 'g' - a table of the
specification in Msg/SpecMsg.lean, independent of `_marshal`'s wrapper typing: dropping the ObjectPath wrapper or
typing REPLY_SERIAL 'i' breaks this conjunct); the fields the specification REQUIRES for the message type are
present (when the `path` argument is given: `path=None` is outside the documented argument types and builds a call
without PATH); the whole is at most `maxLen` bytes; and the strict decoder of the specification - which checks sizes,
field types and required fields - accepts the bytes and returns that message (the 2^26 limit on the header array is
the one thing `_marshal` does not enforce: a premise of the last clause). -/
theorem marshal_wellformed {β : Type} (C : BodyCodec β) (na : Char → Bool) (maxLen : Nat)
    (hmax : maxLen ≤ Spec.maxMessage) (st st' : St) (c : Call β) (m : Msg β)
    (hs : 1 ≤ st.nextSerial) (hsig : SigNoNul c)
    (h : construct Gen.Message.tables C na maxLen st c = (st', .ok m)) :
    ∃ sm : SpecMsg, m.toSpec Gen.Message.tables = some sm ∧
      m.raw = Spec.fixedPart sm (Spec.fieldArray sm).length ++ Spec.fieldArray sm ++ Spec.headerPad sm ++ m.rawBody ∧
      m.rawHeader = Spec.fixedPart sm (Spec.fieldArray sm).length ++ Spec.fieldArray sm ∧
      m.rawPadding = Spec.headerPad sm ∧
      (Spec.fixedPart sm (Spec.fieldArray sm).length).length = 16 ∧
      (m.rawHeader ++ m.rawPadding).length % 8 = 0 ∧
      m.rawPadding.length < 8 ∧ (∀ b ∈ m.rawPadding, b = 0) ∧
      Spec.fixedPart sm (Spec.fieldArray sm).length =
        [108, UInt8.ofNat (Gen.Message.tables.messageType m.cls),
         UInt8.ofNat (flagsByte m.expectReply m.autoStart), 1]
          ++ encUInt .little 4 m.rawBody.length ++ encUInt .little 4 m.serial
          ++ encUInt .little 4 (Spec.fieldArray sm).length ∧
      Gen.Message.tables.messageType m.cls < 256 ∧ m.rawBody.length < 4294967296 ∧
      (Spec.fieldArray sm).length < 4294967296 ∧
      m.serial = st.nextSerial ∧ m.serial ≠ 0 ∧ m.serial < 4294967296 ∧ st'.nextSerial = st.nextSerial + 1 ∧
      sm.fields.map (·.1) =
        (liveEntries m.attrs (Gen.Message.tables.entries m.cls (hasFds m))).map (·.2.1) ∧
      (sm.fields.map (·.1)).Nodup ∧ sm.fields.all Field.wf = true ∧
      (∀ f ∈ sm.fields, Spec.fieldType f.1 = some f.2.ty) ∧
      (c.pathGiven → ∀ code ∈ Spec.requiredCodes (Gen.Message.tables.messageType m.cls), code ∈ sm.fields.map (·.1)) ∧
      m.raw.length ≤ maxLen ∧
      (c.pathGiven → (Spec.fieldArray sm).length ≤ Spec.maxArray → Spec.decodeMsg m.raw = some sm) :=
  Main.marshal_wellformed Gen.Message.tables tables_ok C na maxLen hmax st st' c m hs hsig h

/-- **Fresh non-zero serials.**  Over any run of constructor calls on the shared counter (failing calls
interleaved anywhere), the serials of the messages that were constructed are strictly increasing
(hence pairwise distinct), at least 1, and below 2^32 (a call made when the counter has reached 2^32
fails in `struct.pack`: no message, no wrapped serial). -/
theorem serial_fresh {β : Type} (C : BodyCodec β) (na : Char → Bool) (maxLen : Nat)
    (cs : List (Call β)) (st : St) (hs : 1 ≤ st.nextSerial) :
    (okSerials (constructAll Gen.Message.tables C na maxLen st cs).1).Pairwise (· < ·) ∧
    (∀ s ∈ okSerials (constructAll Gen.Message.tables C na maxLen st cs).1,
        1 ≤ s ∧ st.nextSerial ≤ s ∧ s < 4294967296) :=
  Main.serial_fresh Gen.Message.tables tables_ok C na maxLen cs st hs

/-- The counter of a fresh process (`DBusMessage._nextSerial` as the class is defined) satisfies the
premise of `serial_fresh` and `marshal_wellformed`. -/
theorem serial_init : 1 ≤ (St.init Gen.Message.tables).nextSerial := by decide

/-- **Parsing the bytes recovers the message.**  `parseMessage(m.rawMessage, fdsAfter)` of a constructed
message succeeds and returns an object of the same class with the same serial, both flags, every one of
the nine header attributes (equal as Python values: `UInt32(5) == 5`), the same three raw parts, and -
when there is a non-empty signature - the decoded body, provided the body codec round-trips that body
(`hC`: whatever the codec produced for this body decodes, with the descriptor list `fdsAfter` handed to
parseMessage, to `decoded` - discharged by C01 in `parse_marshal_with_C01` / `parse_marshal_with_C01_none`). -/
theorem parse_marshal {β : Type} (C : BodyCodec β) (na : Char → Bool) (maxLen : Nat)
    (st st' : St) (c : Call β) (m : Msg β) (hs : 1 ≤ st.nextSerial) (hsig : SigNoNul c)
    (h : construct Gen.Message.tables C na maxLen st c = (st', .ok m))
    (fdsAfter : Option (List PyVal)) (decoded : β)
    (hC : ∀ sg, m.attrs .signature = .str .plain sg → sg ≠ [] →
        ∃ bytes fds', C.marshal sg m.body c.oob = .ok (bytes, fds') ∧ C.unmarshal sg bytes true fdsAfter = .ok decoded) :
    ∃ m' : Msg β, parseMessage Gen.Message.tables C m.raw fdsAfter = .ok m' ∧
      m'.cls = m.cls ∧ m'.serial = m.serial ∧ m'.expectReply = m.expectReply ∧ m'.autoStart = m.autoStart ∧
      (∀ a, m'.attrs a = plain (m.attrs a)) ∧
      m'.body = (if truthy (m.attrs .signature) then some decoded else none) ∧
      m'.rawHeader = m.rawHeader ∧ m'.rawPadding = m.rawPadding ∧ m'.rawBody = m.rawBody ∧
      m'.otherFlags = 0 ∧ m.otherFlags = 0 :=
  Main.parse_marshal Gen.Message.tables tables_ok C na maxLen st st' c m hs hsig h fdsAfter decoded hC

/-- `parse_marshal` with nothing assumed about the body codec: the message model instantiated with the code
model of txdbus's own `marshal` / `unmarshal` (`wireCodec`, Wire/Code.lean) and C01's round-trip theorem in the
place of `hC`.  For a method call with `oobFDs=[]` whose signature is the rendering of types `ts` without empty
structs and whose body conforms to it in the sense of C01 (`Code.RepFields`, distinct hashable dict keys, values
within the limits of the wire format), `parseMessage(m.rawMessage, fds collected)` returns the call with the
normalised body (tuples as lists, wrappers as plain values, ...).  (`oobFDs=None`: next theorem.) -/
theorem parse_marshal_with_C01 (na : Char → Bool) (maxLen : Nat) (st st' : St)
    (a : CallArgs PyVal) (m : Msg PyVal) (hs : 1 ≤ st.nextSerial)
    (ts : List Ty) (pv : PyVal) (items : List PyVal) (vs : List Val) (fdl : List PyVal) (bs : Bytes) (fuel : Nat)
    (hsig : a.signature = some (renderAll ts)) (hne : renderAll ts ≠ []) (hbody : a.body = some pv)
    (hoob : a.oobFDs = some [])
    (hts : allWF ts = true) (hitems : Code.topItems pv = .ok items)
    (hrep : Code.RepFields fdl vs true ts items 0 fdl.length) (hkeys : Code.KeysOKList items)
    (henc : Spec.encodeAll Code.genAlign (endianOf true) ts vs 0 = some bs) (hfuel : depthAll vs ≤ fuel)
    (h : construct Gen.Message.tables (wireCodec fuel) na maxLen st (.methodCall a) = (st', .ok m)) :
    ∃ m' : Msg PyVal, parseMessage Gen.Message.tables (wireCodec fuel) m.raw (some fdl) = .ok m' ∧
      m'.cls = m.cls ∧ m'.serial = m.serial ∧ m'.expectReply = m.expectReply ∧ m'.autoStart = m.autoStart ∧
      (∀ x, m'.attrs x = plain (m.attrs x)) ∧
      m'.body = some (.list (Code.plainList items)) ∧ m'.rawBody = bs ∧ m.rawBody = bs :=
  parse_marshal_wire Gen.Message.tables tables_ok na maxLen st st' a m hs ts pv items vs fdl bs fuel hsig hne hbody
    hoob hts hitems hrep hkeys henc hfuel h

/-- The same for ANY of the four constructors called without a descriptor list (`oobFDs=None`: the default of
`MethodCallMessage`, and what `MethodReturnMessage`, `ErrorMessage`, `SignalMessage` always pass): the body conforms
to `ts` without descriptors (`Code.RepFields … false …`); `lall` is whatever list of received descriptors the
protocol hands to `parseMessage`.  (C01's proof of `marshal_eq_spec` re-run with `fd = false`, Proofs/Msg/WithWire.lean.) -/
theorem parse_marshal_with_C01_none (na : Char → Bool) (maxLen : Nat) (st st' : St)
    (c : Call PyVal) (m : Msg PyVal) (hs : 1 ≤ st.nextSerial)
    (ts : List Ty) (pv : PyVal) (items : List PyVal) (vs : List Val) (lall : List PyVal) (bs : Bytes) (fuel : Nat)
    (hsig : c.signature = some (renderAll ts)) (hne : renderAll ts ≠ []) (hbody : c.body = some pv)
    (hoob : c.oob = none)
    (hts : allWF ts = true) (hitems : Code.topItems pv = .ok items)
    (hrep : Code.RepFields lall vs false ts items 0 0) (hkeys : Code.KeysOKList items)
    (henc : Spec.encodeAll Code.genAlign (endianOf true) ts vs 0 = some bs) (hfuel : depthAll vs ≤ fuel)
    (h : construct Gen.Message.tables (wireCodec fuel) na maxLen st c = (st', .ok m)) :
    ∃ m' : Msg PyVal, parseMessage Gen.Message.tables (wireCodec fuel) m.raw (some lall) = .ok m' ∧
      m'.cls = m.cls ∧ m'.serial = m.serial ∧ m'.expectReply = m.expectReply ∧ m'.autoStart = m.autoStart ∧
      (∀ x, m'.attrs x = plain (m.attrs x)) ∧
      m'.body = some (.list (Code.plainList items)) ∧ m'.rawBody = bs ∧ m.rawBody = bs :=
  parse_marshal_wire_none Gen.Message.tables tables_ok na maxLen st st' c m hs ts pv items vs lall bs fuel hsig hne hbody
    hoob hts hitems hrep hkeys henc hfuel h

/-- **C03 composed with C01: `parse_marshal` with no hypothesis about the codec.**  The body codec is `wireCodec fuel`
(Msg/WireCodec.lean): C01's code model of `marshal.marshal` / `marshal.unmarshal` at the offsets message.py uses
(startByte 0 of the 8-aligned body, byte order of the message).  For ANY of the four constructors, called without a
descriptor list (`oobFDs=None`) or with an empty one (`oobFDs=[]`), with a non-empty signature `renderAll ts` and a body
in C01's stated domain - `ts` without empty structs, the `variableList` `pv` conforming to `ts` and denoting the spec
values `vs` (`Code.RepFields`), dict keys hashable and pairwise distinct, the values within the wire limits
(`Spec.encodeAll … = some bs`), `fuel` at least the nesting depth - `parseMessage(m.rawMessage, fdl)` returns the same
class, serial, both flags, every header attribute AND the same body values (`Code.plainList items`: C01's normal form -
tuples as lists, wrappers as plain values); `rawBody` is the specification encoding `bs`; the raw header and padding and
the flag bits are those of `m`, as in `parse_marshal` (`bs` at the body's real offset in the message: `body_in_place`).
(`hC` of `parse_marshal` is
proved for this instance: `wireCodec_hC` / `parse_marshal_wire_core` in Proofs/Msg/WithWire.lean, from
`Code.marshal_eq_spec`, `Code.unmarshal_eq_spec`, `Code.fromSpecFields_of_rep` - the lemmas `C01_roundtrip` is made of.) -/
theorem parse_marshal_c01 (na : Char → Bool) (maxLen : Nat) (st st' : St)
    (c : Call PyVal) (m : Msg PyVal) (hs : 1 ≤ st.nextSerial)
    (ts : List Ty) (pv : PyVal) (items : List PyVal) (vs : List Val) (fdl : List PyVal) (bs : Bytes) (fuel : Nat)
    (hsig : c.signature = some (renderAll ts)) (hne : renderAll ts ≠ []) (hbody : c.body = some pv)
    (hoob : c.oob = none ∨ c.oob = some [])
    (hts : allWF ts = true) (hitems : Code.topItems pv = .ok items)
    (hrep : Code.RepFields fdl vs c.oob.isSome ts items 0 (if c.oob.isSome then fdl.length else 0))
    (hkeys : Code.KeysOKList items)
    (henc : Spec.encodeAll Code.genAlign (endianOf true) ts vs 0 = some bs) (hfuel : depthAll vs ≤ fuel)
    (h : construct Gen.Message.tables (wireCodec fuel) na maxLen st c = (st', .ok m)) :
    ∃ m' : Msg PyVal, parseMessage Gen.Message.tables (wireCodec fuel) m.raw (some fdl) = .ok m' ∧
      m'.cls = m.cls ∧ m'.serial = m.serial ∧ m'.expectReply = m.expectReply ∧ m'.autoStart = m.autoStart ∧
      (∀ x, m'.attrs x = plain (m.attrs x)) ∧
      m'.body = some (.list (Code.plainList items)) ∧ m'.rawBody = bs ∧ m.rawBody = bs ∧ m.body = some pv ∧
      m'.rawHeader = m.rawHeader ∧ m'.rawPadding = m.rawPadding ∧ m'.otherFlags = 0 ∧ m.otherFlags = 0 :=
  parse_marshal_c01_gen Gen.Message.tables tables_ok na maxLen st st' c m hs ts pv items vs fdl bs fuel hsig hne hbody hoob
    hts hitems hrep hkeys henc hfuel h

/-- The same with C01's EXECUTABLE premises (those of `C01_roundtrip_checked`: `Code.toSpecTop` computes the spec values
and the descriptors of the body, `Code.keysOKCheck` checks the dict keys), for a call with `oobFDs=[]`; the decoded body is
`Code.plainBList items` (a `Boolean` wrapper decodes to its bool).  Instantiated on a concrete message below. -/
theorem parse_marshal_c01_checked (na : Char → Bool) (maxLen : Nat) (st st' : St)
    (c : Call PyVal) (m : Msg PyVal) (hs : 1 ≤ st.nextSerial)
    (n : Nat) (ts : List Ty) (pv : PyVal) (vs : List Val) (fdl : List PyVal) (bs : Bytes) (fuel : Nat)
    (hsig : c.signature = some (renderAll ts)) (hne : renderAll ts ≠ []) (hbody : c.body = some pv)
    (hoob : c.oob = some [])
    (hts : allWF ts = true) (hchk : Code.toSpecTop n ts pv = some (vs, fdl)) (hkeys : Code.keysOKCheck pv = true)
    (henc : Spec.encodeAll Code.genAlign (endianOf true) ts vs 0 = some bs) (hfuel : depthAll vs ≤ fuel)
    (h : construct Gen.Message.tables (wireCodec fuel) na maxLen st c = (st', .ok m)) :
    ∃ items, Code.structFields pv = some items ∧
    ∃ m' : Msg PyVal, parseMessage Gen.Message.tables (wireCodec fuel) m.raw (some fdl) = .ok m' ∧
      m'.cls = m.cls ∧ m'.serial = m.serial ∧ m'.expectReply = m.expectReply ∧ m'.autoStart = m.autoStart ∧
      (∀ x, m'.attrs x = plain (m.attrs x)) ∧
      m'.body = some (.list (Code.plainBList items)) ∧ m'.rawBody = bs ∧ m.rawBody = bs ∧ m.body = some pv ∧
      m'.rawHeader = m.rawHeader ∧ m'.rawPadding = m.rawPadding ∧ m'.otherFlags = 0 ∧ m.otherFlags = 0 :=
  parse_marshal_c01_checked_gen Gen.Message.tables tables_ok na maxLen st st' c m hs n ts pv vs fdl bs fuel hsig hne hbody
    hoob hts hchk hkeys henc hfuel h

/-- `parse_marshal_c01_checked` for `oobFDs=None` - ANY of the four constructors (returns, errors, signals, default calls):
the executable premise is `toSpecTopNoFd` (Msg/WireCodec.lean: `Code.toSpecTop` read without a descriptor list).  The
driver's `buildw` operation evaluates exactly these premises (or those of `parse_marshal_c01_checked` when a list is
given) on every generated case of the stream `wire-codec` and reports `cert=1`. -/
theorem parse_marshal_c01_checked_none (na : Char → Bool) (maxLen : Nat) (st st' : St)
    (c : Call PyVal) (m : Msg PyVal) (hs : 1 ≤ st.nextSerial)
    (n : Nat) (ts : List Ty) (pv : PyVal) (vs : List Val) (fdl : List PyVal) (bs : Bytes) (fuel : Nat)
    (hsig : c.signature = some (renderAll ts)) (hne : renderAll ts ≠ []) (hbody : c.body = some pv)
    (hoob : c.oob = none)
    (hts : allWF ts = true) (hchk : toSpecTopNoFd n ts pv = some vs) (hkeys : Code.keysOKCheck pv = true)
    (henc : Spec.encodeAll Code.genAlign (endianOf true) ts vs 0 = some bs) (hfuel : depthAll vs ≤ fuel)
    (h : construct Gen.Message.tables (wireCodec fuel) na maxLen st c = (st', .ok m)) :
    ∃ items, Code.structFields pv = some items ∧
    ∃ m' : Msg PyVal, parseMessage Gen.Message.tables (wireCodec fuel) m.raw (some fdl) = .ok m' ∧
      m'.cls = m.cls ∧ m'.serial = m.serial ∧ m'.expectReply = m.expectReply ∧ m'.autoStart = m.autoStart ∧
      (∀ x, m'.attrs x = plain (m.attrs x)) ∧
      m'.body = some (.list (Code.plainBList items)) ∧ m'.rawBody = bs ∧ m.rawBody = bs ∧ m.body = some pv ∧
      m'.rawHeader = m.rawHeader ∧ m'.rawPadding = m.rawPadding ∧ m'.otherFlags = 0 ∧ m.otherFlags = 0 :=
  parse_marshal_c01_checked_none_gen Gen.Message.tables tables_ok na maxLen st st' c m hs n ts pv vs fdl bs fuel hsig hne
    hbody hoob hts hchk hkeys henc hfuel h

/-- **The body in its place.**  `parse_marshal_c01*` give `m.rawBody = bs` with `bs` the specification encoding of the
body at offset 0 - what `marshal.marshal(signature, body)` computes.  The specification counts alignment from the start
of the MESSAGE, where the body sits behind `rawHeader ++ rawPadding`: that offset is a multiple of 8, every alignment of
`dbus_types` divides 8 (`Code.genAlign_dvd8`, evaluated on Gen/Wire.lean's table), so `bs` IS the encoding at the
body's real offset (`Spec.encodeAll_shift`, Proofs/Msg/BodyShift.lean), and `rawMessage = rawHeader ++ rawPadding ++ bs`.
Holds for every body codec (only `m.rawBody = bs` is used), either byte order. -/
theorem body_in_place {β : Type} (C : BodyCodec β) (na : Char → Bool) (maxLen : Nat)
    (hmax : maxLen ≤ Spec.maxMessage) (st st' : St) (c : Call β) (m : Msg β) (hs : 1 ≤ st.nextSerial)
    (hsig : SigNoNul c) (h : construct Gen.Message.tables C na maxLen st c = (st', .ok m))
    (e : Endian) (ts : List Ty) (vs : List Val) (bs : Bytes)
    (henc : Spec.encodeAll Code.genAlign e ts vs 0 = some bs) (hraw : m.rawBody = bs) :
    m.raw = m.rawHeader ++ m.rawPadding ++ bs ∧ (m.rawHeader ++ m.rawPadding).length % 8 = 0 ∧
      Spec.encodeAll Code.genAlign e ts vs (m.rawHeader ++ m.rawPadding).length = some bs :=
  body_in_place_gen Gen.Message.tables tables_ok C na maxLen hmax st st' c m hs hsig h e ts vs bs henc hraw

/-- A message without a body (no signature, or the empty one) asks nothing of the codec. -/
theorem parse_marshal_no_body (na : Char → Bool) (maxLen : Nat) (st st' : St)
    (c : Call PyVal) (m : Msg PyVal) (hs : 1 ≤ st.nextSerial) (fuel : Nat) (fdsArg : Option (List PyVal))
    (hsig : c.signature = none ∨ c.signature = some [])
    (h : construct Gen.Message.tables (wireCodec fuel) na maxLen st c = (st', .ok m)) :
    ∃ m' : Msg PyVal, parseMessage Gen.Message.tables (wireCodec fuel) m.raw fdsArg = .ok m' ∧
      m'.cls = m.cls ∧ m'.serial = m.serial ∧ m'.expectReply = m.expectReply ∧ m'.autoStart = m.autoStart ∧
      (∀ x, m'.attrs x = plain (m.attrs x)) ∧ m'.body = none ∧ m'.rawBody = [] ∧ m.rawBody = [] :=
  parse_marshal_no_body_gen Gen.Message.tables tables_ok na maxLen st st' c m hs fuel fdsArg hsig h

/-- `marshal_wellformed` has no hypothesis about the codec (it holds for every `BodyCodec`); its one premise about the
signature, `SigNoNul`, holds for every signature that is the rendering of types - in particular for every body in C01's domain. -/
theorem sigNoNul_of_render {β : Type} (c : Call β) (ts : List Ty) (hsig : c.signature = some (renderAll ts)) :
    SigNoNul c := by
  intro sg hsg
  rw [hsig] at hsg
  simp only [Option.some.injEq] at hsg
  subst hsg
  exact render_noNul ts

/-- **Parsing what another implementation would send.**  Let `w` be any valid message of the
specification (`SpecMsg.valid`: sizes, the header-field type table, the required fields of its type; either byte
order; `Spec.encodeMsg w` are its bytes) whose field list is, in any order,
the known fields `known` (no attribute addressed twice) together with any number of fields `extra`
whose codes `_hcode` does not know.  Then `parseMessage` succeeds with the class of `w`'s type code, its
serial, both flag bits, the remaining flag bits in `otherFlags` (repair 24fc328: `flags & ~0x3`), every attribute = the
value of the known field that addresses it (None when there is none) - independent of the order of the list and of the
unknown fields -, the body bytes, and
the decoded body when the signature field (of type `g`) is non-empty and the body codec decodes `w.body`
in `w`'s byte order (`hC`: discharged by C02's decoder theorem). -/
theorem parse_foreign {β : Type} (C : BodyCodec β) (w : SpecMsg) (hw : w.valid = true)
    (cls : MsgClass) (hcls : w.mtype = Gen.Message.tables.messageType cls)
    (known extra : List Field) (hperm : w.fields.Perm (known ++ extra))
    (hextra : ∀ f ∈ extra, lookupAttr Gen.Message.tables f.1 = none)
    (hknown : (known.map (fun f => lookupAttr Gen.Message.tables f.1)).Nodup)
    (fds : Option (List PyVal)) (hfd : ∀ f ∈ w.fields, f.2.ty = .h → fds ≠ none)
    (decoded : β)
    (hC : ∀ sg, fieldFor Gen.Message.tables known .signature = some (.text .g sg) → sg ≠ [] →
        C.unmarshal sg w.body (decide (w.endian = .little)) fds = .ok decoded) :
    ∃ m' : Msg β, parseMessage Gen.Message.tables C (Spec.encodeMsg w) fds = .ok m' ∧
      m'.cls = cls ∧ m'.serial = w.serial ∧
      m'.expectReply = decide (w.flags % 2 = 0) ∧ m'.autoStart = decide (w.flags / 2 % 2 = 0) ∧
      (∀ a, m'.attrs a = match fieldFor Gen.Message.tables known a with
                         | some hv => pyOf fds hv
                         | none => .none) ∧
      m'.body = (match fieldFor Gen.Message.tables known .signature with
                 | some (.text _ (_ :: _)) => some decoded
                 | _ => none) ∧
      m'.rawBody = w.body ∧ (m'.rawHeader ++ m'.rawPadding ++ m'.rawBody) = Spec.encodeMsg w ∧
      m'.otherFlags = w.flags / 4 * 4 :=
  Main.parse_foreign Gen.Message.tables tables_ok C w hw cls hcls known extra hperm hextra hknown fds hfd
    decoded hC

/-- `parse_foreign` with nothing assumed about the body codec: txdbus's own codec model (`wireCodec`) and C02's
decoder theorem (`Code.unmarshal_eq_spec`) in the place of `hC`.  The body of `w` is the specification encoding, in
`w`'s byte order, of values `vs` of types `ts` (no empty structs) and its SIGNATURE field says `ts`; the parsed body
is the decoding of `vs`. -/
theorem parse_foreign_with_C02 (w : SpecMsg) (hw : w.valid = true)
    (cls : MsgClass) (hcls : w.mtype = Gen.Message.tables.messageType cls)
    (known extra : List Field) (hperm : w.fields.Perm (known ++ extra))
    (hextra : ∀ f ∈ extra, lookupAttr Gen.Message.tables f.1 = none)
    (hknown : (known.map (fun f => lookupAttr Gen.Message.tables f.1)).Nodup)
    (fds : Option (List PyVal)) (hfd : ∀ f ∈ w.fields, f.2.ty = .h → fds ≠ none)
    (ts : List Ty) (vs : List Val) (values : List PyVal) (fuel : Nat)
    (hsigf : fieldFor Gen.Message.tables known .signature = some (.text .g (renderAll ts))) (hne : renderAll ts ≠ [])
    (hts : allWF ts = true)
    (henc : Spec.encodeAll Code.genAlign w.endian ts vs 0 = some w.body)
    (hval : Code.fromSpecFields fds vs ts = some values) (hfuel : depthAll vs ≤ fuel) :
    ∃ m' : Msg PyVal, parseMessage Gen.Message.tables (wireCodec fuel) (Spec.encodeMsg w) fds = .ok m' ∧
      m'.cls = cls ∧ m'.serial = w.serial ∧
      m'.expectReply = decide (w.flags % 2 = 0) ∧ m'.autoStart = decide (w.flags / 2 % 2 = 0) ∧
      (∀ a, m'.attrs a = match fieldFor Gen.Message.tables known a with
                         | some hv => pyOf fds hv
                         | none => .none) ∧
      m'.body = some (.list values) ∧ m'.rawBody = w.body :=
  parse_foreign_wire Gen.Message.tables tables_ok w hw cls hcls known extra hperm hextra hknown fds hfd ts vs values fuel
    hsigf hne hts henc hval hfuel

/-- **"... or the spec-conformant bytes another implementation would produce for the same message, in either byte
order".**  For a constructed message `m` with specification message `sm`: whatever valid message `w` of the same type
carries `sm`'s fields in any order, together with any fields of unknown code - either byte order, its own serial,
flags and body encoding - `parseMessage (Spec.encodeMsg w)` returns `m`'s class and every header attribute of `m`. -/
theorem parse_foreign_of_constructed {β : Type} (C : BodyCodec β) (na : Char → Bool) (maxLen : Nat) (st st' : St)
    (c : Call β) (m : Msg β) (h : construct Gen.Message.tables C na maxLen st c = (st', .ok m)) :
    ∃ sm : SpecMsg, m.toSpec Gen.Message.tables = some sm ∧
      ∀ (w : SpecMsg) (extra : List Field), w.valid = true → w.mtype = sm.mtype →
        w.fields.Perm (sm.fields ++ extra) → (∀ f ∈ extra, lookupAttr Gen.Message.tables f.1 = none) →
        ∀ (fds : Option (List PyVal)), (∀ f ∈ w.fields, f.2.ty = .h → fds ≠ none) →
        ∀ (decoded : β), (∀ sg, fieldFor Gen.Message.tables sm.fields .signature = some (.text .g sg) → sg ≠ [] →
            C.unmarshal sg w.body (decide (w.endian = .little)) fds = .ok decoded) →
        ∃ m' : Msg β, parseMessage Gen.Message.tables C (Spec.encodeMsg w) fds = .ok m' ∧
          m'.cls = m.cls ∧ m'.serial = w.serial ∧
          m'.expectReply = decide (w.flags % 2 = 0) ∧ m'.autoStart = decide (w.flags / 2 % 2 = 0) ∧
          (∀ a, m'.attrs a = plain (m.attrs a)) ∧
          m'.body = (if truthy (m.attrs .signature) then some decoded else none) ∧ m'.rawBody = w.body ∧
          m'.otherFlags = w.flags / 4 * 4 :=
  Main.parse_foreign_of_constructed Gen.Message.tables tables_ok C na maxLen st st' c m h

/-- **... in either byte order, WITH the body and no hypothesis about the codec** (`parse_foreign_of_constructed` composed
with C01/C02 as `parse_marshal_c01` is).  `m` constructed with `wireCodec` from a signature `renderAll ts` and a body
whose items denote the spec values `vs` (`Code.RepFields`, any descriptor bookkeeping `fd k k'`).  Any valid message `w`
of the same type with `m`'s header fields in any order plus unknown fields, in EITHER byte order, whose body is the
specification encoding of `vs` in `w`'s byte order, parses to `m`'s class, every header attribute of `m`, and the same
body values `Code.plainList items`.  What is NOT derived: that `vs` encodes in the other byte order whenever it encodes
little-endian (no such lemma in Proofs/Wire yet; the limits do not depend on the byte order) - the premise says `w.body`
is that encoding. -/
theorem parse_foreign_of_constructed_c01 (na : Char → Bool) (maxLen : Nat) (st st' : St)
    (c : Call PyVal) (m : Msg PyVal)
    (ts : List Ty) (items : List PyVal) (vs : List Val) (fdl : List PyVal) (fd : Bool) (k k' : Nat) (fuel : Nat)
    (hsig : c.signature = some (renderAll ts)) (hne : renderAll ts ≠ [])
    (hts : allWF ts = true) (hrep : Code.RepFields fdl vs fd ts items k k') (hkeys : Code.KeysOKList items)
    (hfuel : depthAll vs ≤ fuel)
    (h : construct Gen.Message.tables (wireCodec fuel) na maxLen st c = (st', .ok m)) :
    ∃ sm : SpecMsg, m.toSpec Gen.Message.tables = some sm ∧
      ∀ (w : SpecMsg) (extra : List Field), w.valid = true → w.mtype = sm.mtype →
        w.fields.Perm (sm.fields ++ extra) → (∀ f ∈ extra, lookupAttr Gen.Message.tables f.1 = none) →
        Spec.encodeAll Code.genAlign w.endian ts vs 0 = some w.body →
        ∃ m' : Msg PyVal, parseMessage Gen.Message.tables (wireCodec fuel) (Spec.encodeMsg w) (some fdl) = .ok m' ∧
          m'.cls = m.cls ∧ m'.serial = w.serial ∧
          m'.expectReply = decide (w.flags % 2 = 0) ∧ m'.autoStart = decide (w.flags / 2 % 2 = 0) ∧
          (∀ a, m'.attrs a = plain (m.attrs a)) ∧
          m'.body = some (.list (Code.plainList items)) ∧ m'.rawBody = w.body ∧
          m'.otherFlags = w.flags / 4 * 4 :=
  parse_foreign_of_constructed_c01_gen Gen.Message.tables tables_ok na maxLen st st' c m ts items vs fdl fd k k' fuel
    hsig hne hts hrep hkeys hfuel h

/-- **The constructed object is the message the arguments describe**: the class of the constructor that was called, the
REQUESTED `expectReply` / `autoStart` (True for the three classes without these arguments), every argument under its own
attribute and nothing else, the body argument; `rawBody` is what the body codec returned for (signature, body, oobFDs)
and `unix_fds` the number of descriptors it collected.  (Ties the theorems about `m` to the call `c`.) -/
theorem constructed_from_arguments {β : Type} (C : BodyCodec β) (na : Char → Bool) (maxLen : Nat) (st st' : St)
    (c : Call β) (m : Msg β) (h : construct Gen.Message.tables C na maxLen st c = (st', .ok m)) :
    (∀ a, c = .methodCall a →
       m.cls = .methodCall ∧ m.expectReply = a.expectReply ∧ m.autoStart = a.autoStart ∧
       m.attrs .path = strAttr a.path ∧ m.attrs .member = strAttr a.member ∧
       m.attrs .interface = strAttr a.interface ∧ m.attrs .destination = strAttr a.destination ∧
       m.attrs .signature = strAttr a.signature ∧
       m.attrs .errorName = .none ∧ m.attrs .replySerial = .none ∧ m.attrs .sender = .none) ∧
    (∀ a, c = .methodReturn a →
       m.cls = .methodReturn ∧ m.expectReply = true ∧ m.autoStart = true ∧
       m.attrs .replySerial = .int .uint32 a.replySerial ∧ m.attrs .destination = strAttr a.destination ∧
       m.attrs .signature = strAttr a.signature ∧
       m.attrs .path = .none ∧ m.attrs .member = .none ∧ m.attrs .interface = .none ∧
       m.attrs .errorName = .none ∧ m.attrs .sender = .none) ∧
    (∀ a, c = .error a →
       m.cls = .error ∧ m.expectReply = true ∧ m.autoStart = true ∧
       m.attrs .errorName = strAttr a.errorName ∧ m.attrs .replySerial = .int .uint32 a.replySerial ∧
       m.attrs .destination = strAttr a.destination ∧ m.attrs .signature = strAttr a.signature ∧
       m.attrs .sender = strAttr a.sender ∧
       m.attrs .path = .none ∧ m.attrs .member = .none ∧ m.attrs .interface = .none) ∧
    (∀ a, c = .signal a →
       m.cls = .signal ∧ m.expectReply = true ∧ m.autoStart = true ∧
       m.attrs .path = strAttr a.path ∧ m.attrs .member = strAttr a.member ∧
       m.attrs .interface = strAttr a.interface ∧ m.attrs .destination = strAttr a.destination ∧
       m.attrs .signature = strAttr a.signature ∧
       m.attrs .errorName = .none ∧ m.attrs .replySerial = .none ∧ m.attrs .sender = .none) ∧
    m.body = c.body ∧
    (match c.signature with
     | some (ch :: cs) =>
       ∃ fds', C.marshal (ch :: cs) c.body c.oob = .ok (m.rawBody, fds') ∧
         m.attrs .unixFds = (match fds' with
                             | some (fd :: l) => .int .plain (((fd :: l).length : Nat) : Nat)
                             | _ => .none)
     | _ => m.rawBody = [] ∧ m.attrs .unixFds = .none) :=
  Main.constructed_from_arguments Gen.Message.tables tables_ok C na maxLen st st' c m h

/-- **What cannot be constructed.**  If a constructor returns a message then the message is at most
`maxLen` bytes long (for the classes of message.py: `maxLen = 2^27`), and its path, interface, member,
destination and error name - each when present - belong to the DBus grammar (the grammar predicates of
C18); a method call is not on the reserved path; member (method call, signal), interface (signal) and
error name (error) are present.  Contrapositive: an argument outside the grammar, the reserved path, or
a body that makes the message longer than the limit, and the constructor raises. -/
theorem cannot_construct {β : Type} (C : BodyCodec β) (na : Char → Bool) (maxLen : Nat)
    (st st' : St) (c : Call β) (m : Msg β) (h : construct Gen.Message.tables C na maxLen st c = (st', .ok m)) :
    m.raw.length ≤ maxLen ∧
    (∀ s, m.attrs .path = .str .plain s →
        Valid.GrammarObjectPath s ∧ (m.cls = .methodCall → s ≠ Gen.Message.tables.reservedPath)) ∧
    (∀ s, m.attrs .interface = .str .plain s → Valid.GrammarInterfaceName s) ∧
    (∀ s, m.attrs .member = .str .plain s → Valid.GrammarMemberName s) ∧
    (∀ s, m.attrs .destination = .str .plain s → Valid.GrammarBusName s) ∧
    (∀ s, m.attrs .errorName = .str .plain s → Valid.GrammarErrorName s) ∧
    (m.cls = .methodCall ∨ m.cls = .signal → ∃ s, m.attrs .member = .str .plain s) ∧
    (m.cls = .signal → ∃ s, m.attrs .interface = .str .plain s) ∧
    (m.cls = .error → ∃ s, m.attrs .errorName = .str .plain s) :=
  Main.cannot_construct Gen.Message.tables tables_ok C na maxLen st st' c m h

/-- The specification's own round trip: the strict decoder returns every valid message from its
encoding, in either byte order, for any field order (this is what makes `Spec.decodeMsg` a judge of
"well-formed" that accepts everything `Spec.encodeMsg` can produce). -/
theorem spec_decode_encode (m : SpecMsg) (hm : m.valid = true) : Spec.decodeMsg (Spec.encodeMsg m) = some m :=
  Spec.decodeMsg_encodeMsg m hm

/-! ## The hypotheses are satisfiable; concrete instances -/

/-- A body codec for the examples: bodies are byte strings that travel as they are. -/
def rawCodec : BodyCodec Bytes where
  marshal := fun _ body fds => .ok (body.getD [], fds)
  unmarshal := fun _ raw _ _ => .ok raw

/-- `MethodCallMessage('/a', 'm')` as the first message of a process: the bytes the real code produces
(`6c01000100000000010000001a000000 01016f00020000002f61000000000000 03017300010000006d00 000000000000`). -/
example :
    ((construct Gen.Message.tables rawCodec (fun _ => false) Gen.Message.maxMsgLen (St.init Gen.Message.tables)
        (.methodCall { path := some "/a".toList, member := some "m".toList })).2.toOption.map Msg.raw)
      = some [0x6c, 1, 0, 1, 0, 0, 0, 0, 1, 0, 0, 0, 0x1a, 0, 0, 0,
              1, 1, 0x6f, 0, 2, 0, 0, 0, 0x2f, 0x61, 0, 0, 0, 0, 0, 0,
              3, 1, 0x73, 0, 1, 0, 0, 0, 0x6d, 0, 0, 0, 0, 0, 0, 0] := by decide +kernel

/-- ... and `parseMessage` of these bytes gives the call back (`parse_marshal` on a concrete instance). -/
example :
    ((parseMessage Gen.Message.tables rawCodec
        [0x6c, 1, 0, 1, 0, 0, 0, 0, 1, 0, 0, 0, 0x1a, 0, 0, 0,
         1, 1, 0x6f, 0, 2, 0, 0, 0, 0x2f, 0x61, 0, 0, 0, 0, 0, 0,
         3, 1, 0x73, 0, 1, 0, 0, 0, 0x6d, 0, 0, 0, 0, 0, 0, 0] none).toOption.map
      fun m => (Gen.Message.messageType m.cls, m.serial, m.expectReply, m.autoStart, m.rawBody))
      = some (1, 1, true, true, []) := by decide +kernel

/-- A big-endian method return with an unknown field (code 200, a BYTE) before the known ones is a valid
message of the specification: the premises of `parse_foreign` are satisfiable. -/
example :
    (SpecMsg.valid ⟨.big, 2, 1, 7, [(200, .num .y 5), (5, .num .u 3), (6, .text .s ":1.2".toList)], []⟩) = true := by
  decide +kernel

/-- The joint premises of `parse_foreign` are satisfiable: a big-endian method return with flags 5 whose field list is
[unknown code 200, REPLY_SERIAL, DESTINATION] = a permutation of `known ++ extra`. -/
example :
    let w : SpecMsg := ⟨.big, 2, 5, 7, [(200, .num .y 5), (5, .num .u 3), (6, .text .s ":1.2".toList)], []⟩
    let known : List Field := [(5, .num .u 3), (6, .text .s ":1.2".toList)]
    let extra : List Field := [(200, .num .y 5)]
    w.valid = true ∧ w.mtype = Gen.Message.tables.messageType .methodReturn ∧
      w.fields.Perm (known ++ extra) ∧ (∀ f ∈ extra, lookupAttr Gen.Message.tables f.1 = none) ∧
      (known.map (fun f => lookupAttr Gen.Message.tables f.1)).Nodup ∧
      (∀ f ∈ w.fields, f.2.ty = .h → (none : Option (List PyVal)) ≠ none) ∧
      fieldFor Gen.Message.tables known .signature = none := by
  refine ⟨by decide +kernel, by decide, ?_, by decide, by decide, by decide, by decide⟩
  exact (List.perm_append_comm (l₁ := [(200, HVal.num .y 5)]) (l₂ := [(5, HVal.num .u 3), (6, HVal.text .s ":1.2".toList)]))

/-- The invalid names of the statement are refused by the constructors (an instance of `cannot_construct`). -/
example :
    (construct Gen.Message.tables rawCodec (fun _ => false) Gen.Message.maxMsgLen (St.init Gen.Message.tables)
        (.methodCall { path := some "/a".toList, member := some "m".toList, interface := some "a.".toList })).2.toOption.isNone
      = true := by decide +kernel

/-- The premises of `parse_marshal_with_C01` are satisfiable: `MethodCallMessage('/a', 'm', signature='i', body=[7], oobFDs=[])`. -/
example :
    let ts : List Ty := [.basic .i]
    let items : List PyVal := [.int .plain 7]
    let vs : List Val := [.int 7]
    allWF ts = true ∧ Code.topItems (.list items) = .ok items ∧
      Code.RepFields [] vs true ts items 0 0 ∧ Code.KeysOKList items ∧
      Spec.encodeAll Code.genAlign (endianOf true) ts vs 0 = some [7, 0, 0, 0] ∧ depthAll vs ≤ 2 ∧
      ((construct Gen.Message.tables (wireCodec 2) (fun _ => false) Gen.Message.maxMsgLen (St.init Gen.Message.tables)
        (.methodCall { path := some "/a".toList, member := some "m".toList, signature := some (renderAll ts),
                       body := some (.list items), oobFDs := some [] })).2.toOption.map Msg.rawBody) = some [7, 0, 0, 0] := by
  refine ⟨by decide, rfl, ?_, ?_, by decide +kernel, by decide, by decide +kernel⟩
  · refine ⟨_, _, _, _, 0, rfl, rfl, ?_, ⟨rfl, rfl, rfl⟩⟩
    simp only [Code.Rep]
    exact ⟨.i, rfl, Or.inr ⟨by decide, ⟨_, rfl⟩, rfl⟩⟩
  · simp [Code.KeysOKList, Code.KeysOK]

/-- `parse_marshal_c01_checked` on a concrete message with a non-trivial body: `MethodCallMessage('/a', 'm',
signature='saivh', body=['hi', (1, Int32(-2)), UInt32(7), 42], oobFDs=[])` (a string, a tuple for an array, a variant whose
content is inferred 'u', a descriptor) as the first message of a process.  Every premise is discharged by evaluation, and
the theorem yields: parsing its 104 bytes with the collected descriptor list `[42]` returns the body
`['hi', [1, -2], 7, 42]`. -/
example :
    ∃ m m', (construct Gen.Message.tables (wireCodec 4) (fun _ => false) Gen.Message.maxMsgLen (St.init Gen.Message.tables)
        (.methodCall { path := some "/a".toList, member := some "m".toList,
                       signature := some "saivh".toList,
                       body := some (.list [.str .plain "hi".toList, .tuple [.int .plain 1, .int .int32 (-2)],
                                            .int .uint32 7, .int .plain 42]),
                       oobFDs := some [] })).2 = .ok m ∧
      parseMessage Gen.Message.tables (wireCodec 4) m.raw (some [.int .plain 42]) = .ok m' ∧
      m'.body = some (.list [.str .plain "hi".toList, .list [.int .plain 1, .int .plain (-2)], .int .plain 7, .int .plain 42]) ∧
      m'.serial = 1 ∧ m.rawBody.length = 32 := by
  let ts : List Ty := [.basic .s, .array (.basic .i), .variant, .basic .h]
  let pv : PyVal := .list [.str .plain "hi".toList, .tuple [.int .plain 1, .int .int32 (-2)], .int .uint32 7, .int .plain 42]
  let c : Call PyVal := .methodCall { path := some "/a".toList, member := some "m".toList, signature := some "saivh".toList,
                                      body := some pv, oobFDs := some [] }
  let vs : List Val := [.str [104, 105], .array [.int 1, .int (-2)], .variant (.basic .u) (.int 7), .int 0]
  let bs : Bytes := [2, 0, 0, 0, 104, 105, 0, 0, 8, 0, 0, 0, 1, 0, 0, 0, 254, 255, 255, 255, 1, 117, 0, 0, 7, 0, 0, 0, 0, 0, 0, 0]
  cases hr : construct Gen.Message.tables (wireCodec 4) (fun _ => false) Gen.Message.maxMsgLen (St.init Gen.Message.tables) c with
  | mk st' r =>
    cases r with
    | error e =>
      exfalso
      have : (construct Gen.Message.tables (wireCodec 4) (fun _ => false) Gen.Message.maxMsgLen
                (St.init Gen.Message.tables) c).2.toOption.isSome = true := by decide +kernel
      rw [hr] at this
      cases this
    | ok m =>
      obtain ⟨items, hitems, m', p1, _, p3, _, _, _, p7, _, p9, _⟩ :=
        parse_marshal_c01_checked (fun _ => false) Gen.Message.maxMsgLen (St.init Gen.Message.tables) st' c m (by decide)
          20 ts pv vs [.int .plain 42] bs 4 rfl (by decide) rfl rfl (by decide) rfl rfl (by decide +kernel) (by decide) hr
      have hi : items = [.str .plain "hi".toList, .tuple [.int .plain 1, .int .int32 (-2)], .int .uint32 7, .int .plain 42] := by
        have : Code.structFields pv = some [.str .plain "hi".toList, .tuple [.int .plain 1, .int .int32 (-2)], .int .uint32 7, .int .plain 42] := rfl
        rw [this] at hitems
        exact (Option.some.inj hitems).symm
      subst hi
      have hm1 : m.serial = 1 := by
        have := (construct_ok Gen.Message.tables tables_ok (wireCodec 4) (fun _ => false) Gen.Message.maxMsgLen
          (St.init Gen.Message.tables) st' c m hr)
        obtain ⟨sm, hb⟩ := this
        exact hb.serial
      refine ⟨m, m', rfl, p1, ?_, by rw [p3, hm1], by rw [p9]; rfl⟩
      rw [p7]
      rfl

/-- `parse_marshal_c01` ITSELF (the relational premises `Code.RepFields`, `Code.KeysOKList`) instantiated for every
constructor and both branches of `hoob`: a call `c` with signature 'i', body `[7]`, that constructs.  Its premises are
proved here once (the `oobFDs=None` branch reads `RepFields … false … 0 0`, the `oobFDs=[]` branch `RepFields … true … 0 0`
with the collected list `[]`), and the theorem yields: parsing the bytes gives the body `[7]`, the four body bytes, and
the raw header of `m`. -/
theorem c01_instance (c : Call PyVal) (st' : St) (m : Msg PyVal)
    (hsig : c.signature = some "i".toList) (hbody : c.body = some (.list [.int .plain 7]))
    (hoob : c.oob = none ∨ c.oob = some [])
    (h : construct Gen.Message.tables (wireCodec 2) (fun _ => false) Gen.Message.maxMsgLen (St.init Gen.Message.tables) c
          = (st', .ok m)) :
    ∃ m' : Msg PyVal, parseMessage Gen.Message.tables (wireCodec 2) m.raw (some []) = .ok m' ∧
      m'.cls = m.cls ∧ m'.body = some (.list [.int .plain 7]) ∧ m.rawBody = [7, 0, 0, 0] ∧
      m'.rawHeader = m.rawHeader ∧ m'.otherFlags = 0 := by
  have hrep : ∀ fd : Bool, Code.RepFields [] [.int 7] fd [.basic .i] [.int .plain 7] 0 0 := by
    intro fd
    refine ⟨_, _, _, _, 0, rfl, rfl, ?_, ⟨rfl, rfl, rfl⟩⟩
    simp only [Code.Rep]
    exact ⟨.i, rfl, Or.inr ⟨by decide, ⟨_, rfl⟩, rfl⟩⟩
  have hrep' : Code.RepFields [] [.int 7] c.oob.isSome [.basic .i] [.int .plain 7] 0
      (if c.oob.isSome then ([] : List PyVal).length else 0) := by
    rcases hoob with ho | ho <;> rw [ho] <;> exact hrep _
  obtain ⟨m', p1, p2, _, _, _, _, p7, _, p9, _, p11, _, p13, _⟩ :=
    parse_marshal_c01 (fun _ => false) Gen.Message.maxMsgLen (St.init Gen.Message.tables) st' c m (by decide)
      [.basic .i] (.list [.int .plain 7]) [.int .plain 7] [.int 7] [] [7, 0, 0, 0] 2 hsig (by decide) hbody hoob
      (by decide) rfl hrep' (by simp [Code.KeysOKList, Code.KeysOK]) (by decide +kernel) (by decide) h
  exact ⟨m', p1, p2, p7, p9, p11, p13⟩

/-- A construction that evaluates to a message gives the `(st', .ok m)` shape the theorems ask for. -/
theorem construct_shape {β : Type} {T : Tables} {C : BodyCodec β} {na : Char → Bool} {maxLen : Nat} {st : St} {c : Call β}
    (hok : (construct T C na maxLen st c).2.toOption.isSome = true) :
    ∃ st' m, construct T C na maxLen st c = (st', .ok m) := by
  cases hr : construct T C na maxLen st c with
  | mk st' r =>
    cases r with
    | error e => rw [hr] at hok; cases hok
    | ok m => exact ⟨st', m, rfl⟩

/-- `MethodReturnMessage(5, signature='i', body=[7])` (`oobFDs=None`). -/
example : ∃ st' m m', construct Gen.Message.tables (wireCodec 2) (fun _ => false) Gen.Message.maxMsgLen
      (St.init Gen.Message.tables) (.methodReturn { replySerial := 5, signature := some "i".toList,
                                                     body := some (.list [.int .plain 7]) }) = (st', .ok m) ∧
    parseMessage Gen.Message.tables (wireCodec 2) m.raw (some []) = .ok m' ∧ m'.cls = m.cls ∧
    m'.body = some (.list [.int .plain 7]) ∧ m.rawBody = [7, 0, 0, 0] := by
  obtain ⟨st', m, h⟩ := construct_shape (T := Gen.Message.tables) (C := wireCodec 2) (na := fun _ => false)
    (maxLen := Gen.Message.maxMsgLen) (st := St.init Gen.Message.tables)
    (c := .methodReturn { replySerial := 5, signature := some "i".toList, body := some (.list [.int .plain 7]) })
    (by decide +kernel)
  obtain ⟨m', q1, q2, q3, q4, _⟩ := c01_instance _ st' m rfl rfl (Or.inl rfl) h
  exact ⟨st', m, m', h, q1, q2, q3, q4⟩

/-- `ErrorMessage('a.E', 5, signature='i', body=[7], sender=':1.2')` (`oobFDs=None`). -/
example : ∃ st' m m', construct Gen.Message.tables (wireCodec 2) (fun _ => false) Gen.Message.maxMsgLen
      (St.init Gen.Message.tables) (.error { errorName := some "a.E".toList, replySerial := 5, signature := some "i".toList,
                                             body := some (.list [.int .plain 7]), sender := some ":1.2".toList }) = (st', .ok m) ∧
    parseMessage Gen.Message.tables (wireCodec 2) m.raw (some []) = .ok m' ∧ m'.cls = m.cls ∧
    m'.body = some (.list [.int .plain 7]) ∧ m.rawBody = [7, 0, 0, 0] := by
  obtain ⟨st', m, h⟩ := construct_shape (T := Gen.Message.tables) (C := wireCodec 2) (na := fun _ => false)
    (maxLen := Gen.Message.maxMsgLen) (st := St.init Gen.Message.tables)
    (c := .error { errorName := some "a.E".toList, replySerial := 5, signature := some "i".toList,
                   body := some (.list [.int .plain 7]), sender := some ":1.2".toList })
    (by decide +kernel)
  obtain ⟨m', q1, q2, q3, q4, _⟩ := c01_instance _ st' m rfl rfl (Or.inl rfl) h
  exact ⟨st', m, m', h, q1, q2, q3, q4⟩

/-- `SignalMessage('/a', 'm', 'a.b', signature='i', body=[7])` (`oobFDs=None`). -/
example : ∃ st' m m', construct Gen.Message.tables (wireCodec 2) (fun _ => false) Gen.Message.maxMsgLen
      (St.init Gen.Message.tables) (.signal { path := some "/a".toList, member := some "m".toList,
                                              interface := some "a.b".toList, signature := some "i".toList,
                                              body := some (.list [.int .plain 7]) }) = (st', .ok m) ∧
    parseMessage Gen.Message.tables (wireCodec 2) m.raw (some []) = .ok m' ∧ m'.cls = m.cls ∧
    m'.body = some (.list [.int .plain 7]) ∧ m.rawBody = [7, 0, 0, 0] := by
  obtain ⟨st', m, h⟩ := construct_shape (T := Gen.Message.tables) (C := wireCodec 2) (na := fun _ => false)
    (maxLen := Gen.Message.maxMsgLen) (st := St.init Gen.Message.tables)
    (c := .signal { path := some "/a".toList, member := some "m".toList, interface := some "a.b".toList,
                    signature := some "i".toList, body := some (.list [.int .plain 7]) })
    (by decide +kernel)
  obtain ⟨m', q1, q2, q3, q4, _⟩ := c01_instance _ st' m rfl rfl (Or.inl rfl) h
  exact ⟨st', m, m', h, q1, q2, q3, q4⟩

/-- `MethodCallMessage('/a', 'm', signature='i', body=[7])` - the DEFAULT `oobFDs=None` - and the same with `oobFDs=[]`:
both branches of `hoob` on the class that has the argument. -/
example : (∃ st' m m', construct Gen.Message.tables (wireCodec 2) (fun _ => false) Gen.Message.maxMsgLen
      (St.init Gen.Message.tables) (.methodCall { path := some "/a".toList, member := some "m".toList,
                                                   signature := some "i".toList, body := some (.list [.int .plain 7]) }) = (st', .ok m) ∧
    parseMessage Gen.Message.tables (wireCodec 2) m.raw (some []) = .ok m' ∧ m'.body = some (.list [.int .plain 7])) ∧
    (∃ st' m m', construct Gen.Message.tables (wireCodec 2) (fun _ => false) Gen.Message.maxMsgLen
      (St.init Gen.Message.tables) (.methodCall { path := some "/a".toList, member := some "m".toList,
                                                   signature := some "i".toList, body := some (.list [.int .plain 7]),
                                                   oobFDs := some [] }) = (st', .ok m) ∧
    parseMessage Gen.Message.tables (wireCodec 2) m.raw (some []) = .ok m' ∧ m'.body = some (.list [.int .plain 7])) := by
  constructor
  · obtain ⟨st', m, h⟩ := construct_shape (T := Gen.Message.tables) (C := wireCodec 2) (na := fun _ => false)
      (maxLen := Gen.Message.maxMsgLen) (st := St.init Gen.Message.tables)
      (c := .methodCall { path := some "/a".toList, member := some "m".toList, signature := some "i".toList,
                          body := some (.list [.int .plain 7]) })
      (by decide +kernel)
    obtain ⟨m', q1, _, q3, _⟩ := c01_instance _ st' m rfl rfl (Or.inl rfl) h
    exact ⟨st', m, m', h, q1, q3⟩
  · obtain ⟨st', m, h⟩ := construct_shape (T := Gen.Message.tables) (C := wireCodec 2) (na := fun _ => false)
      (maxLen := Gen.Message.maxMsgLen) (st := St.init Gen.Message.tables)
      (c := .methodCall { path := some "/a".toList, member := some "m".toList, signature := some "i".toList,
                          body := some (.list [.int .plain 7]), oobFDs := some [] })
      (by decide +kernel)
    obtain ⟨m', q1, _, q3, _⟩ := c01_instance _ st' m rfl rfl (Or.inr rfl) h
    exact ⟨st', m, m', h, q1, q3⟩

/-- `parse_marshal_c01_checked_none` on a signal with a non-trivial body: `SignalMessage('/a', 'm', 'a.b', signature='a{sv}b',
body=[{'k': Int16(-3)}, Boolean(1)])` - every premise by evaluation; the parsed body is `[{'k': -3}, True]`. -/
example : ∃ st' m m', construct Gen.Message.tables (wireCodec 5) (fun _ => false) Gen.Message.maxMsgLen
      (St.init Gen.Message.tables) (.signal { path := some "/a".toList, member := some "m".toList,
                                              interface := some "a.b".toList, signature := some "a{sv}b".toList,
                                              body := some (.list [.dict [(.str .plain "k".toList, .int .int16 (-3))], .int .boolean 1]) }) = (st', .ok m) ∧
    parseMessage Gen.Message.tables (wireCodec 5) m.raw (some []) = .ok m' ∧
    m'.body = some (.list [.dict [(.str .plain "k".toList, .int .plain (-3))], .bool true]) ∧ m'.rawHeader = m.rawHeader := by
  let ts : List Ty := [.array (.dict (.basic .s) .variant), .basic .b]
  let pv : PyVal := .list [.dict [(.str .plain "k".toList, .int .int16 (-3))], .int .boolean 1]
  let c : Call PyVal := .signal { path := some "/a".toList, member := some "m".toList, interface := some "a.b".toList,
                                  signature := some "a{sv}b".toList, body := some pv }
  obtain ⟨st', m, h⟩ := construct_shape (T := Gen.Message.tables) (C := wireCodec 5) (na := fun _ => false)
    (maxLen := Gen.Message.maxMsgLen) (st := St.init Gen.Message.tables) (c := c) (by decide +kernel)
  have hv : ∃ vs bs, toSpecTopNoFd 20 ts pv = some vs ∧
      Spec.encodeAll Code.genAlign (endianOf true) ts vs 0 = some bs ∧ depthAll vs ≤ 5 := by
    exact ⟨[.array [.entry (.str [107]) (.variant (.basic .n) (.int (-3)))], .bool true],
      [12, 0, 0, 0, 0, 0, 0, 0, 1, 0, 0, 0, 107, 0, 1, 110, 0, 0, 253, 255, 1, 0, 0, 0], rfl, by decide +kernel, by decide⟩
  obtain ⟨vs, bs, h1, h2, h3⟩ := hv
  obtain ⟨items, hitems, m', p1, _, _, _, _, _, p7, _, _, _, p11, _⟩ :=
    parse_marshal_c01_checked_none (fun _ => false) Gen.Message.maxMsgLen (St.init Gen.Message.tables) st' c m (by decide)
      20 ts pv vs [] bs 5 rfl (by decide) rfl rfl (by decide) h1 rfl h2 h3 h
  have hi : items = [.dict [(.str .plain "k".toList, .int .int16 (-3))], .int .boolean 1] := by
    have : Code.structFields pv = some [.dict [(.str .plain "k".toList, .int .int16 (-3))], .int .boolean 1] := rfl
    rw [this] at hitems
    exact (Option.some.inj hitems).symm
  subst hi
  exact ⟨st', m, m', h, p1, by rw [p7]; rfl, p11⟩

/-! ## Witnesses: the code before the repairs violates the property (the replays of F4 and F5) -/

/-- F4 (repaired by 7466ae7): before the repair `parseMessage` ignored the flags byte - a call built with
`expectReply=False, autoStart=False` (flags byte 3) parsed with both True. -/
theorem prefix_parse_ignores_flags :
    ((parseMessagePreFix Gen.Message.tables rawCodec
        [0x6c, 1, 3, 1, 0, 0, 0, 0, 1, 0, 0, 0, 0x1a, 0, 0, 0,
         1, 1, 0x6f, 0, 2, 0, 0, 0, 0x2f, 0x61, 0, 0, 0, 0, 0, 0,
         3, 1, 0x73, 0, 1, 0, 0, 0, 0x6d, 0, 0, 0, 0, 0, 0, 0] none).toOption.map
      fun m => (m.expectReply, m.autoStart)) = some (true, true)
    ∧
    ((parseMessage Gen.Message.tables rawCodec
        [0x6c, 1, 3, 1, 0, 0, 0, 0, 1, 0, 0, 0, 0x1a, 0, 0, 0,
         1, 1, 0x6f, 0, 2, 0, 0, 0, 0x2f, 0x61, 0, 0, 0, 0, 0, 0,
         3, 1, 0x73, 0, 1, 0, 0, 0, 0x6d, 0, 0, 0, 0, 0, 0, 0] none).toOption.map
      fun m => (m.expectReply, m.autoStart)) = some (false, false) := by decide +kernel

/-- F5 (repaired by efe5b53): before the repair `MethodCallMessage(interface='')` skipped the validator
(`if interface:`) and was constructed, naming the invalid empty interface; the repaired constructor refuses it. -/
theorem prefix_empty_interface_constructible :
    (mkMethodCallPreFix Gen.Message.tables rawCodec (fun _ => false) Gen.Message.maxMsgLen (St.init Gen.Message.tables)
        { path := some "/a".toList, member := some "m".toList, interface := some [] }).2.toOption.isSome = true
    ∧
    (mkMethodCall Gen.Message.tables rawCodec (fun _ => false) Gen.Message.maxMsgLen (St.init Gen.Message.tables)
        { path := some "/a".toList, member := some "m".toList, interface := some [] }).2.toOption.isNone = true := by
  decide +kernel

end Txdbus.Msg

#print axioms Txdbus.Msg.tables_ok
#print axioms Txdbus.Msg.marshal_wellformed
#print axioms Txdbus.Msg.serial_fresh
#print axioms Txdbus.Msg.serial_init
#print axioms Txdbus.Msg.parse_marshal
#print axioms Txdbus.Msg.parse_marshal_c01
#print axioms Txdbus.Msg.parse_marshal_c01_checked
#print axioms Txdbus.Msg.parse_marshal_c01_checked_none
#print axioms Txdbus.Msg.body_in_place
#print axioms Txdbus.Msg.parse_foreign_of_constructed_c01
#print axioms Txdbus.Msg.c01_instance
#print axioms Txdbus.Msg.construct_shape
#print axioms Txdbus.Msg.parse_marshal_no_body
#print axioms Txdbus.Msg.sigNoNul_of_render
#print axioms Txdbus.Msg.parse_marshal_with_C01
#print axioms Txdbus.Msg.parse_marshal_with_C01_none
#print axioms Txdbus.Msg.parse_foreign
#print axioms Txdbus.Msg.parse_foreign_with_C02
#print axioms Txdbus.Msg.parse_foreign_of_constructed
#print axioms Txdbus.Msg.constructed_from_arguments
#print axioms Txdbus.Msg.cannot_construct
#print axioms Txdbus.Msg.spec_decode_encode
#print axioms Txdbus.Msg.prefix_parse_ignores_flags
#print axioms Txdbus.Msg.prefix_empty_interface_constructible
