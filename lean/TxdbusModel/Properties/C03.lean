/-! Property theorems for C03 (stub: none yet). -/
