/-! Property theorems for C07 (stub: none yet). -/
