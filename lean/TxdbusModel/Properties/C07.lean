/-
Property C07 - the client speaks DBus only after the server's OK and never stalls in the handshake.

Code model:  Auth/Client.lean  (ClientAuthenticator + client line mode of BasicDBusProtocol, after the
             repairs fixes/C07-01..04), tables from Gen/ClientAuth.lean;
             Auth/Handshake2.lean (section 6: this client model and C06's bus model joined by two byte queues).
Spec:        Auth/ClientSpec.lean (vocabulary of the statement), Auth/SpecServerRef.lean (reference server).

All theorems about runs quantify over: every preference list, both transport kinds, every environment
(one per line handled), and every list of reads `chunks` - i.e. every sequence of server bytes split
into reads in every possible way.  `(clientRun pref unix envAt chunks).trace` is what can be observed:
N (NUL byte), recv l (a line handed to the authenticator), send l (a line written), close, authenticated.

Readings and explicit assumptions (also in notes/C07.md):
* "valid hexadecimal GUID" (`OkLine`) := what `binascii.unhexlify` accepts after `bytes.strip()`: a
  non-empty, even number of hex digits.  The length of the GUID (32 digits in DBus) is not demanded.
  `OkLine`/`FdAnswer` use the helpers `splitCmd`/`strip` of ClientBytes.lean ("first word", "blanks removed");
  these helpers are shared with the code model and validated against Python only by the streams.
* The environment of the cookie step is a total function (`Env`): `os.stat` and `open(...).read()` return or
  fail, they do not block.  With the context-name test of `_authGetDBusCookie` (`contextOk`, repair C07-05)
  only a plain file name inside the keyring directory is ever opened; that reading a regular file there
  terminates is an assumption of every no-stall statement below.
* "any spec-conforming server" in the completion theorems is the reference server of
  Auth/SpecServerRef.lean: one deterministic server per configuration (accepted mechanisms, answer to the
  descriptor negotiation, GUID = `hexlify` of any non-empty id, cookie, challenge, hash).  Conforming
  behaviours outside this family (upper-case GUID text, several DATA rounds for EXTERNAL) are not covered by
  the theorem; the line streams of the harness exercise them on the implementation.
-/
import TxdbusModel.Proofs.Auth.ClientSafety
import TxdbusModel.Proofs.Auth.ClientTraces
import TxdbusModel.Proofs.Auth.ClientLiveness
import TxdbusModel.Proofs.Auth.ClientComplete
import TxdbusModel.Proofs.Auth.ClientStrict
import TxdbusModel.Proofs.Auth.ClientFraming
import TxdbusModel.Proofs.Auth.ClientCompleteBytes
import TxdbusModel.Auth.ClientOrig
import TxdbusModel.Proofs.Auth.Handshake2Inv
import TxdbusModel.Proofs.Auth.Handshake2Keyring
import TxdbusModel.Proofs.Auth.Handshake2Wire
import TxdbusModel.Auth.ClientSha1

namespace Txdbus.AuthClient

/-! ## Tables (regenerated from /repo on every run) -/

theorem preference_table :
    Gen.ClientAuth.preference = [b!"EXTERNAL", b!"DBUS_COOKIE_SHA1", b!"ANONYMOUS"] := by decide

theorem preference_nodup : Gen.ClientAuth.preference.Nodup := by decide

theorem authDelimiter_table : Gen.ClientAuth.authDelimiter = CRLF := by decide

theorem maxAuthLength_table : Gen.ClientAuth.maxAuthLength = 16384 := by decide

/-- The words `W` for which `ClientAuthenticator` has a handler `_auth_W` (read from the class with `dir()`)
are exactly the five command words the model dispatches on (`handleAuthMessage`, `serverWords`): a new
handler in the source breaks this lemma. -/
theorem handlerWords_table :
    Gen.ClientAuth.handlerWords = [b!"AGREE_UNIX_FD", b!"DATA", b!"ERROR", b!"OK", b!"REJECTED"] ∧
    (∀ w, w ∈ Gen.ClientAuth.handlerWords ↔ w ∈ serverWords) := by
  have h : Gen.ClientAuth.handlerWords = [b!"AGREE_UNIX_FD", b!"DATA", b!"ERROR", b!"OK", b!"REJECTED"] := by decide
  refine ⟨h, fun w => ?_⟩
  rw [h]
  simp only [serverWords, List.mem_cons, List.not_mem_nil, or_false]
  constructor
  · rintro (h | h | h | h | h) <;> simp [h]
  · rintro (h | h | h | h | h) <;> simp [h]

/-! ## 1. BEGIN only after OK (and after the descriptor negotiation on UNIX transports) -/

/-- Every BEGIN in the output is preceded by a server line `OK <valid hex GUID>`; on a UNIX transport
also, after that OK, by the client's NEGOTIATE_UNIX_FD and after that by the server's AGREE_UNIX_FD or
ERROR.  For all line sequences, transports, environments and splittings into reads. -/
theorem begin_only_after_ok (pref : List Bytes) (unix : Bool) (envAt : Nat → Env) (chunks : List Bytes) :
    BeginsJustified unix (clientRun pref unix envAt chunks).trace :=
  (invB_clientRun pref unix envAt chunks).begins

/-- Strict form: the OK that justifies a BEGIN answers the mechanism in progress - the client wrote no
AUTH line between that OK and the BEGIN (an OK followed by REJECTED and a new AUTH is void), and on a
UNIX transport NEGOTIATE_UNIX_FD and its answer lie after that OK.  It implies `begin_only_after_ok`
(`JustifiedCurrent.justified`). -/
theorem begin_only_after_ok_of_current_mechanism (pref : List Bytes) (unix : Bool) (envAt : Nat → Env)
    (chunks : List Bytes) :
    BeginsJustifiedCurrent unix (clientRun pref unix envAt chunks).trace :=
  (invC_clientRun pref unix envAt chunks).begins

/-- The client is authenticated (binary mode, `connectionAuthenticated()` ran) iff it sent BEGIN. -/
theorem authenticated_iff_begin (pref : List Bytes) (unix : Bool) (envAt : Nat → Env) (chunks : List Bytes) :
    let p := clientRun pref unix envAt chunks
    (p.authenticated = true ↔ Ev.send (b!"BEGIN") ∈ p.trace) ∧
    (p.authenticated = true ↔ Ev.authenticated ∈ p.trace) ∧
    (p.auth.authenticated = p.authenticated) := by
  have h := invB_clientRun pref unix envAt chunks
  exact ⟨h.authIff, h.authEv, h.authEq⟩

/-! ## 2. Mechanisms in preference order, each at most once -/

theorem OfferedInOrder.length_eq {ls ms : List Bytes} (h : OfferedInOrder ls ms) : ls.length = ms.length := by
  induction h with
  | nil => rfl
  | cons _ _ ih => simp [ih]

/-- The AUTH lines sent offer exactly the first `k` mechanisms of the preference list, one line each,
in order, where `k` is the number of AUTH lines; the mechanisms still to be tried are the rest. -/
theorem mechanisms_once_in_order (pref : List Bytes) (unix : Bool) (envAt : Nat → Env) (chunks : List Bytes) :
    let p := clientRun pref unix envAt chunks
    let k := (authLines p.trace).length
    k ≤ pref.length ∧ OfferedInOrder (authLines p.trace) (pref.take k) ∧ p.auth.authOrder = pref.drop k := by
  obtain ⟨k, hk, ho, hf⟩ := (invM_clientRun pref unix envAt chunks).ex
  have hlen : (authLines (clientRun pref unix envAt chunks).trace).length = k := by
    have := hf.length_eq
    rw [List.length_take, Nat.min_eq_left hk] at this
    exact this
  simp only [hlen]
  exact ⟨hk, hf, ho⟩

/-- With the real table: no mechanism name occurs twice, so each is offered at most once. -/
theorem each_mechanism_at_most_once (unix : Bool) (envAt : Nat → Env) (chunks : List Bytes) :
    let p := clientRun Gen.ClientAuth.preference unix envAt chunks
    ∃ k, OfferedInOrder (authLines p.trace) (Gen.ClientAuth.preference.take k) ∧
      (Gen.ClientAuth.preference.take k).Nodup := by
  have h := mechanisms_once_in_order Gen.ClientAuth.preference unix envAt chunks
  exact ⟨_, h.2.1, (List.take_sublist _ _).nodup preference_nodup⟩

/-- "Moves on after REJECTED or ERROR": in an open, unauthenticated state with a mechanism `m` left, the line
REJECTED - or ERROR outside the descriptor negotiation - (of admissible length) keeps the connection open
and makes the client write exactly the AUTH line of `m`, the next mechanism of the preference list. -/
theorem moves_on_after_rejected_or_error (envAt : Nat → Env) (p : Proto) (l m : Bytes) (rest : List Bytes)
    (hopen : p.disconnecting = false) (hunauth : p.authenticated = false ∧ p.auth.authenticated = false)
    (hlen : l.length ≤ maxAuth) (hbuf : p.buffer.length ≤ maxAuth + 1)
    (hleft : p.auth.authOrder = m :: rest)
    (hline : (splitCmd l).1 = b!"REJECTED" ∨ ((splitCmd l).1 = b!"ERROR" ∧ p.auth.negotiating = false)) :
    let p' := processLines envAt p [l]
    p'.disconnecting = false ∧ p'.authenticated = false ∧
      sends p'.trace = sends p.trace ++ [authLine (envAt p.seen) m] ∧ IsOfferOf (authLine (envAt p.seen) m) m ∧
      p'.auth.authOrder = rest ∧ p'.auth.authMech = some m := by
  have h := processLines_moves_on envAt p l m rest hopen hunauth.1 hunauth.2 hlen hbuf hleft hline
  exact ⟨h.1, h.2.1, h.2.2.1, authLine_isOffer _ m, h.2.2.2.1, h.2.2.2.2⟩

/-! ## 3. No stall -/

/-- For every open, unauthenticated state and every server line: the step closes the connection
(writing nothing) or writes exactly one line (BEGIN included: authenticating means writing BEGIN). -/
theorem no_stall (envAt : Nat → Env) (p : Proto) (l : Bytes)
    (hopen : p.disconnecting = false) (hunauth : p.authenticated = false) :
    let p' := processLines envAt p [l]
    (p'.disconnecting = true ∧ sends p'.trace = sends p.trace) ∨
    (∃ x, sends p'.trace = sends p.trace ++ [x]) :=
  processLines_single envAt p l hopen hunauth

/-- On whole runs: every line handed to the authenticator is directly followed by a reaction
(a line written or the connection closed); the trace never ends in a received line. -/
theorem no_stall_run (pref : List Bytes) (unix : Bool) (envAt : Nat → Env) (chunks : List Bytes) :
    ReactsToEveryLine (clientRun pref unix envAt chunks).trace :=
  (invT_clientRun pref unix envAt chunks).reacts

/-- No complete line stays in the buffer: after any reads, split anywhere, the line buffer of the client
contains no delimiter - every complete line received so far was split off and went through the loop of
`dataReceived` (where `no_stall_run` applies to it).  This is the statement seeded change C07b breaks. -/
theorem no_complete_line_buffered (pref : List Bytes) (unix : Bool) (envAt : Nat → Env) (chunks : List Bytes) :
    hasCRLF (clientRun pref unix envAt chunks).buffer = false :=
  clientRun_buffer_noCRLF pref unix envAt chunks

/-- The framing itself does not depend on the reads: the lines split off from `a ++ b` arriving at once are
the lines of `a` followed by the lines of (what remained of `a`) ++ `b`, with the same final remainder. -/
theorem framing_independent_of_reads (a b : Bytes) :
    splitCRLF (a ++ b) =
      ((splitCRLF a).1 ++ (splitCRLF ((splitCRLF a).2 ++ b)).1, (splitCRLF ((splitCRLF a).2 ++ b)).2) :=
  splitCRLF_append a b

/-- A server line (no delimiter inside, within the length limit) delivered in ANY pieces - one read, byte by
byte, a read boundary inside the delimiter, empty reads in between - to a connection with an empty line
buffer has exactly the effect of the line arriving whole (`lineReceived`): it is handed to the authenticator
once, when its delimiter is complete. -/
theorem line_delivered_in_pieces (envAt : Nat → Env) (p : Proto) (l : Bytes) (pieces : List Bytes)
    (hbuf : p.buffer = []) (hl : hasCRLF l = false) (hlen : l.length ≤ maxAuth)
    (hpieces : pieces.flatten = l ++ CRLF) :
    pieces.foldl (dataReceived envAt) p = lineReceived envAt p l := by
  by_cases ha : p.authenticated = true
  · rw [foldl_binary envAt pieces p ha, hpieces]
    unfold lineReceived
    simp [ha]
  · have ha' : p.authenticated = false := by simpa using ha
    have := deliver_line envAt l hl hlen pieces p ha' (by rw [hbuf, hpieces]; rfl) (by rw [hbuf]; simp [CRLF])
    have hp : ({ p with buffer := [] } : Proto) = p := by cases p; simp_all
    rw [hp] at this
    exact this

/-! ## 4. Exhaustion and lines outside the protocol close the connection -/

/-- REJECTED, or ERROR outside the descriptor negotiation, when no mechanism is left: the connection
is closed and nothing is written. -/
theorem exhaustion_closes (envAt : Nat → Env) (p : Proto) (l : Bytes)
    (hopen : p.disconnecting = false) (hunauth : p.authenticated = false)
    (hexhausted : p.auth.authOrder = [])
    (hline : (splitCmd l).1 = b!"REJECTED" ∨ ((splitCmd l).1 = b!"ERROR" ∧ p.auth.negotiating = false)) :
    let p' := processLines envAt p [l]
    p'.disconnecting = true ∧ sends p'.trace = sends p.trace ∧ p'.authenticated = false :=
  processLines_single_error envAt p l hopen hunauth (handle_exhausted hexhausted hline)

/-- In a run, "no mechanism is left" is the same as "every mechanism of the list has been offered". -/
theorem exhausted_iff_all_offered (pref : List Bytes) (unix : Bool) (envAt : Nat → Env) (chunks : List Bytes) :
    let p := clientRun pref unix envAt chunks
    p.auth.authOrder = [] ↔ (authLines p.trace).length = pref.length := by
  have h := mechanisms_once_in_order pref unix envAt chunks
  simp only at h ⊢
  rw [h.2.2]
  constructor
  · intro hd
    have := List.drop_eq_nil_iff.mp hd
    omega
  · intro he
    rw [he]; simp

/-- A line whose command word is not one of REJECTED, OK, DATA, ERROR, AGREE_UNIX_FD (unknown
commands, empty lines, lower case, leading blanks …) closes the connection and nothing is written. -/
theorem unknown_line_closes (envAt : Nat → Env) (p : Proto) (l : Bytes)
    (hopen : p.disconnecting = false) (hunauth : p.authenticated = false)
    (hline : (splitCmd l).1 ∉ serverWords) :
    let p' := processLines envAt p [l]
    p'.disconnecting = true ∧ sends p'.trace = sends p.trace ∧ p'.authenticated = false :=
  processLines_single_error envAt p l hopen hunauth (handle_unknown hline)

/-- After `loseConnection` only further `loseConnection`s can follow (no line, no authentication), and
after authentication nothing happens in line mode any more. -/
theorem silent_after_close (pref : List Bytes) (unix : Bool) (envAt : Nat → Env) (chunks : List Bytes) :
    let tr := (clientRun pref unix envAt chunks).trace
    SilentAfterClose tr ∧ (∀ pre post, tr = pre ++ Ev.authenticated :: post → post = []) :=
  ⟨(invT_clientRun pref unix envAt chunks).silent, (invT_clientRun pref unix envAt chunks).final⟩

/-! ## 5. Completion against the reference server -/

/-- For every set of mechanisms accepted by the reference server that contains one the client can
use (EXTERNAL, or ANONYMOUS, or DBUS_COOKIE_SHA1 with a usable keyring), both transport kinds and
both answers to NEGOTIATE_UNIX_FD (`cfg.fdAgree` is arbitrary), the composition of the client model
(real preference table) with the reference server ends with both sides authenticated and the
connection open.  The server's lines must fit the client's line limit (the GUID and the cookie
challenge are otherwise arbitrary); hash function, user name, random bytes, cookie are arbitrary. -/
theorem completes_against_spec_server (unix : Bool) (cfg : SpecServer.Cfg) (env : Env) (guid : Bytes)
    (hguid : guid ≠ [] ∧ cfg.guidHex = hexlify guid ∧ 2 * guid.length + 3 ≤ maxAuth)
    (hchallenge : cfg.accepts .cookie = true →
      5 + 2 * (cfg.cookieCtx.length + 1 + (cfg.cookieId.length + 1 + cfg.challenge.length)) ≤ maxAuth)
    (haccepts : cfg.accepts .external = true ∨ cfg.accepts .anonymous = true ∨
      (cfg.accepts .cookie = true ∧ CookieUsable cfg env)) :
    Completed (handshake Gen.ClientAuth.preference unix cfg (fun _ => env) 16) := by
  obtain ⟨hg, hgx, hgl⟩ := hguid
  cases h1 : cfg.accepts .external with
  | true => exact completes_external unix cfg env guid hg hgx hgl h1
  | false =>
    cases h2 : cfg.accepts .cookie with
    | false =>
      have h3 : cfg.accepts .anonymous = true := by
        rcases haccepts with h | h | h
        · rw [h1] at h; cases h
        · exact h
        · rw [h2] at h; cases h.1
      exact completes_anonymous unix cfg env guid hg hgx hgl h1 h2 h3
    | true =>
      cases h3 : cfg.accepts .anonymous with
      | true => exact completes_cookie_or_anonymous unix cfg env guid hg hgx hgl (hchallenge h2) h1 h2 h3
      | false =>
        have hc : CookieUsable cfg env := by
          rcases haccepts with h | h | h
          · rw [h1] at h; cases h
          · rw [h3] at h; cases h
          · exact h.2
        exact completes_cookie unix cfg env guid hg hgx hgl h1 h2 hc

/-- The same at the level of bytes and for EVERY delivery: however each answer of the reference server
(line + delimiter) is cut into reads - `cut` is any function with `(cut x).flatten = x` - the composition
through `dataReceived` is the line-level composition (`handshakeBytes_eq`) and completes in the same cases. -/
theorem completes_against_spec_server_bytes (cut : Bytes → List Bytes) (hcut : ∀ x, (cut x).flatten = x)
    (unix : Bool) (cfg : SpecServer.Cfg) (env : Env) (guid : Bytes)
    (hguid : guid ≠ [] ∧ cfg.guidHex = hexlify guid ∧ 2 * guid.length + 3 ≤ maxAuth)
    (hchallenge : cfg.accepts .cookie = true →
      5 + 2 * (cfg.cookieCtx.length + 1 + (cfg.cookieId.length + 1 + cfg.challenge.length)) ≤ maxAuth)
    (haccepts : cfg.accepts .external = true ∨ cfg.accepts .anonymous = true ∨
      (cfg.accepts .cookie = true ∧ CookieUsable cfg env)) :
    Completed (handshakeBytes cut Gen.ClientAuth.preference unix cfg (fun _ => env) 16) := by
  have hf : ServerLinesFit cfg := by
    constructor
    · refine ⟨hasCRLF_of_no_cr ?_, ?_⟩
      · intro b hb
        simp only [SpecServer.okLine, hguid.2.1, List.mem_append, List.mem_cons, List.not_mem_nil, or_false] at hb
        rcases hb with (rfl | rfl | rfl) | hb
        · decide
        · decide
        · decide
        · exact no_cr_hexlify _ b hb
      · simp only [SpecServer.okLine, hguid.2.1, List.length_append, hexlify_length, List.length_cons,
          List.length_nil]
        omega
    · intro hc
      refine ⟨hasCRLF_of_no_cr ?_, ?_⟩
      · intro b hb
        simp only [List.mem_append, List.mem_cons, List.not_mem_nil, or_false] at hb
        rcases hb with (rfl | rfl | rfl | rfl | rfl) | hb
        · decide
        · decide
        · decide
        · decide
        · decide
        · exact no_cr_hexlify _ b hb
      · have := hchallenge hc
        simp only [List.length_append, hexlify_length, List.length_cons, List.length_nil, joinWith]
        omega
  rw [handshakeBytes_eq cut hcut hf]
  exact completes_against_spec_server unix cfg env guid hguid hchallenge haccepts

/-! ## The hypotheses are satisfiable -/

namespace Example

def env : Env :=
  { user := b!"root", dirStat := some (0o40700, true),
    file := fun ctx => if ctx = b!"ctxa" then some (b!"1 100 aabbcc\n7 200 c00c1e\n") else none,
    rnd := [1, 2, 3, 4, 5, 6, 7, 8], sha1 := fun x => x.take 2 ++ [7], errText := fun _ => b!"e" }

def cfg (ext cookie anon fd : Bool) : SpecServer.Cfg :=
  { accepts := fun m => match m with | .external => ext | .cookie => cookie | .anonymous => anon,
    fdAgree := fd, guidHex := hexlify (b!"0123456789abcdef"), cookieCtx := b!"ctxa", cookieId := b!"7",
    cookie := b!"c00c1e", challenge := b!"feedface", sha1 := fun x => x.take 2 ++ [7] }

/-- A keyring in which the cookie-only server's cookie is found. -/
example : CookieUsable (cfg false true false false) env := by
  refine ⟨by decide, by decide, by decide, by decide, by decide, by decide, by decide, by decide, rfl, rfl, ?_⟩
  intro x; simp [cfg]

/-- The cookie-only configuration on a UNIX transport whose server refuses descriptor passing. -/
example : Completed (handshake Gen.ClientAuth.preference true (cfg false true false false) (fun _ => env) 16) := by
  apply completes_against_spec_server true _ env (b!"0123456789abcdef") ⟨by decide, rfl, by decide⟩
  · intro _; decide
  · refine Or.inr (Or.inr ⟨rfl, ?_⟩)
    refine ⟨by decide, by decide, by decide, by decide, by decide, by decide, by decide, by decide, rfl, rfl, ?_⟩
    intro x; simp [cfg]

/-- A run that authenticates on a UNIX transport (so `begin_only_after_ok` is not vacuous):
OK, then AGREE_UNIX_FD, delivered with a read boundary inside the first delimiter. -/
example :
    (clientRun Gen.ClientAuth.preference true (fun _ => env)
      [b!"OK 1234\r", b!"\nAGREE_UNIX_FD\r\n"]).trace =
    [Ev.nul, Ev.send (b!"AUTH EXTERNAL"), Ev.recv (b!"OK 1234"), Ev.send (b!"NEGOTIATE_UNIX_FD"),
     Ev.recv (b!"AGREE_UNIX_FD"), Ev.send (b!"BEGIN"), Ev.authenticated] := by decide

/-- An open, unauthenticated state with no mechanism left exists (hypotheses of `exhaustion_closes`). -/
example :
    let p := clientRun Gen.ClientAuth.preference false (fun _ => env) [b!"REJECTED\r\nERROR\r\n"]
    p.disconnecting = false ∧ p.authenticated = false ∧ p.auth.authOrder = [] := by decide

end Example

/-! ## Witnesses: the handlers before the repairs break the property (replays of F9-F12) -/

/-- F9 - on a UNIX transport AGREE_UNIX_FD as the very first server line: the unrepaired authenticator
answers BEGIN and is authenticated without any OK; the repaired one raises (connection closed). -/
theorem prefix_model_agree_before_ok_begins :
    Orig.replies Orig.handleAuthMessage Orig.env0 (Orig.start true) [b!"AGREE_UNIX_FD"]
      = ([some [b!"BEGIN"]], true) ∧
    Orig.replies handleAuthMessage Orig.env0 (Orig.start true) [b!"AGREE_UNIX_FD"] = ([none], false) := by
  decide

/-- F10 - after OK and NEGOTIATE_UNIX_FD the server answers ERROR (no descriptor passing): the
unrepaired authenticator offers the next mechanism instead of BEGIN; the repaired one sends BEGIN. -/
theorem prefix_model_error_after_negotiate_tries_next :
    Orig.replies Orig.handleAuthMessage Orig.env0 (Orig.start true) [b!"OK 1234", b!"ERROR"]
      = ([some [b!"NEGOTIATE_UNIX_FD"], some [b!"AUTH DBUS_COOKIE_SHA1 726f6f74"]], false) ∧
    Orig.replies handleAuthMessage Orig.env0 (Orig.start true) [b!"OK 1234", b!"ERROR"]
      = ([some [b!"NEGOTIATE_UNIX_FD"], some [b!"BEGIN"]], true) := by
  decide

/-- F11 - whatever the challenge and the keyring, the unrepaired cookie step answers ERROR with the
text of the AttributeError. -/
theorem prefix_model_cookie_always_error (env : Env) (a : Auth) (args : Bytes)
    (h : a.authMech = some mCOOKIE) :
    Orig.authDATA env a args = .ok (a, [b!"ERROR " ++ Orig.attrErrorText]) := by
  simp [Orig.authDATA, h, mCOOKIE, mEXTERNAL]

/-- F12 - DATA while the mechanism is ANONYMOUS: the unrepaired authenticator writes nothing and
does not fail (a stall: `no_stall` is false for it); the repaired one answers CANCEL. -/
theorem prefix_model_data_during_anonymous_stalls :
    Orig.replies Orig.handleAuthMessage Orig.env0 (Orig.start false) [b!"REJECTED", b!"REJECTED", b!"DATA"]
      = ([some [b!"AUTH DBUS_COOKIE_SHA1 726f6f74"], some [b!"AUTH ANONYMOUS 747864627573"], some []], false) ∧
    Orig.replies handleAuthMessage Orig.env0 (Orig.start false) [b!"REJECTED", b!"REJECTED", b!"DATA"]
      = ([some [b!"AUTH DBUS_COOKIE_SHA1 726f6f74"], some [b!"AUTH ANONYMOUS 747864627573"],
          some [b!"CANCEL"]], false) := by
  decide

end Txdbus.AuthClient

/-! ## 6. The composition: txdbus's client against txdbus's own bus (C07 x C06), every schedule of cuts

Model: `Auth/Handshake2.lean` - the client model of this property and the bus model of C06 (`AuthServer.Proto` over the
real mechanisms and `RealWorld`) joined by two byte queues; a `Move` hands a non-empty prefix of one queue to the
receiver as one read; `run cfg (init cfg) ms` is the state after the schedule `ms`; `Reach` = reachable by some
schedule (`reach_iff_run`).

What is proved WITHOUT environment hypotheses (any `cfg`, at most "the GUID holds no CR"): the bus's part of every
composed run is a `runReads` of C06's model, so C06's theorems apply (`own_bus_bus_is_c06_run`,
`own_bus_bus_authenticated_only_after_accept`); C07's safety invariant holds of the client's part and every line the
client is handed was written by the bus (`own_bus_begin_only_after_bus_ok`); the bus's binary branch is empty while it
is in line mode (`own_bus_line_mode_binary_empty`).

What is proved under `Hyp` (the handshakes that can succeed: the GUID is hex text, every line fits the 16384-byte limit
of its receiver - user name, text of the client's ERROR line, the bus's answer to AUTH DBUS_COOKIE_SHA1 -, ERROR texts hold
no CR, SHA-1 digests have 20 bytes): completion, progress, termination under fair delivery, and the full safety
clause (`..._partial`: the name says that `Hyp` is assumed).

EXCLUDED BY THE TYPES of `Cfg` / of the two models, not by `Hyp` (see notes/C07.md): a login name that
`getpass.getuser().encode('ascii')` cannot encode (`Cfg.user : Bytes`); failures of the bus's `mkdir` / `rename` / lock
file (C06: not modelled - a bus that cannot create `<home>/.dbus-keyrings` answers REJECTED where the model sends a
challenge); the clock is constant during a handshake (`now`; by `_step_two` the verdict uses the cookie in memory, only
the file contents left behind can depend on delays); keyrings are keyed by the home path bytes (`HOME=/root/` and
`pw_dir=/root` are different keyrings in the model); one connection (two clients sharing one cookie file are not composed).

The proofs are direct (a phase invariant with a measure, `Proofs/Auth/Handshake2{Bytes,Lines,Phase,Inv,Keyring,Wire}.lean`),
not a corollary of `completes_against_spec_server_bytes` + C06's `refines_spec_server`: the reference server of this
file is one deterministic server per configuration, the bus's cookie exchange is not an instance of it. -/

namespace Txdbus.Handshake2

open Txdbus.AuthClient (sends lBEGIN)

/-- What a completed handshake looks like: the client is authenticated, wrote BEGIN exactly once, did not close and
ended with mechanism number `expectedMech cfg` of its list; the bus is authenticated (binary mode), neither closed nor
crashed, exactly one mechanism step accepted in the whole conversation and it is that mechanism, `getUserName()` gave
the bus a user name, the bus's binary branch received exactly the client's Hello call and the client's nothing. -/
def Completed (cfg : Cfg) (st : State) : Prop :=
  st.c.authenticated = true ∧ (sends st.c.trace).count lBEGIN = 1 ∧ st.c.disconnecting = false ∧
  st.c.auth.authMech = some (mechAt (expectedMech cfg)) ∧
  st.s.authenticated = true ∧ st.s.closed = false ∧ st.s.crashed = false ∧
  accepts st.s.log = [mechAt (expectedMech cfg)] ∧ st.s.guid.isSome = true ∧
  st.s.binary = cfg.hello ∧ st.c.binary = []

/-- COMPLETION, for every schedule: if after `ms` nothing is in flight (both queues empty), the handshake is `Completed`.
"Nothing in flight" looks at the queues only, not at the receivers' line buffers; that is sound because a partly read
line always has its rest still queued (`Inv.midS/midC` carry `rest ≠ []`; `inv_quiescent`).
The mechanism clause is SCHEDULE INDEPENDENCE: `expectedMech cfg` is computed by running the two models on whole lines
(`credsOk`, `keyringUsable`), and the theorem says that every schedule of cuts ends with that mechanism; what the
environment has to look like is said by `own_bus_cookie_when_shared_keyring` (sufficient) and `own_bus_cookie_requires`
(necessary, bus side). -/
theorem own_bus_handshake_completes (cfg : Cfg) (hyp : Hyp cfg) (ms : List Move)
    (hq : (run cfg (init cfg) ms).quiescent = true) : Completed cfg (run cfg (init cfg) ms) := by
  obtain ⟨n, hi⟩ := inv_run hyp (inv_init cfg) ms
  obtain ⟨hd, hc⟩ := inv_quiescent hi hq
  refine ⟨hd.cAuth, hd.cBegin, hd.cOpen, hd.cMech, hd.sAuth, hd.sOpen, hd.sAlive, hd.acc, hd.guid, ?_, hd.cBin⟩
  have := hd.bin
  rw [hc, List.append_nil] at this
  exact this

/-- PROGRESS: whatever the adversary did so far (`ms`), a continuation `ms'` leaves nothing in flight. -/
theorem own_bus_handshake_progress (cfg : Cfg) (hyp : Hyp cfg) (ms : List Move) :
    ∃ ms', (run cfg (init cfg) (ms ++ ms')).quiescent = true := by
  obtain ⟨n, hi⟩ := inv_run hyp (inv_init cfg) ms
  obtain ⟨ms', h⟩ := inv_progress hyp hi
  exact ⟨ms', by simpa [run] using h⟩

/-- TERMINATION: a schedule in which every move delivers at least one byte (`AllEffective`: each move is made on a
non-empty queue) has at most `15 * 16387 + |Hello|` moves.  (The measure carried by `Inv`: rank of the phase, then
the bytes of the line in flight still queued; a move on an empty queue changes nothing.) -/
theorem own_bus_handshake_terminates (cfg : Cfg) (hyp : Hyp cfg) (ms : List Move)
    (h : AllEffective cfg (init cfg) ms) : ms.length ≤ 15 * 16387 + cfg.hello.length := by
  have := inv_moves_bounded hyp ms (inv_init cfg) h
  have hW : W = 16387 := rfl
  rw [hW] at this
  omega

/-- ALWAYS COMPLETES UNDER FAIR DELIVERY: an infinite schedule `sched` that, as long as something is in flight,
makes a move that delivers at least one byte, reaches within `15 * 16387 + |Hello|` moves a state with nothing in
flight, and that state is the completed handshake. -/
theorem own_bus_handshake_always_completes (cfg : Cfg) (hyp : Hyp cfg) (sched : Nat → Move)
    (hfair : ∀ k, (run cfg (init cfg) (prefixOf sched k)).quiescent = false →
      effective (run cfg (init cfg) (prefixOf sched k)) (sched k) = true) :
    ∃ k, k ≤ 15 * 16387 + cfg.hello.length ∧ (run cfg (init cfg) (prefixOf sched k)).quiescent = true ∧
      Completed cfg (run cfg (init cfg) (prefixOf sched k)) := by
  obtain ⟨k, hk, hq⟩ := inv_fair_completes hyp _ _ (inv_init cfg) sched hfair
  have hW : W = 16387 := rfl
  rw [hW] at hk
  exact ⟨k, by omega, hq, own_bus_handshake_completes cfg hyp _ hq⟩

/-- SAFETY UNDER `Hyp` (hence `_partial`; what is missing: clauses 2b and 3 without `Hyp` - clauses 1 and 2a are proved
without it below): in every reachable state (`Safe`) (1) the client has written BEGIN / run `connectionAuthenticated()` /
entered binary mode only if the bus has already written `OK <guid>` for a mechanism whose step accepted; (2) while
the bus is in line mode (a) its binary branch has received nothing and (b) if the client is already in binary mode the
bus's line buffer is a proper prefix of `BEGIN\r\n` and the whole Hello call is still queued; (3) once the bus is in
binary mode, what its binary branch received ++ what is still queued = the Hello call. -/
theorem own_bus_no_early_binary_partial (cfg : Cfg) (hyp : Hyp cfg) (ms : List Move) :
    Safe cfg (run cfg (init cfg) ms) := by
  obtain ⟨n, hi⟩ := inv_run hyp (inv_init cfg) ms
  exact inv_safe hi

/-- The same for `Reach` (the inductive form of "reachable"). -/
theorem own_bus_reachable_safe_partial (cfg : Cfg) (hyp : Hyp cfg) (st : State) (h : Reach cfg st) : Safe cfg st := by
  obtain ⟨n, hi⟩ := reach_inv hyp h
  exact inv_safe hi

/-- Clause 2a WITHOUT ANY HYPOTHESIS: in every reachable state of every configuration, a bus in line mode has handed
nothing to its binary branch. -/
theorem own_bus_line_mode_binary_empty (cfg : Cfg) (ms : List Move) :
    (run cfg (init cfg) ms).s.authenticated = false → (run cfg (init cfg) ms).s.binary = [] :=
  bus_line_mode_binary_empty cfg ms

/-- PROJECTION ONTO C06, without hypotheses: the bus's part of the composed state after any schedule is C06's
`runReads real (Proto.init guid w0) reads` for the non-empty pieces the adversary delivered. -/
theorem own_bus_bus_is_c06_run (cfg : Cfg) (ms : List Move) :
    ∃ reads, (∀ r ∈ reads, r ≠ []) ∧
      (run cfg (init cfg) ms).s = AuthServer.runReads AuthServer.real (AuthServer.Proto.init cfg.guid cfg.w0) reads :=
  bus_is_runReads cfg ms

/-- ... hence C06's safety theorem holds of the composition, without `Hyp`: a bus that is authenticated after a
schedule went through an accepting step of an offered mechanism followed (without a rejection in between) by BEGIN
as the last line it handled, and it did not close. -/
theorem own_bus_bus_authenticated_only_after_accept (cfg : Cfg) (ms : List Move)
    (h : (run cfg (init cfg) ms).s.authenticated = true) :
    AuthServer.AuthWitness AuthServer.real.offered (run cfg (init cfg) ms).s.log ∧
    (run cfg (init cfg) ms).s.closed = false :=
  bus_authenticated_only_after_accept cfg ms h

/-- C07's SAFETY THEOREM COMPOSED WITH THE BUS, without `Hyp`: for every configuration whose bus GUID holds no CR -
nothing is assumed about line lengths, user names, keyrings, hashes - and every schedule: (1) every BEGIN of the
client is justified in the sense of `begin_only_after_ok` (a received `OK <hex guid>`; on a UNIX transport then
NEGOTIATE_UNIX_FD and its answer), the client is authenticated iff it wrote BEGIN iff `connectionAuthenticated()`
ran - because every read of the composition is a `dataReceived` of the client model (C07's invariant `InvB`);
(2) every line the client's authenticator was ever handed is a line the bus wrote (`Wire`: the lines handed over are
a prefix of the bus's `sent`); hence (3) a BEGIN is preceded by an OK line that THE BUS wrote. -/
theorem own_bus_begin_only_after_bus_ok (cfg : Cfg) (hg : AuthServer.NoCR cfg.guid) (ms : List Move) :
    let st := run cfg (init cfg) ms
    AuthClient.BeginsJustified cfg.unix st.c.trace ∧
    (st.c.authenticated = true ↔ AuthClient.Ev.send lBEGIN ∈ st.c.trace) ∧
    (st.c.authenticated = true ↔ AuthClient.Ev.authenticated ∈ st.c.trace) ∧
    (∀ l, AuthClient.Ev.recv l ∈ st.c.trace → l ∈ st.s.sent) ∧
    (AuthClient.Ev.send lBEGIN ∈ st.c.trace → ∃ okl ∈ st.s.sent, AuthClient.OkLine okl) := by
  intro st
  have hb : AuthClient.InvB cfg.unix st.c.core := invB_run ms (invB_init cfg)
  have hw : Wire cfg st := wire_run hg ms (wire_init cfg)
  exact ⟨hb.begins, hb.authIff, hb.authEv, fun l hl => recv_was_sent hw l hl, fun h => begin_needs_bus_ok hw hb h⟩

/-- `expectedMech` unfolded (this restates its definition, it has no content of its own): EXTERNAL when `credsOk`, else
DBUS_COOKIE_SHA1 when `keyringUsable`, else ANONYMOUS.  `credsOk` is environmental (the peer credentials carry a uid with
a passwd entry); `keyringUsable` is the outcome of the models' own three-line exchange - see the next two theorems. -/
theorem own_bus_expected_mechanism_unfolded (cfg : Cfg) :
    (credsOk cfg = true → mechAt (expectedMech cfg) = b!"EXTERNAL") ∧
    (credsOk cfg = false → keyringUsable cfg = true → mechAt (expectedMech cfg) = b!"DBUS_COOKIE_SHA1") ∧
    (credsOk cfg = false → keyringUsable cfg = false → mechAt (expectedMech cfg) = b!"ANONYMOUS") := by
  refine ⟨fun h => ?_, fun h0 h1 => ?_, fun h0 h1 => ?_⟩
  · rw [expectedMech_0 h]; rfl
  · rw [expectedMech_1 h0 h1]; rfl
  · rw [expectedMech_2 h0 h1]; rfl

/-- "The keyring is usable", SUFFICIENT condition in terms of passwd, directories and files (`SharedKeyring`): the
client's non-empty ASCII user name resolves (by name or as a decimal uid) to a passwd entry whose keyring directory
the bus accepts (absent - it creates it - or without group/other bits); the client's home is that entry's home and the
directory passes the client's own `os.stat` tests (mode & 0o066 = 0, owned by its euid; for a directory the bus
creates: the bus is not root, or the entry's uid is the client's euid); the context name is one clean ASCII token; the
unexpired cookies already in the file are blank-free tokens; SHA-1 digests have 20 bytes and `os.urandom(24)` is not
empty.  Then the mechanism of the completed handshake is DBUS_COOKIE_SHA1 unless EXTERNAL is available.
Assumes what the two models assume: the bus's `mkdir` / lock file / `rename` succeed (C06: not modelled). -/
theorem own_bus_cookie_when_shared_keyring (cfg : Cfg) (e : AuthServer.PwEnt) (h : SharedKeyring cfg e) :
    keyringUsable cfg = true ∧ (credsOk cfg = false → mechAt (expectedMech cfg) = b!"DBUS_COOKIE_SHA1") := by
  have hk := keyringUsable_of_shared_keyring cfg e h
  exact ⟨hk, fun h0 => (own_bus_expected_mechanism_unfolded cfg).2.1 h0 hk⟩

/-- NECESSARY for "the keyring is usable" (bus side): without a non-empty ASCII user name that resolves to a passwd
entry whose keyring directory is absent or good, DBUS_COOKIE_SHA1 is not the mechanism (the handshake ends with
EXTERNAL or ANONYMOUS). -/
theorem own_bus_cookie_requires (cfg : Cfg) (h : keyringUsable cfg = true) :
    cfg.user ≠ [] ∧ AuthServer.isAscii cfg.user = true ∧
    ∃ e, busUserEntry cfg = some e ∧ AuthServer.lookupDir cfg.w0 e.home ≠ .bad :=
  keyringUsable_requires cfg h

/-- `Hyp.sha` holds for the executable SHA-1 the driver uses (so the theorems apply to the configurations the
correspondence stream `own-bus-handshake` compares). -/
theorem driver_sha1_length (x : Bytes) : (AuthClient.Sha1.sha1 x).length = 20 := by
  simp [AuthClient.Sha1.sha1, AuthClient.Sha1.toBytes32]

/-! ### the hypotheses are satisfiable; the three mechanisms occur -/

namespace Example

open Txdbus.AuthServer (RealWorld EnvCfg PwEnt)

/-- a hash of 20 bytes -/
def sha (x : Bytes) : Bytes := (x ++ List.replicate 20 7).take 20

def world (creds : Option Int) (dirs : List (Bytes × AuthServer.DirState)) : RealWorld :=
  ⟨⟨creds, [⟨b!"root", 0, 0, b!"/root"⟩], 100, false, fun k n => List.replicate n (UInt8.ofNat (k + 65)), sha, b!"ctx"⟩,
   dirs, [], 0⟩

def cfg (unix : Bool) (creds : Option Int) (dirs : List (Bytes × AuthServer.DirState)) : Cfg :=
  { unix := unix, guid := b!"0102", hello := [108, 1, 0, 1], user := b!"root", clientHome := b!"/root",
    initStat := (0o40700, true), busEuid := 0, euid := 0, errText := fun _ => b!"e", w0 := world creds dirs }

theorem sha_length (x : Bytes) : (sha x).length = 20 := by
  unfold sha; simp

theorem hyp (unix : Bool) (creds : Option Int) (dirs : List (Bytes × AuthServer.DirState))
    (hfit : ∀ l ∈ (o1 (cfg unix creds dirs)).sent, l.length ≤ 16384) : Hyp (cfg unix creds dirs) where
  guid := ⟨[1, 2], by decide, by show b!"0102" = AuthServer.hexlify [1, 2]; decide, by decide⟩
  user := by show 2 * (b!"root").length + 22 ≤ 16384; decide
  errText := fun _ => ⟨by show AuthServer.NoCR (b!"e"); unfold AuthServer.NoCR; decide,
                       by show (b!"e").length + 6 ≤ 16384; decide⟩
  sha := sha_length
  challenge := hfit

/-- the hypothesis of `own_bus_begin_only_after_bus_ok` holds for this GUID -/
example (unix : Bool) (creds : Option Int) (dirs : List (Bytes × AuthServer.DirState)) :
    AuthServer.NoCR (cfg unix creds dirs).guid := by
  show AuthServer.NoCR (b!"0102"); unfold AuthServer.NoCR; decide

/-- credentials of uid 0 (which has a passwd entry): EXTERNAL -/
example : expectedMech (cfg true (some 0) []) = 0 := by decide +kernel

/-- no credentials, the keyring directory of root does not exist yet (the bus creates it): DBUS_COOKIE_SHA1;
the hypotheses hold -/
example : expectedMech (cfg true none []) = 1 ∧ Hyp (cfg true none []) :=
  ⟨by decide +kernel, hyp _ _ _ (by decide +kernel)⟩

/-- `SharedKeyring` is satisfiable: root's keyring directory does not exist yet, the bus (root) creates it for
uid 0 = the client's euid -/
example : SharedKeyring (cfg true none []) ⟨b!"root", 0, 0, b!"/root"⟩ where
  user0 := by decide
  userAscii := by decide
  entry := by rfl
  dir := by decide +kernel
  home := rfl
  stat := by decide +kernel
  ctx := ⟨⟨by decide, by decide⟩, by decide, by decide⟩
  sha := sha_length
  rnd := fun k => by show List.replicate 24 (UInt8.ofNat (k + 65)) ≠ []; simp
  old := fun c hc => by
    have : AuthServer.getCookies (cfg true none []).w0 (b!"/root") = [] := by decide +kernel
    rw [this] at hc; cases hc

/-- a world in which root's keyring directory exists (good) and the bus's cookie file already holds an unexpired
entry with id 3 (the new cookie gets id 4) -/
def cfgOld : Cfg :=
  { cfg false none [(b!"/root", .good)] with
    w0 := { world none [(b!"/root", .good)] with files := [(b!"/root", [⟨3, 95, b!"aabb"⟩])] } }

/-- `SharedKeyring` with a PRE-EXISTING keyring (the `else` branch of `stat`, a non-empty `old`) -/
example : SharedKeyring cfgOld ⟨b!"root", 0, 0, b!"/root"⟩ where
  user0 := by decide
  userAscii := by decide
  entry := by rfl
  dir := by decide +kernel
  home := rfl
  stat := by decide +kernel
  ctx := ⟨⟨by decide, by decide⟩, by decide, by decide⟩
  sha := sha_length
  rnd := fun k => by show List.replicate 24 (UInt8.ofNat (k + 65)) ≠ []; simp
  old := fun c hc => by
    have : AuthServer.getCookies cfgOld.w0 (b!"/root") = [⟨3, 95, b!"aabb"⟩] := by rfl
    rw [this] at hc
    simp only [List.mem_singleton] at hc
    rw [hc]
    exact ⟨by decide, by decide⟩

/-- ... and there the handshake ends with DBUS_COOKIE_SHA1 -/
example : expectedMech cfgOld = 1 := by decide +kernel

/-- a bus that is NOT root (euid 1000) creates the keyring directory of root: it belongs to uid 1000, the client (euid 0)
refuses it, the handshake falls back to ANONYMOUS -/
example : expectedMech { cfg false none [] with busEuid := 1000 } = 2 := by decide +kernel

/-- no credentials, the keyring directory is not usable: ANONYMOUS; the hypotheses hold -/
example : expectedMech (cfg false none [(b!"/root", .bad)]) = 2 ∧ Hyp (cfg false none [(b!"/root", .bad)]) :=
  ⟨by decide +kernel, hyp _ _ _ (by decide +kernel)⟩

/-- a schedule that cuts every message after its first byte and then delivers the rest ends with nothing in
flight, on the cookie path of a UNIX transport (an instance of `own_bus_handshake_progress`) -/
example :
    (run (cfg true none []) (init (cfg true none []))
      ((List.replicate 12 [Move.toServer 0, Move.toServer 100000, Move.toClient 0, Move.toClient 100000]).flatten)
      ).quiescent = true := by decide +kernel

end Example

end Txdbus.Handshake2

#print axioms Txdbus.AuthClient.preference_table
#print axioms Txdbus.AuthClient.preference_nodup
#print axioms Txdbus.AuthClient.authDelimiter_table
#print axioms Txdbus.AuthClient.maxAuthLength_table
#print axioms Txdbus.AuthClient.handlerWords_table
#print axioms Txdbus.AuthClient.begin_only_after_ok
#print axioms Txdbus.AuthClient.begin_only_after_ok_of_current_mechanism
#print axioms Txdbus.AuthClient.authenticated_iff_begin
#print axioms Txdbus.AuthClient.OfferedInOrder.length_eq
#print axioms Txdbus.AuthClient.mechanisms_once_in_order
#print axioms Txdbus.AuthClient.each_mechanism_at_most_once
#print axioms Txdbus.AuthClient.moves_on_after_rejected_or_error
#print axioms Txdbus.AuthClient.no_stall
#print axioms Txdbus.AuthClient.no_stall_run
#print axioms Txdbus.AuthClient.no_complete_line_buffered
#print axioms Txdbus.AuthClient.framing_independent_of_reads
#print axioms Txdbus.AuthClient.line_delivered_in_pieces
#print axioms Txdbus.AuthClient.exhaustion_closes
#print axioms Txdbus.AuthClient.exhausted_iff_all_offered
#print axioms Txdbus.AuthClient.unknown_line_closes
#print axioms Txdbus.AuthClient.silent_after_close
#print axioms Txdbus.AuthClient.completes_against_spec_server
#print axioms Txdbus.AuthClient.completes_against_spec_server_bytes
#print axioms Txdbus.AuthClient.prefix_model_agree_before_ok_begins
#print axioms Txdbus.AuthClient.prefix_model_error_after_negotiate_tries_next
#print axioms Txdbus.AuthClient.prefix_model_cookie_always_error
#print axioms Txdbus.AuthClient.prefix_model_data_during_anonymous_stalls
#print axioms Txdbus.Handshake2.own_bus_handshake_completes
#print axioms Txdbus.Handshake2.own_bus_handshake_progress
#print axioms Txdbus.Handshake2.own_bus_handshake_terminates
#print axioms Txdbus.Handshake2.own_bus_handshake_always_completes
#print axioms Txdbus.Handshake2.own_bus_no_early_binary_partial
#print axioms Txdbus.Handshake2.own_bus_reachable_safe_partial
#print axioms Txdbus.Handshake2.own_bus_line_mode_binary_empty
#print axioms Txdbus.Handshake2.own_bus_bus_is_c06_run
#print axioms Txdbus.Handshake2.own_bus_bus_authenticated_only_after_accept
#print axioms Txdbus.Handshake2.own_bus_begin_only_after_bus_ok
#print axioms Txdbus.Handshake2.own_bus_expected_mechanism_unfolded
#print axioms Txdbus.Handshake2.driver_sha1_length
#print axioms Txdbus.Handshake2.own_bus_cookie_when_shared_keyring
#print axioms Txdbus.Handshake2.own_bus_cookie_requires
#print axioms Txdbus.Handshake2.Example.sha_length
#print axioms Txdbus.Handshake2.Example.hyp
