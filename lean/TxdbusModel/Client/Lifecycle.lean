import TxdbusModel.Client.Endpoints
/-
C09 - code model of the life cycle of a client connection.

Mirrors, as written (after the repairs fixes/C09-01 .. C09-05; the pre-repair behaviour is kept
behind `Variant` flags for the witness theorems):

  * `client.connect`: `eplist.reverse()`, `try_next_ep` pops from the end, ConnectError when the list is
    (or becomes) empty;
  * `DBusClientFactory.d`: a cell that records EVERY firing (`St.fired`);
  * `connectionMade` .. `connectionAuthenticated` (tables created, Hello issued) .. `_cbGotHello`
    (busName set, `_ok`) / Hello error (`_failed`);
  * `DBusClientConnection.connectionLost`: the `busName is None` early return, then the connection-level
    disconnect callbacks, then the pending calls (timer cancelled, errback), then
    `DBusObjectHandler.connectionLost` over the proxy registry (weak references: a liveness flag per proxy);
  * `RemoteDBusObject.notifyOnDisconnect / cancelNotifyOnDisconnect / connectionLost`,
    `DBusObjectHandler.getRemoteObject` (explicit interfaces: proxy made at once; otherwise an Introspect
    call whose reply makes the proxy);
  * just enough of the reply paths (method return / error / timeout; owned by C08) for tables with some
    calls already completed;
  * the CALLER cancelling the Deferred of an outstanding call (`Deferred.cancel()`, Twisted): the Deferred has
    no canceller, so it fires at once with CancelledError and sets `_suppressAlreadyCalled`; txdbus is not
    told: the `_pendingCalls` entry and its DelayedCall stay.  Whatever conclusion the library attempts
    next on that Deferred (reply, error reply, timeout, or the errback of `connectionLost`) is swallowed by
    `Deferred._startRunCallbacks`; the timer handling around it is unchanged (`Call.cancelled`).

User code runs INSIDE `connectionLost`: every pending call and every registered callback carries a
`Reaction`, performed at the moment the code runs it, against the tables as they are at that moment.

Environment assumptions built into `step` (DESIGN.md C09 "Assumes"):
  * Twisted delivers transport events (data, connectionLost) only while the transport is open and
    calls `connectionLost` once: `close`, replies and handshake events are disabled unless
    `transportOpen`;
  * `transport.loseConnection()` after an authentication failure is followed by `connectionLost`:
    the event `authFailed` is both;
  * timers are the reactor's: `expire` is enabled exactly while the DelayedCall is live (`St.timers`).

Core Lean only.
-/
namespace Txdbus.Client.Lifecycle
open Txdbus.Client.Endpoints

/-- Which behaviour is modelled.  `repaired` is the code after fixes/C09-01..05; `original` the pinned tree. -/
structure Variant where
  /-- C09-01: `connectionLost` with `busName is None` fails the connect Deferred (unless it fired already). -/
  earlyLossFails : Bool
  /-- C09-02: the pending table is swapped for an empty one and the old one is walked. -/
  snapshotPending : Bool
  /-- C09-03: disconnect callbacks (connection and proxy) are walked over a copy of the list. -/
  snapshotCallbacks : Bool
  /-- C09-04: the registry slot of a proxy is its own (`id(prox)`), not `(busName, objectPath, interfaces)`. -/
  perProxySlot : Bool
  /-- C09-05: proxies created from explicit interfaces are registered too. -/
  registerExplicit : Bool
  /-- C09-06: every user disconnect callback runs inside try/except (logged); a raising callback no longer
  aborts `connectionLost`. -/
  guardCallbacks : Bool
  /-- C09-07: a Hello reply without a bus name is a failed registration (the connect Deferred fails) instead of
  a "connection" whose later loss is ignored. -/
  helloNeedsName : Bool
deriving DecidableEq, Repr

def Variant.repaired : Variant := ⟨true, true, true, true, true, true, true⟩
def Variant.original : Variant := ⟨false, false, false, false, false, false, false⟩
/-- /repo after C09-01..05 only (the tree the reviewer probed). -/
def Variant.fiveFixes : Variant := ⟨true, true, true, true, true, false, false⟩

/-- What a user callback / errback does when it runs during `connectionLost`. -/
inductive Reaction
  | nothing
  | newCall            -- conn.callRemote(...) (no timeout): a retry
  | unregisterSelf     -- cancelNotifyOnDisconnect(itself)   (no-op for a call's errback)
  | registerAnother    -- notifyOnDisconnect(<a new callback that does nothing>)
  | raises             -- the callback raises an exception (for a call's errback the Deferred swallows it)
  | newProxy           -- getRemoteObject(..., <explicit interfaces>) on the same connection (the proxy is made and
                       -- registered synchronously) and notifyOnDisconnect(<a callback that does nothing>) on it
deriving DecidableEq, Repr

structure Cb where
  id : Nat
  react : Reaction
deriving DecidableEq, Repr

inductive CallKind
  | hello
  | user (r : Reaction)
  | introspect (key : Nat)     -- getRemoteObject(...) waiting for the Introspect reply
deriving DecidableEq, Repr

/-- One entry of `_pendingCalls`: serial -> (Deferred, DelayedCall | None). -/
structure Call where
  serial : Nat
  timed : Bool
  kind : CallKind
  /-- The caller has called `.cancel()` on the Deferred: it has fired with CancelledError and the next
  `callback` / `errback` the library makes on it is swallowed (`_suppressAlreadyCalled`). -/
  cancelled : Bool := false
deriving DecidableEq, Repr

/-- A `RemoteDBusObject`.  `alive`: the user still holds it (the registry only holds a weak reference). -/
structure Proxy where
  id : Nat
  key : Nat            -- stands for weak_id = (busName, objectPath, interfaces)
  explicit : Bool
  alive : Bool
  cbs : List Cb        -- _disconnectCBs
deriving DecidableEq, Repr

inductive Phase
  | connecting       -- an endpoint connection attempt is outstanding
  | authenticating   -- transport connected, handshake in progress
  | helloSent        -- connectionAuthenticated ran; the Hello call is pending
  | ready            -- _cbGotHello ran: busName set, the Deferred fired with the connection
  | helloFailed      -- Hello was answered with an error: Deferred failed, transport still open
  | exhausted        -- no address (left): ConnectError
  | closedEarly      -- transport closed while busName was None
  | lost             -- transport closed in phase ready
deriving DecidableEq, Repr

/-- How the connect Deferred fired. -/
inductive ConnectResult
  | connection          -- callback(proto)
  | noAddress           -- ConnectError: no valid bus addresses found
  | unreachable         -- ConnectError: failed to connect to any bus address
  | helloError          -- the error reply to Hello
  | helloNoName         -- a Hello reply that carries no bus name (C09-07)
  | lostEarly           -- the reason the transport closed with before the connection was ready
deriving DecidableEq, Repr

inductive ErrKind
  | lost                  -- the `reason` given to connectionLost, itself
  | introspectionFailed   -- IntrospectionFailed wrapping the failure (getRemoteObject's Deferred)
  | remote                -- RemoteError from an error reply
  | timeout               -- error.TimeOut
  | cancelled             -- defer.CancelledError: the caller cancelled the Deferred (not the library's doing)
deriving DecidableEq, Repr

/-- Observable effects, in the order the code produces them. -/
inductive Fx
  | attempt (ep : Endpoint)
  | connectFired (r : ConnectResult)
  | callOk (serial : Nat)
  | callErr (serial : Nat) (k : ErrKind)
  | timerCancelled (serial : Nat)
  | connCb (c : Nat)
  | proxyCb (p c : Nat)
  | crashed                         -- an exception escaped from the code (pre-repair variants)
deriving DecidableEq, Repr

structure St where
  phase : Phase
  remaining : List Endpoint          -- `eplist` (reversed; popped from the end)
  current : Option Endpoint
  fired : List ConnectResult         -- every firing of the factory Deferred
  busName : Bool                     -- `self.busName is not None`
  dcCallbacks : List Cb              -- `_dcCallbacks`
  pending : List Call                -- `_pendingCalls` in insertion order
  timers : List Nat                  -- serials whose DelayedCall is live in the reactor
  proxies : List Proxy               -- every RemoteDBusObject ever made
  registry : List (Nat × Nat)        -- `_weakProxies`: slot key -> proxy id, insertion order
  nextSerial : Nat
  nextCb : Nat
  nextProxy : Nat
  log : List Fx
  /-- An exception is propagating out of `connectionLost` (only ever set when callbacks are not guarded). -/
  aborted : Bool
deriving DecidableEq, Repr

def St.emit (s : St) (f : Fx) : St := { s with log := s.log ++ [f] }

def St.transportOpen (s : St) : Bool :=
  match s.phase with
  | .authenticating | .helloSent | .ready | .helloFailed => true
  | _ => false

/-- `self.d.callback(..)` / `self.d.errback(..)`: every firing is recorded. -/
def fire (r : ConnectResult) (s : St) : St :=
  { s with fired := s.fired ++ [r], log := s.log ++ [.connectFired r] }

/-! ## connect() -/

/-- `try_next_ep`: `eplist.pop().connect(f)` or the final ConnectError. -/
def tryNext (s : St) : St :=
  match s.remaining.getLast? with
  | some ep => { s with remaining := s.remaining.dropLast, current := some ep, log := s.log ++ [.attempt ep] }
  | none => fire .unreachable { s with phase := .exhausted, current := none }

def St.empty : St :=
  { phase := .connecting, remaining := [], current := none, fired := [], busName := false,
    dcCallbacks := [], pending := [], timers := [], proxies := [], registry := [],
    nextSerial := 0, nextCb := 0, nextProxy := 0, log := [], aborted := false }

/-- `client.connect(reactor, addr)` given the parsed endpoint list. -/
def connect (eps : List Endpoint) : St :=
  let s := { St.empty with remaining := eps.reverse }
  if s.remaining.isEmpty then fire .noAddress { s with phase := .exhausted }
  else tryNext s

/-! ## Reactions -/

/-- Who is running. -/
inductive Who
  | connCb (c : Cb)
  | errback (c : Call)
  | proxyCb (p : Nat) (c : Cb)
deriving DecidableEq, Repr

/-- `list.remove(x)`: the first element with that identity. -/
def removeCb (id : Nat) : List Cb → List Cb
  | [] => []
  | c :: t => if c.id = id then t else c :: removeCb id t

def modifyProxy (p : Nat) (f : Proxy → Proxy) : List Proxy → List Proxy
  | [] => []
  | q :: t => if q.id = p then f q :: t else q :: modifyProxy p f t

def findProxy (p : Nat) : List Proxy → Option Proxy
  | [] => none
  | q :: t => if q.id = p then some q else findProxy p t

/-- callRemote without a timeout, issued from inside a callback. -/
def issueCall (timed : Bool) (k : CallKind) (s : St) : St :=
  { s with pending := s.pending ++ [{ serial := s.nextSerial, timed := timed, kind := k }],
           timers := if timed then s.timers ++ [s.nextSerial] else s.timers,
           nextSerial := s.nextSerial + 1 }

/-- `self._weakProxies[key] = prox` (WeakValueDictionary: dead entries are gone already). -/
def regSet (k p : Nat) : List (Nat × Nat) → List (Nat × Nat)
  | [] => [(k, p)]
  | (k', p') :: t => if k' = k then (k', p) :: t else (k', p') :: regSet k p t

/-- A new RemoteDBusObject (with disconnect callbacks `cbs`); registered or not according to the variant. -/
def makeProxyCbs (v : Variant) (key : Nat) (explicit : Bool) (cbs : List Cb) (s : St) : St :=
  let p : Proxy := { id := s.nextProxy, key := key, explicit := explicit, alive := true, cbs := cbs }
  let slot := if v.perProxySlot then p.id else key
  let reg := if explicit && !v.registerExplicit then s.registry else regSet slot p.id s.registry
  { s with proxies := s.proxies ++ [p], registry := reg, nextProxy := s.nextProxy + 1 }

/-- `getRemoteObject` at the moment the RemoteDBusObject is made. -/
def makeProxy (v : Variant) (key : Nat) (explicit : Bool) (s : St) : St := makeProxyCbs v key explicit [] s

def react (v : Variant) (who : Who) (r : Reaction) (s : St) : St :=
  match r with
  | .nothing => s
  | .newCall => issueCall false (.user .nothing) s
  | .unregisterSelf =>
    match who with
    | .connCb c => { s with dcCallbacks := removeCb c.id s.dcCallbacks }
    | .proxyCb p c => { s with proxies := modifyProxy p (fun q => { q with cbs := removeCb c.id q.cbs }) s.proxies }
    | .errback _ => s
  | .registerAnother =>
    match who with
    | .proxyCb p _ =>
      { s with proxies := modifyProxy p (fun q => { q with cbs := q.cbs ++ [⟨s.nextCb, .nothing⟩] }) s.proxies,
               nextCb := s.nextCb + 1 }
    | _ => { s with dcCallbacks := s.dcCallbacks ++ [⟨s.nextCb, .nothing⟩], nextCb := s.nextCb + 1 }
  | .raises =>
    match who with
    | .errback _ => s            -- Deferred.errback catches what its callbacks raise
    | _ => if v.guardCallbacks then s else { s with aborted := true }
  | .newProxy =>
    -- a new proxy from explicit interfaces, with one callback; whoever is running
    { makeProxyCbs v 0 true [⟨s.nextCb, .nothing⟩] s with nextCb := s.nextCb + 1 }

/-! ## connectionLost -/

/-- `cb(self, reason)` for one connection-level callback. -/
def runConnCb (v : Variant) (c : Cb) (s : St) : St := react v (.connCb c) c.react (s.emit (.connCb c.id))

/-- `for cb in list(self._dcCallbacks): cb(self, reason)` over the copy `cbs`. -/
def runConnCbs (v : Variant) : List Cb → St → St
  | [], s => s
  | c :: t, s =>
    let s' := runConnCb v c s
    if !v.guardCallbacks && s'.aborted then s' else runConnCbs v t s'

/-- Pre-repair: `for cb in self._dcCallbacks:` walks the live list by index. -/
def runConnCbsLive (v : Variant) : Nat → Nat → St → St
  | 0, _, s => s
  | fuel + 1, i, s =>
    match s.dcCallbacks[i]? with
    | none => s
    | some c =>
      let s' := runConnCb v c s
      if !v.guardCallbacks && s'.aborted then s' else runConnCbsLive v fuel (i + 1) s'

def errKindOf : CallKind → ErrKind
  | .introspect _ => .introspectionFailed
  | _ => .lost

def reactionOf : CallKind → Reaction
  | .user r => r
  | _ => .nothing

/-- `if timeout: timeout.cancel()` then `d.errback(reason)` for one entry.  On a Deferred the caller has
cancelled the errback is swallowed: nothing fires, no user code runs. -/
def failCall (v : Variant) (c : Call) (s : St) : St :=
  let s := if c.timed then { s with timers := s.timers.filter (· ≠ c.serial), log := s.log ++ [.timerCancelled c.serial] } else s
  if c.cancelled then s
  else react v (.errback c) (reactionOf c.kind) (s.emit (.callErr c.serial (errKindOf c.kind)))

/-- The walk over the (old) pending table `calls`. -/
def failCalls (v : Variant) : List Call → St → St
  | [], s => s
  | c :: t, s => failCalls v t (failCall v c s)

/-- Pre-repair: the walk over the live dict; an errback that adds an entry makes the next step of the
dict iterator raise RuntimeError (also after the last entry): `true` = the exception escaped. -/
def failCallsLive (v : Variant) : List Call → St → St × Bool
  | [], s => (s, false)
  | c :: t, s =>
    let s' := failCall v c s
    if s'.pending.length ≠ s.pending.length then (s', true) else failCallsLive v t s'

/-- `RemoteDBusObject.connectionLost`: `if self._disconnectCBs: for cb in list(self._disconnectCBs): cb(self, reason)`. -/
def runProxyCb (v : Variant) (p : Nat) (c : Cb) (s : St) : St := react v (.proxyCb p c) c.react (s.emit (.proxyCb p c.id))

def runProxyCbs (v : Variant) (p : Nat) : List Cb → St → St
  | [], s => s
  | c :: t, s =>
    let s' := runProxyCb v p c s
    if !v.guardCallbacks && s'.aborted then s' else runProxyCbs v p t s'

def runProxyCbsLive (v : Variant) (p : Nat) : Nat → Nat → St → St
  | 0, _, s => s
  | fuel + 1, i, s =>
    match (findProxy p s.proxies).bind (fun q => q.cbs[i]?) with
    | none => s
    | some c =>
      let s' := runProxyCb v p c s
      if !v.guardCallbacks && s'.aborted then s' else runProxyCbsLive v p fuel (i + 1) s'

/-- `for wref in self._weakProxies.valuerefs(): p = wref(); if p is not None: p.connectionLost(reason)`
over the copy `slots` of the registry. -/
def runProxies (v : Variant) : List (Nat × Nat) → St → St
  | [], s => s
  | (_, p) :: t, s =>
    match findProxy p s.proxies with
    | some q =>
      if q.alive then
        let s := if v.snapshotCallbacks then runProxyCbs v p q.cbs s
                 else runProxyCbsLive v p (2 * q.cbs.length + 1) 0 s
        if !v.guardCallbacks && s.aborted then s else runProxies v t s
      else runProxies v t s
    | none => runProxies v t s

/-- `DBusClientConnection.connectionLost(reason)`. -/
def connectionLost (v : Variant) (s : St) : St :=
  if !s.busName then
    -- lost before the Hello reply: the attempt failed (C09-01); `_failed` only fires an unfired Deferred
    let s := if v.earlyLossFails && s.fired.isEmpty then fire .lostEarly s else s
    { s with phase := .closedEarly }
  else
    let s := { s with phase := .lost }
    let s := if v.snapshotCallbacks then runConnCbs v s.dcCallbacks s
             else runConnCbsLive v (2 * s.dcCallbacks.length + 1) 0 s
    if !v.guardCallbacks && s.aborted then s.emit .crashed   -- a callback raised: nothing after it runs
    else if v.snapshotPending then
      -- pending, self._pendingCalls = self._pendingCalls, {}
      let s := failCalls v s.pending { s with pending := [] }
      let s := runProxies v s.registry s
      if !v.guardCallbacks && s.aborted then s.emit .crashed else s
    else
      match failCallsLive v s.pending s with
      | (s', true) => s'.emit .crashed      -- RuntimeError: nothing after the loop runs
      | (s', false) =>
        let s := { s' with pending := [] }  -- self._pendingCalls = {}
        let s := runProxies v s.registry s
        if !v.guardCallbacks && s.aborted then s.emit .crashed else s

/-! ## The remaining operations -/

def findCall (serial : Nat) : List Call → Option Call
  | [] => none
  | c :: t => if c.serial = serial then some c else findCall serial t

def removeCall (serial : Nat) : List Call → List Call
  | [] => []
  | c :: t => if c.serial = serial then t else c :: removeCall serial t

def helloCall (l : List Call) : Option Call :=
  l.find? (fun c => c.kind = .hello)

/-- methodReturnReceived / errorReceived up to the firing: `timeout.cancel()`, `del self._pendingCalls[serial]`. -/
def takeCall (c : Call) (s : St) : St :=
  let s := if c.timed then { s with timers := s.timers.filter (· ≠ c.serial), log := s.log ++ [.timerCancelled c.serial] } else s
  { s with pending := removeCall c.serial s.pending }

/-- `d.cancel()` by the caller: the entry stays in the table, marked. -/
def markCancelled (serial : Nat) : List Call → List Call
  | [] => []
  | c :: t => if c.serial = serial then { c with cancelled := true } :: t else c :: markCancelled serial t

/-- The firing of the call's Deferred; an Introspect reply makes the proxy.  On a Deferred the caller has
cancelled, `d.callback` / `d.errback` is swallowed: no callback runs (no proxy is made). -/
def completeCall (v : Variant) (c : Call) (ok : Bool) (s : St) : St :=
  if c.cancelled then s else
  match c.kind, ok with
  | .introspect key, true => makeProxy v key false (s.emit (.callOk c.serial))
  | .introspect _, false => s.emit (.callErr c.serial .introspectionFailed)
  | _, true => s.emit (.callOk c.serial)
  | _, false => s.emit (.callErr c.serial .remote)

/-- How a connection attempt on one address failed.  `try_next_ep` is the errback of the endpoint's
Deferred for EVERY failure: none of these kinds is looked at, each one moves the walk on. -/
inductive FailKind
  | refused        -- ConnectionRefusedError
  | connectError   -- another ConnectError subclass (NoRouteError, ConnectBindError, ...)
  | dnsLookup      -- DNSLookupError (not a ConnectError)
  | timeout        -- TimeoutError / TCPTimedOutError
  | other          -- anything else the endpoint's Deferred fails with (OSError, Exception, CancelledError)
deriving DecidableEq, Repr

inductive Ev
  -- environment: the reactor and the peer
  | attemptFails (why : FailKind) | attemptConnects
  | authProgress | authOk | authFailed
  | helloReply (named : Bool) | helloError
  | close
  | reply (serial : Nat) (ok : Bool)
  | expire (serial : Nat)
  -- the user, on a ready connection
  | call (timed : Bool) (r : Reaction)
  | notify (r : Reaction)
  | cancelNotify (c : Nat)
  | proxyExplicit (key : Nat)
  | proxyIntrospect (key : Nat)
  | proxyNotify (p : Nat) (r : Reaction)
  | proxyCancelNotify (p c : Nat)
  | dropProxy (p : Nat)
  | cancelCall (serial : Nat)     -- `.cancel()` on the Deferred that callRemote / getRemoteObject returned
deriving DecidableEq, Repr

def Ev.isEnv : Ev → Bool
  | .attemptFails _ | .attemptConnects | .authProgress | .authOk | .authFailed
  | .helloReply _ | .helloError | .close | .reply _ _ | .expire _ => true
  | _ => false

/-- One event.  An event that cannot happen in the current state (see the header) changes nothing. -/
def step (v : Variant) (s : St) : Ev → St
  | .attemptFails _ =>
    -- try_next_ep(err): whatever the failure is
    if s.phase = .connecting then tryNext s else s
  | .attemptConnects =>
    -- buildProtocol, makeConnection, connectionMade: the handshake starts
    if s.phase = .connecting then { s with phase := .authenticating } else s
  | .authProgress => s
  | .authOk =>
    -- connectionAuthenticated: fresh tables, Hello issued
    if s.phase = .authenticating then
      issueCall false .hello { s with phase := .helloSent, dcCallbacks := [], pending := [] }
    else s
  | .authFailed =>
    -- DBusAuthenticationFailed -> transport.loseConnection() -> (reactor) connectionLost
    if s.phase = .authenticating then connectionLost v s else s
  | .helloReply named =>
    if s.phase = .helloSent then
      match helloCall s.pending with
      | some c =>
        -- methodReturnReceived; _cbCvtReply gives None for a reply without a body; _cbGotHello
        if named then
          fire .connection { s with pending := removeCall c.serial s.pending, busName := true, phase := .ready }
        else if v.helloNeedsName then
          -- C09-07: not a registration: the attempt fails (the transport stays open, as after a Hello error)
          fire .helloNoName { s with pending := removeCall c.serial s.pending, phase := .helloFailed }
        else
          -- busName stays None, yet factory._ok(self): the user holds a "connection" whose loss will be ignored
          fire .connection { s with pending := removeCall c.serial s.pending, phase := .ready }
      | none => s
    else s
  | .helloError =>
    if s.phase = .helloSent then
      match helloCall s.pending with
      | some c => fire .helloError { s with pending := removeCall c.serial s.pending, phase := .helloFailed }
      | none => s
    else s
  | .close =>
    if s.transportOpen then connectionLost v s else s
  | .reply serial ok =>
    if s.phase = .ready then
      match findCall serial s.pending with
      | none => s
      | some c => completeCall v c ok (takeCall c s)
    else s
  | .expire serial =>
    -- _onMethodTimeout(serial, d): `del self._pendingCalls[serial]` (KeyError if absent), errback TimeOut
    if s.timers.contains serial then
      let s := { s with timers := s.timers.filter (· ≠ serial) }
      match findCall serial s.pending with
      | none => s.emit .crashed
      | some c =>
        -- on a Deferred the caller has cancelled, the errback is swallowed
        { s with pending := removeCall serial s.pending,
                 log := s.log ++ (if c.cancelled then [] else [.callErr serial .timeout]) }
    else s
  | .call timed r =>
    if s.phase = .ready then issueCall timed (.user r) s else s
  | .notify r =>
    if s.phase = .ready then { s with dcCallbacks := s.dcCallbacks ++ [⟨s.nextCb, r⟩], nextCb := s.nextCb + 1 } else s
  | .cancelNotify c =>
    if s.phase = .ready then { s with dcCallbacks := removeCb c s.dcCallbacks } else s
  | .proxyExplicit key =>
    if s.phase = .ready then makeProxy v key true s else s
  | .proxyIntrospect key =>
    if s.phase = .ready then issueCall false (.introspect key) s else s
  | .proxyNotify p r =>
    if s.phase = .ready then
      match findProxy p s.proxies with
      | some q =>
        if q.alive then
          { s with proxies := modifyProxy p (fun q => { q with cbs := q.cbs ++ [⟨s.nextCb, r⟩] }) s.proxies,
                   nextCb := s.nextCb + 1 }
        else s
      | none => s
    else s
  | .proxyCancelNotify p c =>
    if s.phase = .ready then
      { s with proxies := modifyProxy p (fun q => { q with cbs := removeCb c q.cbs }) s.proxies }
    else s
  | .dropProxy p =>
    -- the user lets go of the proxy: the weak reference dies and its registry entry disappears
    if s.phase = .ready then
      { s with proxies := modifyProxy p (fun q => { q with alive := false }) s.proxies,
               registry := s.registry.filter (fun e => e.2 ≠ p) }
    else s
  | .cancelCall serial =>
    -- Deferred.cancel(): no canceller, so `_suppressAlreadyCalled = True` and errback(CancelledError) - the
    -- user's errback sees a CancelledError (it reacts to the loss only); a Deferred that has fired already
    -- (cancelled before) ignores it.  `_pendingCalls` and the DelayedCall are untouched.
    if s.phase = .ready then
      match findCall serial s.pending with
      | some c =>
        if c.cancelled then s
        else { s with pending := markCancelled serial s.pending, log := s.log ++ [.callErr serial .cancelled] }
      | none => s
    else s

def run (v : Variant) (s : St) : List Ev → St
  | [] => s
  | e :: es => run v (step v s e) es

/-! ## A process that connects several times

`client.connect(reactor, busAddress)` keeps nothing between calls: every call asks `getDBusEndpoints` for the
endpoint list - which builds a NEW list (`epl = []`) from the address string and the environment, a function of
these two and of nothing else (no module-level state in txdbus/endpoints.py) -, reverses and pops THAT list, and
makes its own factory and Deferred.  A process that connects several times with the same address string - a
reconnect after a loss, two connections side by side - is therefore as many independent runs of the same
`connect`, each over the whole list (validated by the stream `lifecycle-reconnect`, which shares one reactor and
one interpreter state among the connects of a scenario). -/

/-- One `client.connect(reactor, addr)` followed by the history `h` of that connection. -/
def connectOne (v : Variant) (env : Env) (addr : Str) (h : List Ev) : Except Err St :=
  (getDBusEndpoints env addr).map fun eps => run v (connect eps) h

/-- The connects of one process with one address string, `hs[k]` being the history of the k-th connection. -/
def connectMany (v : Variant) (env : Env) (addr : Str) (hs : List (List Ev)) : List (Except Err St) :=
  hs.map (connectOne v env addr)

/-! ## Observations used by the property statements -/

/-- The connection attempt is over (one way or the other). -/
def Phase.concluded : Phase → Bool
  | .connecting | .authenticating | .helloSent => false
  | _ => true

/-- Event `e`, arriving in state `s`, ends the connection attempt: a Hello reply or error, a transport
close in any phase, an authentication failure, or the failure of the last address of the list. -/
def concludes (s : St) : Ev → Bool
  | .helloReply _ | .helloError => s.phase = .helloSent
  | .close => s.transportOpen
  | .authFailed => s.phase = .authenticating
  | .attemptFails _ => s.phase = .connecting && s.remaining.isEmpty
  | _ => false

/-- What the connect Deferred fires with when `e` is the event that concludes the attempt: the connection
exactly for a Hello reply carrying a bus name, a failure of the matching kind otherwise. -/
def resultOf : Ev → ConnectResult
  | .helloReply true => .connection
  | .helloReply false => .helloNoName
  | .helloError => .helloError
  | .attemptFails _ => .unreachable
  | _ => .lostEarly          -- transport close, authentication failure

/-- The connection attempts made so far, in order. -/
def attempts (s : St) : List Endpoint :=
  s.log.filterMap fun | .attempt ep => some ep | _ => none

/-- `f` is a firing of the Deferred of the call with this serial. -/
def Fx.completes (serial : Nat) : Fx → Bool
  | .callOk n => n = serial
  | .callErr n _ => n = serial
  | _ => false

end Txdbus.Client.Lifecycle
