import TxdbusModel.Gen.C09Endpoints
/-
C09 - code model of `txdbus/endpoints.py: getDBusEndpoints(reactor, busAddress, client=True)`.

A pure function from the address string (and the three things the code reads from the process:
DBUS_SESSION_BUS_ADDRESS, DBUS_SYSTEM_BUS_ADDRESS, os.getpid()) to the list of client endpoints,
in the order in which `client.connect` will try them.  Mirrors the code as written:

  * `addrString.split(';')`, `ep_addr.split(',')`, `c.split('=')` (exactly two parts or ValueError);
  * the four `startswith` tests in the code's order; `kind` is whatever the LAST prefixed component
    said; the dictionary `d` accumulates over all components of one entry (insert / overwrite in place);
  * `launchd:` strips 7 characters (the code's constant) and never yields an endpoint;
  * `path` is a function-level Python variable: an entry `unix:` without path/tmpdir/abstract re-uses
    the path of an earlier entry, or raises UnboundLocalError when there was none;
  * `tcp` needs `host` and `port` (KeyError) and `int(port)` (ValueError);
  * nonce-tcp is a tcp endpoint whose args carry `'nonce-tcp': True` (the client never reads the
    nonce file - see notes/C09.md).

The `startswith` chain, the values `kind` is compared with, the three separators and the default
system address come from `TxdbusModel/Gen/C09Endpoints.lean`, regenerated from the source on every run.

Core Lean only.
-/
namespace Txdbus.Client.Endpoints
open Txdbus.Gen

abbrev Str := List Char

/-- Python `s.split(sep)` for a one-character separator: never returns the empty list. -/
def splitOn (sep : Char) : Str → List Str
  | [] => [[]]
  | c :: cs =>
    if c = sep then [] :: splitOn sep cs
    else
      match splitOn sep cs with
      | [] => [[c]]
      | h :: t => (c :: h) :: t

/-- Values stored in `ep.dbus_args`: strings, and the literal `True` under the key 'nonce-tcp'. -/
inductive Val
  | str (s : Str)
  | true
deriving DecidableEq, Repr

abbrev Dict := List (Str × Val)

/-- `d[k] = v`: overwrite in place, else append (Python dict order). -/
def dictSet (k : Str) (v : Val) : Dict → Dict
  | [] => [(k, v)]
  | (k', v') :: t => if k' = k then (k', v) :: t else (k', v') :: dictSet k v t

def dictGet (k : Str) : Dict → Option Val
  | [] => none
  | (k', v) :: t => if k' = k then some v else dictGet k t

inductive Err
  | noSessionEnv     -- Exception('DBus Session environment variable not set')
  | valueError       -- `k, v = c.split('=')` with more than one '=', or int(port) fails
  | keyError         -- tcp entry without host or port
  | unboundLocal     -- unix entry without path/tmpdir/abstract and no earlier path
  | typeError        -- str + True, int(True) are not reachable from the parser; kept explicit
  | unsupported      -- int() of a string with a code point above U+00FF (outside the modelled domain)
deriving DecidableEq, Repr

inductive Target
  | unix (path : Str)
  | tcp (host : Str) (port : Int)
deriving DecidableEq, Repr

structure Endpoint where
  target : Target
  args : Dict
deriving DecidableEq, Repr

/-- The local variable `kind`: None or a string. -/
abbrev Kind := Option Str

/-- The first branch of the `startswith` chain that applies to `c`. -/
def matchPrefix (c : Str) : List (Str × Str × Nat × Option Str) → Option (Str × Nat × Option Str)
  | [] => none
  | (pre, kind, n, flag) :: t => if pre.isPrefixOf c then some (kind, n, flag) else matchPrefix c t

/-- One pass of the inner loop body over a component `c`. -/
def component (c : Str) (kind : Kind) (d : Dict) : Except Err (Kind × Dict) :=
  let (kind, c, d) :=
    match matchPrefix c C09Endpoints.prefixTable with
    | some (k, n, flag) =>
      (some k, c.drop n, match flag with | some key => dictSet key Val.true d | none => d)
    | none => (kind, c, d)
  if c.contains C09Endpoints.keyValueSep then
    match splitOn C09Endpoints.keyValueSep c with
    | [k, v] => .ok (kind, dictSet k (.str v) d)
    | _ => .error .valueError
  else .ok (kind, d)

def components : List Str → Kind → Dict → Except Err (Kind × Dict)
  | [], kind, d => .ok (kind, d)
  | c :: cs, kind, d => do
    let (kind, d) ← component c kind d
    components cs kind d

/-- `str.isspace` on code points below 256. -/
def isAsciiSpace (c : Char) : Bool :=
  c = ' ' || c = '\t' || c = '\n' || c = '\r' || c.toNat = 11 || c.toNat = 12 ||
  c.toNat = 28 || c.toNat = 29 || c.toNat = 30 || c.toNat = 31 || c.toNat = 0x85 || c.toNat = 0xA0

def stripSpace (s : Str) : Str :=
  ((s.dropWhile isAsciiSpace).reverse.dropWhile isAsciiSpace).reverse

/-- Digits with single underscores between digits (`int('1_0') == 10`); `prev` says whether the
previous character was a digit. -/
def digitsVal : Str → Bool → Nat → Option Nat
  | [], prev, acc => if prev then some acc else none
  | c :: cs, prev, acc =>
    if '0' ≤ c ∧ c ≤ '9' then digitsVal cs true (acc * 10 + (c.toNat - '0'.toNat))
    else if c = '_' ∧ prev then
      match cs with
      | [] => none
      | c' :: _ => if '0' ≤ c' ∧ c' ≤ '9' then digitsVal cs false acc else none
    else none

/-- An optional sign. -/
def signSplit (s : Str) : Bool × Str :=
  match s with
  | '-' :: t => (true, t)
  | '+' :: t => (false, t)
  | _ => (false, s)

/-- Python `int(s)` (base 10) for strings of code points below 256 (none of U+0080..U+00FF is a decimal
digit; U+0085 and U+00A0 are white space). -/
def pyInt (s : Str) : Except Err Int :=
  if s.any (fun c => c.toNat ≥ 256) then .error .unsupported else
  let (neg, body) := signSplit (stripSpace s)
  match digitsVal body false 0 with
  | some n => .ok (if neg then -(Int.ofNat n) else Int.ofNat n)
  | none => .error .valueError

def valStr : Val → Except Err Str
  | .str s => .ok s
  | .true => .error .typeError

/-- The value of one path rule: `d[key]`, literals and `str(os.getpid())` concatenated. -/
def pathOf (pid : Str) (v : Str) : List C09Endpoints.PathPart → Str
  | [] => []
  | .key :: t => v ++ pathOf pid v t
  | .lit s :: t => s ++ pathOf pid v t
  | .pid :: t => pid ++ pathOf pid v t

/-- `if k1 in d: path = ... elif k2 in d: path = ... `: the first rule whose key is in `d`; no rule: `path`
keeps the value an earlier entry left in it. -/
def unixPath (pid : Str) (d : Dict) (path : Option Str) :
    List (Str × List C09Endpoints.PathPart) → Except Err (Option Str)
  | [] => .ok path
  | (k, parts) :: t =>
    match dictGet k d with
    | some v => do let s ← valStr v; pure (some (pathOf pid s parts))
    | none => unixPath pid d path t

/-- The body of the outer loop after the components were read: build the endpoint, if any.
`path` is the value of the Python variable `path` left by earlier entries.  Returns the new `path`. -/
def buildEndpoint (pid : Str) (kind : Kind) (d : Dict) (path : Option Str) :
    Except Err (Option Endpoint × Option Str) :=
  if kind = some C09Endpoints.unixKind then do
    let path ← unixPath pid d path C09Endpoints.unixPathRules
    match path with
    | none => .error .unboundLocal
    | some p => .ok (some { target := .unix p, args := d }, some p)
  else if kind = some C09Endpoints.tcpKind then
    -- TCP4ClientEndpoint(reactor, d['host'], int(d['port'])): arguments evaluated left to right
    match dictGet C09Endpoints.tcpHostKey d with
    | none => .error .keyError
    | some h =>
      match dictGet C09Endpoints.tcpPortKey d with
      | none => .error .keyError
      | some pv => do
        let ps ← valStr pv
        let port ← pyInt ps
        let host ← valStr h
        .ok (some { target := .tcp host port, args := d }, path)
  else .ok (none, path)

def entries (pid : Str) : List Str → Option Str → Except Err (List Endpoint)
  | [], _ => .ok []
  | e :: es, path => do
    let (kind, d) ← components (splitOn C09Endpoints.componentSep e) none []
    let (ep, path) ← buildEndpoint pid kind d path
    let rest ← entries pid es path
    match ep with
    | some ep => pure (ep :: rest)
    | none => pure rest

/-- What the code reads from its process. -/
structure Env where
  session : Option Str     -- os.environ.get('DBUS_SESSION_BUS_ADDRESS')
  system : Option Str      -- os.environ.get('DBUS_SYSTEM_BUS_ADDRESS')
  pid : Str                -- str(os.getpid())
deriving Repr

/-- `getDBusEndpoints(reactor, busAddress)` (client side). -/
def getDBusEndpoints (env : Env) (busAddress : Str) : Except Err (List Endpoint) := do
  let addr ←
    if busAddress = C09Endpoints.sessionWord then
      match env.session with
      | some a => pure a
      | none => .error .noSessionEnv
    else if busAddress = C09Endpoints.systemWord then
      pure (env.system.getD C09Endpoints.systemDefault)
    else pure busAddress
  entries env.pid (splitOn C09Endpoints.entrySep addr) none

/-! ## Spec side: well-formed address lists and their rendering (from the DBus specification:
entries separated by ';', each `transport:key=value,key=value`).  Nothing below looks at the parser. -/

/-- A decimal digit as a character. -/
def digitChar (d : Fin 10) : Char := Char.ofNat (48 + d.val)

/-- The number a digit string stands for. -/
def portVal (ds : List (Fin 10)) : Nat := ds.foldl (fun a d => a * 10 + d.val) 0

inductive SpecEntry
  | unixPath (path : Str)
  | unixAbstract (name : Str)
  | tcp (host : Str) (port : List (Fin 10))
  | nonceTcp (host : Str) (port : List (Fin 10)) (noncefile : Str)
deriving DecidableEq, Repr

def kPath : Str := ['p','a','t','h']
def kAbstract : Str := ['a','b','s','t','r','a','c','t']
def kHost : Str := ['h','o','s','t']
def kPort : Str := ['p','o','r','t']
def kNoncefile : Str := ['n','o','n','c','e','f','i','l','e']
def kNonceTcp : Str := ['n','o','n','c','e','-','t','c','p']

def SpecEntry.render : SpecEntry → Str
  | .unixPath p => ['u','n','i','x',':'] ++ (kPath ++ '=' :: p)
  | .unixAbstract a => ['u','n','i','x',':'] ++ (kAbstract ++ '=' :: a)
  | .tcp h p => ['t','c','p',':'] ++ (kHost ++ '=' :: h) ++ ',' :: (kPort ++ '=' :: p.map digitChar)
  | .nonceTcp h p f =>
    ['n','o','n','c','e','-','t','c','p',':'] ++ (kHost ++ '=' :: h) ++ ',' :: (kPort ++ '=' :: p.map digitChar) ++
      ',' :: (kNoncefile ++ '=' :: f)

/-- The endpoint a well-formed entry stands for. -/
def SpecEntry.endpoint : SpecEntry → Endpoint
  | .unixPath p => { target := .unix p, args := [(kPath, .str p)] }
  | .unixAbstract a => { target := .unix (Char.ofNat 0 :: a), args := [(kAbstract, .str a)] }
  | .tcp h p =>
    { target := .tcp h (portVal p), args := [(kHost, .str h), (kPort, .str (p.map digitChar))] }
  | .nonceTcp h p f =>
    { target := .tcp h (portVal p),
      args := [(kNonceTcp, .true), (kHost, .str h), (kPort, .str (p.map digitChar)), (kNoncefile, .str f)] }

/-- A value may not contain the three separators (the DBus specification requires them to be escaped). -/
def plain (s : Str) : Prop := ';' ∉ s ∧ ',' ∉ s ∧ '=' ∉ s

/-- Well-formed entry: plain values, a non-empty port. -/
def SpecEntry.WF : SpecEntry → Prop
  | .unixPath p => plain p
  | .unixAbstract a => plain a
  | .tcp h p => plain h ∧ p ≠ []
  | .nonceTcp h p f => plain h ∧ p ≠ [] ∧ plain f

/-- `';'.join(entries)`. -/
def renderList : List SpecEntry → Str
  | [] => []
  | [e] => e.render
  | e :: e' :: es => e.render ++ ';' :: renderList (e' :: es)

end Txdbus.Client.Endpoints
