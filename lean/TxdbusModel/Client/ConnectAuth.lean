import TxdbusModel.Client.Lifecycle
import TxdbusModel.Auth.Client
/-
C09 x C07 - ONE CONNECTION ATTEMPT, from `connectionMade` to the firing of the connect Deferred, with the
authentication no longer an event chosen by the environment: the client side of the handshake is C07's
protocol model (`Txdbus.AuthClient.Proto`: `connectionMade`, `dataReceived` over the reads of server bytes,
read-only import), and what that state machine does is mapped to the events of C09's lifecycle model
(`Txdbus.Client.Lifecycle.step`).

Mirrors how the pieces call each other in /repo (after b4dae9b = fixes/C09-01, and 9946a39 = C09-07):

  protocol.BasicDBusProtocol.dataReceived (line mode)
      handleAuthMessage(line) raises DBusAuthenticationFailed  -> transport.loseConnection()      [C07: `Ev.close`]
      line / remainder longer than MAX_AUTH_LENGTH             -> transport.loseConnection()      [C07: `Ev.close`]
      authenticationSucceeded()  -> setAuthenticationSucceeded() -> DBusClientConnection.connectionAuthenticated():
            fresh tables, `callRemote('/Hello', 'Hello', ...)`, callbacks `_cbGotHello` / `factory._failed`
                                                                                                   [C09: `Ev.authOk`]
            then `rest = delimiter.join(lines[lineno+1:] + [buffer])`; `if rest: self.dataReceived(rest)` - the bytes
            that followed the last handshake line IN THE SAME READ are binary data already        [C07: `Proto.binary`]
  protocol.BasicDBusProtocol.dataReceived (binary mode): complete messages -> methodReturnReceived / errorReceived
            -> the Hello call's Deferred -> `_cbGotHello(busName)`: `factory._ok(self)`, or, for a reply without
            a bus name, `factory._failed(...)`; error reply -> `factory._failed(err)`
                                                                     [C09: `Ev.helloReply named`, `Ev.helloError`]
  client.DBusClientConnection.connectionLost(reason): `if self.busName is None: self.factory._failed(reason); return`
  client.DBusClientFactory._failed: `if not self.d.called: self.d.errback(err)`
                                                                     [C09: `Ev.close`, `Ev.authFailed`]

The binary framing and the decoding of the Hello reply are owned by C04 / C03 / C08; here they are a parameter
`Cfg.decode : Bytes -> Option HelloOutcome` ("the binary bytes received so far contain the complete answer to the
Hello call, and it is this") over which every theorem is universally quantified.

Environment assumptions (Twisted), built into `step`:
  * (T1) `connectionLost` is called at most once and nothing is delivered afterwards (`St.lost` gates everything);
  * (T2) after `transport.loseConnection()` the transport stops reading: no `dataReceived` follows (`receiving`);
  * (T3) an exception escaping `dataReceived` makes the reactor call `connectionLost` at once (`HelloOutcome.garbage`;
    in line mode C07's model records such an exception - a command word that is not UTF-8 - as `Ev.close`);
  * (T4) NOT built in, a hypothesis wherever it is needed: after `transport.loseConnection()` the reactor eventually
    calls `connectionLost`.  In the model this is the environment's step `Step.lost`; a run in which the client has
    closed and `Step.lost` never comes is a run in which nothing fires.
`Step.lost` stands for both "the peer closed" and "the reactor's follow-up of the client's own loseConnection";
the second, on a connection that is not authenticated, is C09's event `authFailed` (which is "loseConnection and
connectionLost" there), everything else is C09's `close`.

Core Lean only; total; executable (the driver links this file).
-/
namespace Txdbus.Client.ConnectAuth

open Txdbus.AuthClient (Bytes Proto Env)

/-- What the binary stream holds as the answer to the Hello call. -/
inductive HelloOutcome
  | named      -- METHOD_RETURN whose body is the unique bus name
  | unnamed    -- METHOD_RETURN without a body (`_cbCvtReply` gives None)
  | error      -- ERROR message answering Hello
  | garbage    -- bytes on which `rawDBusMessageReceived` raises: the exception escapes `dataReceived` (T3)
deriving DecidableEq, Repr

/-- The lifecycle event a Hello outcome is. -/
def helloEv : HelloOutcome → Lifecycle.Ev
  | .named => .helloReply true
  | .unnamed => .helloReply false
  | .error => .helloError
  | .garbage => .close

/-- What the transport does to the protocol. -/
inductive Step
  | read (data : Bytes)   -- `dataReceived(data)`: any bytes, cut anywhere
  | lost                  -- `connectionLost(reason)`: the peer closed, or the follow-up of `loseConnection` (T4)
deriving DecidableEq

structure Cfg where
  /-- which client.py is modelled (`.repaired` = /repo; `.original` = the pinned tree, for the witness) -/
  v : Lifecycle.Variant
  /-- `ClientAuthenticator.preference` -/
  pref : List Bytes
  /-- the transport provides IUNIXTransport -/
  unix : Bool
  /-- the environment of the cookie step, per handled line (C07) -/
  envAt : Nat → Env
  /-- the binary stream so far -> the complete answer to the Hello call, if it is there -/
  decode : Bytes → Option HelloOutcome

structure St where
  /-- C07: the protocol object in line mode / its hand-over to binary mode -/
  proto : Proto
  /-- C09: the factory Deferred, the phase, the tables -/
  life : Lifecycle.St
  /-- the lifecycle events generated so far, in order (ghost: `life` is the run of C09's model over them) -/
  evs : List Lifecycle.Ev
  /-- the reads that reached `dataReceived` (ghost: `proto` is the run of C07's model over them) -/
  delivered : List Bytes
  /-- `connectionLost` was called -/
  lost : Bool
  /-- the answer to the Hello call that arrived -/
  hello : Option HelloOutcome

/-- Hand one event to the lifecycle model. -/
def feed (cfg : Cfg) (e : Lifecycle.Ev) (s : St) : St :=
  { s with life := Lifecycle.step cfg.v s.life e, evs := s.evs ++ [e] }

/-- The transport still delivers reads: not lost (T1), `loseConnection` not called (T2). -/
def receiving (s : St) : Bool := !s.lost && !s.proto.disconnecting

/-- Binary mode after new bytes: if the answer to the (still outstanding) Hello call is complete, it is handled. -/
def arrive (cfg : Cfg) (s : St) : St :=
  if s.hello.isSome then s
  else
    match cfg.decode s.proto.binary with
    | none => s
    | some o =>
      let s := feed cfg (helloEv o) { s with hello := some o }
      -- (T3) the exception escapes dataReceived: the reactor has called connectionLost
      if o = .garbage then { s with lost := true } else s

def step (cfg : Cfg) (s : St) : Step → St
  | .read data =>
    if !receiving s then s
    else
      let p' := AuthClient.dataReceived cfg.envAt s.proto data
      let s1 := { s with proto := p', delivered := s.delivered ++ [data] }
      if s.proto.authenticated then
        -- binary mode
        arrive cfg s1
      else if p'.authenticated then
        -- setAuthenticationSucceeded() -> connectionAuthenticated(): Hello is sent; `if rest: self.dataReceived(rest)`
        let s2 := feed cfg .authOk s1
        if p'.binary.isEmpty then s2 else arrive cfg s2
      else
        -- still line mode: lines were answered, or the client called loseConnection (then: T2, and T4 is awaited)
        s1
  | .lost =>
    if s.lost then s
    else
      let e : Lifecycle.Ev :=
        if s.proto.disconnecting && !s.proto.authenticated then .authFailed else .close
      { feed cfg e s with lost := true }

def run (cfg : Cfg) (s : St) : List Step → St
  | [] => s
  | st :: rest => run cfg (step cfg s st) rest

/-- `makeConnection` on the transport of a connected endpoint: `connectionMade` writes NUL and the first AUTH
line; `life0` is the lifecycle state in which the attempt on this address has just connected. -/
def init (cfg : Cfg) (life0 : Lifecycle.St) : St :=
  { proto := AuthClient.connectionMade cfg.pref cfg.unix (cfg.envAt 0), life := life0, evs := [],
    delivered := [], lost := false, hello := none }

/-- `client.connect` on a one-address list whose attempt connects, then the handshake. -/
def attempt (cfg : Cfg) (ep : Endpoints.Endpoint) (steps : List Step) : St :=
  run cfg (init cfg (Lifecycle.step cfg.v (Lifecycle.connect [ep]) .attemptConnects)) steps

/-! ## Observations -/

/-- The attempt is over as far as the environment is concerned: the transport is gone, or Hello was answered. -/
def St.terminated (s : St) : Bool := s.lost || s.hello.isSome

/-- What the connect Deferred of the attempt must have fired with, written from the property statement over what
happened to the attempt: the connection when Hello was answered with a bus name (which takes a completed handshake);
the matching failure when Hello was answered otherwise; the loss when the transport went away first - whoever
closed it and at whatever point -; nothing as long as neither has happened. -/
def firedSpec (s : St) : List Lifecycle.ConnectResult :=
  match s.hello with
  | some .named => [.connection]
  | some .unnamed => [.helloNoName]
  | some .error => [.helloError]
  | some .garbage => [.lostEarly]
  | none => if s.lost then [.lostEarly] else []

/-- The reads of a step list. -/
def readsOf : List Step → List Bytes
  | [] => []
  | .read d :: t => d :: readsOf t
  | .lost :: t => readsOf t

/-- The lifecycle events a state must have generated, read off its components. -/
def expectedEvs (s : St) : List Lifecycle.Ev :=
  (if s.proto.authenticated then [.authOk] else []) ++
  (match s.hello with
   | some o => [helloEv o]
   | none => []) ++
  (if s.lost && s.hello != some .garbage then
     [if s.proto.disconnecting && !s.proto.authenticated then Lifecycle.Ev.authFailed else Lifecycle.Ev.close]
   else [])

end Txdbus.Client.ConnectAuth
