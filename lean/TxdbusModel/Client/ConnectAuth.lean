import TxdbusModel.Client.Lifecycle
import TxdbusModel.Auth.Client
/-
C09 x C07 - ONE CONNECTION ATTEMPT, from `connectionMade` to the firing of the connect Deferred, with the
authentication no longer an event chosen by the environment: the client side of the handshake is C07's
protocol model (`Txdbus.AuthClient.Proto`: `connectionMade`, `dataReceived` over the reads of server bytes,
read-only import), and what that state machine does is mapped to the events of C09's lifecycle model
(`Txdbus.Client.Lifecycle.step`).

Mirrors how the pieces call each other in /repo (after b4dae9b = fixes/C09-01, and 9946a39 = C09-07):

  protocol.BasicDBusProtocol.dataReceived (line mode)
      handleAuthMessage(line) raises DBusAuthenticationFailed  -> transport.loseConnection()      [C07: `Ev.close`]
      line / remainder longer than MAX_AUTH_LENGTH             -> transport.loseConnection()      [C07: `Ev.close`]
      authenticationSucceeded()  -> setAuthenticationSucceeded() -> DBusClientConnection.connectionAuthenticated():
            fresh tables, `callRemote('/Hello', 'Hello', ...)`, callbacks `_cbGotHello` / `factory._failed`
                                                                                                   [C09: `Ev.authOk`]
            then `rest = delimiter.join(lines[lineno+1:] + [buffer])`; `if rest: self.dataReceived(rest)` - the bytes
            that followed the last handshake line IN THE SAME READ are binary data already        [C07: `Proto.binary`]
  protocol.BasicDBusProtocol.dataReceived (binary mode): complete messages -> methodReturnReceived / errorReceived
            -> the Hello call's Deferred -> `_cbGotHello(busName)`: `factory._ok(self)`, or, for a reply without
            a bus name, `factory._failed(...)`; error reply -> `factory._failed(err)`
                                                                     [C09: `Ev.helloReply named`, `Ev.helloError`]
  client.DBusClientConnection.connectionLost(reason): `if self.busName is None: self.factory._failed(reason); return`
  client.DBusClientFactory._failed: `if not self.d.called: self.d.errback(err)`
                                                                     [C09: `Ev.close`, `Ev.authFailed`]

The binary framing and the decoding of the Hello reply are owned by C04 / C03 / C08; here they are a parameter
`Cfg.decode : Bytes -> Option HelloOutcome` ("the binary bytes received so far contain the complete answer to the
Hello call, and it is this") over which every theorem is universally quantified.

Environment assumptions (Twisted), built into `step`:
  * (T1) `connectionLost` is called at most once and nothing is delivered afterwards (`St.lost` gates everything);
  * (T2) after `transport.loseConnection()` the transport stops reading: no `dataReceived` follows (`receiving`);
  * (T3) an exception escaping `dataReceived` makes the reactor call `connectionLost` at once.  Built in for BINARY
    mode only: bytes on which `rawDBusMessageReceived` raises - instead of the Hello answer (`HelloOutcome.garbage`) or
    at any time after it (`Cfg.crash`) - set `St.raised` and `St.lost` in the read that delivered them.  In LINE mode
    the only escaping exception (UnicodeDecodeError of `cmd.decode()` on a command word that is not UTF-8) is, in
    C07's model, the same `Ev.close` as a `loseConnection`: the composed model files it under (T4) - it waits for
    `Step.lost`, although Twisted would already have called `connectionLost`.  An under-claim (such a run counts as
    "not terminated" until the `lost` step), not an unsoundness; the harness inserts that step.
  * (T4) NOT built in, a hypothesis wherever it is needed: after `transport.loseConnection()` the reactor eventually
    calls `connectionLost`.  In the model this is the environment's step `Step.lost`; a run in which the client has
    closed and `Step.lost` never comes is a run in which nothing fires.  (T4 can fail in practice: `loseConnection`
    waits for the write buffer to drain, and a peer that stops reading keeps it from draining.)
txdbus has no timeout on the handshake or on the Hello call: a peer that accepts the socket and then says nothing
leaves `connect()` pending forever.  That run is not terminated, and no theorem here says anything fires in it.
`Step.lost` stands for both "the peer closed" and "the reactor's follow-up of the client's own loseConnection";
the second, on a connection that is not authenticated, is C09's event `authFailed` (which is "loseConnection and
connectionLost" there), everything else is C09's `close`.

Core Lean only; total; executable (the driver links this file).
-/
namespace Txdbus.Client.ConnectAuth

open Txdbus.AuthClient (Bytes Proto Env)

/-- What the binary stream holds as the answer to the Hello call. -/
inductive HelloOutcome
  | named      -- METHOD_RETURN whose body is the unique bus name
  | unnamed    -- METHOD_RETURN without a body (`_cbCvtReply` gives None)
  | error      -- ERROR message answering Hello
  | garbage    -- bytes on which `rawDBusMessageReceived` raises: the exception escapes `dataReceived` (T3)
deriving DecidableEq, Repr

/-- The lifecycle event a Hello outcome is. -/
def helloEv : HelloOutcome → Lifecycle.Ev
  | .named => .helloReply true
  | .unnamed => .helloReply false
  | .error => .helloError
  | .garbage => .close

/-- What the transport does to the protocol. -/
inductive Step
  | read (data : Bytes)   -- `dataReceived(data)`: any bytes, cut anywhere
  | lost                  -- `connectionLost(reason)`: the peer closed, or the follow-up of `loseConnection` (T4)
deriving DecidableEq

structure Cfg where
  /-- which client.py is modelled (`.repaired` = /repo; `.original` = the pinned tree, for the witness) -/
  v : Lifecycle.Variant
  /-- `ClientAuthenticator.preference` -/
  pref : List Bytes
  /-- the transport provides IUNIXTransport -/
  unix : Bool
  /-- the environment of the cookie step, per handled line (C07) -/
  envAt : Nat → Env
  /-- the binary stream so far -> the complete answer to the Hello call, if it is there -/
  decode : Bytes → Option HelloOutcome
  /-- the binary stream so far, AFTER the answer to Hello was handled, holds bytes on which binary mode raises
  (a complete message that `parseMessage` rejects): the exception escapes `dataReceived` (T3) -/
  crash : Bytes → Bool

structure St where
  /-- C07: the protocol object in line mode / its hand-over to binary mode -/
  proto : Proto
  /-- C09: the factory Deferred, the phase, the tables -/
  life : Lifecycle.St
  /-- the lifecycle events generated so far, in order (ghost: `life` is the run of C09's model over them) -/
  evs : List Lifecycle.Ev
  /-- the reads that reached `dataReceived` (ghost: `proto` is the run of C07's model over them) -/
  delivered : List Bytes
  /-- `connectionLost` was called -/
  lost : Bool
  /-- the answer to the Hello call that arrived -/
  hello : Option HelloOutcome
  /-- binary mode raised out of `dataReceived` (T3): the cause of `lost` that is not a `Step.lost` -/
  raised : Bool

/-- Hand one event to the lifecycle model. -/
def feed (cfg : Cfg) (e : Lifecycle.Ev) (s : St) : St :=
  { s with life := Lifecycle.step cfg.v s.life e, evs := s.evs ++ [e] }

/-- The transport still delivers reads: not lost (T1), `loseConnection` not called (T2). -/
def receiving (s : St) : Bool := !s.lost && !s.proto.disconnecting

/-- The Hello answer, if the call is still outstanding and the answer is complete. -/
def answer (cfg : Cfg) (s : St) : St :=
  match s.hello with
  | some _ => s
  | none =>
    match cfg.decode s.proto.binary with
    | none => s
    | some o => feed cfg (helloEv o) { s with hello := some o }

/-- Binary mode after new bytes (the message loop of `dataReceived`): the answer to the (still outstanding) Hello
call is handled if it is complete; then, if what was to be the answer - or anything after it - makes
`rawDBusMessageReceived` raise, the exception escapes and the reactor calls `connectionLost` (T3). -/
def arrive (cfg : Cfg) (s : St) : St :=
  let s1 := answer cfg s
  if s1.hello = some .garbage then
    -- `helloEv .garbage` = `close` was fed by `answer`
    { s1 with lost := true, raised := true }
  else if s1.hello.isSome && cfg.crash s1.proto.binary then
    { feed cfg .close s1 with lost := true, raised := true }
  else s1

def step (cfg : Cfg) (s : St) : Step → St
  | .read data =>
    if !receiving s then s
    else
      let p' := AuthClient.dataReceived cfg.envAt s.proto data
      let s1 := { s with proto := p', delivered := s.delivered ++ [data] }
      if s.proto.authenticated then
        -- binary mode
        arrive cfg s1
      else if p'.authenticated then
        -- setAuthenticationSucceeded() -> connectionAuthenticated(): Hello is sent; `if rest: self.dataReceived(rest)`
        let s2 := feed cfg .authOk s1
        if p'.binary.isEmpty then s2 else arrive cfg s2
      else
        -- still line mode: lines were answered, or the client called loseConnection (then: T2, and T4 is awaited)
        s1
  | .lost =>
    if s.lost then s
    else
      let e : Lifecycle.Ev :=
        if s.proto.disconnecting && !s.proto.authenticated then .authFailed else .close
      { feed cfg e s with lost := true }

def run (cfg : Cfg) (s : St) : List Step → St
  | [] => s
  | st :: rest => run cfg (step cfg s st) rest

/-- `makeConnection` on the transport of a connected endpoint: `connectionMade` writes NUL and the first AUTH
line; `life0` is the lifecycle state in which the attempt on this address has just connected. -/
def init (cfg : Cfg) (life0 : Lifecycle.St) : St :=
  { proto := AuthClient.connectionMade cfg.pref cfg.unix (cfg.envAt 0), life := life0, evs := [],
    delivered := [], lost := false, hello := none, raised := false }

/-- `client.connect` on a one-address list whose attempt connects, then the handshake. -/
def attempt (cfg : Cfg) (ep : Endpoints.Endpoint) (steps : List Step) : St :=
  run cfg (init cfg (Lifecycle.step cfg.v (Lifecycle.connect [ep]) .attemptConnects)) steps

/-! ## Observations -/

/-- The attempt is over as far as the environment is concerned: the transport is gone, or Hello was answered. -/
def St.terminated (s : St) : Bool := s.lost || s.hello.isSome

/-- What the connect Deferred of the attempt must have fired with, written from the property statement over what
happened to the attempt: the connection when Hello was answered with a bus name (which takes a completed handshake);
the matching failure when Hello was answered otherwise; the loss when the transport went away first - whoever
closed it and at whatever point -; nothing as long as neither has happened. -/
def firedSpec (s : St) : List Lifecycle.ConnectResult :=
  match s.hello with
  | some .named => [.connection]
  | some .unnamed => [.helloNoName]
  | some .error => [.helloError]
  | some .garbage => [.lostEarly]
  | none => if s.lost then [.lostEarly] else []

/-! ### the Hello outcome as a function of the delivered reads (no `step`, no `lost`, no lifecycle) -/

/-- What binary mode has seen happen. -/
structure BinObs where
  hello : Option HelloOutcome
  raised : Bool
deriving DecidableEq, Repr

/-- One delivered read took the protocol object from `p` to `p'`.  Binary mode ran on `p'.binary` iff the client
is authenticated afterwards and either was so before (a binary-mode read) or the hand-off left bytes
(`if rest: self.dataReceived(rest)`).  If it ran: the FIRST binary stream on which `decode` answers is the
Hello outcome; `garbage`, or `crash` once there is an outcome, is an escaping exception. -/
def binStep (cfg : Cfg) (p p' : Proto) (b : BinObs) : BinObs :=
  if p'.authenticated && (p.authenticated || !p'.binary.isEmpty) then
    let h := match b.hello with
      | some o => some o
      | none => cfg.decode p'.binary
    { hello := h, raised := b.raised || h == some .garbage || (h.isSome && cfg.crash p'.binary) }
  else b

def binFold (cfg : Cfg) : Proto → BinObs → List Bytes → BinObs
  | _, b, [] => b
  | p, b, d :: ds => binFold cfg (AuthClient.dataReceived cfg.envAt p d) (binStep cfg p (AuthClient.dataReceived cfg.envAt p d) b) ds

/-- The Hello outcome and the escaping exception determined by a list of delivered reads: C07's model run over
the reads, `decode` / `crash` applied to the binary streams binary mode ran on, in order. -/
def binSpec (cfg : Cfg) (ds : List Bytes) : BinObs :=
  binFold cfg (AuthClient.connectionMade cfg.pref cfg.unix (cfg.envAt 0)) ⟨none, false⟩ ds

/-- The reads of a step list. -/
def readsOf : List Step → List Bytes
  | [] => []
  | .read d :: t => d :: readsOf t
  | .lost :: t => readsOf t

/-- The lifecycle events a state must have generated, read off its components. -/
def expectedEvs (s : St) : List Lifecycle.Ev :=
  (if s.proto.authenticated then [.authOk] else []) ++
  (match s.hello with
   | some o => [helloEv o]
   | none => []) ++
  (if s.lost && s.hello != some .garbage then
     [if s.proto.disconnecting && !s.proto.authenticated then Lifecycle.Ev.authFailed else Lifecycle.Ev.close]
   else [])

end Txdbus.Client.ConnectAuth
