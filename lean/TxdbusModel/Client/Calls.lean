/-
C08 - code model of the pending-call machinery of `txdbus/client.py`
(`callRemote`, `callRemoteMessage`, `_onMethodTimeout`, `methodReturnReceived`,
`errorReceived`, `_cbCvtReply`, the pending-call part of `connectionLost`), of the
`RemoteError` construction and of the serial counter in `message.py`.

The model mirrors the code as written:

* `_pendingCalls` is a Python dict `serial -> (Deferred, DelayedCall | None)`: an association
  list in insertion order with `dGet` / `dSet` (overwrite in place) / `dDel`.
* a Deferred is identified by the number of the `callRemote` invocation that created it
  (0, 1, 2, ...); every firing of every Deferred is appended to one log, so a Deferred that
  fired twice would show two entries (nothing hides a double completion).
* the reactor's delayed calls are a separate list `(timer id, serial)`; the timer of call `k`
  has id `k` and carries the arguments `(serial, Deferred k)` of `_onMethodTimeout`.
  `DelayedCall.cancel()` on a timer that is no longer active raises in Twisted
  (`AlreadyCalled` / `AlreadyCancelled`): modelled as an explicit fault, as is the `KeyError`
  of `del self._pendingCalls[serial]`.  A fault aborts the rest of the Python function.
* values are abstract (`V`); the only thing the code asks of a value is
  `isinstance(v, str)` (parameter `asStr`).

Core Lean only; total; executable.
-/
import TxdbusModel.Gen.C08Client

namespace Txdbus.Calls

open Txdbus.Gen

/-! ## Python dict as an association list -/

/-- `d.get(k)` -/
def dGet {α : Type} (k : Nat) : List (Nat × α) → Option α
  | [] => none
  | (k', v) :: t => if k' = k then some v else dGet k t

/-- `d[k] = v`: overwrite in place when the key exists, append otherwise. -/
def dSet {α : Type} (k : Nat) (v : α) : List (Nat × α) → List (Nat × α)
  | [] => [(k, v)]
  | (k', v') :: t => if k' = k then (k, v) :: t else (k', v') :: dSet k v t

/-- `del d[k]` (the caller has established that the key is present). -/
def dDel {α : Type} (k : Nat) (l : List (Nat × α)) : List (Nat × α) :=
  l.filter (fun e => e.1 ≠ k)

/-! ## `_cbCvtReply` -/

/-- The `returnSignature` argument of `callRemote`. -/
inductive RetSig where
  /-- the default sentinel `_NO_CHECK_RETURN` -/
  | noCheck
  /-- `None` passed explicitly -/
  | pyNone
  /-- a `str`, possibly empty -/
  | str (s : List Char)
  deriving DecidableEq, Repr

/-- What `_cbCvtReply` reads of a method return: `msg.signature` (`None` or a `str`) and
`msg.body` (`None` or a list). -/
structure Reply (V : Type) where
  signature : Option (List Char)
  body : Option (List V)
  deriving DecidableEq, Repr

/-- Result of `_cbCvtReply`. -/
inductive Cvt (V : Type) where
  | none
  | one (v : V)
  | many (vs : List V)
  /-- `raise error.RemoteError(text)` -/
  | remoteError (errName : List Char)
  /-- `msg.signature[0]` on `None` (TypeError) or on `''` (IndexError) -/
  | pyError
  deriving DecidableEq, Repr

/-- Python truthiness of `None` / `str`. -/
def truthyStr : Option (List Char) → Bool
  | none => false
  | some [] => false
  | some (_ :: _) => true

/-- `str(x)` for `x` being `None` or a `str`. -/
def pyStr : Option (List Char) → List Char
  | none => "None".toList
  | some s => s

/-- The wording of the exceptions the client generates locally (`RemoteError('Unexpected return value
signature ...')`, `TimeOut('Method call timed out')`) is not part of the property and is not modelled: the
model carries this placeholder where the code carries a text (the correspondence compares the exception class,
not the text). -/
def localText : List Char := []

/-- `returnSignature == _NO_CHECK_RETURN` for a `str` argument (no string equals a sentinel that is not one). -/
def isSentinel (r : List Char) : Bool :=
  match C08Client.noCheckReturn with
  | some t => r == t.toList
  | none => false

/-- The return-signature check of `_cbCvtReply`: `some text` when it raises RemoteError. -/
def sigCheck (rs : RetSig) (sig : Option (List Char)) : Option (List Char) :=
  match rs with
  | .noCheck => none
  | .pyNone =>                      -- `not returnSignature`
    if truthyStr sig then some localText else none
  | .str r =>
    if isSentinel r then none     -- `returnSignature != _NO_CHECK_RETURN` is a comparison of values
    else if r.isEmpty then
      if truthyStr sig then some localText else none
    else
      if !truthyStr sig || sig != some r then some localText else none

/-- `_cbCvtReply(msg, returnSignature)`; `msg = None` is what `defer.succeed(None)` passes for
`expectReply=False`. -/
def cvtReply {V : Type} (msg : Option (Reply V)) (rs : RetSig) : Cvt V :=
  match msg with
  | none => .none
  | some m =>
    match sigCheck rs m.signature with
    | some text => .remoteError text
    | none =>
      match m.body with
      | none => .none
      | some [] => .none
      | some [v] =>
        -- `len(msg.body) == 1 and not msg.signature[0] == '('`
        match m.signature with
        | none => .pyError
        | some [] => .pyError
        | some (c :: _) => if c == C08Client.structOpen then .many [v] else .one v
      | some vs => .many vs

/-! ## RemoteError built by `errorReceived` -/

/-- `e.message`, `e.values` as set by `errorReceived` from `merr.body`. -/
def remoteErrorFields {V : Type} (asStr : V → Option (List Char)) (body : Option (List V)) :
    List Char × List V :=
  match body with
  | none => ([], [])
  | some [] => ([], [])                       -- `if merr.body:` is false for an empty list
  | some (v :: vs) =>
    match asStr v with
    | some s => (s, v :: vs)
    | none => ([], v :: vs)

/-! ## Deferred firings, state, operations -/

/-- One firing of the Deferred created by `callRemoteMessage` (before `_cbCvtReply`). -/
inductive Firing (V R : Type) where
  /-- `d.callback(mret)`, or `defer.succeed(None)` for `expectReply=False` -/
  | callback (msg : Option (Reply V))
  /-- `d.errback(RemoteError)` from `errorReceived`: errName, message, values -/
  | remoteError (name message : List Char) (values : List V)
  /-- `d.errback(error.TimeOut(text))` -/
  | timeOut (text : List Char)
  /-- `d.errback(reason)` from `connectionLost` -/
  | lost (reason : R)
  /-- `defer.fail()` in `callRemote`: the message could not be constructed -/
  | constructFailed
  deriving DecidableEq, Repr

inductive Fault where
  /-- `del self._pendingCalls[serial]` on an absent key -/
  | keyError
  /-- `DelayedCall.cancel()` on a timer that already ran or was cancelled -/
  | alreadyCalled
  /-- a disconnect callback raised and `connectionLost` let the exception through -/
  | callbackRaised
  deriving DecidableEq, Repr

/-- Value of `_pendingCalls[serial]`: the Deferred and the DelayedCall (or None). -/
structure Pending where
  did : Nat
  timer : Option Nat
  deriving DecidableEq, Repr

structure St (V R : Type) where
  /-- `self.busName is not None` (the Hello reply has been processed) -/
  ready : Bool
  /-- number of `callRemote` invocations so far = id of the next Deferred -/
  nextId : Nat
  /-- `self._pendingCalls` -/
  pending : List (Nat × Pending)
  /-- the reactor's active delayed calls `_onMethodTimeout(serial, d)`: (timer id = id of `d`, serial) -/
  timers : List (Nat × Nat)
  /-- every firing of every Deferred, in order -/
  log : List (Nat × Firing V R)
  /-- `returnSignature` bound into each Deferred's `_cbCvtReply` callback -/
  issued : List (Nat × RetSig)
  /-- exceptions raised by the code (each aborted the function it occurred in) -/
  faults : List Fault

def St.init (V R : Type) (ready : Bool) : St V R :=
  { ready := ready, nextId := 0, pending := [], timers := [], log := [], issued := [], faults := [] }

inductive Op (V R : Type) where
  /-- `callRemote(..., expectReply, timeout, returnSignature)` whose message was constructed with
  this serial.  `timeout`: `none` = None, `some 0` = 0, `some (n+1)` = a positive number. -/
  | call (serial : Nat) (expectReply : Bool) (timeout : Option Nat) (rs : RetSig)
  /-- `callRemote` whose `MethodCallMessage(...)` raised (invalid name, unencodable body) -/
  | callBad (rs : RetSig)
  /-- a method return with this reply serial arrives -/
  | ret (replySerial : Nat) (msg : Reply V)
  /-- an error reply with this reply serial arrives -/
  | err (replySerial : Nat) (name : List Char) (body : Option (List V))
  /-- the reactor runs delayed call `tid` (enabled only while that call is active) -/
  | expire (tid : Nat)
  /-- `connectionLost(reason)` -/
  | lost (reason : R)
  deriving DecidableEq, Repr

/-- `if timeout:` -/
def truthyTimeout : Option Nat → Bool
  | none => false
  | some 0 => false
  | some (_ + 1) => true

def timerActive (tid : Nat) (ts : List (Nat × Nat)) : Bool := ts.any (fun e => e.1 == tid)

/-- `DelayedCall.cancel()`: `none` when it raises. -/
def cancel (tid : Nat) (ts : List (Nat × Nat)) : Option (List (Nat × Nat)) :=
  if timerActive tid ts then some (ts.filter (fun e => e.1 ≠ tid)) else none

/-- `if timeout: timeout.cancel()` (a DelayedCall object is always truthy). -/
def cancelOpt : Option Nat → List (Nat × Nat) → Option (List (Nat × Nat))
  | none, ts => some ts
  | some t, ts => cancel t ts

variable {V R : Type}

def fire (s : St V R) (did : Nat) (f : Firing V R) : St V R :=
  { s with log := s.log ++ [(did, f)] }

/-- `callRemote` -> `callRemoteMessage`. -/
def callOp (s : St V R) (serial : Nat) (expectReply : Bool) (timeout : Option Nat) (rs : RetSig) :
    St V R :=
  let did := s.nextId
  let s := { s with nextId := did + 1, issued := s.issued ++ [(did, rs)] }
  if expectReply then
    if truthyTimeout timeout then
      { s with timers := s.timers ++ [(did, serial)],
               pending := dSet serial ⟨did, some did⟩ s.pending }
    else
      { s with pending := dSet serial ⟨did, none⟩ s.pending }
  else
    fire s did (.callback none)

def callBadOp (s : St V R) (rs : RetSig) : St V R :=
  let did := s.nextId
  fire { s with nextId := did + 1, issued := s.issued ++ [(did, rs)] } did .constructFailed

/-- `methodReturnReceived` -/
def retOp (s : St V R) (rsn : Nat) (msg : Reply V) : St V R :=
  match dGet rsn s.pending with
  | none => s
  | some p =>
    match cancelOpt p.timer s.timers with
    | none => { s with faults := s.faults ++ [.alreadyCalled] }
    | some ts =>
      fire { s with timers := ts, pending := dDel rsn s.pending } p.did (.callback (some msg))

/-- `errorReceived` -/
def errOp (asStr : V → Option (List Char)) (s : St V R) (rsn : Nat) (name : List Char)
    (body : Option (List V)) : St V R :=
  match dGet rsn s.pending with
  | none => s
  | some p =>
    match cancelOpt p.timer s.timers with
    | none => { s with faults := s.faults ++ [.alreadyCalled] }
    | some ts =>
      let mv := remoteErrorFields asStr body
      fire { s with timers := ts, pending := dDel rsn s.pending } p.did (.remoteError name mv.1 mv.2)

/-- The reactor pops delayed call `tid` and runs `_onMethodTimeout(serial, d)`. -/
def expireOp (s : St V R) (tid : Nat) : St V R :=
  match s.timers.find? (fun e => e.1 == tid) with
  | none => s
  | some (_, serial) =>
    let s := { s with timers := s.timers.filter (fun e => e.1 ≠ tid) }
    match dGet serial s.pending with
    | none => { s with faults := s.faults ++ [.keyError] }
    | some _ =>
      fire { s with pending := dDel serial s.pending } tid (.timeOut localText)

/-- The loop of `connectionLost` over `pending.values()` (the table as it was when the connection was lost). -/
def lostLoop (reason : R) :
    List (Nat × Pending) → List (Nat × Nat) → List (Nat × Firing V R) →
      List (Nat × Nat) × List (Nat × Firing V R) × Option Fault
  | [], ts, lg => (ts, lg, none)
  | (_, p) :: rest, ts, lg =>
    match cancelOpt p.timer ts with
    | none => (ts, lg, some .alreadyCalled)
    | some ts' => lostLoop reason rest ts' (lg ++ [(p.did, .lost reason)])

/-- The pending-call part of `connectionLost` (after the `busName is None` early return, which only
concerns the connect Deferred): `pending, self._pendingCalls = self._pendingCalls, {}` and then the
loop over the table as it was - so the table is empty even if the loop were to raise. -/
def lostOp (s : St V R) (reason : R) : St V R :=
  if !s.ready then s else
  match lostLoop reason s.pending s.timers s.log with
  | (ts, lg, some f) => { s with timers := ts, log := lg, pending := [], faults := s.faults ++ [f] }
  | (ts, lg, none) => { s with timers := ts, log := lg, pending := [] }

def step (asStr : V → Option (List Char)) (s : St V R) : Op V R → St V R
  | .call serial er tmo rs => callOp s serial er tmo rs
  | .callBad rs => callBadOp s rs
  | .ret rsn msg => retOp s rsn msg
  | .err rsn name body => errOp asStr s rsn name body
  | .expire tid => expireOp s tid
  | .lost reason => lostOp s reason

def run (asStr : V → Option (List Char)) (s : St V R) (ops : List (Op V R)) : St V R :=
  ops.foldl (step asStr) s

/-! ## What the caller of `callRemote` observes -/

/-- The result delivered to the caller's callbacks: the firing passed through `_cbCvtReply`. -/
inductive Outcome (V R : Type) where
  | value (c : Cvt V)
  | remoteError (name message : List Char) (values : List V)
  | timeOut (text : List Char)
  | lost (reason : R)
  | constructFailed
  deriving DecidableEq, Repr

def outcome (rs : RetSig) : Firing V R → Outcome V R
  | .callback msg => .value (cvtReply msg rs)
  | .remoteError n m vs => .remoteError n m vs
  | .timeOut t => .timeOut t
  | .lost r => .lost r
  | .constructFailed => .constructFailed

/-- Firings of Deferred `k`, oldest first. -/
def firingsOf (k : Nat) (lg : List (Nat × Firing V R)) : List (Firing V R) :=
  (lg.filter (fun e => e.1 == k)).map (·.2)

/-! ## Re-entrant callers: an errback that issues new calls (a retry)

The caller's errback runs synchronously inside `d.errback(...)` (and, for a return whose
`_cbCvtReply` raised, inside `d.callback(...)`), i.e. in the middle of the function of the
connection that fired the Deferred.  In `methodReturnReceived`, `errorReceived` and
`_onMethodTimeout` the firing is the last statement and the table has been updated before it; in
`connectionLost` the firing happens INSIDE the loop, after `pending, self._pendingCalls =
self._pendingCalls, {}`: the calls issued by the errback are registered in the new table (and
their timers with the reactor) while the loop goes on cancelling and failing the old entries. -/

/-- One `callRemote(expectReply=True, timeout, returnSignature)` issued by an errback; `serial` is the
serial its message gets. -/
structure NewCall where
  serial : Nat
  timeout : Option Nat
  rs : RetSig
  deriving DecidableEq, Repr

/-- `returnSignature` bound into Deferred `did`. -/
def rsOf (s : St V R) (did : Nat) : RetSig := (dGet did s.issued).getD .noCheck

/-- Does the caller's errback run for this result? (a failure reaches it; a value does not) -/
def isFailure : Outcome V R → Bool
  | .value (.remoteError _) => true
  | .value .pyError => true
  | .value _ => false
  | _ => true

/-- The callbacks / errbacks attached to Deferreds: (Deferred, `true` = a callback, run on a value /
`false` = an errback, run on a failure; the calls it issues). -/
abbrev Reactions := List (Nat × Bool × List NewCall)

def reactionOf (rx : Reactions) (did : Nat) (onValue : Bool) : List NewCall :=
  (rx.filter (fun e => e.1 == did && e.2.1 == onValue)).flatMap (·.2.2)

/-- The callback issues its calls, one after the other. -/
def issue (s : St V R) (cs : List NewCall) : St V R :=
  cs.foldl (fun s c => callOp s c.serial true c.timeout c.rs) s

/-- What the caller's callbacks of Deferred `did` do right after `did` fired with `f`: the errbacks when
the result that reaches them is a failure, the callbacks when it is a value. -/
def react (rx : Reactions) (s : St V R) (did : Nat) (f : Firing V R) : St V R :=
  issue s (reactionOf rx did (!isFailure (outcome (rsOf s did) f)))

/-- `connectionLost` with re-entrant errbacks: the loop over the old table, against the new one. -/
def lostLoopR (rx : Reactions) (reason : R) : List (Nat × Pending) → St V R → St V R
  | [], s => s
  | (_, p) :: rest, s =>
    match cancelOpt p.timer s.timers with
    | none => { s with faults := s.faults ++ [.alreadyCalled] }
    | some ts =>
      lostLoopR rx reason rest (react rx (fire { s with timers := ts } p.did (.lost reason)) p.did (.lost reason))

def lostOpR (rx : Reactions) (s : St V R) (reason : R) : St V R :=
  if !s.ready then s else lostLoopR rx reason s.pending { s with pending := [] }

/-- What a callback registered with `notifyOnDisconnect` does when `connectionLost` calls it. -/
inductive DcAction where
  /-- it issues these calls (they go into the table `connectionLost` is about to fail) -/
  | issues (calls : List NewCall)
  /-- it raises -/
  | raises
  deriving DecidableEq, Repr

/-- `for cb in list(self._dcCallbacks): cb(self, reason)` - BEFORE the pending calls are failed.  The
second component: an exception escaped (the rest of `connectionLost` does not run).  Whether each call is
inside a `try` is read from the source (`C08Client.dcGuarded`). -/
def runDcs : List DcAction → St V R → St V R × Bool
  | [], s => (s, false)
  | .issues cs :: rest, s => runDcs rest (issue s cs)
  | .raises :: rest, s =>
    if C08Client.dcGuarded then runDcs rest s
    else ({ s with faults := s.faults ++ [.callbackRaised] }, true)

/-- `connectionLost` as a whole (for a ready connection): disconnect callbacks, then the pending calls. -/
def lostOpD (rx : Reactions) (dcs : List DcAction) (s : St V R) (reason : R) : St V R :=
  if !s.ready then s else
  match runDcs dcs s with
  | (s', true) => s'
  | (s', false) => lostOpR rx s' reason

structure StR (V R : Type) where
  base : St V R
  rx : Reactions
  dcs : List DcAction

inductive OpR (V R : Type) where
  | op (o : Op V R)
  /-- the caller attaches to Deferred `did` an errback that issues these calls -/
  | onErr (did : Nat) (calls : List NewCall)
  /-- the caller attaches to Deferred `did` a callback that issues these calls -/
  | onOk (did : Nat) (calls : List NewCall)
  /-- `notifyOnDisconnect(callback)` -/
  | onDisconnect (a : DcAction)

/-- Every firing of `new` that `old` did not have yet, followed by its callbacks' calls. -/
def reactAll (rx : Reactions) (old new : St V R) : St V R :=
  (new.log.drop old.log.length).foldl (fun s e => react rx s e.1 e.2) new

def stepR (asStr : V → Option (List Char)) (sr : StR V R) : OpR V R → StR V R
  | .onErr did calls => { sr with rx := sr.rx ++ [(did, false, calls)] }
  | .onOk did calls => { sr with rx := sr.rx ++ [(did, true, calls)] }
  | .onDisconnect a => { sr with dcs := sr.dcs ++ [a] }
  | .op (.lost reason) => { sr with base := lostOpD sr.rx sr.dcs sr.base reason }
  | .op o => { sr with base := reactAll sr.rx sr.base (step asStr sr.base o) }

def runR (asStr : V → Option (List Char)) (sr : StR V R) (ops : List (OpR V R)) : StR V R :=
  ops.foldl (stepR asStr) sr

/-! ## The process-wide serial counter (`DBusMessage._marshal`, `newSerial=True`) -/

/-- `self.serial = DBusMessage._nextSerial; DBusMessage._nextSerial += 1`:
returns the serial given to the message and the new counter. -/
def allocSerial (counter : Nat) : Nat × Nat := (counter, counter + C08Client.serialStep)

/-- What happens in the process, before serials are known: every constructed message takes the next
value of the one process-wide counter - the calls of this connection, and any other message (replies
and signals sent by exported objects, calls on other connections). -/
inductive Ev (V R : Type) where
  | call (expectReply : Bool) (timeout : Option Nat) (rs : RetSig)
  /-- some other message is constructed (consumes a serial) -/
  | otherMessage
  /-- a `callRemote` whose construction raised, before or after the serial was taken -/
  | callBad (rs : RetSig) (serialTaken : Bool)
  | ret (replySerial : Nat) (msg : Reply V)
  | err (replySerial : Nat) (name : List Char) (body : Option (List V))
  | expire (tid : Nat)
  | lost (reason : R)

/-- The operations on this connection, each call carrying the serial the counter gave it. -/
def assign {V R : Type} : Nat → List (Ev V R) → List (Op V R)
  | _, [] => []
  | c, .call er tmo rs :: t => .call (allocSerial c).1 er tmo rs :: assign (allocSerial c).2 t
  | c, .otherMessage :: t => assign (allocSerial c).2 t
  | c, .callBad rs taken :: t => .callBad rs :: assign (if taken then (allocSerial c).2 else c) t
  | c, .ret rsn msg :: t => .ret rsn msg :: assign c t
  | c, .err rsn name body :: t => .err rsn name body :: assign c t
  | c, .expire tid :: t => .expire tid :: assign c t
  | c, .lost r :: t => .lost r :: assign c t

end Txdbus.Calls
