/-
C08 - specification, written from the property statement only (it never looks at how
`txdbus/client.py` keeps its table or its timers).

"Each outstanding remote call completes exactly once: with the value carried by the method
return whose reply serial matches the call, or with a RemoteError built from the matching
error reply (its name, message and values), or with TimeOut if its deadline passes first, or
with the connection-loss reason - whichever happens first [...].  Values are delivered by the
documented convention (no value gives None, one non-struct value gives that value, anything
else the list of values), a reply not matching a declared return signature yields RemoteError."

The vocabulary (events `Op`, deliveries `Firing`, `Cvt`, `RetSig`, `Reply`) is shared with the
code model; the functions below are the specification.
-/
import TxdbusModel.Client.Calls

namespace Txdbus.Calls.Spec

open Txdbus.Calls
open Txdbus.Gen

variable {V R : Type}

/-- Message and values of the RemoteError for an error reply with these arguments: the message is
the first argument when that is a string (otherwise empty), the values are all arguments. -/
def errorFields (asStr : V → Option (List Char)) (body : Option (List V)) : List Char × List V :=
  let vs := body.getD []
  ((vs.head?.bind asStr).getD [], vs)

/-- What the event `op` delivers to an outstanding call with serial `σ`, number `k`, with or
without a deadline - or `none` when the event does not concern that call. -/
def completes (asStr : V → Option (List Char)) (σ k : Nat) (hasTimer : Bool) :
    Op V R → Option (Firing V R)
  | .ret rsn msg => if rsn = σ then some (.callback (some msg)) else none
  | .err rsn name body =>
    if rsn = σ then some (.remoteError name (errorFields asStr body).1 (errorFields asStr body).2) else none
  | .expire t => if hasTimer ∧ t = k then some (.timeOut localText) else none
  | .lost r => some (.lost r)
  | .call .. => none
  | .callBad .. => none

/-- "Whichever happens first": the delivery of the first event, in order, that concerns the call. -/
def firstCompletion (asStr : V → Option (List Char)) (σ k : Nat) (hasTimer : Bool) :
    List (Op V R) → Option (Firing V R)
  | [] => none
  | op :: rest =>
    match completes asStr σ k hasTimer op with
    | some f => some f
    | none => firstCompletion asStr σ k hasTimer rest

/-- Is the operation an invocation of `callRemote` (each one hands out one Deferred)? -/
def isCall : Op V R → Bool
  | .call .. => true
  | .callBad .. => true
  | _ => false

/-- Number of the Deferred handed out by the `callRemote` at position `i`: invocations are numbered
0, 1, 2, ... in order. -/
def callId (ops : List (Op V R)) (i : Nat) : Nat := ((ops.take i).filter isCall).length

/-- The serial under which an operation registers a call awaiting a reply. -/
def regSerial : Op V R → Option Nat
  | .call σ true _ _ => some σ
  | _ => none

/-- Hypothesis of the property: the calls awaiting a reply on one connection carry pairwise distinct
serials (discharged for the process-wide counter by `serials_distinct`). -/
def DistinctSerials (ops : List (Op V R)) : Prop := (ops.filterMap regSerial).Nodup

instance (ops : List (Op V R)) : Decidable (DistinctSerials ops) :=
  inferInstanceAs (Decidable (ops.filterMap regSerial).Nodup)

/-- Everything the Deferred of the `callRemote` at position `i` is ever fired with, in order,
according to the property: nothing while no event concerns it, then exactly the first one. -/
def expectedFirings (asStr : V → Option (List Char)) (ops : List (Op V R)) (i : Nat) :
    List (Firing V R) :=
  match ops[i]? with
  | some (.call σ true tmo _) =>
    (firstCompletion asStr σ (callId ops i) (truthyTimeout tmo) (ops.drop (i + 1))).toList
  | some (.call _ false _ _) => [.callback none]      -- expectReply=False: called back with None at once
  | some (.callBad _) => [.constructFailed]
  | _ => []

/-! ### The value convention -/

/-- The signature a caller declared, if any (`None` is read as "no return value", like `''`). -/
def declared : RetSig → Option (List Char)
  | .noCheck => none
  | .pyNone => some []
  | .str r => if isSentinel r then none else some r

/-- A reply as it can come off the wire: the signature is absent or empty exactly when there are no
values. -/
def WellFormed (m : Reply V) : Prop :=
  match m.body with
  | none => m.signature = none ∨ m.signature = some []
  | some vs => vs ≠ [] ∧ ∃ c cs, m.signature = some (c :: cs)

def sigOf (m : Reply V) : List Char := m.signature.getD []
def valuesOf (m : Reply V) : List V := m.body.getD []

/-- "no value gives None, one non-struct value gives that value, anything else the list of values" -/
def convention (sig : List Char) (vals : List V) : Cvt V :=
  match vals with
  | [] => .none
  | [v] => if sig.head? = some '(' then .many [v] else .one v
  | vs => .many vs

end Txdbus.Calls.Spec
