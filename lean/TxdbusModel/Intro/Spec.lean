import TxdbusModel.Intro.Xml
/-
Specification side of property C15, written from the property statement only:

* `SameDefinition d r`   - "an interface with the same name, the same methods with the same input and output
                           signatures and argument counts, the same signals, and the same properties with the
                           same type and access mode" (dicts compared as finite maps: lookup by name)
* `World.parseBlocks`    - what parsing a document with interface elements `rs` must do to the process-wide
                           cache: "interfaces already known locally are reused unless replacement is requested"
                           - a known name (and no replacement) yields the cached object and changes nothing;
                           otherwise a new object holding the definition is created and registered.
Core Lean only.
-/
namespace Txdbus.Intro

/-- type and access mode of a property (the change-notification mode is not part of the statement) -/
def Property.view (p : Property) : Str × Str × Str := (p.name, p.sig, p.access)

structure SameDefinition (d r : Interface) : Prop where
  name : r.name = d.name
  /-- same methods: name, `sigIn`, `sigOut`, `nargs`, `nret` (all fields of `Method`) -/
  methods : ∀ n, dget Method.name r.methods n = dget Method.name d.methods n
  /-- same signals: name, signature, argument count -/
  signals : ∀ n, dget Signal.name r.signals n = dget Signal.name d.signals n
  /-- same properties: name, type, access -/
  properties : ∀ n, (dget Property.name r.properties n).map Property.view
                  = (dget Property.name d.properties n).map Property.view

/-- the objects and the cache a parse works on: heap of `DBusInterface` objects, `knownInterfaces`, and the
list of objects returned so far -/
structure World where
  heap : List Interface
  known : List (Str × Nat)
  interfaces : List Nat
  deriving DecidableEq, Repr

def HState.world (st : HState) : World := ⟨st.heap, st.known, st.interfaces⟩

/-- one `<interface>` element carrying definition `r` -/
def World.parseBlock (skipKnown : Bool) (w : World) (r : Interface) : World :=
  match kget? w.known r.name, skipKnown with
  | some id, true => { w with interfaces := w.interfaces ++ [id] }
  | _, _ => { heap := w.heap ++ [r], known := kset w.known r.name w.heap.length,
              interfaces := w.interfaces ++ [w.heap.length] }

def World.parseBlocks (skipKnown : Bool) (w : World) (rs : List Interface) : World :=
  rs.foldl (World.parseBlock skipKnown) w

end Txdbus.Intro
