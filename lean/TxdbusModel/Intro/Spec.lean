import TxdbusModel.Intro.Xml
import TxdbusModel.Gen.Validators
/-
Specification side of property C15, written from the property statement only:

* `SameDefinition d r`   - "an interface with the same name, the same methods with the same input and output
                           signatures and argument counts, the same signals, and the same properties with the
                           same type and access mode" (dicts compared as finite maps: lookup by name)
* `World.parseBlocks`    - what parsing a document with interface elements `rs` must do to the process-wide
                           cache: "interfaces already known locally are reused unless replacement is requested"
                           - a known name (and no replacement) yields the cached object and changes nothing;
                           otherwise a new object holding the definition is created and registered.
Core Lean only.
-/
namespace Txdbus.Intro

/-- type and access mode of a property (the change-notification mode is not part of the statement) -/
def Property.view (p : Property) : Str × Str × Str := (p.name, p.sig, p.access)

structure SameDefinition (d r : Interface) : Prop where
  name : r.name = d.name
  /-- same methods: name, `sigIn`, `sigOut`, `nargs`, `nret` (all fields of `Method`) -/
  methods : ∀ n, dget Method.name r.methods n = dget Method.name d.methods n
  /-- same signals: name, signature, argument count -/
  signals : ∀ n, dget Signal.name r.signals n = dget Signal.name d.signals n
  /-- same properties: name, type, access -/
  properties : ∀ n, (dget Property.name r.properties n).map Property.view
                  = (dget Property.name d.properties n).map Property.view

/-- element-wise `SameDefinition` of two lists of interfaces (same length, same order) -/
inductive SameDefinitions : List Interface → List Interface → Prop where
  | nil : SameDefinitions [] []
  | cons {d r : Interface} {ds rs : List Interface} :
      SameDefinition d r → SameDefinitions ds rs → SameDefinitions (d :: ds) (r :: rs)

/-- the objects and the cache a parse works on: heap of `DBusInterface` objects, `knownInterfaces`, and the
list of objects returned so far -/
structure World where
  heap : List Interface
  known : List (Str × Nat)
  interfaces : List Nat
  deriving DecidableEq, Repr

def HState.world (st : HState) : World := ⟨st.heap, st.known, st.interfaces⟩

/-- one `<interface>` element carrying definition `r` -/
def World.parseBlock (skipKnown : Bool) (w : World) (r : Interface) : World :=
  match kget? w.known r.name, skipKnown with
  | some id, true => { w with interfaces := w.interfaces ++ [id] }
  | _, _ => { heap := w.heap ++ [r], known := kset w.known r.name w.heap.length,
              interfaces := w.interfaces ++ [w.heap.length] }

def World.parseBlocks (skipKnown : Bool) (w : World) (rs : List Interface) : World :=
  rs.foldl (World.parseBlock skipKnown) w

/-! ## the text / event boundary: characters that can stand unescaped in an attribute value -/

/-- `c` may stand literally inside a double-quoted XML attribute value and is returned unchanged by the
parser: not `<`, `&`, `"` (which need escaping) and not TAB / LF / CR (which attribute-value normalisation
turns into spaces). -/
def attrSafe (c : Char) : Bool :=
  c != '<' && c != '&' && c != '"' && c != '\t' && c != '\n' && c != '\r'

/-- every attribute value of the event consists of such characters -/
def Event.attrsSafe : Event → Bool
  | .start _ a => a.all fun kv => kv.2.all attrSafe
  | .stop _ => true

/-- membership of a code point in a character class of `Gen/Validators.lean` (inclusive ranges) -/
def inRanges (rs : List (Nat × Nat)) (n : Nat) : Bool := rs.any fun r => r.1 ≤ n && n ≤ r.2

/-- all characters of `s` are listed in the class -/
def inClass (rs : List (Nat × Nat)) (s : Str) : Bool := s.all fun c => inRanges rs c.toNat

/-- An interface definition whose names pass the character classes of the validators of marshal.py
(`if_re` for the interface name, `mbr_re` for member names) and whose signatures are rendered lists of
complete types. -/
structure Interface.ValidNames (i : Interface) : Prop where
  name : inClass Gen.Validators.ifaceAllowed i.name = true
  methods : ∀ m ∈ i.methods, inClass Gen.Validators.memberAllowed m.name = true ∧
    ∃ ins outs : List Ty, m.sigIn = renderAll ins ∧ m.sigOut = renderAll outs
  signals : ∀ s ∈ i.signals, inClass Gen.Validators.memberAllowed s.name = true ∧
    ∃ ts : List Ty, s.sig = renderAll ts
  properties : ∀ p ∈ i.properties, inClass Gen.Validators.memberAllowed p.name = true ∧
    (∃ ts : List Ty, p.sig = renderAll ts) ∧
    (p.access = kRead ∨ p.access = kWrite ∨ p.access = kReadWrite) ∧ ∃ e : EmitsArg, p.emits = e.toEmits

/-! ## the domain of the statement: interface definitions with signatures from the type grammar -/

/-- An operation of the `DBusInterface` API with its signatures given as lists of complete types
(`Method(name, ''.join(ins), ''.join(outs))` etc.). -/
inductive DeclOp where
  | addMethod (name : Str) (ins outs : List Ty)
  | addSignal (name : Str) (args : List Ty)
  /-- `addMethod` of a `Method` OBJECT that was counted before: one instance shared by two interface
  definitions (already added elsewhere), so its `nargs`/`nret` are set and `addMethod` does not count again -/
  | addCountedMethod (name : Str) (ins outs : List Ty)
  /-- likewise for a shared `Signal` object -/
  | addCountedSignal (name : Str) (args : List Ty)
  | addProperty (name : Str) (ty : List Ty) (readable writeable : Bool) (emitsOnChange : EmitsArg)
  | delMethod (name : Str)
  | delSignal (name : Str)
  | delProperty (name : Str)
  /-- read `introspectionXml` in between (fills the `_xml` cache) -/
  | getXml

def DeclOp.toOp : DeclOp → Op
  | .addMethod n ins outs => .addMethod (Method.new n (renderAll ins) (renderAll outs))
  | .addSignal n ts => .addSignal (Signal.new n (renderAll ts))
  | .addCountedMethod n ins outs => .addMethod ⟨n, ins.length, outs.length, renderAll ins, renderAll outs⟩
  | .addCountedSignal n ts => .addSignal ⟨n, ts.length, renderAll ts⟩
  | .addProperty n ty r w e => .addProperty (Property.new n (renderAll ty) r w e)
  | .delMethod n => .delMethod n
  | .delSignal n => .delSignal n
  | .delProperty n => .delProperty n
  | .getXml => .getXml

/-- `DBusInterface(name)` followed by the operations; `none` when one of them raises (only a `del*` of an
absent member can) -/
def declare (name : Str) (ops : List DeclOp) : Except Err Cached :=
  (Cached.new name).applyAll (ops.map DeclOp.toOp)

/-- The standard interfaces `generateIntrospectionXML` appends to every exported object: the definitions
the text `_intro` of introspection.py describes (generated table `Gen/IntroStd.lean`), read off by parsing
that text on an empty cache.  At the pinned source: `org.freedesktop.DBus.Introspectable` (`Introspect -> s`),
`.Peer` (`Ping`), `.ObjectManager` (`GetManagedObjects -> a{oa{sa{sv}}}`).  That `_intro` is exactly what
`_getXml` would emit for these definitions is the table lemma `std_events`. -/
def stdIfaces : List Interface :=
  match getInterfaces [] [] true introEvents with
  | .ok st => st.result.filterMap id
  | .error _ => []

/-- the exporter's declaration for an object whose `getInterfaces()` yields `cs`: their definitions followed
by the standard three -/
def decl (cs : List Cached) : List Interface := cs.map (·.iface) ++ stdIfaces

/-- every interface of the object was built through the `DBusInterface` API with signatures from the type
grammar (any sequence of add / delete / read-XML operations) -/
def Declared (cs : List Cached) : Prop := ∀ c ∈ cs, ∃ name ops, declare name ops = .ok c


end Txdbus.Intro
