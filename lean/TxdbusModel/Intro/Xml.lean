import TxdbusModel.Sig.Split
import TxdbusModel.Gen.IntroStd
/-
Code model for property C15 (introspection XML round trip).

Mirrors, as written:
* txdbus/interface.py   `Method`, `Signal`, `Property` (constructor: access / emits decoding),
                        `DBusInterface` (`addMethod` / `addSignal` argument counting with the `-1` sentinel,
                        `addProperty`, `del*`, the `_xml` cache and `_getXml`)
* txdbus/introspection.py `generateIntrospectionXML`, `IntrospectionHandler`, `getInterfacesFromXML`
* txdbus/objects.py     the method lookup and argument-count check at the head of
                        `RemoteDBusObject.callRemote`

The boundary of the model is the SAX event level: `_getXml` / `generateIntrospectionXML` produce the list
of events (`startElement name attrs` / `endElement name`) that expat reports for the text they build
(attributes in document order; character data is ignored by the handler and is not an event here), and
`IntrospectionHandler` is a state machine over such events.  Text <-> events (expat, the DOCTYPE
stripping in `getInterfacesFromXML`) is outside the model and validated by the harness, which parses the
real text with xml.sax and compares the recorded events with `generate`'s.

Python objects and aliasing.  `DBusInterface` objects live in a heap (`List Interface`, object id =
index): the handler's `self.iface`, the elements of `self.interfaces` and the values of the global
`DBusInterface.knownInterfaces` are ids, so identity ("the known interface is reused") is observable.
Members (`Method`/`Signal`/`Property`) are kept by value inside their interface.  The handler's
`self.member` is also a value; the one aliasing this loses is a mutation of `self.member` (by `<arg>` /
`<annotation>`) *after* it was stored into an interface by `end_method` / `end_signal` / `end_property`
- such event sequences (not well nested) are answered `Err.unmodelled`, explicitly, as is storing a
member of the wrong kind into a dict (`</signal>` while the member is a `Method`), which Python permits.
Core Lean only.
-/
namespace Txdbus.Intro

abbrev Str := List Char

/-! ## String constants (element and attribute names, attribute values) -/

def kNode : Str := "node".toList
def kInterface : Str := "interface".toList
def kMethod : Str := "method".toList
def kSignal : Str := "signal".toList
def kProperty : Str := "property".toList
def kAnnotation : Str := "annotation".toList
def kArg : Str := "arg".toList
def kName : Str := "name".toList
def kType : Str := "type".toList
def kAccess : Str := "access".toList
def kDirection : Str := "direction".toList
def kValue : Str := "value".toList
def kIn : Str := "in".toList
def kOut : Str := "out".toList
def kRead : Str := "read".toList
def kWrite : Str := "write".toList
def kReadWrite : Str := "readwrite".toList
def kTrue : Str := "true".toList
def kFalse : Str := "false".toList
def kInvalidates : Str := "invalidates".toList
def kPyTrue : Str := "True".toList
def kPyFalse : Str := "False".toList

/-! ## interface.py: members -/

/-- `interface.Method` (`__slots__ = name, nargs, nret, sigIn, sigOut`); `nargs = -1` means "not counted yet". -/
structure Method where
  name : Str
  nargs : Int
  nret : Int
  sigIn : Str
  sigOut : Str
  deriving DecidableEq, Repr, Inhabited

/-- `Method(name, arguments, returns)`.  The `arguments.count('h') > 1` branch compares
`twisted.version.base()` with `'17.1.0'` and raises only on an older Twisted: not modelled (no effect on
the installed one). -/
def Method.new (name args rets : Str) : Method := ⟨name, -1, -1, args, rets⟩

/-- `interface.Signal` (`__slots__ = name, nargs, sig`). -/
structure Signal where
  name : Str
  nargs : Int
  sig : Str
  deriving DecidableEq, Repr, Inhabited

def Signal.new (name args : Str) : Signal := ⟨name, -1, args⟩

/-- The Python value of `Property.emits`: the constructor stores the *strings* 'true' / 'false' /
'invalidates'; `IntrospectionHandler.start_annotation` overwrites it with a *bool*. -/
inductive Emits where
  | str (s : Str)
  | bool (b : Bool)
  deriving DecidableEq, Repr, Inhabited

/-- `'%s' % (p.emits,)` -/
def Emits.fmt : Emits → Str
  | .str s => s
  | .bool true => kPyTrue
  | .bool false => kPyFalse

/-- `interface.Property` (`__slots__ = name, sig, access, emits`). -/
structure Property where
  name : Str
  sig : Str
  access : Str
  emits : Emits
  deriving DecidableEq, Repr, Inhabited

/-- The accepted values of the `emitsOnChange` constructor argument (`True`, `False`, `'invalidates'`;
anything else raises `TypeError` and no object exists). -/
inductive EmitsArg where
  | true | false | invalidates
  deriving DecidableEq, Repr, Inhabited

def EmitsArg.toEmits : EmitsArg → Emits
  | .true => .str kTrue
  | .false => .str kFalse
  | .invalidates => .str kInvalidates

/-- the `if writeable and not readable … elif writeable and readable … else` chain -/
def accessOf (readable writeable : Bool) : Str :=
  if writeable && !readable then kWrite
  else if writeable && readable then kReadWrite
  else kRead

/-- `Property(name, sig, readable, writeable, emitsOnChange)` -/
def Property.new (name sig : Str) (readable writeable : Bool) (e : EmitsArg) : Property :=
  ⟨name, sig, accessOf readable writeable, e.toEmits⟩

/-! ## Python `dict` keyed by the member's name

`self.methods[m.name] = m` etc.: every dict of a `DBusInterface` is keyed by the name its value carries,
so it is modelled as the list of values in insertion order; assigning an existing key keeps the position
and replaces the value (Python semantics). -/

def dget {α : Type} (nm : α → Str) : List α → Str → Option α
  | [], _ => none
  | x :: xs, k => if nm x = k then some x else dget nm xs k

def dset {α : Type} (nm : α → Str) : List α → α → List α
  | [], v => [v]
  | x :: xs, v => if nm x = nm v then v :: xs else x :: dset nm xs v

/-- `del d[k]`; `none` = `KeyError` -/
def ddel {α : Type} (nm : α → Str) : List α → Str → Option (List α)
  | [], _ => none
  | x :: xs, k => if nm x = k then some xs else (ddel nm xs k).map (x :: ·)

/-- Python `str` ordering: lexicographic by code point. -/
def strLe : Str → Str → Bool
  | [], _ => true
  | _ :: _, [] => false
  | a :: as, b :: bs => if a.toNat < b.toNat then true else if a = b then strLe as bs else false

def insertStr (x : Str) : List Str → List Str
  | [] => [x]
  | y :: ys => if strLe x y then x :: y :: ys else y :: insertStr x ys

/-- `sorted(keys)` (keys of a dict are pairwise distinct, so stability plays no role). -/
def sortStrs : List Str → List Str
  | [] => []
  | x :: xs => insertStr x (sortStrs xs)

/-- `k = sorted(d.keys()); (d[a] for a in k)` - the lookup cannot fail, every `a` is a key. -/
def sortedValues {α : Type} (nm : α → Str) (d : List α) : List α :=
  (sortStrs (d.map nm)).filterMap (dget nm d)

/-! ## Errors -/

inductive Err where
  /-- an exception out of `marshal.genCompleteTypes` (`TypeError` / `RuntimeError`) -/
  | split (e : SplitErr)
  /-- `KeyError`: a missing XML attribute (`attrs['name']`), `del` of an absent member -/
  | keyError
  /-- `AttributeError`: `self.iface` / `self.member` is `None`, or lacks the slot that is accessed -/
  | attributeError
  /-- `TypeError('Invalid interface argument: …')`: a positional argument of `DBusInterface(name, *args)` that is
  not a `Method` / `Signal` / `Property` instance (Intro/Registry.lean) -/
  | notMember
  /-- outside the model: see the header (aliased mutation of a stored member, wrong-kind member stored) -/
  | unmodelled
  deriving DecidableEq, Repr, Inhabited

def liftSplit {α : Type} : Except SplitErr α → Except Err α
  | .ok a => .ok a
  | .error e => .error (.split e)

/-! ## SAX events -/

inductive Event where
  /-- `startElement(name, attrs)`, attributes in document order -/
  | start (name : Str) (attrs : List (Str × Str))
  /-- `endElement(name)` -/
  | stop (name : Str)
  deriving DecidableEq, Repr, Inhabited

/-- `attrs[k]` (`none` = `KeyError`) -/
def attrGet? : List (Str × Str) → Str → Option Str
  | [], _ => none
  | (k', v) :: r, k => if k' = k then some v else attrGet? r k

/-! ## interface.py: `DBusInterface` -/

/-- The definition held by a `DBusInterface` object: `name`, `methods`, `signals`, `properties`. -/
structure Interface where
  name : Str
  methods : List Method
  signals : List Signal
  properties : List Property
  deriving DecidableEq, Repr, Inhabited

/-- `DBusInterface(name)` without members -/
def Interface.new (name : Str) : Interface := ⟨name, [], [], []⟩

/-- `addMethod`: counts the complete types of both signatures unless `nargs` was already set. -/
def Interface.addMethod (i : Interface) (m : Method) : Except Err Interface :=
  if m.nargs = -1 then
    match liftSplit (countCompleteTypes m.sigIn) with
    | .error e => .error e
    | .ok a =>
      match liftSplit (countCompleteTypes m.sigOut) with
      | .error e => .error e
      | .ok r =>
        let m' := { m with nargs := (a : Int), nret := (r : Int) }
        .ok { i with methods := dset Method.name i.methods m' }
  else .ok { i with methods := dset Method.name i.methods m }

def Interface.addSignal (i : Interface) (s : Signal) : Except Err Interface :=
  if s.nargs = -1 then
    match liftSplit (countCompleteTypes s.sig) with
    | .error e => .error e
    | .ok a => .ok { i with signals := dset Signal.name i.signals { s with nargs := (a : Int) } }
  else .ok { i with signals := dset Signal.name i.signals s }

def Interface.addProperty (i : Interface) (p : Property) : Interface :=
  { i with properties := dset Property.name i.properties p }

def Interface.delMethod (i : Interface) (n : Str) : Except Err Interface :=
  match ddel Method.name i.methods n with
  | none => .error .keyError
  | some d => .ok { i with methods := d }

def Interface.delSignal (i : Interface) (n : Str) : Except Err Interface :=
  match ddel Signal.name i.signals n with
  | none => .error .keyError
  | some d => .ok { i with signals := d }

def Interface.delProperty (i : Interface) (n : Str) : Except Err Interface :=
  match ddel Property.name i.properties n with
  | none => .error .keyError
  | some d => .ok { i with properties := d }

/-- `'      <arg direction="in" type="%s"/>'` (methods) / `'      <arg type="%s"/>'` (signals) -/
def argEvents (dir : Option Str) (t : Str) : List Event :=
  match dir with
  | some d => [.start kArg [(kDirection, d), (kType, t)], .stop kArg]
  | none => [.start kArg [(kType, t)], .stop kArg]

def argsEvents (dir : Option Str) : List Str → List Event
  | [] => []
  | t :: ts => argEvents dir t ++ argsEvents dir ts

/-- one `<method>` element of `_getXml` -/
def methodEvents (m : Method) : Except Err (List Event) :=
  match liftSplit (genCompleteTypes m.sigIn) with
  | .error e => .error e
  | .ok ins =>
    match liftSplit (genCompleteTypes m.sigOut) with
    | .error e => .error e
    | .ok outs =>
      .ok (.start kMethod [(kName, m.name)] ::
            (argsEvents (some kIn) ins ++ (argsEvents (some kOut) outs ++ [.stop kMethod])))

/-- one `<signal>` element of `_getXml` -/
def signalEvents (s : Signal) : Except Err (List Event) :=
  match liftSplit (genCompleteTypes s.sig) with
  | .error e => .error e
  | .ok ts => .ok (.start kSignal [(kName, s.name)] :: (argsEvents none ts ++ [.stop kSignal]))

/-- one `<property>` element of `_getXml` with its annotation -/
def propertyEvents (p : Property) : List Event :=
  [ .start kProperty [(kName, p.name), (kType, p.sig), (kAccess, p.access)],
    .start kAnnotation [(kName, Gen.IntroStd.annotationNameGen), (kValue, p.emits.fmt)],
    .stop kAnnotation,
    .stop kProperty ]

def methodsEvents : List Method → Except Err (List Event)
  | [] => .ok []
  | m :: ms =>
    match methodEvents m with
    | .error e => .error e
    | .ok a =>
      match methodsEvents ms with
      | .error e => .error e
      | .ok b => .ok (a ++ b)

def signalsEvents : List Signal → Except Err (List Event)
  | [] => .ok []
  | s :: ss =>
    match signalEvents s with
    | .error e => .error e
    | .ok a =>
      match signalsEvents ss with
      | .error e => .error e
      | .ok b => .ok (a ++ b)

def propertiesEvents : List Property → List Event
  | [] => []
  | p :: ps => propertyEvents p ++ propertiesEvents ps

/-- the members of one `<interface>` element, in the order of `_getXml`: methods, signals, properties,
each sorted by name -/
def memberEvents (i : Interface) : Except Err (List Event) :=
  match methodsEvents (sortedValues Method.name i.methods) with
  | .error e => .error e
  | .ok ms =>
    match signalsEvents (sortedValues Signal.name i.signals) with
    | .error e => .error e
    | .ok ss => .ok (ms ++ (ss ++ propertiesEvents (sortedValues Property.name i.properties)))

/-- The body of `_getXml` when `self._xml is None`: the events of the text it builds. -/
def ifaceEvents (i : Interface) : Except Err (List Event) :=
  match memberEvents i with
  | .error e => .error e
  | .ok body => .ok (.start kInterface [(kName, i.name)] :: (body ++ [.stop kInterface]))

/-- A `DBusInterface` object with its `_xml` cache (`none` = `None`). -/
structure Cached where
  iface : Interface
  xml : Option (List Event)
  deriving DecidableEq, Repr, Inhabited

def Cached.new (name : Str) : Cached := ⟨Interface.new name, none⟩

/-- operations of the public API of `DBusInterface`; every mutator ends with `self._xml = None` -/
inductive Op where
  | addMethod (m : Method)
  | addSignal (s : Signal)
  | addProperty (p : Property)
  | delMethod (n : Str)
  | delSignal (n : Str)
  | delProperty (n : Str)
  /-- read `introspectionXml` (fills the cache) -/
  | getXml
  deriving DecidableEq, Repr, Inhabited

/-- `_getXml`: the cached text if there is one -/
def Cached.getXml (c : Cached) : Except Err (List Event × Cached) :=
  match c.xml with
  | some x => .ok (x, c)
  | none =>
    match ifaceEvents c.iface with
    | .error e => .error e
    | .ok x => .ok (x, { c with xml := some x })

def Cached.apply (c : Cached) : Op → Except Err Cached
  | .addMethod m =>
    match c.iface.addMethod m with
    | .error e => .error e
    | .ok i => .ok ⟨i, none⟩
  | .addSignal s =>
    match c.iface.addSignal s with
    | .error e => .error e
    | .ok i => .ok ⟨i, none⟩
  | .addProperty p => .ok ⟨c.iface.addProperty p, none⟩
  | .delMethod n =>
    match c.iface.delMethod n with
    | .error e => .error e
    | .ok i => .ok ⟨i, none⟩
  | .delSignal n =>
    match c.iface.delSignal n with
    | .error e => .error e
    | .ok i => .ok ⟨i, none⟩
  | .delProperty n =>
    match c.iface.delProperty n with
    | .error e => .error e
    | .ok i => .ok ⟨i, none⟩
  | .getXml =>
    match c.getXml with
    | .error e => .error e
    | .ok (_, c') => .ok c'

def Cached.applyAll (c : Cached) : List Op → Except Err Cached
  | [] => .ok c
  | o :: os =>
    match c.apply o with
    | .error e => .error e
    | .ok c' => c'.applyAll os

/-! ## introspection.py: `generateIntrospectionXML` -/

def toEvent : Bool × List Char × List (List Char × List Char) → Event
  | (true, n, a) => .start n a
  | (false, n, _) => .stop n

/-- the events of `_intro` (from the generated table) -/
def introEvents : List Event := Gen.IntroStd.introEvents.map toEvent

/-- `exportedObjects.get(objectPath)`: the exported object is represented by its `getInterfaces()` -/
def exportedGet? : List (Str × List Cached) → Str → Option (List Cached)
  | [], _ => none
  | (p, o) :: r, k => if p = k then some o else exportedGet? r k

def endsWithSlash (p : Str) : Bool :=
  match p.getLast? with
  | some c => c == '/'
  | none => false

/-- `path[len(objectPath):].partition('/')[0]` -/
def firstElement (rest : Str) : Str := rest.takeWhile (· ≠ '/')

/-- the `matches` loop: distinct non-empty first path elements below `objectPath` (already ending in
'/'), in the iteration order of the dict (`if path and path not in matches`, after repair 054ae54: the
root object's own path leaves an empty remainder and is not a child) -/
def childMatches (prefixSlash : Str) : List Str → List Str → List Str
  | [], acc => acc
  | path :: ps, acc =>
    if prefixSlash.isPrefixOf path then
      let c := firstElement (path.drop prefixSlash.length)
      if c.isEmpty || c ∈ acc then childMatches prefixSlash ps acc else childMatches prefixSlash ps (acc ++ [c])
    else childMatches prefixSlash ps acc

def childEvents : List Str → List Event
  | [] => []
  | m :: ms => .start kNode [(kName, m)] :: .stop kNode :: childEvents ms

/-- `for i in obj.getInterfaces(): l.append(i.introspectionXml)` -/
def blocksEvents : List Cached → Except Err (List Event)
  | [] => .ok []
  | c :: cs =>
    match c.getXml with
    | .error e => .error e
    | .ok (x, _) =>
      match blocksEvents cs with
      | .error e => .error e
      | .ok r => .ok (x ++ r)

/-- `generateIntrospectionXML(objectPath, exportedObjects)`; `.ok none` = the function returns `None`. -/
def generate (objectPath : Str) (exported : List (Str × List Cached)) : Except Err (Option (List Event)) :=
  let obj := exportedGet? exported objectPath
  let pfx := if endsWithSlash objectPath then objectPath else objectPath ++ ['/']
  let matches_ := childMatches pfx (exported.map (·.1)) []
  let body : Except Err (List Event) :=
    match obj with
    | some ifs =>
      match blocksEvents ifs with
      | .error e => .error e
      | .ok b => .ok (b ++ introEvents)
    | none => .ok []
  match body with
  | .error e => .error e
  | .ok b =>
    if obj.isNone && matches_.isEmpty then .ok none
    else .ok (some (.start kNode [(kName, objectPath)] :: (b ++ (childEvents matches_ ++ [.stop kNode]))))

/-! ## introspection.py: `IntrospectionHandler` -/

/-- `self.member` -/
inductive Member where
  | none
  | method (m : Method)
  | signal (s : Signal)
  | property (p : Property)
  deriving DecidableEq, Repr, Inhabited

/-- The handler's fields plus the two pieces of global state it touches. -/
structure HState where
  /-- all `DBusInterface` objects; the object id is the index -/
  heap : List Interface
  /-- `DBusInterface.knownInterfaces`: insertion-ordered `name -> object id` -/
  known : List (Str × Nat)
  skipKnown : Bool
  /-- `self.interfaces` (object ids) -/
  interfaces : List Nat
  member : Member
  /-- ghost: `self.member` has been stored into an interface since it was created -/
  memberAdded : Bool
  /-- `self.isMethod` (`none` = `None`) -/
  isMethod : Option Bool
  /-- `self.iface` (object id) -/
  iface : Option Nat
  skip : Bool
  deriving DecidableEq, Repr, Inhabited

def kget? : List (Str × Nat) → Str → Option Nat
  | [], _ => none
  | (k', v) :: r, k => if k' = k then some v else kget? r k

def kset : List (Str × Nat) → Str → Nat → List (Str × Nat)
  | [], k, v => [(k, v)]
  | (k', v') :: r, k, v => if k' = k then (k', v) :: r else (k', v') :: kset r k v

/-- `IntrospectionHandler(replaceKnownInterfaces)` on a given heap and cache -/
def HState.init (heap : List Interface) (known : List (Str × Nat)) (replaceKnown : Bool) : HState :=
  { heap := heap, known := known, skipKnown := !replaceKnown, interfaces := [], member := .none,
    memberAdded := false, isMethod := none, iface := none, skip := false }

inductive Tag where
  | node | interface | method | signal | property | annotation | arg | other
  deriving DecidableEq, Repr

/-- which `start_<name>` / `end_<name>` attribute `getattr` finds -/
def tagOf (s : Str) : Tag :=
  if s = kNode then .node
  else if s = kInterface then .interface
  else if s = kMethod then .method
  else if s = kSignal then .signal
  else if s = kProperty then .property
  else if s = kAnnotation then .annotation
  else if s = kArg then .arg
  else .other

/-- `str.lower()` restricted to what matters for the comparison with 'read' / 'write' / 'readwrite':
ASCII letters (no other character lower-cases to a letter of these words). -/
def lowerChar (c : Char) : Char :=
  if 65 ≤ c.toNat ∧ c.toNat ≤ 90 then Char.ofNat (c.toNat + 32) else c

def lower (s : Str) : Str := s.map lowerChar

def startInterface (st : HState) (attrs : List (Str × Str)) : Except Err HState :=
  match attrGet? attrs kName with
  | none => .error .keyError
  | some iname =>
    match kget? st.known iname, st.skipKnown with
    | some id, true => .ok { st with skip := true, interfaces := st.interfaces ++ [id] }
    | _, _ =>
      -- `DBusInterface(iname)`: a new object, registered in `knownInterfaces` by the constructor
      let id := st.heap.length
      .ok { st with heap := st.heap ++ [Interface.new iname], known := kset st.known iname id,
                    iface := some id, interfaces := st.interfaces ++ [id] }

def startMethod (st : HState) (attrs : List (Str × Str)) : Except Err HState :=
  match attrGet? attrs kName with
  | none => .error .keyError
  | some n => .ok { st with member := .method ⟨n, 0, 0, [], []⟩, memberAdded := false, isMethod := some true }

def startSignal (st : HState) (attrs : List (Str × Str)) : Except Err HState :=
  match attrGet? attrs kName with
  | none => .error .keyError
  | some n => .ok { st with member := .signal ⟨n, 0, []⟩, memberAdded := false, isMethod := some false }

def startProperty (st : HState) (attrs : List (Str × Str)) : Except Err HState :=
  match attrGet? attrs kName with
  | none => .error .keyError
  | some name =>
    match attrGet? attrs kType with
    | none => .error .keyError
    | some sig =>
      match attrGet? attrs kAccess with
      | none => .error .keyError
      | some rw =>
        let l := lower rw
        -- `rw.lower() in ('read', 'readwrite')` / `in ('write', 'readwrite')`: the tuples come from the table
        let readable := Gen.IntroStd.readableWords.contains l
        let writeable := Gen.IntroStd.writeableWords.contains l
        .ok { st with member := .property (Property.new name sig readable writeable .true),
                      memberAdded := false, isMethod := some false }

def startAnnotation (st : HState) (attrs : List (Str × Str)) : Except Err HState :=
  match attrGet? attrs kName with
  | none => .error .keyError
  | some n =>
    if n = Gen.IntroStd.annotationName then
      match attrGet? attrs kValue with
      | none => .error .keyError
      | some v =>
        match st.member with
        | .property p =>
          if st.memberAdded then .error .unmodelled
          else .ok { st with member := .property { p with emits := .bool (Gen.IntroStd.emitsTrueWords.contains v) } }
        -- `None`, `Method` and `Signal` have no attribute / slot `emits`
        | _ => .error .attributeError
    else .ok st

def startArg (st : HState) (attrs : List (Str × Str)) : Except Err HState :=
  match attrGet? attrs kType with
  | none => .error .keyError
  | some t =>
    if st.isMethod = some true then
      match attrGet? attrs kDirection with
      | none => .error .keyError
      | some d =>
        match st.member with
        | .method m =>
          if st.memberAdded then .error .unmodelled
          else if d = kIn then
            .ok { st with member := .method { m with nargs := m.nargs + 1, sigIn := m.sigIn ++ t } }
          else
            .ok { st with member := .method { m with nret := m.nret + 1, sigOut := m.sigOut ++ t } }
        -- unreachable: `isMethod` is `True` only while the member is a `Method`
        | _ => .error .unmodelled
    else
      match st.member with
      | .signal s =>
        if st.memberAdded then .error .unmodelled
        else .ok { st with member := .signal { s with nargs := s.nargs + 1, sig := s.sig ++ t } }
      -- `None` has no `nargs`; `Property` has no slot `nargs`
      | .none => .error .attributeError
      | .property _ => .error .attributeError
      -- unreachable: a `Method` member comes with `isMethod = True`
      | .method _ => .error .unmodelled

def heapUpdate (st : HState) (id : Nat) (f : Interface → Except Err Interface) : Except Err HState :=
  match st.heap[id]? with
  | none => .error .unmodelled      -- unreachable: `self.iface` is always an allocated object
  | some i =>
    match f i with
    | .error e => .error e
    | .ok i' => .ok { st with heap := st.heap.set id i', memberAdded := true }

def endMethod (st : HState) : Except Err HState :=
  match st.iface with
  | none => .error .attributeError
  | some id =>
    match st.member with
    | .method m => heapUpdate st id (·.addMethod m)
    | .none => .error .attributeError          -- `m.nargs` on `None`
    | .property _ => .error .attributeError    -- `Property` has no slot `nargs`
    | .signal _ => .error .unmodelled          -- Python stores the `Signal` in `methods`

def endSignal (st : HState) : Except Err HState :=
  match st.iface with
  | none => .error .attributeError
  | some id =>
    match st.member with
    | .signal s => heapUpdate st id (·.addSignal s)
    | .none => .error .attributeError
    | .property _ => .error .attributeError
    | .method _ => .error .unmodelled

def endProperty (st : HState) : Except Err HState :=
  match st.iface with
  | none => .error .attributeError
  | some id =>
    match st.member with
    | .property p => heapUpdate st id (fun i => .ok (i.addProperty p))
    | .none => .error .attributeError          -- `p.name` on `None`
    | .method _ => .error .unmodelled
    | .signal _ => .error .unmodelled

/-- `startElement` -/
def startElement (st : HState) (name : Str) (attrs : List (Str × Str)) : Except Err HState :=
  if st.skip then .ok st
  else
    match tagOf name with
    | .node => .ok st
    | .interface => startInterface st attrs
    | .method => startMethod st attrs
    | .signal => startSignal st attrs
    | .property => startProperty st attrs
    | .annotation => startAnnotation st attrs
    | .arg => startArg st attrs
    | .other => .ok st

/-- `endElement` -/
def endElement (st : HState) (name : Str) : Except Err HState :=
  if st.skip && name != kInterface then .ok st
  else
    match tagOf name with
    | .interface => .ok { st with skip := false }
    | .method => endMethod st
    | .signal => endSignal st
    | .property => endProperty st
    | _ => .ok st

def step (st : HState) : Event → Except Err HState
  | .start n a => startElement st n a
  | .stop n => endElement st n

/-- the parse: events in document order; an exception aborts it -/
def run (st : HState) : List Event → Except Err HState
  | [] => .ok st
  | e :: es =>
    match step st e with
    | .error err => .error err
    | .ok st' => run st' es

/-- `getInterfacesFromXML` at the event level: final state (its `interfaces` are the returned list,
its `known` / `heap` the global cache afterwards). -/
def getInterfaces (heap : List Interface) (known : List (Str × Nat)) (replaceKnown : Bool)
    (events : List Event) : Except Err HState :=
  run (HState.init heap known replaceKnown) events

/-- the returned `DBusInterface` objects by value -/
def HState.result (st : HState) : List (Option Interface) := st.interfaces.map (st.heap[·]?)

/-! ## objects.py: head of `RemoteDBusObject.callRemote` -/

inductive CallCheck where
  /-- `AttributeError`: not a member of any of the supported interfaces -/
  | noSuchMethod
  /-- `TypeError`: wrong number of arguments -/
  | wrongCount
  /-- the call is sent: interface name, `signature=m.sigIn`, `returnSignature=m.sigOut` -/
  | sent (iface : Str) (sigIn sigOut : Str)
  deriving DecidableEq, Repr

/-- the `for i in self.interfaces` loop: the first interface (matching the `interface=` keyword if it is
given and non-empty) that has the method -/
def findMethod (filter : Option Str) (methodName : Str) : List Interface → Option (Str × Method)
  | [] => none
  | i :: is =>
    let skipIt := match filter with
      | some f => !f.isEmpty && f != i.name
      | none => false
    if skipIt then findMethod filter methodName is
    else
      match dget Method.name i.methods methodName with
      | some m => some (i.name, m)
      | none => findMethod filter methodName is

def callCheck (ifaces : List Interface) (filter : Option Str) (methodName : Str) (nargs : Nat) : CallCheck :=
  match findMethod filter methodName ifaces with
  | none => .noSuchMethod
  | some (iname, m) =>
    if (nargs : Int) ≠ m.nargs then .wrongCount else .sent iname m.sigIn m.sigOut

end Txdbus.Intro
