import TxdbusModel.Intro.Xml
/-
Code model for property C15, process level: the operations of ONE process that touch the process-wide table
`DBusInterface.knownInterfaces`, as a history.

Mirrors, as written:
* txdbus/interface.py   `DBusInterface.__init__(self, name, *args, **kwargs)`: the `for x in args` loop
                        (`addMethod` / `addSignal` / `addProperty`, `raise TypeError` for anything else) and, AFTER
                        the loop, `if 'noRegister' not in kwargs: self.knownInterfaces[name] = self`.
                        An exception out of the loop (a non-member argument; `marshal.genCompleteTypes` raising on
                        a malformed signature inside `addMethod` / `addSignal`) leaves `__init__` before the
                        registration line: nothing was stored, the half-built object is unreachable.
* txdbus/introspection.py `getInterfacesFromXML`: the handler run of Intro/Xml.lean on the current heap and
                        table; what it allocated and registered stays (also when the parse raises: the state at the
                        point of the exception is what the process goes on with).
Core Lean only.
-/
namespace Txdbus.Intro

/-- one positional argument of `DBusInterface(name, *args)` -/
inductive CtorArg where
  | method (m : Method)
  | signal (s : Signal)
  | property (p : Property)
  /-- anything that is not a `Method` / `Signal` / `Property` instance (a tuple, a string, `None`, …) -/
  | other
  deriving DecidableEq, Repr, Inhabited

/-- the `for x in args` loop of `DBusInterface.__init__`; an exception ends it -/
def ctorLoop (i : Interface) : List CtorArg → Except Err Interface
  | [] => .ok i
  | .method m :: r =>
    match i.addMethod m with
    | .error e => .error e
    | .ok i' => ctorLoop i' r
  | .signal s :: r =>
    match i.addSignal s with
    | .error e => .error e
    | .ok i' => ctorLoop i' r
  | .property p :: r => ctorLoop (i.addProperty p) r
  | .other :: _ => .error .notMember

/-- What is shared by everything that runs in the process: the `DBusInterface` objects (object id = index) and
`DBusInterface.knownInterfaces` (insertion-ordered `name -> object id`). -/
structure Proc where
  heap : List Interface
  known : List (Str × Nat)
  deriving DecidableEq, Repr, Inhabited

/-- `DBusInterface(name, *args)` (`register = true`) / `DBusInterface(name, *args, noRegister=True)`:
the exception or the id of the new object, and the process afterwards.  The registration is the LAST statement
of `__init__`: when the loop raises, the table is what it was. -/
def Proc.construct (w : Proc) (name : Str) (args : List CtorArg) (register : Bool) : Except Err Nat × Proc :=
  match ctorLoop (Interface.new name) args with
  | .error e => (.error e, w)
  | .ok i =>
    (.ok w.heap.length,
     { heap := w.heap ++ [i], known := if register then kset w.known name w.heap.length else w.known })

/-- the parse that keeps the handler state it had when an exception ended it (`none` = parsed to the end) -/
def runKeep (st : HState) : List Event → HState × Option Err
  | [] => (st, none)
  | e :: es =>
    match step st e with
    | .error err => (st, some err)
    | .ok st' => runKeep st' es

/-- `getInterfacesFromXML(text, replace)` seen from the process: the handler state at the end (or at the
exception) - its heap and table are the process' from then on -/
def Proc.parse (w : Proc) (replace : Bool) (events : List Event) : HState × Option Err :=
  runKeep (HState.init w.heap w.known replace) events

/-- an operation of the history of one process -/
inductive ProcOp where
  /-- `try: DBusInterface(name, *args[, noRegister=True])  except Exception: pass` - the caller carries on -/
  | construct (name : Str) (args : List CtorArg) (register : Bool)
  /-- `try: getInterfacesFromXML(text, replace)  except Exception: pass`, the text given by the events the
  handler receives (for a text that is not well formed: the events before the parser gives up) -/
  | parse (replace : Bool) (events : List Event)
  deriving DecidableEq, Repr, Inhabited

def Proc.step (w : Proc) : ProcOp → Proc
  | .construct n a r => (w.construct n a r).2
  | .parse r evs => let st := (w.parse r evs).1; ⟨st.heap, st.known⟩

/-- the process after a history -/
def Proc.runAll (w : Proc) (ops : List ProcOp) : Proc := ops.foldl Proc.step w

/-! ## specification vocabulary (from the property text: "interfaces already known locally")

An interface is known locally when it was declared in this process - a `DBusInterface(...)` call that RETURNED
(without `noRegister`) - or read from introspection XML by an earlier parse.  A declaration that raised declared
nothing. -/

/-- the event opens an `<interface>` element of this name -/
def Event.Names (name : Str) (e : Event) : Prop :=
  ∃ attrs, e = .start kInterface attrs ∧ attrGet? attrs kName = some name

/-- the operation makes an interface of this name known: a registering construction that completes, or a parse
of a document with an `<interface>` element of that name -/
def ProcOp.MakesKnown (name : Str) : ProcOp → Prop
  | .construct n args register =>
    n = name ∧ register = true ∧ ∃ i, ctorLoop (Interface.new n) args = .ok i
  | .parse _ evs => ∃ e ∈ evs, e.Names name

/-- a construction that raises (whatever it asked for), or one that asked not to be registered -/
def ProcOp.DeclaresNothing : ProcOp → Prop
  | .construct n args register =>
    register = false ∨ ∃ e, ctorLoop (Interface.new n) args = .error e
  | .parse _ _ => False

end Txdbus.Intro
