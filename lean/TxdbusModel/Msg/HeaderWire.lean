import TxdbusModel.Sig.Ty
import TxdbusModel.Wire.Prim
import TxdbusModel.Wire.Utf8
/-
C03 SPEC, header-field array: the fragment of the DBus wire format that the header of a message
needs - the array `a(yv)` of (field code, variant) structs whose variants hold a value of one of the
13 basic types - written from the DBus specification ("Marshaling (Wire Format)", "Message Format")
and from nothing in txdbus.  An encoder for either byte order and a STRICT decoder (every padding
byte zero, booleans 0/1, strings NUL-terminated without inner NUL and valid UTF-8, signatures
ASCII, one-character variant signatures naming a basic type).  The round trip is proved in
Proofs/Msg/HeaderWire.lean.

Rules used (specification):
  * a struct starts on an 8-byte boundary (counted from the start of the message);
  * BYTE: 1 byte, alignment 1;  VARIANT: SIGNATURE of one complete type, then the value aligned to
    its own alignment;  SIGNATURE: one length byte, the characters, one NUL, alignment 1;
  * fixed-size types y b n q i u x t d h: 1 4 2 2 4 4 8 8 8 4 bytes, aligned to their size;
  * STRING / OBJECT_PATH: UINT32 byte length, UTF-8 bytes, one NUL, alignment 4.
A value is kept at the level of the wire: a fixed-size value is the unsigned integer its bytes denote
(two's complement, IEEE-754 pattern and descriptor index are interpretations of it), a string-like
value is its text.  Core Lean only.
-/
namespace Txdbus.Msg

/-- Alignment of the basic types (specification table). -/
def specAlign : Basic → Nat
  | .y => 1 | .b => 4 | .n => 2 | .q => 2 | .i => 4 | .u => 4 | .x => 8 | .t => 8 | .d => 8
  | .s => 4 | .o => 4 | .g => 1 | .h => 4

/-- Size of the fixed-size basic types (0 for the three string-like types). -/
def fixedSize : Basic → Nat
  | .y => 1 | .b => 4 | .n => 2 | .q => 2 | .i => 4 | .u => 4 | .x => 8 | .t => 8 | .d => 8
  | .h => 4 | .s => 0 | .o => 0 | .g => 0

/-- STRING, OBJECT_PATH, SIGNATURE. -/
def isText : Basic → Bool
  | .s => true | .o => true | .g => true | _ => false

/-- The value inside the variant of a header field (basic types only). -/
inductive HVal where
  | num (c : Basic) (raw : Nat)        -- fixed-size type `c`; `raw` = the bytes read as an unsigned integer
  | text (c : Basic) (s : List Char)   -- `s`, `o` or `g`
  deriving DecidableEq, Repr, Inhabited

def HVal.ty : HVal → Basic
  | .num c _ => c
  | .text c _ => c

/-- The NUL character. -/
def nul : Char := Char.ofNat 0

/-- Is the value one the wire format can carry: the right kind for its type, in range, a boolean 0/1,
text without NUL whose UTF-8 length fits the length field, a signature ASCII only. -/
def HVal.wf : HVal → Bool
  | .num c raw => !isText c && decide (raw < 256 ^ fixedSize c) && (c != .b || decide (raw ≤ 1))
  | .text c s =>
    isText c && !s.contains nul &&
    (if c = .g then s.all (fun ch => decide (ch.toNat < 128)) && decide (s.length < 256)
     else decide ((utf8Encode s).length < 4294967296))

/-- A header field: code and value. -/
abbrev Field := Nat × HVal

def Field.wf (f : Field) : Bool := decide (f.1 < 256) && f.2.wf

def sigByte (c : Basic) : UInt8 := UInt8.ofNat c.code.toNat

/-! ### Encoder -/

/-- The value without padding. -/
def encValue (e : Endian) : HVal → Bytes
  | .num c raw => encUInt e (fixedSize c) raw
  | .text c s =>
    let b := utf8Encode s
    encUInt e (if c = .g then 1 else 4) b.length ++ b ++ [0]

/-- A variant whose first byte is at offset `off`: signature (length 1, the type code, NUL), padding
to the alignment of the type, the value. -/
def encVariant (e : Endian) (off : Nat) (v : HVal) : Bytes :=
  [1, sigByte v.ty, 0] ++ zeros (padLen (specAlign v.ty) (off + 3)) ++ encValue e v

/-- One struct `(yv)` with its leading padding to the 8-byte boundary; `off` is where the padding starts. -/
def encField (e : Endian) (off : Nat) (f : Field) : Bytes :=
  zeros (padLen 8 off) ++ (UInt8.ofNat f.1 :: encVariant e (off + padLen 8 off + 1) f.2)

/-- The elements of the header array, the first one starting at offset `off`. -/
def encFields (e : Endian) : Nat → List Field → Bytes
  | _, [] => []
  | off, f :: fs => encField e off f ++ encFields e (off + (encField e off f).length) fs

/-! ### Strict decoder (parser style: unread bytes, offset of the first of them) -/

/-- Skip padding up to a multiple of `a`; the bytes must exist and be zero. -/
def skipZeros (a : Nat) (bs : Bytes) (off : Nat) : Option (Bytes × Nat) :=
  let p := padLen a off
  if p ≤ bs.length ∧ (bs.take p).all (· == 0) then some (bs.drop p, off + p) else none

def takeExact (n : Nat) (bs : Bytes) : Option (Bytes × Bytes) :=
  if n ≤ bs.length then some (bs.take n, bs.drop n) else none

/-- A value of basic type `c` (already aligned): the value, the unread bytes, the number of bytes read. -/
def decValue (e : Endian) (c : Basic) (bs : Bytes) : Option (HVal × Bytes × Nat) :=
  if isText c then
    match takeExact (if c = .g then 1 else 4) bs with
    | some (w, r) =>
      match takeExact (decUInt e w) r with
      | some (sb, r1) =>
        match r1 with
        | 0 :: r2 =>
          match utf8Decode sb with
          | some s => if (HVal.text c s).wf then some (.text c s, r2, w.length + sb.length + 1) else none
          | none => none
        | _ => none
      | none => none
    | none => none
  else
    match takeExact (fixedSize c) bs with
    | some (w, r) => if (HVal.num c (decUInt e w)).wf then some (.num c (decUInt e w), r, w.length) else none
    | none => none

/-- A variant holding a value of a basic type. -/
def decVariant (e : Endian) (bs : Bytes) (off : Nat) : Option (HVal × Bytes × Nat) :=
  match bs with
  | 1 :: cb :: 0 :: r =>
    match Basic.ofCode? (Char.ofNat cb.toNat) with
    | some c =>
      match skipZeros (specAlign c) r (off + 3) with
      | some (r1, off1) =>
        match decValue e c r1 with
        | some (v, r2, n) => some (v, r2, off1 + n)
        | none => none
      | none => none
    | none => none
  | _ => none

def decField (e : Endian) (bs : Bytes) (off : Nat) : Option (Field × Bytes × Nat) :=
  match skipZeros 8 bs off with
  | some (code :: r, off1) =>
    match decVariant e r (off1 + 1) with
    | some (v, r1, off2) => some ((code.toNat, v), r1, off2)
    | none => none
  | _ => none

/-- Decode fields until the offset `stop` is reached exactly (`fuel` ≥ the number of fields + 1). -/
def decFields (e : Endian) : Nat → Bytes → Nat → Nat → Option (List Field × Bytes)
  | 0, _, _, _ => none
  | fuel + 1, bs, off, stop =>
    if off = stop then some ([], bs)
    else if stop < off then none
    else
      match decField e bs off with
      | some (f, r, off1) =>
        match decFields e fuel r off1 stop with
        | some (fs, r1) => some (f :: fs, r1)
        | none => none
      | none => none

end Txdbus.Msg
