import TxdbusModel.Msg.Message
import TxdbusModel.Wire.Code
import TxdbusModel.Wire.ToSpec
/-
C03 composed with C01: the `BodyCodec` that txdbus itself uses - the code model of `marshal.marshal` /
`marshal.unmarshal` (Wire/Code.lean, C01/C02) at the offsets message.py calls them with:

  * `_marshal`:      `marshal.marshal(self.signature, self.body, oobFDs=oobFDs)`  - startByte 0, little endian
                     (the body starts on an 8-byte boundary after the padded header, so offsets inside the body
                     counted from 0 have the alignment they have in the message);
  * `parseMessage`:  `marshal.unmarshal(m.signature, m.rawBody, lendian=lendian, oobFDs=oobFDs)` - offset 0 of
                     `rawBody`, the byte order of the message.
`fuel` is the step budget of the code model (nesting depth of the values; `Code.marshal` / `Code.unmarshal`).
A body is the Python `variableList` (`None` when the `body` argument is None); a decoded body is the list of
values `unmarshal` returns.  Core Lean only.
-/
namespace Txdbus.Msg

def wireCodec (fuel : Nat) : BodyCodec PyVal where
  marshal := fun sg body fds =>
    match Code.marshal fuel sg (body.getD .none) 0 true fds with
    | .ok (_, bs, fds') => .ok (bs, fds')
    | .error e => .error e
  unmarshal := fun sg raw le fds =>
    match Code.unmarshal fuel sg raw 0 le fds with
    | .ok (_, vals) => .ok (.list vals)
    | .error e => .error e

/-- `Code.toSpecTop` for a `marshal()` call WITHOUT a descriptor list (`oobFDs=None`: what `MethodReturnMessage`,
`ErrorMessage`, `SignalMessage` and a default `MethodCallMessage` pass): the spec values the body denotes, read with
`fd = false` (an `h` anywhere does not conform).  Executable premise of `parse_marshal_c01_checked_none`; the driver
certifies generated cases with it. -/
def toSpecTopNoFd (fuel : Nat) (ts : List Ty) (pv : PyVal) : Option (List Val) :=
  match Code.toSpecStructFields pv with
  | some items => (Code.toSpecFields fuel false ts items []).map (·.1)
  | none => none

end Txdbus.Msg
