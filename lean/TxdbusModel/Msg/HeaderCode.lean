import TxdbusModel.Sig.Ty
import TxdbusModel.Wire.Prim
import TxdbusModel.Wire.Utf8
import TxdbusModel.Wire.PyVal
import TxdbusModel.Wire.Infer
import TxdbusModel.Valid.Names
/-
C03 CODE MODEL, header codec: `marshal.marshal('yyyyuua(yv)', [...])` and
`marshal.unmarshal('yyyyuua(yv)', data, 0, lendian, oobFDs)` of txdbus/marshal.py as the code is
written, specialised to the header signature and to variants that hold a value of a basic type
(what message.py puts into and expects from a header; the general codec is C01/C02's Wire/Code).

Mirrored as written:
  * `marshal()`: for every (complete type, value): padding `pad[tcode](startByte)`, then the
    per-type marshaller at the padded offset; it returns `(startByte - bstart, chunks)`.  Since repair
    bf83351 (C10-03) `marshal()` raises MarshallingError when the number of values differs from the number
    of complete types; the header call passes exactly 7 values for `yyyyuua(yv)` and exactly 2 per `(yv)`
    (`[code, hval]`), so neither check can fire here - the fixed arities are in the shape of
    `marshalHeader` / `marshalStructYV`;
  * per-type marshallers return `(nbytes, chunks)` where `nbytes` is computed separately from the
    chunks (`4 + len(var) + 1`, `2 + len(var)`, ...) - the model keeps both;
  * `marshal_variant`: `sigFromPy(var)` (model of C19), `marshal_signature`, padding for
    `vsig[0]`, then `marshal(vsig, [var], start_byte, lendian)` (which pads once more);
  * `marshal_array`: length word first in the chunk list, `initial_padding`, per item padding counted
    in `data_len`;  `marshal_struct` = `marshal(ct[1:-1], var, ...)`;
  * `struct.pack` range errors are `struct.error`; `marshal_string` refuses non-str and NUL with
    MarshallingError; `marshal_object_path` runs `validateObjectPath` (model of C18) first;
    `marshal_signature` encodes ASCII (UnicodeEncodeError) and packs the length into one byte;
  * `unmarshal()`: `offset += len(pad[tcode](offset))` (nothing is checked about the skipped bytes),
    then the per-type unmarshaller; `struct.unpack_from` raises struct.error when fewer bytes are
    left than the format needs; slices clamp; the NUL terminators are skipped, not checked;
  * `unmarshal_array`: the loop runs while `offset < end_offset`, then `offset == end_offset` or
    MarshallingError.
The reader is written parser style: state = (absolute offset, `data[offset:]`).

Outside the fragment (reported as `PyErr.other`, never produced by message.py's own headers): a
variant whose inferred / received signature is not exactly one basic type code (a first character
that is no type code at all is the KeyError of `pad[vsig[0]]`).
Core Lean only.
-/
namespace Txdbus.Msg

/-- `(nbytes, b''.join(chunks))` of a marshaller. -/
abbrev MRes := Except PyErr (Nat × Bytes)

/-- `lendian and '<X' or '>X'` -/
def endianOf (lendian : Bool) : Endian := if lendian then .little else .big

/-- `struct.pack('<B', n)` -/
def packB (n : Int) : Except PyErr Bytes :=
  if 0 ≤ n ∧ n < 256 then .ok [UInt8.ofNat n.toNat] else .error .struct

/-- `struct.pack(lendian and '<I' or '>I', n)`: `0 <= n <= 4294967295` or struct.error.  (The upper bound
is tested on `n.toNat`: for a symbolic `n` the kernel cannot reduce an `Int` comparison with a large
literal, it can reduce the `Nat` one.) -/
def packI (le : Bool) (n : Int) : Except PyErr Bytes :=
  if 0 ≤ n ∧ n.toNat < 4294967296 then .ok (encUInt (endianOf le) 4 n.toNat) else .error .struct

/-- `marshal_byte`: `1, [struct.pack('<B', var)]`; a non-integer makes `struct.pack` raise. -/
def marshalByte (var : PyVal) : MRes :=
  match var.asInt? with
  | some n => match packB n with
    | .ok b => .ok (1, b)
    | .error x => .error x
  | none => .error .struct

/-- `marshal_uint32`: `4, [struct.pack('<I', var)]`. -/
def marshalUInt32 (le : Bool) (var : PyVal) : MRes :=
  match var.asInt? with
  | some n => match packI le n with
    | .ok b => .ok (4, b)
    | .error x => .error x
  | none => .error .struct

/-- `marshal_string` -/
def marshalString (le : Bool) (var : PyVal) : MRes :=
  match var with
  | .str _ s =>
    if s.contains (Char.ofNat 0) then .error .marshalling
    else
      let b := utf8Encode s
      match packI le b.length with
      | .ok l => .ok (4 + b.length + 1, l ++ b ++ [0])
      | .error x => .error x
  | _ => .error .marshalling

/-- `validateObjectPath(var)` applied to a Python value: a non-str has no `startswith`. -/
def validatePathVal (var : PyVal) : Except PyErr Unit :=
  match var with
  | .str _ s =>
    match Valid.validateObjectPath s with
    | .accept => .ok ()
    | .raised _ => .error .marshalling
  | _ => .error .attribute

/-- `marshal_object_path` -/
def marshalObjectPath (le : Bool) (var : PyVal) : MRes :=
  match validatePathVal var with
  | .ok () => marshalString le var
  | .error x => .error x

/-- `marshal_signature`: `var = codecs.encode(var, 'ascii')`; `2 + len(var), [pack('B', len(var)), var, b'\0']`. -/
def marshalSignature (var : PyVal) : MRes :=
  match var with
  | .str _ s =>
    match asciiEncode s with
    | some b =>
      match packB b.length with
      | .ok l => .ok (2 + b.length, l ++ b ++ [0])
      | .error x => .error x
    | none => .error .unicode
  | _ => .error .type

/-- `marshallers[tcode](ct, var, start_byte, lendian, oobFDs)` for the type codes of the fragment. -/
def marshalBasic (le : Bool) (tcode : Char) (var : PyVal) : MRes :=
  if tcode = 'y' then marshalByte var
  else if tcode = 'u' then marshalUInt32 le var
  else if tcode = 's' then marshalString le var
  else if tcode = 'o' then marshalObjectPath le var
  else if tcode = 'g' then marshalSignature var
  else .error .other

/-- `marshal(vsig, [var], startByte, lendian)` for a one-character signature of the fragment:
one iteration of the loop (padding, marshaller), result `(startByte - bstart, chunks)`. -/
def marshalOne (A : Char → Nat) (le : Bool) (tcode : Char) (var : PyVal) (startByte : Nat) : MRes :=
  let p := padLen (A tcode) startByte
  match marshalBasic le tcode var with
  | .ok (n, b) => .ok (p + n, zeros p ++ b)
  | .error x => .error x

/-- `marshal_variant(ct, var, start_byte, lendian, oobFDs)` -/
def marshalVariant (A : Char → Nat) (le : Bool) (var : PyVal) (startByte : Nat) : MRes :=
  match sigFromPy var with
  | .error x => .error x
  | .ok vsig =>
    match marshalSignature (.str .plain vsig) with
    | .error x => .error x
    | .ok (nbytes, chunks) =>
      match vsig with
      | [] => .error .index                     -- vsig[0]
      | [c0] =>
        let sb := startByte + nbytes
        let p := padLen (A c0) sb
        match marshalOne A le c0 var (sb + p) with
        | .ok (rn, rb) => .ok (sb + p + rn - startByte, chunks ++ zeros p ++ rb)
        | .error x => .error x
      | _ => .error .other                      -- outside the fragment

/-- `marshal_struct('(yv)', [code, hval], start_byte, …)` = `marshal('yv', [code, hval], start_byte, …)`. -/
def marshalStructYV (A : Char → Nat) (le : Bool) (code : PyVal) (hval : PyVal) (startByte : Nat) : MRes :=
  let p1 := padLen (A 'y') startByte
  match marshalByte code with
  | .error x => .error x
  | .ok (n1, b1) =>
    let sb := startByte + p1 + n1
    let p2 := padLen (A 'v') sb
    match marshalVariant A le hval (sb + p2) with
    | .error x => .error x
    | .ok (n2, b2) => .ok (sb + p2 + n2 - startByte, zeros p1 ++ b1 ++ zeros p2 ++ b2)

/-- The item loop of `marshal_array` for element type `(yv)`: returns `(data_len, chunks after the
initial padding)`; `startByte` is the running `start_byte`. -/
def marshalItems (A : Char → Nat) (le : Bool) : List (PyVal × PyVal) → Nat → MRes
  | [], _ => .ok (0, [])
  | (code, hval) :: rest, startByte =>
    let p := padLen (A '(') startByte
    match marshalStructYV A le code hval (startByte + p) with
    | .error x => .error x
    | .ok (n, b) =>
      match marshalItems A le rest (startByte + p + n) with
      | .error x => .error x
      | .ok (dl, bs) => .ok (p + n + dl, zeros p ++ b ++ bs)

/-- `marshal_array('a(yv)', headers, start_byte, …)` -/
def marshalArrayYV (A : Char → Nat) (le : Bool) (headers : List (PyVal × PyVal)) (startByte : Nat) : MRes :=
  let sb := startByte + 4
  let ip := padLen (A '(') sb
  match marshalItems A le headers (sb + ip) with
  | .error x => .error x
  | .ok (dataLen, chunks) =>
    match packI le dataLen with
    | .error x => .error x
    | .ok l => .ok (4 + ip + dataLen, l ++ zeros ip ++ chunks)

/-- One iteration of `marshal()`'s loop on the accumulated `(startByte, chunks)`. -/
def mstep (A : Char → Nat) (tcode : Char) (f : Nat → MRes) (st : Nat × Bytes) : Except PyErr (Nat × Bytes) :=
  let p := padLen (A tcode) st.1
  match f (st.1 + p) with
  | .error x => .error x
  | .ok (n, b) => .ok (st.1 + p + n, st.2 ++ zeros p ++ b)

/-- `b''.join(marshal.marshal('yyyyuua(yv)', [endian, type, flags, version, bodyLength, serial, headers],
lendian=…)[1])` -/
def marshalHeader (A : Char → Nat) (le : Bool) (endian mtype flags version bodyLength serial : PyVal)
    (headers : List (PyVal × PyVal)) : Except PyErr Bytes :=
  match mstep A 'y' (fun _ => marshalByte endian) (0, []) with
  | .error x => .error x
  | .ok s1 =>
  match mstep A 'y' (fun _ => marshalByte mtype) s1 with
  | .error x => .error x
  | .ok s2 =>
  match mstep A 'y' (fun _ => marshalByte flags) s2 with
  | .error x => .error x
  | .ok s3 =>
  match mstep A 'y' (fun _ => marshalByte version) s3 with
  | .error x => .error x
  | .ok s4 =>
  match mstep A 'u' (fun _ => marshalUInt32 le bodyLength) s4 with
  | .error x => .error x
  | .ok s5 =>
  match mstep A 'u' (fun _ => marshalUInt32 le serial) s5 with
  | .error x => .error x
  | .ok s6 =>
  match mstep A 'a' (marshalArrayYV A le headers) s6 with
  | .error x => .error x
  | .ok s7 => .ok s7.2

/-! ### Unmarshalling -/

/-- Reader state: the absolute offset and `data[offset:]`. -/
structure Rd where
  off : Nat
  rest : Bytes
  deriving Repr

/-- `offset += n` (slices and later reads see `data[offset:]`, which clamps to empty). -/
def Rd.adv (r : Rd) (n : Nat) : Rd := ⟨r.off + n, r.rest.drop n⟩

/-- `offset += len(pad[tcode](offset))` -/
def Rd.skipPad (A : Char → Nat) (tcode : Char) (r : Rd) : Rd := r.adv (padLen (A tcode) r.off)

/-- `struct.unpack_from(fmt, data, offset)[0]` for an unsigned format of `k` bytes. -/
def unpackU (e : Endian) (k : Nat) (r : Rd) : Except PyErr Nat :=
  if k ≤ r.rest.length then .ok (decUInt e (r.rest.take k)) else .error .struct

def unpackS (e : Endian) (k : Nat) (r : Rd) : Except PyErr Int :=
  if k ≤ r.rest.length then .ok (decSInt e (r.rest.take k)) else .error .struct

/-- `return k, f(struct.unpack_from(...)[0])` -/
def retU (res : Except PyErr Nat) (k : Nat) (f : Nat → PyVal) : Except PyErr (Nat × PyVal) :=
  match res with
  | .ok n => .ok (k, f n)
  | .error x => .error x

def retS (res : Except PyErr Int) (k : Nat) (f : Int → PyVal) : Except PyErr (Nat × PyVal) :=
  match res with
  | .ok n => .ok (k, f n)
  | .error x => .error x

/-- The 13 unmarshallers of the basic types: `(nbytes, value)`. -/
def unmarshalBasic (le : Bool) (c : Basic) (r : Rd) (fds : Option (List PyVal)) : Except PyErr (Nat × PyVal) :=
  let e := endianOf le
  match c with
  | .y => retU (unpackU e 1 r) 1 fun n => .int .plain (Int.ofNat n)
  | .b => retU (unpackU e 4 r) 4 fun n => .bool (n != 0)
  | .n => retS (unpackS e 2 r) 2 fun n => .int .plain n
  | .q => retU (unpackU e 2 r) 2 fun n => .int .plain (Int.ofNat n)
  | .i => retS (unpackS e 4 r) 4 fun n => .int .plain n
  | .u => retU (unpackU e 4 r) 4 fun n => .int .plain (Int.ofNat n)
  | .x => retS (unpackS e 8 r) 8 fun n => .int .plain n
  | .t => retU (unpackU e 8 r) 8 fun n => .int .plain (Int.ofNat n)
  | .d => retU (unpackU e 8 r) 8 fun n => .float (UInt64.ofNat n)
  | .h =>
    -- index = unpack; try: fd = oobFDs[index] except IndexError: fd = None   (oobFDs None: TypeError)
    match unpackU e 4 r with
    | .error x => .error x
    | .ok idx =>
      match fds with
      | none => .error .type
      | some l =>
        match l[idx]? with
        | some fd => .ok (4, fd)
        | none => .ok (4, .none)
  | .s | .o =>
    -- slen = unpack 'I'; s = codecs.decode(data[offset+4 : offset+4+slen], 'utf-8'); return 4 + slen + 1, s
    match unpackU e 4 r with
    | .error x => .error x
    | .ok slen =>
      match utf8Decode ((r.rest.drop 4).take slen) with
      | some s => .ok (4 + slen + 1, .str .plain s)
      | none => .error .unicode
  | .g =>
    match unpackU e 1 r with
    | .error x => .error x
    | .ok slen =>
      match asciiDecode ((r.rest.drop 1).take slen) with
      | some s => .ok (1 + slen + 1, .str .plain s)
      | none => .error .unicode

/-- `unmarshal_signature` as used by `unmarshal_variant`. -/
def unmarshalSignature (le : Bool) (r : Rd) : Except PyErr (Nat × List Char) :=
  match unpackU (endianOf le) 1 r with
  | .error x => .error x
  | .ok slen =>
    match asciiDecode ((r.rest.drop 1).take slen) with
    | some s => .ok (1 + slen + 1, s)
    | none => .error .unicode

/-- `unmarshal_variant`: returns `(offset - start_offset, value[0])`. -/
def unmarshalVariant (A : Char → Nat) (le : Bool) (r : Rd) (fds : Option (List PyVal)) : Except PyErr (Nat × PyVal) :=
  match unmarshalSignature le r with
  | .error x => .error x
  | .ok (nsig, vsig) =>
    match vsig with
    | [] => .error .index                       -- vsig[0]
    | ch :: more =>
      if A ch = 0 then .error .key              -- pad[vsig[0]]: not a type code of dbus_types
      else
      match more, Basic.ofCode? ch with
      | _ :: _, _ => .error .other              -- outside the fragment (more than one type code)
      | [], none => .error .other               -- outside the fragment (a container or a variant)
      | [], some c =>
        let r1 := (r.adv nsig).skipPad A ch       -- offset += len(pad[vsig[0]](offset))
        -- unmarshal(vsig, data, offset, …): offset += len(pad[tcode](offset)) once more, then the unmarshaller
        let r2 := r1.skipPad A ch
        match unmarshalBasic le c r2 fds with
        | .error x => .error x
        | .ok (nvar, v) => .ok (r2.off + nvar - r.off, v)

/-- `unmarshal_struct('(yv)', …)` = `unmarshal('yv', data, offset, …)`: `(nbytes, [code, value])`. -/
def unmarshalStructYV (A : Char → Nat) (le : Bool) (r : Rd) (fds : Option (List PyVal)) :
    Except PyErr (Nat × (Nat × PyVal)) :=
  let r1 := r.skipPad A 'y'
  match unpackU (endianOf le) 1 r1 with
  | .error x => .error x
  | .ok code =>
    let r2 := (r1.adv 1).skipPad A 'v'
    match unmarshalVariant A le r2 fds with
    | .error x => .error x
    | .ok (nv, v) => .ok (r2.off + nv - r.off, (code, v))

/-- The `while offset < end_offset` loop of `unmarshal_array` for element type `(yv)`; returns the
values and the final reader.  Every iteration reads the code byte, so `fuel` = number of unread bytes
+ 1 is never exhausted. -/
def unmarshalItems (A : Char → Nat) (le : Bool) (fds : Option (List PyVal)) :
    Nat → Rd → Nat → Except PyErr (List (Nat × PyVal) × Rd)
  | 0, _, _ => .error .other
  | fuel + 1, r, endOffset =>
    if r.off < endOffset then
      let r1 := r.skipPad A '('
      match unmarshalStructYV A le r1 fds with
      | .error x => .error x
      | .ok (nbytes, item) =>
        if nbytes = 0 then .error .marshalling      -- repair 635620f (cannot happen: the code byte is read)
        else
          match unmarshalItems A le fds fuel (r1.adv nbytes) endOffset with
          | .error x => .error x
          | .ok (items, r2) => .ok (item :: items, r2)
    else .ok ([], r)

/-- `unmarshal_array('a(yv)', …)`: `(offset - start_offset, values)`. -/
def unmarshalArrayYV (A : Char → Nat) (le : Bool) (r : Rd) (fds : Option (List PyVal)) :
    Except PyErr (Nat × List (Nat × PyVal)) :=
  match unpackU (endianOf le) 4 r with
  | .error x => .error x
  | .ok dataLen =>
    let r1 := (r.adv 4).skipPad A '('
    let endOffset := r1.off + dataLen
    match unmarshalItems A le fds (r1.rest.length + 1) r1 endOffset with
    | .error x => .error x
    | .ok (items, r2) =>
      if r2.off = endOffset then .ok (r2.off - r.off, items) else .error .marshalling

/-- What `unmarshal('yyyyuua(yv)', rawMessage, 0, lendian, oobFDs)` returns: `nheader` and the seven values. -/
structure HeaderVals where
  nheader : Nat
  endian : Nat
  mtype : Nat
  flags : Nat
  version : Nat
  bodyLength : Nat
  serial : Nat
  fields : List (Nat × PyVal)

def unmarshalHeader (A : Char → Nat) (le : Bool) (data : Bytes) (fds : Option (List PyVal)) : Except PyErr HeaderVals :=
  let e := endianOf le
  let r0 : Rd := ⟨0, data⟩
  let r := r0.skipPad A 'y'
  match unpackU e 1 r with
  | .error x => .error x
  | .ok v0 =>
  let r := (r.adv 1).skipPad A 'y'
  match unpackU e 1 r with
  | .error x => .error x
  | .ok v1 =>
  let r := (r.adv 1).skipPad A 'y'
  match unpackU e 1 r with
  | .error x => .error x
  | .ok v2 =>
  let r := (r.adv 1).skipPad A 'y'
  match unpackU e 1 r with
  | .error x => .error x
  | .ok v3 =>
  let r := (r.adv 1).skipPad A 'u'
  match unpackU e 4 r with
  | .error x => .error x
  | .ok v4 =>
  let r := (r.adv 4).skipPad A 'u'
  match unpackU e 4 r with
  | .error x => .error x
  | .ok v5 =>
  let r := (r.adv 4).skipPad A 'a'
  match unmarshalArrayYV A le r fds with
  | .error x => .error x
  | .ok (na, items) => .ok ⟨r.off + na, v0, v1, v2, v3, v4, v5, items⟩

end Txdbus.Msg
