import TxdbusModel.Msg.Message
import TxdbusModel.Msg.SpecMsg
/-
C03: the vocabulary that relates the code model (Msg/Message.lean, Msg/HeaderCode.lean) to the
specification (Msg/SpecMsg.lean, Msg/HeaderWire.lean) in the statements of the property theorems:

  * `AlignOK A`   - the facts about the alignment column of `dbus_types` that the header codec uses;
  * `Tables.OK T` - the facts about the tables of message.py that the theorems need (each is checked
                    for the generated tables by `decide` in Proofs/Msg/Tables.lean, so an edit of a
                    table in the repository either keeps them true or breaks the build);
  * `hvalOf`      - the specification value denoted by a typed header value of `_marshal`
                    (ObjectPath -> 'o', Signature -> 'g', UInt32 -> 'u', Byte -> 'y', plain str -> 's');
  * `pyOf`        - the Python value `unmarshal` returns for a specification value;
  * `specFields`, `Msg.toSpec` - the specification-level message a constructed message stands for.
Core Lean only.
-/
namespace Txdbus.Msg

/-- What the header codec needs to know about `pad[...]`: the alignments of the codes of
`'yyyyuua(yv)'` and of the basic types agree with the specification. -/
structure AlignOK (A : Char → Nat) : Prop where
  y : A 'y' = 1
  u : A 'u' = 4
  a : A 'a' = 4
  struct : A '(' = 8
  v : A 'v' = 1
  basic : ∀ c : Basic, A c.code = specAlign c

def headerFormatStr : List Char := ['y', 'y', 'y', 'y', 'u', 'u', 'a', '(', 'y', 'v', ')']

/-- The header entries `_marshal` walks for a message of class `cls`. -/
def Tables.entries (T : Tables) (cls : MsgClass) (withFds : Bool) : List (Attr × Nat × Bool) :=
  if withFds then T.headerAttrs cls ++ [T.unixFdsEntry] else T.headerAttrs cls

/-- The header attributes each constructor assigns (message.py:204-212, 243-246, 282-287, 325-330);
`unix_fds` is assigned by `_marshal` itself. -/
def ctorAttrs : MsgClass → List Attr
  | .methodCall => [.path, .member, .interface, .destination, .signature]
  | .methodReturn => [.replySerial, .destination, .signature]
  | .error => [.errorName, .replySerial, .destination, .signature, .sender]
  | .signal => [.path, .member, .interface, .destination, .signature]

/-- The type the specification gives to the header field of each attribute (PATH is an OBJECT_PATH, SIGNATURE a
SIGNATURE, REPLY_SERIAL and UNIX_FDS are UINT32, the rest STRING). -/
def attrType : Attr → Basic
  | .path => .o
  | .signature => .g
  | .replySerial => .u
  | .unixFds => .u
  | _ => .s

/-- The attributes whose header fields the specification requires for each class's message type. -/
def requiredAttrs : MsgClass → List Attr
  | .methodCall => [.path, .member]
  | .methodReturn => [.replySerial]
  | .error => [.errorName, .replySerial]
  | .signal => [.path, .interface, .member]

/-- The facts about the tables that the theorems use. -/
structure Tables.OK (T : Tables) : Prop where
  format : T.headerFormat = headerFormatStr
  endian : T.endian = 108
  version : T.protocolVersion = 1
  maxLen : T.maxMsgLen = Spec.maxMessage
  /-- no class overrides the limit -/
  maxLenOf : ∀ cls, T.maxMsgLenOf cls = Spec.maxMessage
  /-- `pad['header']` pads to the 8-byte boundary -/
  headerAlign : T.headerAlign = 8
  serialInit : 1 ≤ T.nextSerialInit
  align : AlignOK T.align
  /-- every class's type code is a known message type of the specification, and `_mtype` maps it back -/
  mtype : ∀ cls, 1 ≤ T.messageType cls ∧ T.messageType cls ≤ 4 ∧ lookupClass T (T.messageType cls) = some cls
  /-- every entry a class can emit has a byte-sized code that `_hcode` maps back to its attribute -/
  hcode : ∀ cls, ∀ ent ∈ T.entries cls true, ent.2.1 < 256 ∧ lookupAttr T ent.2.1 = some ent.1
  /-- no attribute (hence no code) occurs twice among the entries of a class -/
  nodup : ∀ cls, ((T.entries cls true).map (·.1)).Nodup
  /-- nor does a field code -/
  nodupCodes : ∀ cls, ((T.entries cls true).map (·.2.1)).Nodup
  /-- `unix_fds` is only ever added by `_marshal` itself -/
  fdsEntry : T.unixFdsEntry.1 = .unixFds ∧ ∀ cls, ∀ ent ∈ T.headerAttrs cls, ent.1 ≠ .unixFds
  /-- `_hcode` names each code of the specification's header-field table by the attribute of that field's type -/
  hcodeTypes : ∀ p ∈ T.hcode, Spec.fieldType p.1 = some (attrType p.2)
  /-- the codes the specification requires for a class's message type are entries of its table, for required attributes -/
  required : ∀ cls, ∀ code ∈ Spec.requiredCodes (T.messageType cls),
    ∃ ent ∈ T.headerAttrs cls, ent.2.1 = code ∧ ent.1 ∈ requiredAttrs cls
  /-- `_hcode` knows the codes 1..9 only -/
  hcodeRange : ∀ p ∈ T.hcode, 1 ≤ p.1 ∧ p.1 ≤ 9
  /-- every attribute a constructor assigns is in its class's `_headerAttrs` (else it would be set but never sent) -/
  covers : ∀ cls, ∀ a ∈ ctorAttrs cls, a ∈ (T.headerAttrs cls).map (·.1)

/-- The values a constructor stores in a header attribute: None, or a plain str (a name, a signature), or
`UInt32(reply_serial)`; `unix_fds` (set by `_marshal`) is a plain non-negative int. -/
def AttrOK (a : Attr) (v : PyVal) : Prop :=
  v = .none ∨
  match a with
  | .replySerial => ∃ n : Int, v = .int .uint32 n
  | .unixFds => ∃ n : Nat, v = .int .plain (n : Nat)
  | _ => ∃ s, v = .str .plain s

/-- What the four constructors hand to `_marshal`. -/
structure PreOK {β : Type} (p : Pre β) : Prop where
  shape : ∀ a, AttrOK a (p.attrs a)
  noFds : p.attrs .unixFds = .none
  inTable : ∀ a, p.attrs a ≠ .none → a ∈ ctorAttrs p.cls

/-- The validation part of a constructor call (the statements before the attribute assignments). -/
def Call.checks {β : Type} (T : Tables) (na : Char → Bool) : Call β → Except PyErr Unit
  | .methodCall a =>
    match runValidator (Valid.validateMemberName na) a.member with
    | .error x => .error x
    | .ok () =>
    match validateOpt (Valid.validateInterfaceName na) a.interface with
    | .error x => .error x
    | .ok () =>
    match validateOpt (Valid.validateBusName na) a.destination with
    | .error x => .error x
    | .ok () => if a.path = some T.reservedPath then .error .marshalling else .ok ()
  | .methodReturn a => validateOpt (Valid.validateBusName na) a.destination
  | .error a =>
    match validateOpt (Valid.validateBusName na) a.destination with
    | .error x => .error x
    | .ok () => runValidator (Valid.validateInterfaceName na) a.errorName
  | .signal a =>
    match runValidator (Valid.validateMemberName na) a.member with
    | .error x => .error x
    | .ok () =>
    match runValidator (Valid.validateInterfaceName na) a.interface with
    | .error x => .error x
    | .ok () => validateOpt (Valid.validateBusName na) a.destination

/-- What a constructor has assigned when it calls `_marshal`. -/
def Call.pre {β : Type} : Call β → Pre β
  | .methodCall a =>
    ⟨.methodCall, a.expectReply, a.autoStart,
     setAttr (setAttr (setAttr (setAttr (setAttr noAttrs
      .path (strAttr a.path)) .member (strAttr a.member)) .interface (strAttr a.interface))
      .destination (strAttr a.destination)) .signature (strAttr a.signature), a.body⟩
  | .methodReturn a =>
    ⟨.methodReturn, true, true,
     setAttr (setAttr (setAttr noAttrs
      .replySerial (.int .uint32 a.replySerial)) .destination (strAttr a.destination))
      .signature (strAttr a.signature), a.body⟩
  | .error a =>
    ⟨.error, true, true,
     setAttr (setAttr (setAttr (setAttr (setAttr noAttrs
      .errorName (strAttr a.errorName)) .replySerial (.int .uint32 a.replySerial))
      .destination (strAttr a.destination)) .signature (strAttr a.signature)) .sender (strAttr a.sender), a.body⟩
  | .signal a =>
    ⟨.signal, true, true,
     setAttr (setAttr (setAttr (setAttr (setAttr noAttrs
      .path (strAttr a.path)) .member (strAttr a.member)) .interface (strAttr a.interface))
      .destination (strAttr a.destination)) .signature (strAttr a.signature), a.body⟩

/-- The `oobFDs` argument handed to `_marshal` (only `MethodCallMessage` has one). -/
def Call.oob {β : Type} : Call β → Option (List PyVal)
  | .methodCall a => a.oobFDs
  | _ => none

/-- The `body` argument. -/
def Call.body {β : Type} : Call β → Option β
  | .methodCall a => a.body
  | .methodReturn a => a.body
  | .error a => a.body
  | .signal a => a.body

/-- The `path` argument of a method call or signal is given (not None): the documented argument type. -/
def Call.pathGiven {β : Type} : Call β → Prop
  | .methodCall a => a.path ≠ none
  | .signal a => a.path ≠ none
  | _ => True

/-- The `signature` argument. -/
def Call.signature {β : Type} : Call β → Option (List Char)
  | .methodCall a => a.signature
  | .methodReturn a => a.signature
  | .error a => a.signature
  | .signal a => a.signature

/-- The specification value of a typed header value. -/
def hvalOf : PyVal → Option HVal
  | .str .plain s => some (.text .s s)
  | .str .objectPath s => some (.text .o s)
  | .str .signature s => some (.text .g s)
  | .int .byte n => some (.num .y n.toNat)
  | .int .uint32 n => some (.num .u n.toNat)
  | _ => none

/-- A fixed-size raw value read as a two's-complement number of `k` bytes. -/
def signedOf (k raw : Nat) : Int :=
  if 2 * raw < 256 ^ k then (raw : Int) else (raw : Int) - (256 ^ k : Nat)

/-- What `unmarshal` returns for a specification value (`fds` = the `oobFDs` argument). -/
def pyOf (fds : Option (List PyVal)) : HVal → PyVal
  | .text _ s => .str .plain s
  | .num c raw =>
    match c with
    | .y | .q | .u | .t => .int .plain (Int.ofNat raw)
    | .n => .int .plain (signedOf 2 raw)
    | .i => .int .plain (signedOf 4 raw)
    | .x => .int .plain (signedOf 8 raw)
    | .b => .bool (raw != 0)
    | .d => .float (UInt64.ofNat raw)
    | .h =>
      match fds with
      | some l => match l[raw]? with
        | some fd => fd
        | none => .none
      | none => .none
    | _ => .none          -- `num` with a text type: not a well-formed value

/-- The header fields of a message object as the specification sees them: for every table entry whose
attribute is not None, the code and the specification value of the typed attribute (`none` when an
attribute holds something `_marshal`'s typing does not turn into a header value). -/
def specFieldsOf (attrs : Attr → PyVal) : List (Attr × Nat × Bool) → Option (List Field)
  | [] => some []
  | (a, code, _) :: rest =>
    if isNone (attrs a) then specFieldsOf attrs rest
    else
      match wrapAttr a (attrs a) with
      | .error _ => none
      | .ok v =>
        match hvalOf v, specFieldsOf attrs rest with
        | some hv, some fs => some ((code, hv) :: fs)
        | _, _ => none

/-- Does a message object carry a `unix_fds` attribute (set by `_marshal` when descriptors were collected)? -/
def hasFds {β : Type} (m : Msg β) : Bool := !isNone (m.attrs .unixFds)

/-- The specification-level message a message object stands for (little endian, fields in table order). -/
def Msg.toSpec {β : Type} (T : Tables) (m : Msg β) : Option SpecMsg :=
  (specFieldsOf m.attrs (T.entries m.cls (hasFds m))).map fun fs =>
    { endian := .little, mtype := T.messageType m.cls, flags := flagsByte m.expectReply m.autoStart,
      serial := m.serial, fields := fs, body := m.rawBody }

end Txdbus.Msg
