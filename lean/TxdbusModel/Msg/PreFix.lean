import TxdbusModel.Msg.Message
/-
C03: the two pieces of txdbus/message.py as they were BEFORE the repairs 7466ae7 and efe5b53, kept as
models so that the failing inputs stay machine-checked witnesses (Properties/C03.lean,
`prefix_parse_ignores_flags`, `prefix_empty_interface_constructible`) and a regression that reverts a
repair re-establishes a known, named failing input.  Core Lean only.
-/
namespace Txdbus.Msg

/-- `parseMessage` before 7466ae7: the flags byte was never looked at, so `expectReply` and `autoStart`
kept their class defaults (True). -/
def parseMessagePreFix {β : Type} (T : Tables) (C : BodyCodec β) (raw : Bytes) (fds : Option (List PyVal)) :
    Except PyErr (Msg β) :=
  match parseMessage T C raw fds with
  | .ok m => .ok { m with expectReply := true, autoStart := true }
  | .error x => .error x

/-- `if x: marshal.validateX(x)` (truthiness instead of `is not None`): `''` skips the validator. -/
def validateTruthy (v : Valid.Str → Valid.Outcome) : Option Valid.Str → Except PyErr Unit
  | none => .ok ()
  | some [] => .ok ()
  | some s => runValidator v (some s)

/-- `MethodCallMessage.__init__` before efe5b53. -/
def mkMethodCallPreFix {β : Type} (T : Tables) (C : BodyCodec β) (na : Char → Bool) (maxLen : Nat) (st : St)
    (a : CallArgs β) : St × Except PyErr (Msg β) :=
  match runValidator (Valid.validateMemberName na) a.member with
  | .error x => (st, .error x)
  | .ok () =>
  match validateTruthy (Valid.validateInterfaceName na) a.interface with
  | .error x => (st, .error x)
  | .ok () =>
  match validateTruthy (Valid.validateBusName na) a.destination with
  | .error x => (st, .error x)
  | .ok () =>
  if a.path = some T.reservedPath then (st, .error .marshalling)
  else
    let attrs := setAttr (setAttr (setAttr (setAttr (setAttr noAttrs
      .path (strAttr a.path)) .member (strAttr a.member)) .interface (strAttr a.interface))
      .destination (strAttr a.destination)) .signature (strAttr a.signature)
    marshalMsg T C maxLen st ⟨.methodCall, a.expectReply, a.autoStart, attrs, a.body⟩ a.oobFDs

end Txdbus.Msg
