import TxdbusModel.Msg.Attr
import TxdbusModel.Msg.HeaderCode
/-
C03 CODE MODEL: txdbus/message.py as the code is written (after repairs 7466ae7: parseMessage
restores the two flags; efe5b53: the constructors test `is not None`; d5434a8: parseMessage refuses a
truthy signature attribute that is not a str of at most 255 characters; 84eeaa3: `_marshal` has a
parameter `rawBody=None` used only by the bus when it forwards a received message - the constructors
never pass it; `remarshal` below is that forwarding call; 9fa03fd: `_marshal` types `reply_serial` as UInt32;
24fc328: flag bits other than 0x1 / 0x2 are kept in `otherFlags` by parseMessage and re-emitted by `_marshal`).

  * a message object is its class, the two flag attributes, the nine header attributes
    (`getattr(self, name, None)`: an attribute that was never set reads as None, like the class
    attribute defaults), `body`, `serial` and the three raw parts;
  * the four constructors: validation in the code's order (validators: model of C18,
    Valid/Names.lean), attribute assignment (`reply_serial = marshal.UInt32(reply_serial)`), `_marshal`;
  * `_marshal`: flags from `expectReply` / `autoStart`; the body is marshalled FIRST (only when
    `self.signature` is truthy) so that a non-empty descriptor list adds the entry
    `('unix_fds', 9, False)` and sets `self.unix_fds`; the header list is built from the class's
    `_headerAttrs` with the wrapper typing path -> ObjectPath, signature -> Signature, unix_fds -> UInt32,
    only for attributes that are not None; the serial is taken from the process-wide counter (which
    is advanced before the header is marshalled, so a failing header consumes a serial); header
    padding to 8; the size check comes last;
  * `parseMessage`: byte order from the first byte (`== ord('l')`, anything else is big endian), header
    decode, `_mtype` lookup, the three raw slices, serial, flags, `setattr` per field through `_hcode`
    (unknown codes ignored, a later field overwrites an earlier one), body decode when the signature
    attribute is truthy (and a str of at most 255 characters, else MarshallingError).
The message body is opaque: the model is parameterised by a `BodyCodec` (what `marshal.marshal` /
`marshal.unmarshal` do with a signature and a body - the subject of C01/C02).  The tables come from
`Gen/Message.lean` through the `Tables` record.  Core Lean only.
-/
namespace Txdbus.Msg

/-- (Since bf83351 `marshal.marshal` raises MarshallingError for a body with more or fewer values than the signature
has complete types: for the message model that is one more way in which `marshal` returns `.error` - `marshalBody`
passes every error on, the message is not constructed, no serial is consumed.)
`marshal.marshal(sig, body, oobFDs=fds)` and `marshal.unmarshal(sig, rawBody, lendian=…, oobFDs=fds)[1]`
for body values of type `β`.  `marshal` returns the bytes and the descriptor list afterwards (it appends
to the list it is given; `none` = `oobFDs=None`). -/
structure BodyCodec (β : Type) where
  marshal : List Char → Option β → Option (List PyVal) → Except PyErr (Bytes × Option (List PyVal))
  unmarshal : List Char → Bytes → Bool → Option (List PyVal) → Except PyErr β

/-- A message object (constructed or parsed). -/
structure Msg (β : Type) where
  cls : MsgClass
  expectReply : Bool
  autoStart : Bool
  attrs : Attr → PyVal
  body : Option β
  serial : Nat
  rawHeader : Bytes
  rawPadding : Bytes
  rawBody : Bytes
  /-- `otherFlags` (repair 24fc328 = C14-04): the flag bits other than 0x1 / 0x2 of a PARSED message; the class
  attribute default 0 on every constructed message -/
  otherFlags : Nat := 0

/-- `rawMessage = b''.join([binHeader, headerPadding, binBody])` -/
def Msg.raw {β : Type} (m : Msg β) : Bytes := m.rawHeader ++ m.rawPadding ++ m.rawBody

/-- The process-wide state: `DBusMessage._nextSerial`. -/
structure St where
  nextSerial : Nat
  deriving DecidableEq, Repr

def St.init (T : Tables) : St := ⟨T.nextSerialInit⟩

/-- Python truthiness of the values an attribute can hold. -/
def truthy : PyVal → Bool
  | .none => false
  | .bool b => b
  | .int _ n => n != 0
  | .float bits => bits.toNat % 9223372036854775808 != 0     -- neither +0.0 nor -0.0
  | .str _ s => !s.isEmpty
  | .bytearray bs => !bs.isEmpty
  | .list xs => !xs.isEmpty
  | .tuple xs => !xs.isEmpty
  | .dict kvs => !kvs.isEmpty
  | .obj _ _ _ => true
  | .other _ => true

def isNone : PyVal → Bool
  | .none => true
  | _ => false

/-- `setattr(m, name, v)` on the header attributes. -/
def setAttr (f : Attr → PyVal) (a : Attr) (v : PyVal) : Attr → PyVal :=
  fun b => if b = a then v else f b

/-- No header attribute set (all read as None). -/
def noAttrs : Attr → PyVal := fun _ => .none

/-- `marshal.ObjectPath(hval)` / `marshal.Signature(hval)` on a str. -/
def toStrCls (c : StrCls) : PyVal → Except PyErr PyVal
  | .str _ s => .ok (.str c s)
  | _ => .error .other        -- str(x) of a non-str: outside the documented argument types

/-- `marshal.UInt32(hval)` on an int. -/
def toUInt32 : PyVal → Except PyErr PyVal
  | .int _ n => .ok (.int .uint32 n)
  | .bool b => .ok (.int .uint32 (if b then 1 else 0))
  | _ => .error .other        -- int(x) of a non-int: outside the documented argument types

/-- The wrapper typing of `_marshal`'s header loop: path -> ObjectPath, signature -> Signature, unix_fds and
reply_serial -> UInt32 (repair 9fa03fd: a parsed message holds `reply_serial` as a plain int; the constructors
store `UInt32(reply_serial)` already, on which the wrapper is the identity). -/
def wrapAttr (a : Attr) (hval : PyVal) : Except PyErr PyVal :=
  match a with
  | .path => toStrCls .objectPath hval
  | .signature => toStrCls .signature hval
  | .unixFds => toUInt32 hval
  | .replySerial => toUInt32 hval
  | _ => .ok hval

/-- `self.headers`: for every table entry whose attribute is not None, `[code, typed value]`. -/
def buildHeaders (attrs : Attr → PyVal) : List (Attr × Nat × Bool) → Except PyErr (List (PyVal × PyVal))
  | [] => .ok []
  | (a, code, _) :: rest =>
    if isNone (attrs a) then buildHeaders attrs rest
    else
      match wrapAttr a (attrs a) with
      | .error x => .error x
      | .ok v =>
        match buildHeaders attrs rest with
        | .error x => .error x
        | .ok hs => .ok ((.int .plain code, v) :: hs)

/-- `marshal.pad['header'](len(binHeader))` (the alignment that entry of `pad` implements comes from the tables) -/
def headerPadding (T : Tables) (n : Nat) : Bytes := zeros (padLen T.headerAlign n)

/-- What a constructor has assigned before it calls `self._marshal(oobFDs=…)`. -/
structure Pre (β : Type) where
  cls : MsgClass
  expectReply : Bool
  autoStart : Bool
  attrs : Attr → PyVal
  body : Option β

/-- First part of `_marshal`: the body is marshalled before the headers "to know if the 'unix_fd' header is
needed".  Returns `binBody`, the attributes (with `unix_fds` set when descriptors were collected) and the
header table to walk (the class's `_headerAttrs`, plus `('unix_fds', 9, False)` in that case). -/
def marshalBody {β : Type} (T : Tables) (C : BodyCodec β) (p : Pre β) (oobFDs : Option (List PyVal)) :
    Except PyErr (Bytes × (Attr → PyVal) × List (Attr × Nat × Bool)) :=
  let sigv := p.attrs .signature
  if truthy sigv then
    match sigv with
    | .str _ sg =>
      match C.marshal sg p.body oobFDs with
      | .error x => .error x
      | .ok (binBody, fds') =>
        match fds' with
        | some (fd :: l) =>
          .ok (binBody, setAttr p.attrs .unixFds (.int .plain ((fd :: l).length : Nat)),
               T.headerAttrs p.cls ++ [T.unixFdsEntry])
        | _ => .ok (binBody, p.attrs, T.headerAttrs p.cls)
    | _ => .error .type                 -- genCompleteTypes(<not a str>)
  else .ok ([], p.attrs, T.headerAttrs p.cls)

/-- The flags byte: `0x1` unless expectReply, `0x2` unless autoStart. -/
def flagsByte (expectReply autoStart : Bool) : Nat :=
  (if expectReply then 0 else 1) + (if autoStart then 0 else 2)

/-- `flags = self.otherFlags & ~0x3`, then `|= 0x1` unless expectReply, `|= 0x2` unless autoStart (24fc328). -/
def flagsWith (otherFlags : Nat) (expectReply autoStart : Bool) : Nat :=
  otherFlags / 4 * 4 + flagsByte expectReply autoStart

/-- Second part of `_marshal`: header list, serial allocation, header, padding, size check. -/
def finishMarshal {β : Type} (T : Tables) (maxLen : Nat) (st : St) (p : Pre β) (binBody : Bytes)
    (attrs : Attr → PyVal) (table : List (Attr × Nat × Bool)) : St × Except PyErr (Msg β) :=
  match buildHeaders attrs table with
  | .error x => (st, .error x)
  | .ok headers =>
    -- self.serial = DBusMessage._nextSerial ; DBusMessage._nextSerial += 1
    let serial := st.nextSerial
    let st' : St := ⟨st.nextSerial + 1⟩
    let le := T.endian == 108
    if T.headerFormat ≠ ['y', 'y', 'y', 'y', 'u', 'u', 'a', '(', 'y', 'v', ')'] then (st', .error .other)
    else
    match marshalHeader T.align le (.int .plain (T.endian : Nat)) (.int .plain (T.messageType p.cls : Nat))
            (.int .plain (flagsWith 0 p.expectReply p.autoStart : Nat)) (.int .plain (T.protocolVersion : Nat))
            (.int .plain (binBody.length : Nat)) (.int .plain (serial : Nat)) headers with
    | .error x => (st', .error x)
    | .ok binHeader =>
      let pad := headerPadding T binHeader.length
      if (binHeader ++ pad ++ binBody).length > maxLen then (st', .error .marshalling)
      else (st', .ok { cls := p.cls, expectReply := p.expectReply, autoStart := p.autoStart, attrs := attrs,
                       body := p.body, serial := serial, rawHeader := binHeader, rawPadding := pad,
                       rawBody := binBody })

/-- `DBusMessage._marshal(self, newSerial=True, oobFDs=oobFDs)` (`rawBody=None`); `maxLen` = `self._maxMsgLen`.
Returns the new counter state together with the message or the exception. -/
def marshalMsg {β : Type} (T : Tables) (C : BodyCodec β) (maxLen : Nat) (st : St) (p : Pre β)
    (oobFDs : Option (List PyVal)) : St × Except PyErr (Msg β) :=
  match marshalBody T C p oobFDs with
  | .error x => (st, .error x)
  | .ok (binBody, attrs, table) => finishMarshal T maxLen st p binBody attrs table

/-- `m._marshal(False, rawBody=rawBody)` on an existing (parsed) message object whose instance attribute `endian`
is `endian` - what the bus does when it forwards a received message (bus.py, after 84eeaa3): no new serial, the
body bytes are taken as given, the header table is the class's `_headerAttrs` (the `unix_fds` entry is only
added on the body-encoding path), the header is encoded in the byte order `endian == ord('l')`. -/
def remarshal {β : Type} (T : Tables) (maxLen : Nat) (m : Msg β) (endian : Nat) (rawBody : Bytes) :
    Except PyErr (Msg β) :=
  match buildHeaders m.attrs (T.headerAttrs m.cls) with
  | .error x => .error x
  | .ok headers =>
    let le := endian == 108
    if T.headerFormat ≠ ['y', 'y', 'y', 'y', 'u', 'u', 'a', '(', 'y', 'v', ')'] then .error .other
    else
    match marshalHeader T.align le (.int .plain (endian : Nat)) (.int .plain (T.messageType m.cls : Nat))
            (.int .plain (flagsWith m.otherFlags m.expectReply m.autoStart : Nat)) (.int .plain (T.protocolVersion : Nat))
            (.int .plain (rawBody.length : Nat)) (.int .plain (m.serial : Nat)) headers with
    | .error x => .error x
    | .ok binHeader =>
      let pad := headerPadding T binHeader.length
      if (binHeader ++ pad ++ rawBody).length > maxLen then .error .marshalling
      else .ok { m with rawHeader := binHeader, rawPadding := pad, rawBody := rawBody }

/-! ### The four constructors

Name arguments are `None` or a `str` (`Option Str`); `na` is C18's opaque `str.isdigit` on non-ASCII
characters (no outcome depends on it). -/

open Valid in
/-- `marshal.validateX(arg)` on an argument that may be None: inside the validator's
`try: … except Exception` every failure (`len(None)`, `'.' not in None`) becomes MarshallingError. -/
def runValidator (v : Valid.Str → Valid.Outcome) : Option Valid.Str → Except PyErr Unit
  | none => .error .marshalling
  | some s =>
    match v s with
    | .accept => .ok ()
    | .raised _ => .error .marshalling

/-- `if x is not None: marshal.validateX(x)` -/
def validateOpt (v : Valid.Str → Valid.Outcome) : Option Valid.Str → Except PyErr Unit
  | none => .ok ()
  | some s => runValidator v (some s)

def strAttr : Option (List Char) → PyVal
  | none => .none
  | some s => .str .plain s

structure CallArgs (β : Type) where
  path : Option (List Char)
  member : Option (List Char)
  interface : Option (List Char) := none
  destination : Option (List Char) := none
  signature : Option (List Char) := none
  body : Option β := none
  expectReply : Bool := true
  autoStart : Bool := true
  oobFDs : Option (List PyVal) := none

/-- `MethodCallMessage.__init__` -/
def mkMethodCall {β : Type} (T : Tables) (C : BodyCodec β) (na : Char → Bool) (maxLen : Nat) (st : St)
    (a : CallArgs β) : St × Except PyErr (Msg β) :=
  match runValidator (Valid.validateMemberName na) a.member with
  | .error x => (st, .error x)
  | .ok () =>
  match validateOpt (Valid.validateInterfaceName na) a.interface with
  | .error x => (st, .error x)
  | .ok () =>
  match validateOpt (Valid.validateBusName na) a.destination with
  | .error x => (st, .error x)
  | .ok () =>
  if a.path = some T.reservedPath then (st, .error .marshalling)
  else
    let attrs := setAttr (setAttr (setAttr (setAttr (setAttr noAttrs
      .path (strAttr a.path)) .member (strAttr a.member)) .interface (strAttr a.interface))
      .destination (strAttr a.destination)) .signature (strAttr a.signature)
    marshalMsg T C maxLen st ⟨.methodCall, a.expectReply, a.autoStart, attrs, a.body⟩ a.oobFDs

structure ReturnArgs (β : Type) where
  replySerial : Int
  body : Option β := none
  destination : Option (List Char) := none
  signature : Option (List Char) := none

/-- `MethodReturnMessage.__init__` -/
def mkMethodReturn {β : Type} (T : Tables) (C : BodyCodec β) (na : Char → Bool) (maxLen : Nat) (st : St)
    (a : ReturnArgs β) : St × Except PyErr (Msg β) :=
  match validateOpt (Valid.validateBusName na) a.destination with
  | .error x => (st, .error x)
  | .ok () =>
    let attrs := setAttr (setAttr (setAttr noAttrs
      .replySerial (.int .uint32 a.replySerial)) .destination (strAttr a.destination))
      .signature (strAttr a.signature)
    marshalMsg T C maxLen st ⟨.methodReturn, true, true, attrs, a.body⟩ none

structure ErrorArgs (β : Type) where
  errorName : Option (List Char)
  replySerial : Int
  destination : Option (List Char) := none
  signature : Option (List Char) := none
  body : Option β := none
  sender : Option (List Char) := none

/-- `ErrorMessage.__init__` (the error name goes through `validateInterfaceName`) -/
def mkError {β : Type} (T : Tables) (C : BodyCodec β) (na : Char → Bool) (maxLen : Nat) (st : St)
    (a : ErrorArgs β) : St × Except PyErr (Msg β) :=
  match validateOpt (Valid.validateBusName na) a.destination with
  | .error x => (st, .error x)
  | .ok () =>
  match runValidator (Valid.validateInterfaceName na) a.errorName with
  | .error x => (st, .error x)
  | .ok () =>
    let attrs := setAttr (setAttr (setAttr (setAttr (setAttr noAttrs
      .errorName (strAttr a.errorName)) .replySerial (.int .uint32 a.replySerial))
      .destination (strAttr a.destination)) .signature (strAttr a.signature)) .sender (strAttr a.sender)
    marshalMsg T C maxLen st ⟨.error, true, true, attrs, a.body⟩ none

structure SignalArgs (β : Type) where
  path : Option (List Char)
  member : Option (List Char)
  interface : Option (List Char)
  destination : Option (List Char) := none
  signature : Option (List Char) := none
  body : Option β := none

/-- `SignalMessage.__init__` -/
def mkSignal {β : Type} (T : Tables) (C : BodyCodec β) (na : Char → Bool) (maxLen : Nat) (st : St)
    (a : SignalArgs β) : St × Except PyErr (Msg β) :=
  match runValidator (Valid.validateMemberName na) a.member with
  | .error x => (st, .error x)
  | .ok () =>
  match runValidator (Valid.validateInterfaceName na) a.interface with
  | .error x => (st, .error x)
  | .ok () =>
  match validateOpt (Valid.validateBusName na) a.destination with
  | .error x => (st, .error x)
  | .ok () =>
    let attrs := setAttr (setAttr (setAttr (setAttr (setAttr noAttrs
      .path (strAttr a.path)) .member (strAttr a.member)) .interface (strAttr a.interface))
      .destination (strAttr a.destination)) .signature (strAttr a.signature)
    marshalMsg T C maxLen st ⟨.signal, true, true, attrs, a.body⟩ none

/-- One constructor call. -/
inductive Call (β : Type) where
  | methodCall (a : CallArgs β)
  | methodReturn (a : ReturnArgs β)
  | error (a : ErrorArgs β)
  | signal (a : SignalArgs β)

def construct {β : Type} (T : Tables) (C : BodyCodec β) (na : Char → Bool) (maxLen : Nat) (st : St) :
    Call β → St × Except PyErr (Msg β)
  | .methodCall a => mkMethodCall T C na maxLen st a
  | .methodReturn a => mkMethodReturn T C na maxLen st a
  | .error a => mkError T C na maxLen st a
  | .signal a => mkSignal T C na maxLen st a

/-- A run of constructor calls on the shared counter: the results in order and the final state. -/
def constructAll {β : Type} (T : Tables) (C : BodyCodec β) (na : Char → Bool) (maxLen : Nat) :
    St → List (Call β) → List (Except PyErr (Msg β)) × St
  | st, [] => ([], st)
  | st, c :: cs =>
    let r := construct T C na maxLen st c
    let rs := constructAll T C na maxLen r.1 cs
    (r.2 :: rs.1, rs.2)

/-! ### parseMessage -/

/-- `_mtype[messageType]` -/
def lookupClass (T : Tables) (code : Nat) : Option MsgClass :=
  (T.mtype.find? (fun p => p.1 == code)).map (·.2)

/-- `_hcode[code]` -/
def lookupAttr (T : Tables) (code : Nat) : Option Attr :=
  (T.hcode.find? (fun p => p.1 == code)).map (·.2)

/-- `for code, v in hval[6]: try: setattr(m, _hcode[code], v) except KeyError: pass` -/
def applyFields (T : Tables) : (Attr → PyVal) → List (Nat × PyVal) → (Attr → PyVal)
  | f, [] => f
  | f, (code, v) :: rest =>
    match lookupAttr T code with
    | some a => applyFields T (setAttr f a v) rest
    | none => applyFields T f rest

/-- `parseMessage` after the header has been decoded: `_mtype` lookup, the raw slices, serial, flags, the
`setattr` loop, the body. -/
def parseAfterHeader {β : Type} (T : Tables) (C : BodyCodec β) (rawMessage : Bytes) (lendian : Bool)
    (oobFDs : Option (List PyVal)) (h : HeaderVals) : Except PyErr (Msg β) :=
  match lookupClass T h.mtype with
  | none => .error .marshalling                     -- Unknown Message Type
  | some cls =>
    let nheader := h.nheader
    let npad := padLen 8 nheader                    -- nheader % 8 and (8 - nheader % 8) or 0
    let rawHeader := rawMessage.take nheader
    let rawPadding := (rawMessage.drop nheader).take npad
    let rawBody := rawMessage.drop (nheader + npad)
    let attrs := applyFields T noAttrs h.fields
    let m : Msg β := { cls := cls, expectReply := h.flags % 2 = 0, autoStart := h.flags / 2 % 2 = 0,
                       attrs := attrs, body := none, serial := h.serial, rawHeader := rawHeader,
                       rawPadding := rawPadding, rawBody := rawBody,
                       otherFlags := h.flags / 4 * 4 }          -- m.otherFlags = flags & ~0x3
    let sigv := attrs .signature
    if truthy sigv then
      -- repair d5434a8: `if not isinstance(m.signature, str) or len(m.signature) > 255: raise MarshallingError`
      match sigv with
      | .str _ sg =>
        if sg.length > 255 then .error .marshalling
        else
          match C.unmarshal sg rawBody lendian oobFDs with
          | .error x => .error x
          | .ok b => .ok { m with body := some b }
      | _ => .error .marshalling
    else .ok m

/-- `parseMessage(rawMessage, oobFDs)` -/
def parseMessage {β : Type} (T : Tables) (C : BodyCodec β) (rawMessage : Bytes) (oobFDs : Option (List PyVal)) :
    Except PyErr (Msg β) :=
  match rawMessage with
  | [] => .error .index                                 -- rawMessage[0]
  | b0 :: _ =>
    let lendian := b0 == 108                            -- rawMessage[0] == b'l'[0]
    if T.headerFormat ≠ ['y', 'y', 'y', 'y', 'u', 'u', 'a', '(', 'y', 'v', ')'] then .error .other
    else
    match unmarshalHeader T.align lendian rawMessage oobFDs with
    | .error x => .error x
    | .ok h => parseAfterHeader T C rawMessage lendian oobFDs h

/-! ### The observable content of a message (what "parses back intact" compares) -/

/-- `==` on attribute values across classes (`UInt32(5) == 5`, `ObjectPath('/a') == '/a'`): the class is erased. -/
def plain : PyVal → PyVal
  | .int _ n => .int .plain n
  | .str _ s => .str .plain s
  | v => v

structure View (β : Type) where
  messageType : Nat
  serial : Nat
  expectReply : Bool
  autoStart : Bool
  attrs : Attr → PyVal
  body : Option β

def Msg.view {β : Type} (T : Tables) (m : Msg β) : View β :=
  { messageType := T.messageType m.cls, serial := m.serial, expectReply := m.expectReply,
    autoStart := m.autoStart, attrs := fun a => plain (m.attrs a), body := m.body }

end Txdbus.Msg
