/-
C03, shared vocabulary of the message models: the four message classes of txdbus/message.py and the
nine header attributes that `_headerAttrs` / `_hcode` name.  The generated table module
`Gen/Message.lean` (tools/tables/c03_message.py) is written in these terms; an attribute name or a
message class in the source that is not listed here is a translator failure.  Core Lean only.
-/
namespace Txdbus.Msg

/-- `MethodCallMessage`, `MethodReturnMessage`, `ErrorMessage`, `SignalMessage`. -/
inductive MsgClass where
  | methodCall | methodReturn | error | signal
  deriving DecidableEq, Repr, Inhabited

def MsgClass.all : List MsgClass := [.methodCall, .methodReturn, .error, .signal]

/-- The attribute names used by the `_headerAttrs` tables and by `_hcode`:
`path interface member error_name reply_serial destination sender signature unix_fds`. -/
inductive Attr where
  | path | interface | member | errorName | replySerial | destination | sender | signature | unixFds
  deriving DecidableEq, Repr, Inhabited

def Attr.all : List Attr :=
  [.path, .interface, .member, .errorName, .replySerial, .destination, .sender, .signature, .unixFds]

theorem Attr.mem_all (a : Attr) : a ∈ Attr.all := by cases a <;> decide

/-- The tables of txdbus/message.py (and the alignment column of marshal.dbus_types) that the message
model is parameterised by.  `Gen.Message.tables` is the instance extracted from the repository. -/
structure Tables where
  /-- `_headerFormat` -/
  headerFormat : List Char
  /-- `DBusMessage._maxMsgLen` -/
  maxMsgLen : Nat
  /-- `DBusMessage._protocolVersion` -/
  protocolVersion : Nat
  /-- `DBusMessage.endian` (class attribute; `ord('l')`) -/
  endian : Nat
  /-- `DBusMessage._nextSerial` as the class is defined (the first serial) -/
  nextSerialInit : Nat
  /-- `_messageType` of each class -/
  messageType : MsgClass → Nat
  /-- `_headerAttrs` of each class: (attribute, field code, is_required) in table order -/
  headerAttrs : MsgClass → List (Attr × Nat × Bool)
  /-- the entry `_marshal` appends when descriptors were collected: `('unix_fds', 9, False)` -/
  unixFdsEntry : Attr × Nat × Bool
  /-- `_mtype`: message type code ↦ class, in dict order -/
  mtype : List (Nat × MsgClass)
  /-- `_hcode`: field code ↦ attribute name, in dict order -/
  hcode : List (Nat × Attr)
  /-- what `marshal.pad[code]` implements (type code ↦ alignment; 0 for a code without entry) -/
  align : Char → Nat
  /-- the path `MethodCallMessage.__init__` refuses -/
  reservedPath : List Char
  /-- `_maxMsgLen` as each class sees it -/
  maxMsgLenOf : MsgClass → Nat
  /-- the alignment `marshal.pad['header']` implements -/
  headerAlign : Nat

end Txdbus.Msg
