import TxdbusModel.Msg.Message
/-
C03 CODE MODEL, the SECOND USE of one message object (state-leak round 2026-09-30, STATE_AUDIT G11):
`m._marshal(newSerial, oobFDs=…)` called again on an object that a constructor has already marshalled
(`rawBody=None`: the body is encoded again from `self.signature` / `self.body`).

What `_marshal` reads from the object the second time is what it (and the constructor) left there:
the class, the two flag attributes, `otherFlags`, the nine header attributes INCLUDING `unix_fds`
when the first call set it, `body`, and - with `newSerial=False` - `serial`.  Everything else is
recomputed: `self.headers = []` is reset, the header table is the class's `_headerAttrs` (copied
and extended by `('unix_fds', 9, False)` only when THIS call collected descriptors), so nothing of
the first call accumulates.  The instance attribute `endian` was never assigned on a constructed
object: the class default is read.

The order of effects is the code's: a failure of the body codec leaves the object and the counter
untouched; `newSerial=True` takes the counter value and advances it BEFORE the header is marshalled.
Core Lean only.
-/
namespace Txdbus.Msg

/-- What `_marshal` reads from an existing object where a constructor's `Pre` stands. -/
def Msg.asPre {β : Type} (m : Msg β) : Pre β := ⟨m.cls, m.expectReply, m.autoStart, m.attrs, m.body⟩

/-- Second part of `_marshal` on an existing object: header list, `if newSerial:` the counter, header, padding,
size check.  `flags = self.otherFlags & ~0x3 | …`; `self.serial` is kept when `newSerial` is False. -/
def finishAgain {β : Type} (T : Tables) (maxLen : Nat) (st : St) (newSerial : Bool) (m : Msg β) (binBody : Bytes)
    (attrs : Attr → PyVal) (table : List (Attr × Nat × Bool)) : St × Except PyErr (Msg β) :=
  match buildHeaders attrs table with
  | .error x => (st, .error x)
  | .ok headers =>
    let serial := if newSerial then st.nextSerial else m.serial
    let st' : St := if newSerial then ⟨st.nextSerial + 1⟩ else st
    let le := T.endian == 108
    if T.headerFormat ≠ ['y', 'y', 'y', 'y', 'u', 'u', 'a', '(', 'y', 'v', ')'] then (st', .error .other)
    else
    match marshalHeader T.align le (.int .plain (T.endian : Nat)) (.int .plain (T.messageType m.cls : Nat))
            (.int .plain (flagsWith m.otherFlags m.expectReply m.autoStart : Nat)) (.int .plain (T.protocolVersion : Nat))
            (.int .plain (binBody.length : Nat)) (.int .plain (serial : Nat)) headers with
    | .error x => (st', .error x)
    | .ok binHeader =>
      let pad := headerPadding T binHeader.length
      if (binHeader ++ pad ++ binBody).length > maxLen then (st', .error .marshalling)
      else (st', .ok { cls := m.cls, expectReply := m.expectReply, autoStart := m.autoStart, attrs := attrs,
                       body := m.body, serial := serial, rawHeader := binHeader, rawPadding := pad,
                       rawBody := binBody, otherFlags := m.otherFlags })

/-- `m._marshal(newSerial, oobFDs=oobFDs)` (`rawBody=None`) on an existing message object; `maxLen` = `self._maxMsgLen`.
Returns the counter state afterwards and the object as the call leaves it, or the exception. -/
def marshalAgain {β : Type} (T : Tables) (C : BodyCodec β) (maxLen : Nat) (st : St) (m : Msg β) (newSerial : Bool)
    (oobFDs : Option (List PyVal)) : St × Except PyErr (Msg β) :=
  match marshalBody T C m.asPre oobFDs with
  | .error x => (st, .error x)
  | .ok (binBody, attrs, table) => finishAgain T maxLen st newSerial m binBody attrs table

end Txdbus.Msg
