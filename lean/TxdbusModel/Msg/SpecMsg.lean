import TxdbusModel.Msg.HeaderWire
/-
C03 SPEC, whole message: the layout of a DBus message as the specification gives it ("Message
Format"), for either byte order and the header fields in whatever order the list has them,
independent of txdbus's `_marshal`.

    byte 0      'l' (little endian) or 'B' (big endian)
    byte 1      message type          byte 2   flags          byte 3   major protocol version = 1
    bytes 4-7   UINT32 length of the body in bytes
    bytes 8-11  UINT32 serial (must not be zero)
    bytes 12..  ARRAY of STRUCT (BYTE, VARIANT): UINT32 length of the array data, [padding to 8 - none,
                the data starts at offset 16], the structs, each on an 8-byte boundary
    then        zero bytes up to the next 8-byte boundary
    then        the body
    whole message at most 2^27 bytes, the header array at most 2^26.

`Spec.encodeMsg` is the encoder; `Spec.decodeMsg` a strict decoder (the judge of "well-formed");
`SpecMsg.valid` says which abstract messages the format can carry.  The body is a byte string here
(its own format is the wire codec of C01/C02).  Core Lean only.
-/
namespace Txdbus.Msg

/-- An abstract message at the level of the specification. -/
structure SpecMsg where
  endian : Endian
  mtype : Nat
  flags : Nat
  serial : Nat
  fields : List Field
  body : Bytes
  deriving DecidableEq, Repr, Inhabited

namespace Spec

def maxMessage : Nat := 134217728   -- 2^27
def maxArray : Nat := 67108864      -- 2^26
def version : Nat := 1

def endianByte : Endian → UInt8
  | .little => 108    -- 'l'
  | .big => 66        -- 'B'

/-- The 16 fixed bytes: the four single bytes, the body length, the serial and the length word of the
header array. -/
def fixedPart (m : SpecMsg) (arrayLen : Nat) : Bytes :=
  [endianByte m.endian, UInt8.ofNat m.mtype, UInt8.ofNat m.flags, UInt8.ofNat version]
    ++ encUInt m.endian 4 m.body.length ++ encUInt m.endian 4 m.serial ++ encUInt m.endian 4 arrayLen

/-- The data of the header array: it starts at offset 16 (a multiple of 8: no padding after the length word). -/
def fieldArray (m : SpecMsg) : Bytes := encFields m.endian 16 m.fields

/-- Padding between the end of the header array and the body. -/
def headerPad (m : SpecMsg) : Bytes := zeros (padLen 8 (16 + (fieldArray m).length))

def encodeMsg (m : SpecMsg) : Bytes :=
  fixedPart m (fieldArray m).length ++ fieldArray m ++ headerPad m ++ m.body

end Spec

namespace Spec

/-- The header fields the specification defines and the type each must have ("Header Fields" table):
1 PATH OBJECT_PATH, 2 INTERFACE STRING, 3 MEMBER STRING, 4 ERROR_NAME STRING, 5 REPLY_SERIAL UINT32,
6 DESTINATION STRING, 7 SENDER STRING, 8 SIGNATURE SIGNATURE, 9 UNIX_FDS UINT32.  Other codes: no constraint
("must be accepted and ignored"). -/
def fieldType : Nat → Option Basic
  | 1 => some .o | 2 => some .s | 3 => some .s | 4 => some .s | 5 => some .u
  | 6 => some .s | 7 => some .s | 8 => some .g | 9 => some .u
  | _ => none

/-- The header fields each message type requires: METHOD_CALL PATH, MEMBER; METHOD_RETURN REPLY_SERIAL;
ERROR ERROR_NAME, REPLY_SERIAL; SIGNAL PATH, INTERFACE, MEMBER. -/
def requiredCodes : Nat → List Nat
  | 1 => [1, 3] | 2 => [5] | 3 => [4, 5] | 4 => [1, 2, 3]
  | _ => []

end Spec

/-- Sizes and well-formed values: what the layout needs. -/
def SpecMsg.sized (m : SpecMsg) : Bool :=
  decide (1 ≤ m.mtype ∧ m.mtype ≤ 4) && decide (m.flags < 8) && decide (1 ≤ m.serial ∧ m.serial < 4294967296)
    && m.fields.all Field.wf && decide ((Spec.fieldArray m).length ≤ Spec.maxArray)
    && decide ((Spec.encodeMsg m).length ≤ Spec.maxMessage)

/-- Every field with a code of the specification's table carries a value of the table's type. -/
def SpecMsg.typed (m : SpecMsg) : Bool :=
  m.fields.all fun f =>
    match Spec.fieldType f.1 with
    | some t => f.2.ty == t
    | none => true

/-- The fields its message type requires are there. -/
def SpecMsg.hasRequired (m : SpecMsg) : Bool :=
  (Spec.requiredCodes m.mtype).all fun c => (m.fields.map (·.1)).contains c

/-- The messages of the specification (with basic-typed header fields): sizes, field types, required fields. -/
def SpecMsg.valid (m : SpecMsg) : Bool := m.sized && m.typed && m.hasRequired

/-- The messages `Spec.encodeMsg` lays out faithfully (every number fits its field); weaker than `valid`:
no limit on the message type, on the serial being non-zero, or on the 2^26 / 2^27 size limits. -/
def SpecMsg.encodable (m : SpecMsg) : Bool :=
  decide (m.mtype < 256) && decide (m.flags < 256) && decide (m.serial < 4294967296)
    && decide (m.body.length < 4294967296) && decide ((Spec.fieldArray m).length < 4294967296)
    && m.fields.all Field.wf

namespace Spec

/-- Strict decoder of a whole message. -/
def decodeMsg (raw : Bytes) : Option SpecMsg :=
  match raw with
  | b0 :: b1 :: b2 :: b3 :: rest =>
    let eo : Option Endian := if b0 = 108 then some .little else if b0 = 66 then some .big else none
    match eo with
    | none => none
    | some e =>
      match takeExact 4 rest with
      | none => none
      | some (wb, r1) =>
        match takeExact 4 r1 with
        | none => none
        | some (ws, r2) =>
          match takeExact 4 r2 with
          | none => none
          | some (wa, r3) =>
            let n := decUInt e wa
            if b3.toNat ≠ version ∨ maxArray < n then none
            else
              match decFields e (r3.length + 1) r3 16 (16 + n) with
              | none => none
              | some (fs, r4) =>
                match skipZeros 8 r4 (16 + n) with
                | none => none
                | some (body, _) =>
                  let m : SpecMsg := ⟨e, b1.toNat, b2.toNat, decUInt e ws, fs, body⟩
                  if decUInt e wb = body.length ∧ m.valid ∧ raw.length ≤ maxMessage then some m else none
  | _ => none

/-- "Well-formed DBus message" (with basic-typed header fields): the strict decoder accepts it. -/
def WellFormed (raw : Bytes) : Prop := ∃ m, decodeMsg raw = some m

end Spec
end Txdbus.Msg
