import TxdbusModel.Msg.Bridge
import TxdbusModel.Wire.Code
/-
C03 CODE MODEL, second rendering (extension 2026-09-30): txdbus/message.py with the header going through the
GENERAL wire codec model of C01/C02 (`Code.marshal` / `Code.unmarshal`, Wire/Code.lean) - what the code really calls:

    binHeader = b''.join(marshal.marshal(_headerFormat, [endian, type, flags, version, bodyLength, serial, headers],
                                         lendian=self.endian == ord('l'))[1])                      (message.py:142)
    nheader, hval = marshal.unmarshal(_headerFormat, rawMessage, 0, lendian, oobFDs)               (message.py:382)

`Msg/HeaderCode.lean` is that call specialised by hand to `'yyyyuua(yv)'` and to variants holding one of the 13 basic
types; Proofs/Msg/GeneralDecode.lean / GeneralEncode.lean prove that the specialisation is faithful
(`headerCode_eq_general_decode`, `headerCode_eq_general_encode` in Properties/C03.lean).  The definitions below are the
same message functions as in Msg/Message.lean with the two header calls replaced by the general model; they have NO
fragment restriction (a header field whose variant holds an array, a struct, a dict, a variant is decoded like any other).
(What they share with Msg/Message.lean unchanged is `buildHeaders` / `wrapAttr`: the wrapper typing `ObjectPath(x)` /
`Signature(x)` / `UInt32(x)` of `_marshal` is modelled for str / int values; on a parsed message that holds another value in
`path` / `signature` / `reply_serial` / `unix_fds` - a known field sent with the wrong type - `remarshalG` answers
`PyErr.other` like `remarshal`, where the code computes `str(x)` / `int(x)`.  Review 3, 3.2.)

  * `headerArgs`      - the Python list handed to `marshal.marshal` (`self.headers` is a list of `[code, hval]` lists);
  * `HeaderVals.toPy` - `hval` as `marshal.unmarshal` returns it: six ints and a list of `[code, value]` lists;
  * `headerOfPy`      - what `parseMessage` reads out of `hval` (`hval[1]`, `hval[2]`, `hval[5]`, `for code, v in hval[6]`);
                        a result of another shape cannot come out of `unmarshal('yyyyuua(yv)', …)` (`headerOfPy_general`),
                        the model answers `PyErr.other` for it;
  * `marshalHeaderG` / `unmarshalHeaderG`, `finishMarshalG` / `marshalMsgG` / `constructG` / `remarshalG` / `parseMessageG`.
`fuel` is the step budget of the general model (per-type calls); 4 suffice for a header of basic-typed variants
(array, struct, variant, value), a variant holding a container needs its nesting depth more.  Core Lean only.
-/
namespace Txdbus.Msg

/-- `self.headers` as the Python value handed to `marshal.marshal`: a list of `[code, value]` lists. -/
def headersVal (hs : List (PyVal × PyVal)) : PyVal := .list (hs.map fun h => .list [h.1, h.2])

/-- The `variableList` of the header call of `_marshal`. -/
def headerArgs (endian mtype flags version bodyLength serial : PyVal) (headers : List (PyVal × PyVal)) : PyVal :=
  .list [endian, mtype, flags, version, bodyLength, serial, headersVal headers]

/-- `b''.join(marshal.marshal(fmt, [endian, type, flags, version, bodyLength, serial, headers], lendian=le)[1])`
through the general code model (`startByte = 0`, `oobFDs = None`: the defaults). -/
def marshalHeaderG (fuel : Nat) (fmt : List Char) (le : Bool) (endian mtype flags version bodyLength serial : PyVal)
    (headers : List (PyVal × PyVal)) : Except PyErr Bytes :=
  match Code.marshal fuel fmt (headerArgs endian mtype flags version bodyLength serial headers) 0 le none with
  | .ok (_, bs, _) => .ok bs
  | .error e => .error e

/-- The seven values of a decoded header as the Python list `unmarshal` returns. -/
def HeaderVals.toPy (h : HeaderVals) : List PyVal :=
  [.int .plain (h.endian : Nat), .int .plain (h.mtype : Nat), .int .plain (h.flags : Nat), .int .plain (h.version : Nat),
   .int .plain (h.bodyLength : Nat), .int .plain (h.serial : Nat),
   .list (h.fields.map fun f => .list [.int .plain (f.1 : Nat), f.2])]

/-- `for code, v in hval[6]` on one item. -/
def fieldOfPy : PyVal → Option (Nat × PyVal)
  | .list [.int _ c, v] => some (c.toNat, v)
  | _ => none

def fieldsOfPy : List PyVal → Option (List (Nat × PyVal))
  | [] => some []
  | it :: rest =>
    match fieldOfPy it, fieldsOfPy rest with
    | some f, some fs => some (f :: fs)
    | _, _ => none

/-- What `parseMessage` reads out of `(nheader, hval)`. -/
def headerOfPy (n : Nat) : List PyVal → Except PyErr HeaderVals
  | [.int _ v0, .int _ v1, .int _ v2, .int _ v3, .int _ v4, .int _ v5, .list items] =>
    match fieldsOfPy items with
    | some fields => .ok ⟨n, v0.toNat, v1.toNat, v2.toNat, v3.toNat, v4.toNat, v5.toNat, fields⟩
    | none => .error .other
  | _ => .error .other

/-- `marshal.unmarshal(fmt, data, 0, lendian, oobFDs)` through the general code model, read as `parseMessage` reads it. -/
def unmarshalHeaderG (fuel : Nat) (fmt : List Char) (le : Bool) (data : Bytes) (fds : Option (List PyVal)) :
    Except PyErr HeaderVals :=
  match Code.unmarshal fuel fmt data 0 le fds with
  | .error e => .error e
  | .ok (n, vs) => headerOfPy n vs

/-- `finishMarshal` (Msg/Message.lean) with the header call through the general code model. -/
def finishMarshalG {β : Type} (T : Tables) (fuel : Nat) (maxLen : Nat) (st : St) (p : Pre β) (binBody : Bytes)
    (attrs : Attr → PyVal) (table : List (Attr × Nat × Bool)) : St × Except PyErr (Msg β) :=
  match buildHeaders attrs table with
  | .error x => (st, .error x)
  | .ok headers =>
    let serial := st.nextSerial
    let st' : St := ⟨st.nextSerial + 1⟩
    let le := T.endian == 108
    match marshalHeaderG fuel T.headerFormat le (.int .plain (T.endian : Nat)) (.int .plain (T.messageType p.cls : Nat))
            (.int .plain (flagsWith 0 p.expectReply p.autoStart : Nat)) (.int .plain (T.protocolVersion : Nat))
            (.int .plain (binBody.length : Nat)) (.int .plain (serial : Nat)) headers with
    | .error x => (st', .error x)
    | .ok binHeader =>
      let pad := headerPadding T binHeader.length
      if (binHeader ++ pad ++ binBody).length > maxLen then (st', .error .marshalling)
      else (st', .ok { cls := p.cls, expectReply := p.expectReply, autoStart := p.autoStart, attrs := attrs,
                       body := p.body, serial := serial, rawHeader := binHeader, rawPadding := pad,
                       rawBody := binBody })

/-- `DBusMessage._marshal(self, newSerial=True, oobFDs=oobFDs)` with the general header codec. -/
def marshalMsgG {β : Type} (T : Tables) (C : BodyCodec β) (fuel : Nat) (maxLen : Nat) (st : St) (p : Pre β)
    (oobFDs : Option (List PyVal)) : St × Except PyErr (Msg β) :=
  match marshalBody T C p oobFDs with
  | .error x => (st, .error x)
  | .ok (binBody, attrs, table) => finishMarshalG T fuel maxLen st p binBody attrs table

/-- A constructor call (validation, attribute assignment, `_marshal`) with the general header codec. -/
def constructG {β : Type} (T : Tables) (C : BodyCodec β) (fuel : Nat) (na : Char → Bool) (maxLen : Nat) (st : St)
    (c : Call β) : St × Except PyErr (Msg β) :=
  match c.checks T na with
  | .error x => (st, .error x)
  | .ok () => marshalMsgG T C fuel maxLen st c.pre c.oob

/-- `m._marshal(False, rawBody=rawBody)` (bus forwarding, `remarshal` of Msg/Message.lean) with the general header codec. -/
def remarshalG {β : Type} (T : Tables) (fuel : Nat) (maxLen : Nat) (m : Msg β) (endian : Nat) (rawBody : Bytes) :
    Except PyErr (Msg β) :=
  match buildHeaders m.attrs (T.headerAttrs m.cls) with
  | .error x => .error x
  | .ok headers =>
    let le := endian == 108
    match marshalHeaderG fuel T.headerFormat le (.int .plain (endian : Nat)) (.int .plain (T.messageType m.cls : Nat))
            (.int .plain (flagsWith m.otherFlags m.expectReply m.autoStart : Nat)) (.int .plain (T.protocolVersion : Nat))
            (.int .plain (rawBody.length : Nat)) (.int .plain (m.serial : Nat)) headers with
    | .error x => .error x
    | .ok binHeader =>
      let pad := headerPadding T binHeader.length
      if (binHeader ++ pad ++ rawBody).length > maxLen then .error .marshalling
      else .ok { m with rawHeader := binHeader, rawPadding := pad, rawBody := rawBody }

/-- `parseMessage(rawMessage, oobFDs)` with the header decoded by the general code model. -/
def parseMessageG {β : Type} (T : Tables) (C : BodyCodec β) (fuel : Nat) (rawMessage : Bytes)
    (oobFDs : Option (List PyVal)) : Except PyErr (Msg β) :=
  match rawMessage with
  | [] => .error .index
  | b0 :: _ =>
    let lendian := b0 == 108
    match unmarshalHeaderG fuel T.headerFormat lendian rawMessage oobFDs with
    | .error x => .error x
    | .ok h => parseAfterHeader T C rawMessage lendian oobFDs h

/-- What the bus does with a received message (bus.py:82-89): `msg.sender = uniqueName`, `msg.endian = raw_msg[0]`,
`msg._marshal(False, rawBody=msg.rawBody)`, on the object `parseMessage` returned. -/
def forward {β : Type} (T : Tables) (maxLen : Nat) (m : Msg β) (endian : Nat) (sender : List Char) : Except PyErr (Msg β) :=
  remarshal T maxLen { m with attrs := setAttr m.attrs .sender (.str .plain sender) } endian m.rawBody

def forwardG {β : Type} (T : Tables) (fuel : Nat) (maxLen : Nat) (m : Msg β) (endian : Nat) (sender : List Char) :
    Except PyErr (Msg β) :=
  remarshalG T fuel maxLen { m with attrs := setAttr m.attrs .sender (.str .plain sender) } endian m.rawBody

/-! ### executable form of the hypotheses of `forward_parse` (Properties/C03.lean): the driver certifies every forwarded
case with it, closed examples evaluate it; `fwdOKB_sound` (Proofs/Msg/Forward.lean) turns it into the hypotheses. -/

/-- `AttrFwd` as a Boolean: None; an int for `reply_serial` / `unix_fds`; a plain str for the other attributes. -/
def attrFwdB (a : Attr) (v : PyVal) : Bool :=
  match v with
  | .none => true
  | .int _ _ => a == .replySerial || a == .unixFds
  | .str .plain _ => a != .replySerial && a != .unixFds
  | _ => false

/-- The hypotheses `hshape` and `hin` of `forward_parse`, and the NUL condition, as a Boolean. -/
def fwdOKB {β : Type} (T : Tables) (m : Msg β) : Bool :=
  Attr.all.all (fun a => attrFwdB a (m.attrs a) &&
    (a == .sender || isNone (m.attrs a) || (T.headerAttrs m.cls).any (fun ent => ent.1 == a))) &&
  (match m.attrs .signature with
   | .str _ s => !s.contains nul
   | _ => true)

/-- "Outside the fragment of Msg/HeaderCode.lean": the specialised codec answered `PyErr.other`. -/
def outside {α : Type} : Except PyErr α → Bool
  | .error .other => true
  | _ => false

theorem outside_false_iff {α : Type} (r : Except PyErr α) : outside r = false ↔ r ≠ .error .other := by
  cases r with
  | ok x => simp [outside]
  | error e => cases e <;> simp [outside]

end Txdbus.Msg
