import TxdbusModel.Proto.Basic
/-
SPEC for C04 (written from the DBus specification / the property text only; it never looks at txdbus).

A DBus connection, once authenticated, carries a concatenation of messages.  Every message starts
with a 16-byte fixed part

    byte 0      byte order: 'l' (0x6c) little endian, 'B' big endian
    bytes 4-7   UINT32 length of the body
    bytes 12-15 UINT32 length of the array of header fields

and is  16 + (header field array) + (padding to a multiple of 8) + body  bytes long.

`frames s` cuts a byte stream at these lengths: the complete messages it starts with, in order, and
the incomplete rest.  `splitCRLF` / `hasCRLF` specify "lines terminated by CR LF".
Core Lean only.
-/
namespace Txdbus.Proto

namespace Spec

/-- Byte `i` of the stream (0 beyond its end; only used below the length). -/
def byteAt (s : Bytes) (i : Nat) : Nat := (s.getD i 0).toNat

/-- The UINT32 at offset `i`, in the byte order announced by byte 0 of the message. -/
def u32At (s : Bytes) (i : Nat) : Nat :=
  if s.head? = some 108 then
    byteAt s i + 256 * byteAt s (i + 1) + 65536 * byteAt s (i + 2) + 16777216 * byteAt s (i + 3)
  else
    16777216 * byteAt s i + 65536 * byteAt s (i + 1) + 256 * byteAt s (i + 2) + byteAt s (i + 3)

/-- Padding that brings `n` up to a multiple of 8. -/
def pad8 (n : Nat) : Nat := (8 - n % 8) % 8

/-- Total length announced by the fixed header at the front of `s` (meaningful when `16 ≤ s.length`). -/
def msgLen (s : Bytes) : Nat :=
  let body := u32At s 4
  let harr := u32At s 12
  16 + harr + pad8 (16 + harr) + body

theorem msgLen_ge (s : Bytes) : 16 ≤ msgLen s := by
  simp only [msgLen]; omega

/-- The front of `s` is a complete message. -/
def hasFrame (s : Bytes) : Prop := 16 ≤ s.length ∧ msgLen s ≤ s.length

instance (s : Bytes) : Decidable (hasFrame s) := by unfold hasFrame; exact inferInstance

/-- Cut a stream into its complete messages and the incomplete remainder. -/
def frames (s : Bytes) : List Bytes × Bytes :=
  if h : hasFrame s then
    let r := frames (s.drop (msgLen s))
    (s.take (msgLen s) :: r.1, r.2)
  else ([], s)
termination_by s.length
decreasing_by
  have h1 := msgLen_ge s
  have h2 := h.1
  simp only [List.length_drop]; omega

/-- "Well-formed for framing": the length fields of the fixed header are consistent with the total
length of the message.  (Every message that `DBusMessage._marshal` produces has this form - C03.) -/
def WellFormed (m : Bytes) : Prop := 16 ≤ m.length ∧ msgLen m = m.length

instance (m : Bytes) : Decidable (WellFormed m) := by unfold WellFormed; exact inferInstance

/-- A byte string contains the two-byte delimiter CR LF. -/
def hasCRLF : Bytes → Bool
  | [] => false
  | [_] => false
  | x :: y :: t => (x == 13 && y == 10) || hasCRLF (y :: t)

/-- The stream that consists of the given lines, each followed by CR LF. -/
def unlines (ls : List Bytes) : Bytes := (ls.map (· ++ [13, 10])).flatten

end Spec
end Txdbus.Proto
