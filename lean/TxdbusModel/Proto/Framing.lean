import TxdbusModel.Proto.Basic
import TxdbusModel.Gen.ProtoConst
/-
CODE MODEL for C04: `BasicDBusProtocol.dataReceived` of txdbus/protocol.py as a step function

    (buffer, nextMsgLen, endian, authenticated, firstByte, closed, authenticator state) × one read
        ->  new state  +  the effects of that read, in order

Effects: a raw message handed to `rawDBusMessageReceived`, a line handed to the authenticator's
`handleAuthMessage`, a call of `transport.loseConnection()`, an exception escaping `dataReceived`.

The model follows the code as written (after the repairs c1e0b2e, 4e9e31b, 839b5f3):

  binary branch   `self._buffer = self._buffer + data`, then `while True:` - compute the cached
                  `_nextMsgLen` (and reset `_endian`) when it is 0 and at least 16 bytes are buffered,
                  `break` when nothing is known or the buffer is shorter than the message, otherwise
                  slice the message off, reset the cache and deliver.
  line branch     the first-byte check of a server, `(self._buffer + data).split(b'\r\n')`,
                  `self._buffer = lines.pop(-1)`, the loop over the lines with the `disconnecting`
                  early return, the line-length check, `handleAuthMessage` / `authenticationSucceeded`,
                  on success the re-joined rest handed to the binary branch, `DBusAuthenticationFailed`
                  -> `loseConnection` (the loop goes on), and the `for ... else` check of the remainder.

The authenticator is an abstract parameter: a state type `α` and a function
`handle : α → line → α × {cont, success, failed}` (`failed` = `handleAuthMessage` raised
`DBusAuthenticationFailed`; `success` = it returned and `authenticationSucceeded()` is true).
`transport.disconnecting` is the `closed` flag (what `loseConnection` sets on the transport).
Not modelled: the SO_PEERCRED lookup (`_is_linux`), `guid`, `connectionAuthenticated()`.
Core Lean only.
-/
namespace Txdbus.Proto

open Txdbus.Gen.ProtoConst

/-! ## Python helpers -/

/-- `b[i:j]` for `0 ≤ i ≤ j` (slices clamp). -/
def slice (b : Bytes) (i j : Nat) : Bytes := (b.drop i).take (j - i)

/-- `struct.unpack('<I' | '>I', bs)[0]` for a 4-byte string (`int.from_bytes` for any length; the
guard `buffer_len >= 16` makes the slices exactly 4 bytes long, so `struct.error` cannot occur). -/
def unpackU32 (big : Bool) (bs : Bytes) : Nat :=
  if big then bs.foldl (fun acc b => acc * 256 + b.toNat) 0
  else bs.foldr (fun b acc => b.toNat + 256 * acc) 0

/-- `(buffer + data).split(b'\r\n')` followed by `lines.pop(-1)`: the complete lines and the
unterminated remainder.  `bytes.split` scans left to right for non-overlapping occurrences. -/
def splitCRLF : Bytes → List Bytes × Bytes
  | [] => ([], [])
  | [x] => ([], [x])
  | x :: y :: t =>
    if x = 13 ∧ y = 10 then
      let r := splitCRLF t
      ([] :: r.1, r.2)
    else
      let r := splitCRLF (y :: t)
      match r.1 with
      | [] => ([], x :: r.2)
      | l :: ls => ((x :: l) :: ls, r.2)

/-- `b'\r\n'.join(ls + [last])`. -/
def joinCRLF : List Bytes → Bytes → Bytes
  | [], last => last
  | l :: t, last => l ++ 13 :: 10 :: joinCRLF t last

/-! ## Binary branch -/

/-- The three attributes the binary branch works on. -/
structure BinState where
  buffer : Bytes
  nextMsgLen : Nat
  bigEndian : Bool
  deriving DecidableEq, Repr

/-- Lines 112-134: the byte order of the message at the front of the buffer and its total length. -/
def computeLen (buf : Bytes) : Nat × Bool :=
  let big := buf.take 1 != [littleMarker]
  let bodyLen := unpackU32 big (slice buf bodyLenSlice.1 bodyLenSlice.2)
  let harrLen := unpackU32 big (slice buf harrLenSlice.1 harrLenSlice.2)
  let hlen := msgHdrLen + harrLen
  -- `hlen % 8 and (8 - hlen % 8) or 0`
  let padlen := if hlen % padModulus ≠ 0 ∧ padModulus - hlen % padModulus ≠ 0
                then padModulus - hlen % padModulus else 0
  (msgHdrLen + harrLen + padlen + bodyLen, big)

/-- What one pass of the `while True:` does before the `break` test: refresh the cache. -/
def refresh (buf : Bytes) (next : Nat) (big : Bool) : Nat × Bool :=
  if next == 0 && geLen buf minHeader then computeLen buf else (next, big)

/-- The `while True:` loop of the binary branch on the (already extended) buffer.  Returns the state
when the loop breaks and the raw messages delivered, in order.  Every pass that does not break
removes `_nextMsgLen ≥ 1` bytes from the buffer: the loop is decreasing in the buffer length. -/
def binLoop (buf : Bytes) (next : Nat) (big : Bool) : BinState × List Bytes :=
  let c := refresh buf next big
  if h : c.1 = 0 ∨ geLen buf c.1 = false then (⟨buf, c.1, c.2⟩, [])
  else
    let r := binLoop (buf.drop c.1) 0 c.2
    (r.1, buf.take c.1 :: r.2)
termination_by buf.length
decreasing_by
  have h1 : ¬ (refresh buf next big).1 = 0 := fun e => h (Or.inl e)
  have h2 : geLen buf (refresh buf next big).1 = true := by
    cases hg : geLen buf (refresh buf next big).1 with
    | true => rfl
    | false => exact absurd (Or.inr hg) h
  have h3 := (geLen_iff buf _).1 h2
  simp only [List.length_drop]
  omega

/-! ## Whole protocol state -/

inductive AuthRes where
  | cont      -- handleAuthMessage returned, authenticationSucceeded() is False
  | success   -- handleAuthMessage returned, authenticationSucceeded() is True
  | failed    -- handleAuthMessage raised DBusAuthenticationFailed
  deriving DecidableEq, Repr

/-- The abstract authenticator. -/
structure Auth (α : Type) where
  handle : α → Bytes → α × AuthRes

inductive Effect where
  | msg (raw : Bytes)    -- rawDBusMessageReceived(raw)
  | line (l : Bytes)     -- self._dbusAuth.handleAuthMessage(l)
  | lose                 -- self.transport.loseConnection()
  | crash                -- an exception escapes dataReceived (IndexError on `data[0]` of an empty read)
  deriving DecidableEq, Repr

structure St (α : Type) where
  client : Bool          -- `_client` (class attribute; never changes)
  buffer : Bytes
  nextMsgLen : Nat
  bigEndian : Bool       -- `_endian == '>'`
  authenticated : Bool
  firstByte : Bool
  closed : Bool          -- `transport.disconnecting`
  auth : α
  deriving Repr

/-- A freshly connected protocol. -/
def St.init {α : Type} (client : Bool) (a : α) : St α :=
  ⟨client, [], 0, false, false, true, false, a⟩

/-- Binary branch of `dataReceived`. -/
def binStep {α : Type} (s : St α) (data : Bytes) : St α × List Effect :=
  let r := binLoop (s.buffer ++ data) s.nextMsgLen s.bigEndian
  ({ s with buffer := r.1.buffer, nextMsgLen := r.1.nextMsgLen, bigEndian := r.1.bigEndian },
   r.2.map Effect.msg)

inductive LineKind where
  | done      -- the `for` loop ran to its end (the `else:` clause comes next)
  | ret       -- early `return` (transport disconnecting, or a line longer than the limit)
  | success   -- the authenticator reported success after a line
  deriving DecidableEq, Repr

structure LineOut (α : Type) where
  kind : LineKind
  auth : α
  closed : Bool
  effs : List Effect
  rest : List Bytes      -- `lines[lineno + 1:]` when `kind = success`, `[]` otherwise

def LineOut.pre {α : Type} (e : List Effect) (r : LineOut α) : LineOut α :=
  { r with effs := e ++ r.effs }

/-- The `for lineno, line in enumerate(lines):` loop. -/
def lineLoop {α : Type} (A : Auth α) (a : α) (closed : Bool) : List Bytes → LineOut α
  | [] => ⟨.done, a, closed, [], []⟩
  | line :: rest =>
    if closed then ⟨.ret, a, closed, [], []⟩
    else if line.length > maxAuthLength then ⟨.ret, a, true, [.lose], []⟩
    else
      match A.handle a line with
      | (a', .success) => ⟨.success, a', closed, [.line line], rest⟩
      | (a', .cont) => (lineLoop A a' closed rest).pre [.line line]
      | (a', .failed) => (lineLoop A a' true rest).pre [.line line, .lose]

/-- What follows the `for` loop (lines 177-198): the hand-off to the binary branch after success, the
plain `return`, or the `else:` clause that checks the unterminated remainder `rem` (= `self._buffer`). -/
def lineFinish {α : Type} (s : St α) (rem : Bytes) (r : LineOut α) : St α × List Effect :=
  match r.kind with
  | .done =>
    if rem.length > maxAuthLength + authDelimiter.length - remainderSlack then
      ({ s with buffer := rem, auth := r.auth, closed := true }, r.effs ++ [.lose])
    else
      ({ s with buffer := rem, auth := r.auth, closed := r.closed }, r.effs)
  | .ret => ({ s with buffer := rem, auth := r.auth, closed := r.closed }, r.effs)
  | .success =>
    -- rest = self.authDelimiter.join(lines[lineno + 1:] + [self._buffer]); self._buffer = b''
    let rest := joinCRLF r.rest rem
    let s' : St α := { s with buffer := [], auth := r.auth, closed := r.closed, authenticated := true }
    if rest ≠ [] then
      let q := binStep s' rest
      (q.1, r.effs ++ q.2)
    else (s', r.effs)

/-- Lines 162-198: split, loop, hand-off or remainder check. -/
def lineBody {α : Type} (A : Auth α) (s : St α) (data : Bytes) : St α × List Effect :=
  let sp := splitCRLF (s.buffer ++ data)
  lineFinish s sp.2 (lineLoop A s.auth s.closed sp.1)

/-- Line branch of `dataReceived` (lines 146-198). -/
def lineStep {α : Type} (A : Auth α) (s : St α) (data : Bytes) : St α × List Effect :=
  if !s.client && s.firstByte then
    match data with
    | [] => (s, [.crash])                                        -- data[0] raises IndexError
    | b :: data' =>
      if b != 0 then ({ s with closed := true }, [.lose])        -- firstByte stays True
      else lineBody A { s with firstByte := false } data'
  else lineBody A s data

/-- `dataReceived(data)`. -/
def step {α : Type} (A : Auth α) (s : St α) (data : Bytes) : St α × List Effect :=
  if s.authenticated then binStep s data else lineStep A s data

/-- A sequence of reads. -/
def run {α : Type} (A : Auth α) (s : St α) : List Bytes → St α × List Effect
  | [] => (s, [])
  | d :: ds =>
    let r := step A s d
    let q := run A r.1 ds
    (q.1, r.2 ++ q.2)

/-! ## Observations -/

def Effect.isLose : Effect → Bool
  | .lose => true
  | _ => false

/-- The raw messages among the effects, in order. -/
def msgsOf : List Effect → List Bytes
  | [] => []
  | .msg m :: t => m :: msgsOf t
  | _ :: t => msgsOf t

/-- The authentication lines among the effects, in order. -/
def linesOf : List Effect → List Bytes
  | [] => []
  | .line l :: t => l :: linesOf t
  | _ :: t => linesOf t

/-- Effects without the `loseConnection` calls (calling it twice is the same as calling it once; the
`closed` flag of the state records whether it was called). -/
def noLose (es : List Effect) : List Effect := es.filter (fun e => !e.isLose)

/-! ## The code before repair c1e0b2e (witness of the old defect)

`dataReceived` re-entered itself once per complete message (`self.dataReceived(b'')` after each
delivery).  `depth` counts the nested Python frames; fuel-recursive so that `decide` can run it. -/
def binRecOld : Nat → Bytes → Nat → Bool → Nat → Option (BinState × List Bytes × Nat)
  | 0, _, _, _, _ => none
  | fuel + 1, buf, next, big, depth =>
    let c := refresh buf next big
    if c.1 = 0 ∨ geLen buf c.1 = false then some (⟨buf, c.1, c.2⟩, [], depth)
    else
      if buf.drop c.1 = [] then some (⟨[], 0, c.2⟩, [buf.take c.1], depth)
      else
        -- `if self._buffer: self.dataReceived(b'')`
        match binRecOld fuel (buf.drop c.1) 0 c.2 (depth + 1) with
        | none => none
        | some (st, ms, d) => some (st, buf.take c.1 :: ms, d)


/-! ## The line branch before repair 4e9e31b (witness of the old defect)

The read that completed authentication was split on CR LF as a whole; after the authenticator had
reported success (`self._dbusAuth = None`, `if self._buffer: self.dataReceived(b'')`) the `for` loop
went on with the remaining "lines" - which are message bytes - and called
`self._dbusAuth.handleAuthMessage(line)` on `None`: AttributeError.  `none` = the discarded
authenticator.  Only the effects are modelled. -/
/-- Messages the binary branch delivers from `rem` (fuel-recursive twin of `binLoop`, so that `decide`
can evaluate the witness). -/
def oldDeliveries (rem : Bytes) : List Bytes :=
  match binRecOld (rem.length + 1) rem 0 false 1 with
  | some (_, ms, _) => ms
  | none => []

def lineLoopOld {α : Type} (A : Auth α) (rem : Bytes) : Option α → Bool → List Bytes → List Effect
  | _, _, [] => []
  | a, closed, line :: rest =>
    if closed then []
    else if line.length > maxAuthLength then [.lose]
    else
      match a with
      | none => [.crash]                                   -- 'NoneType' object has no attribute ...
      | some a =>
        match A.handle a line with
        | (_, .success) =>
          -- binary branch on the unterminated remainder only, then the loop continues
          .line line :: ((oldDeliveries rem).map Effect.msg ++ lineLoopOld A rem none closed rest)
        | (a', .cont) => .line line :: lineLoopOld A rem (some a') closed rest
        | (a', .failed) => .line line :: .lose :: lineLoopOld A rem (some a') true rest

/-- Effects of one read in line mode, old code (client, or server after its first byte). -/
def lineBodyOld {α : Type} (A : Auth α) (s : St α) (data : Bytes) : List Effect :=
  let sp := splitCRLF (s.buffer ++ data)
  lineLoopOld A sp.2 (some s.auth) s.closed sp.1

end Txdbus.Proto
