/-
Shared by the C04 / C20 spec and code model: byte strings and a length test that does not walk
the whole list.  Core Lean only.
-/
namespace Txdbus.Proto

abbrev Bytes := List UInt8

/-- `n ≤ l.length`, looking at no more than `n` cells (Python's `len(buf) >= n` is O(1); on a linked
list `l.length` would make the framing loop quadratic). -/
def geLen {α : Type} : List α → Nat → Bool
  | _, 0 => true
  | [], _ + 1 => false
  | _ :: t, n + 1 => geLen t n

theorem geLen_iff {α : Type} (l : List α) (n : Nat) : geLen l n = true ↔ n ≤ l.length := by
  induction l generalizing n with
  | nil => cases n <;> simp [geLen]
  | cons a t ih => cases n with
    | zero => simp [geLen]
    | succ n => simp [geLen, ih]

theorem geLen_eq {α : Type} (l : List α) (n : Nat) : geLen l n = decide (n ≤ l.length) := by
  by_cases h : n ≤ l.length
  · simp [h, (geLen_iff l n).2 h]
  · have : geLen l n ≠ true := fun h' => h ((geLen_iff l n).1 h')
    simp [h, this]

end Txdbus.Proto
