import TxdbusModel.Proto.Framing
import TxdbusModel.Msg.Message
/-
CODE MODEL for C04 composed with C03: what the receiver does with the frames the framing delivers.

`BasicDBusProtocol.rawDBusMessageReceived(rawMsg)` starts with

    m = message.parseMessage(rawMsg, self._receivedFDs)

and then dispatches on `m._messageType` to `methodCallReceived` / `methodReturnReceived` / `errorReceived` /
`signalReceived`.  The framing model (Proto/Framing.lean, C04) ends at the effect `msg raw`; the message
model (Msg/Message.lean, C03 - imported read-only) has `parseMessage`.  This file puts the one after the
other:

  * `parseFrames T C frames fdss` - `parseMessage` on every delivered frame, in order; `fdss` holds, per
    delivery, the value of `self._receivedFDs` at that moment (what `self._receivedFDs[m.unix_fds:]`
    leaves behind belongs to C05 and is not modelled here: the list is a free parameter);
  * `parseFramesConst` - the same on a connection over which no descriptors arrive (`_receivedFDs`
    is the same list for every delivery - `[]` on a transport that is not a UNIX socket);
  * `receive` - `run` of the framing model over the reads, then `parseFramesConst` over the delivered
    frames: what `parseMessage` returns for each (all-frames-parse case only; see `recvRun` at the end of the
    file for the dispatch to the four hooks, the descriptor list and what happens when a frame does not parse).

`Sent` / `Sent.expected` are the SPEC side of the composition (from the property text: "exactly the
sequence of complete messages ... with identical content"): a message that was sent, and the observable
content (`Msg.View`: type, serial, both flags, the header attributes as Python values, the body) the
receiver must see for it.  Core Lean only.
-/
namespace Txdbus.Proto
/- Everything of this file lives in `Txdbus.Proto.Receive` (`open Txdbus.Proto.Receive` where needed): the flat
namespace `Txdbus.Proto` is shared with C05 / C20 (Proto/Fds.lean has its own `recvRun`, `Msg`, `Delivery`). -/
namespace Receive

/-- `message.parseMessage(rawMsg, self._receivedFDs)` on every delivered frame, in delivery order. -/
def parseFrames {β : Type} (T : Msg.Tables) (C : Msg.BodyCodec β) (frames : List Bytes)
    (fdss : List (Option (List PyVal))) : List (Except PyErr (Msg.Msg β)) :=
  List.zipWith (fun raw fds => Msg.parseMessage T C raw fds) frames fdss

/-- The same when `_receivedFDs` is the same list at every delivery. -/
def parseFramesConst {β : Type} (T : Msg.Tables) (C : Msg.BodyCodec β) (frames : List Bytes)
    (fds : Option (List PyVal)) : List (Except PyErr (Msg.Msg β)) :=
  frames.map fun raw => Msg.parseMessage T C raw fds

/-- The receiver: the framing model over the reads, then `parseMessage` on every delivered frame.
-> final framing state, the effects in order, the parsed messages (or the exception) in order.
CAUTION (review 3): faithful only while every frame parses.  The code parses INSIDE the delivery loop: behind the
first frame that raises nothing more is delivered - `recvRun` below models that (and the dispatch and the descriptor
list); `receive` keeps parsing the frames the framing model delivered.  Little-endian / big-endian alike. -/
def receive {α β : Type} (T : Msg.Tables) (C : Msg.BodyCodec β) (A : Auth α) (s : St α) (reads : List Bytes)
    (fds : Option (List PyVal)) : St α × List Effect × List (Except PyErr (Msg.Msg β)) :=
  let r := run A s reads
  (r.1, r.2, parseFramesConst T C (msgsOf r.2) fds)

/-- SPEC side.  One message that was sent: the constructed message object `msg` (its `raw` is what goes on
the wire), the descriptor list `fds` the receiver holds when it parses it, and `decoded` - what the body
codec decodes the body bytes to (the sender's body in the codec's normal form; irrelevant when the message
has no signature). -/
structure Sent (β : Type) where
  msg : Msg.Msg β
  fds : Option (List PyVal)
  decoded : β

/-- The content the receiver must see for a sent message: the view of the constructed object (message type,
serial, both flags, every header attribute compared as Python values), with the body as the codec decodes it
- `None` when there is no (or the empty) signature, as `parseMessage` leaves it. -/
def Sent.expected {β : Type} (T : Msg.Tables) (x : Sent β) : Msg.View β :=
  { x.msg.view T with
    body := if Msg.truthy (x.msg.attrs .signature) then some x.decoded else none }

/-! ## Additions after review 3 (2026-09-30): dispatch, descriptor list, parse exceptions

Nothing above is changed.  `receive` parses every frame the framing delivered - a fiction for everything behind
a frame that does not parse: in the code `rawDBusMessageReceived` runs INSIDE the `while True:` loop of
`dataReceived`, so an exception of `parseMessage` escapes `dataReceived` at that point.  `recvRun` below is the
receiver with the rest of `rawDBusMessageReceived` and with that behaviour:

    m = message.parseMessage(rawMsg, self._receivedFDs)
    mt = m._messageType
    if hasattr(m, 'unix_fds'): self._receivedFDs = self._receivedFDs[m.unix_fds:]
    if mt == 1: self.methodCallReceived(m) elif mt == 2: self.methodReturnReceived(m)
    elif mt == 3: self.errorReceived(m) elif mt == 4: self.signalReceived(m)

* `hookOfType` - the `if mt == 1 … elif mt == 4` chain (no hook for any other type);
* `sliceFrom` - `self._receivedFDs[m.unix_fds:]` (the attribute exists only when header field 9 was present);
* `handleFrame` - one call of `rawDBusMessageReceived`: the hook called (if any), its argument, the new
  `_receivedFDs`; or the exception of `parseMessage` / of the slice;
* `deliverEffects` - the deliveries of ONE `dataReceived` call, in order, stopping at the first exception: the
  failing frame has already been taken off the buffer and `_nextMsgLen` reset (protocol.py lines 139-144), the
  frames that the framing model delivered after it in the same read were never looked at - they are still in
  `_buffer`; the exception escapes `dataReceived` (effect `crash`, as for the IndexError of Framing.lean);
* `recvRun` - the reads one after the other; after an escaped exception the reactor drops the connection: no
  further read is delivered (the harness stops there too).
The hooks are assumed to return (handlers that raise or re-enter: stream `reentrant-delivery`, implementation only).
`Hook.ofClass` is the SPEC side of the dispatch (a method call is delivered to `methodCallReceived`, ...). -/

/-- The four hooks of `BasicDBusProtocol`. -/
inductive Hook where
  | methodCallReceived | methodReturnReceived | errorReceived | signalReceived
  deriving DecidableEq, Repr

/-- `if mt == 1: … elif mt == 2: … elif mt == 3: … elif mt == 4: …` (nothing for another type). -/
def hookOfType (mt : Nat) : Option Hook :=
  if mt = 1 then some .methodCallReceived
  else if mt = 2 then some .methodReturnReceived
  else if mt = 3 then some .errorReceived
  else if mt = 4 then some .signalReceived
  else none

/-- SPEC: which hook a message of a class is for. -/
def Hook.ofClass : Msg.MsgClass → Hook
  | .methodCall => .methodCallReceived
  | .methodReturn => .methodReturnReceived
  | .error => .errorReceived
  | .signal => .signalReceived

/-- Python `l[n:]` for an int `n` (negative: counted from the end; clamped). -/
def sliceFrom (l : List PyVal) (n : Int) : List PyVal :=
  if 0 ≤ n then l.drop n.toNat else l.drop (l.length - n.natAbs)

/-- `if hasattr(m, 'unix_fds'): self._receivedFDs = self._receivedFDs[m.unix_fds:]` - the attribute is only set
by `parseMessage` from header field 9 (no class default); a value that is not an integer makes the slice raise
TypeError. -/
def fdsAfter (fds : List PyVal) : PyVal → Except PyErr (List PyVal)
  | .none => .ok fds
  | .int _ n => .ok (sliceFrom fds n)
  | .bool b => .ok (fds.drop (if b then 1 else 0))
  | _ => .error .type

/-- One call of `rawDBusMessageReceived(raw)` with `self._receivedFDs = fds`: the hook that is called (none for
an unknown type), the message it is handed, and the new `_receivedFDs`; or the exception that escapes. -/
def handleFrame {β : Type} (T : Msg.Tables) (C : Msg.BodyCodec β) (fds : List PyVal) (raw : Bytes) :
    Except PyErr (Option Hook × Msg.Msg β × List PyVal) :=
  match Msg.parseMessage T C raw (some fds) with
  | .error e => .error e
  | .ok m =>
    match fdsAfter fds (m.attrs .unixFds) with
    | .error e => .error e
    | .ok fds' => .ok (hookOfType (T.messageType m.cls), m, fds')

/-- What the deliveries of one `dataReceived` call come to. -/
structure Delivered (β : Type) where
  /-- the effects that really happened (cut after the failing frame, then `crash`) -/
  effs : List Effect
  /-- per delivered frame: the hook and its argument, or the exception (only the last entry can be one) -/
  calls : List (Except PyErr (Option Hook × Msg.Msg β))
  /-- `_receivedFDs` afterwards -/
  fds : List PyVal
  /-- when an exception escaped: the failing frame and the frames the loop did not get to -/
  aborted : Option (Bytes × List Bytes)

/-- The deliveries of one `dataReceived` call over the effects the framing model computed for it. -/
def deliverEffects {β : Type} (T : Msg.Tables) (C : Msg.BodyCodec β) : List PyVal → List Effect → Delivered β
  | fds, [] => ⟨[], [], fds, none⟩
  | fds, .msg raw :: t =>
    match handleFrame T C fds raw with
    | .error e => ⟨[.msg raw, .crash], [.error e], fds, some (raw, msgsOf t)⟩
    | .ok (h, m, fds') =>
      let r := deliverEffects T C fds' t
      ⟨.msg raw :: r.effs, .ok (h, m) :: r.calls, r.fds, r.aborted⟩
  | fds, e :: t =>
    let r := deliverEffects T C fds t
    ⟨e :: r.effs, r.calls, r.fds, r.aborted⟩

/-- The receiver over a list of reads: framing (`step`), then the deliveries of that read; an exception that
escapes `dataReceived` ends the connection.  -> final framing state (after an exception: the failing frame gone,
everything behind it buffered, `_nextMsgLen == 0`, `_endian` that of the failing frame), the effects, the hook
calls (or the exception, last), the final `_receivedFDs`. -/
def recvRun {α β : Type} (T : Msg.Tables) (C : Msg.BodyCodec β) (A : Auth α) :
    St α → List PyVal → List Bytes →
      St α × List Effect × List (Except PyErr (Option Hook × Msg.Msg β)) × List PyVal
  | s, fds, [] => (s, [], [], fds)
  | s, fds, d :: ds =>
    let r := step A s d
    let dl : Delivered β := deliverEffects T C fds r.2
    match dl.aborted with
    | some (bad, later) =>
      ({ r.1 with buffer := later.flatten ++ r.1.buffer, nextMsgLen := 0,
                  bigEndian := bad.take 1 != [Txdbus.Gen.ProtoConst.littleMarker] },
       dl.effs, dl.calls, dl.fds)
    | none =>
      let q := recvRun T C A r.1 dl.fds ds
      (q.1, dl.effs ++ q.2.1, dl.calls ++ q.2.2.1, q.2.2.2)

/-! ### SPEC side, from the CONSTRUCTOR ARGUMENTS (review 3, F2)

`Sent.expected` is the view of the object the code model of the constructor RETURNED.  `Call.expectedView`
states what the receiver must see from what the sender PASSED: the message type of the constructor that was
called (the type codes of the DBus specification), the requested flags, every argument under its own header
attribute, the serial the counter stood at, and the decoded body.  `unix_fds` is not an argument (`_marshal`
sets it to the number of descriptors collected): it is taken from the constructed object. -/

/-- METHOD_CALL = 1, METHOD_RETURN = 2, ERROR = 3, SIGNAL = 4 (DBus specification, "Message Format"). -/
def callType {β : Type} : Msg.Call β → Nat
  | .methodCall _ => 1
  | .methodReturn _ => 2
  | .error _ => 3
  | .signal _ => 4

/-- The hook a constructor call is for. -/
def callHook {β : Type} : Msg.Call β → Hook
  | .methodCall _ => .methodCallReceived
  | .methodReturn _ => .methodReturnReceived
  | .error _ => .errorReceived
  | .signal _ => .signalReceived

/-- `expectReply`, `autoStart` as requested (only `MethodCallMessage` has the arguments; True otherwise). -/
def callFlags {β : Type} : Msg.Call β → Bool × Bool
  | .methodCall a => (a.expectReply, a.autoStart)
  | _ => (true, true)

/-- Every argument under its own header attribute (None when not passed / not an argument of that class). -/
def callAttr {β : Type} : Msg.Call β → Msg.Attr → PyVal
  | .methodCall a, .path => Msg.strAttr a.path
  | .methodCall a, .member => Msg.strAttr a.member
  | .methodCall a, .interface => Msg.strAttr a.interface
  | .methodCall a, .destination => Msg.strAttr a.destination
  | .methodCall a, .signature => Msg.strAttr a.signature
  | .methodReturn a, .replySerial => .int .plain a.replySerial
  | .methodReturn a, .destination => Msg.strAttr a.destination
  | .methodReturn a, .signature => Msg.strAttr a.signature
  | .error a, .errorName => Msg.strAttr a.errorName
  | .error a, .replySerial => .int .plain a.replySerial
  | .error a, .destination => Msg.strAttr a.destination
  | .error a, .signature => Msg.strAttr a.signature
  | .error a, .sender => Msg.strAttr a.sender
  | .signal a, .path => Msg.strAttr a.path
  | .signal a, .member => Msg.strAttr a.member
  | .signal a, .interface => Msg.strAttr a.interface
  | .signal a, .destination => Msg.strAttr a.destination
  | .signal a, .signature => Msg.strAttr a.signature
  | _, _ => .none

/-- One constructor call as the sender made it: the value of `DBusMessage._nextSerial` at that moment, the
call, and what came of it (`sent.msg`) together with the receiver's side (`sent.fds`, `sent.decoded`). -/
structure SentCall (β : Type) where
  counter : Nat
  call : Msg.Call β
  sent : Sent β

/-- What the receiver must see, stated from the arguments. -/
def SentCall.expectedView {β : Type} (x : SentCall β) : Msg.View β :=
  { messageType := callType x.call, serial := x.counter,
    expectReply := (callFlags x.call).1, autoStart := (callFlags x.call).2,
    attrs := fun a => if a = .unixFds then Msg.plain (x.sent.msg.attrs .unixFds) else Msg.plain (callAttr x.call a),
    body := match callAttr x.call .signature with
            | .str _ (_ :: _) => some x.sent.decoded
            | _ => none }

/-- The complete observation of one hook call that the composed theorems conclude about: which hook, the
content (`Msg.View`), the remaining flag bits, and the three raw parts. -/
structure Handed (β : Type) where
  hook : Option Hook
  view : Msg.View β
  otherFlags : Nat
  rawHeader : Bytes
  rawPadding : Bytes
  rawBody : Bytes

def handedOf {β : Type} (T : Msg.Tables) (p : Option Hook × Msg.Msg β) : Handed β :=
  ⟨p.1, p.2.view T, p.2.otherFlags, p.2.rawHeader, p.2.rawPadding, p.2.rawBody⟩

/-- What the hook must be handed for a sent message: the hook of its class, the expected content, no other flag
bits, the raw parts of the constructed message. -/
def Sent.handed {β : Type} (T : Msg.Tables) (x : Sent β) : Handed β :=
  ⟨some (Hook.ofClass x.msg.cls), x.expected T, 0, x.msg.rawHeader, x.msg.rawPadding, x.msg.rawBody⟩

/-- What the hook must be handed for a constructor call, stated from the arguments: the hook of the constructor
that was called, `expectedView`, no other flag bits, the raw parts of the message that was put on the wire. -/
def SentCall.handed {β : Type} (y : SentCall β) : Handed β :=
  ⟨some (callHook y.call), y.expectedView, 0, y.sent.msg.rawHeader, y.sent.msg.rawPadding, y.sent.msg.rawBody⟩

/-! ## Several connections in one process (state-leak round 2026-09-30)

A process holds many protocol instances at once (a bus with its clients, a client on two buses, one connection after
another).  The reactor calls `dataReceived` of ONE instance at a time, in whatever order the sockets become readable.
In the model a `dataReceived` is `step A s data` on the state `s` of that instance: it reads and writes nothing else -
which is the claim that `_buffer`, `_nextMsgLen`, `_endian`, `_authenticated`, `_firstByte` and the authenticator are
per-instance in the code (class attributes are only defaults that the first assignment shadows).  `runHist` is a whole
history of such calls over an indexed family of connections; `Properties/C04.lean history_independent` states that
every connection sees exactly its own projection; the stream `connections-interleaved` runs `runHist` (driver command
`H`) against several live `BasicDBusProtocol` instances made by `makeConnection`.  A connection that is lost simply gets
no further events; a connection made later is an index whose state is still `St.init`. -/
namespace Conns

/-- One event of a history: connection `c` is handed the read `d`. -/
abbrev Event := Nat × Bytes

/-- `dataReceived(d)` on connection `c` of the process `w` (connection index -> protocol state). -/
def stepAt {α : Type} (A : Auth α) (w : Nat → St α) (c : Nat) (d : Bytes) : (Nat → St α) × List Effect :=
  let r := step A (w c) d
  (fun k => if k = c then r.1 else w k, r.2)

/-- A history of reads over the connections of one process.  -> the states afterwards, the effects in order, each
tagged with the connection on which it happened. -/
def runHist {α : Type} (A : Auth α) (w : Nat → St α) : List Event → (Nat → St α) × List (Nat × Effect)
  | [] => (w, [])
  | (c, d) :: es =>
    let r := stepAt A w c d
    let q := runHist A r.1 es
    (q.1, r.2.map (fun e => (c, e)) ++ q.2)

/-- The reads connection `c` is handed in the history, in order. -/
def readsOf (c : Nat) : List Event → List Bytes
  | [] => []
  | (k, d) :: es => if k = c then d :: readsOf c es else readsOf c es

/-- The effects that happened on connection `c`, in order. -/
def effectsOf (c : Nat) : List (Nat × Effect) → List Effect
  | [] => []
  | (k, e) :: t => if k = c then e :: effectsOf c t else effectsOf c t

end Conns

end Receive
end Txdbus.Proto
