import TxdbusModel.Proto.Framing
import TxdbusModel.Msg.Message
/-
CODE MODEL for C04 composed with C03: what the receiver does with the frames the framing delivers.

`BasicDBusProtocol.rawDBusMessageReceived(rawMsg)` starts with

    m = message.parseMessage(rawMsg, self._receivedFDs)

and then dispatches on `m._messageType` to `methodCallReceived` / `methodReturnReceived` / `errorReceived` /
`signalReceived`.  The framing model (Proto/Framing.lean, C04) ends at the effect `msg raw`; the message
model (Msg/Message.lean, C03 - imported read-only) has `parseMessage`.  This file puts the one after the
other:

  * `parseFrames T C frames fdss` - `parseMessage` on every delivered frame, in order; `fdss` holds, per
    delivery, the value of `self._receivedFDs` at that moment (what `self._receivedFDs[m.unix_fds:]`
    leaves behind belongs to C05 and is not modelled here: the list is a free parameter);
  * `parseFramesConst` - the same on a connection over which no descriptors arrive (`_receivedFDs`
    is the same list for every delivery - `[]` on a transport that is not a UNIX socket);
  * `receive` - `run` of the framing model over the reads, then `parseFramesConst` over the delivered
    frames: what the four `...Received` hooks are handed, or the exception `parseMessage` raised.

`Sent` / `Sent.expected` are the SPEC side of the composition (from the property text: "exactly the
sequence of complete messages ... with identical content"): a message that was sent, and the observable
content (`Msg.View`: type, serial, both flags, the header attributes as Python values, the body) the
receiver must see for it.  Core Lean only.
-/
namespace Txdbus.Proto

/-- `message.parseMessage(rawMsg, self._receivedFDs)` on every delivered frame, in delivery order. -/
def parseFrames {β : Type} (T : Msg.Tables) (C : Msg.BodyCodec β) (frames : List Bytes)
    (fdss : List (Option (List PyVal))) : List (Except PyErr (Msg.Msg β)) :=
  List.zipWith (fun raw fds => Msg.parseMessage T C raw fds) frames fdss

/-- The same when `_receivedFDs` is the same list at every delivery. -/
def parseFramesConst {β : Type} (T : Msg.Tables) (C : Msg.BodyCodec β) (frames : List Bytes)
    (fds : Option (List PyVal)) : List (Except PyErr (Msg.Msg β)) :=
  frames.map fun raw => Msg.parseMessage T C raw fds

/-- The receiver: the framing model over the reads, then `parseMessage` on every delivered frame.
-> final framing state, the effects in order, the parsed messages (or the exception) in order. -/
def receive {α β : Type} (T : Msg.Tables) (C : Msg.BodyCodec β) (A : Auth α) (s : St α) (reads : List Bytes)
    (fds : Option (List PyVal)) : St α × List Effect × List (Except PyErr (Msg.Msg β)) :=
  let r := run A s reads
  (r.1, r.2, parseFramesConst T C (msgsOf r.2) fds)

/-- SPEC side.  One message that was sent: the constructed message object `msg` (its `raw` is what goes on
the wire), the descriptor list `fds` the receiver holds when it parses it, and `decoded` - what the body
codec decodes the body bytes to (the sender's body in the codec's normal form; irrelevant when the message
has no signature). -/
structure Sent (β : Type) where
  msg : Msg.Msg β
  fds : Option (List PyVal)
  decoded : β

/-- The content the receiver must see for a sent message: the view of the constructed object (message type,
serial, both flags, every header attribute compared as Python values), with the body as the codec decodes it
- `None` when there is no (or the empty) signature, as `parseMessage` leaves it. -/
def Sent.expected {β : Type} (T : Msg.Tables) (x : Sent β) : Msg.View β :=
  { x.msg.view T with
    body := if Msg.truthy (x.msg.attrs .signature) then some x.decoded else none }

end Txdbus.Proto
