import TxdbusModel.Proto.Fds
import TxdbusModel.Msg.WireCodec
import TxdbusModel.Wire.SigParse
import TxdbusModel.Wire.Spec
import TxdbusModel.Msg.Bridge
import TxdbusModel.Proto.Receive
/-
CODE MODEL for C20 composed with C03 (and, through it, C01): the abstract parser `info` of Proto/Fds.lean
instantiated with the message model of C03 (Msg/Message.lean - imported read-only), and the sender of
Proto/Fds.lean instantiated with C03's constructor model.

Receiver side.  `rawDBusMessageReceived` does

    m = message.parseMessage(rawMsg, self._receivedFDs)
    if hasattr(m, 'unix_fds'): self._receivedFDs = self._receivedFDs[m.unix_fds:]

and `deliver` (Proto/Fds.lean) abstracts the first line to `info raw = (declared, indices)`.  Here:

  * `infoOfParse T raw` - `declared` is the `unix_fds` attribute C03's `parseMessage` sets from header field 9
    (`declaredOf`), `indices` are the values at the `h` positions of the body, in wire order: the body bytes
    `m.rawBody` C03's `parseMessage` slices off, decoded with the SIGNATURE attribute it found, in the byte
    order of the message (`hIdxFields ts vs`: the decoded values walked along their types - arrays element by
    element, structs field by field, dict entries key then value, a variant's content by the type it carries).
    `parseMessage` is run with a body codec that does not resolve anything (`noBody`): which descriptor an
    index resolves to is `deliver`'s business (`q[j]?`), and is stated about C03's parse with C01's codec on the
    real queue by `descriptors_end_to_end_parsed` (Properties/C20.lean).
  * `parsedDelivery` - what `parseMessage T (wireCodec fuel) raw (some queue)` (the code's call, C01's code model
    as the body codec, descriptors as plain Python ints) returns for a delivery of the composed receiver.

Sender side.  `sendConstructed`: `BasicDBusProtocol.sendMessage(msg)` for a message object made by C03's
`MethodCallMessage` model: `msg.oobFDs` is the list the caller passed, after `marshal.marshal` appended to it
(`oobAfter`); one `sendFileDescriptor` per entry, then the `write`.
Core Lean only.
-/
namespace Txdbus.Proto.FdsE2E

/-! ## The positions of `h` in a decoded body -/

mutual
/-- The index values at the `h` positions of a value of type `t`, in wire order. -/
def hIdx : Val → Ty → List Nat
  | .int n, t =>
    match t with
    | .basic .h => [n.toNat]
    | _ => []
  | .bool _, _ => []
  | .double _, _ => []
  | .str _, _ => []
  | .variant t' v', _ => hIdx v' t'
  | .array vs, t =>
    match t with
    | .array el => hIdxElems vs el
    | _ => []
  | .struct vs, t =>
    match t with
    | .struct fs => hIdxFields vs fs
    | _ => []
  | .entry a b, t =>
    match t with
    | .dict kt vt => hIdx a kt ++ hIdx b vt
    | _ => []
def hIdxElems : List Val → Ty → List Nat
  | [], _ => []
  | v :: vs, el => hIdx v el ++ hIdxElems vs el
def hIdxFields : List Val → List Ty → List Nat
  | [], _ => []
  | v :: vs, ts =>
    match ts with
    | t :: ts' => hIdx v t ++ hIdxFields vs ts'
    | [] => []
end

mutual
/-- The body as the marshaller of Proto/Fds.lean walks it (`BV`): a value of type `h` is the descriptor
`ds[index]` (`ds` = the out-of-band list of the message), containers are walked in order, everything else is
`plain`. -/
def bvOf (ds : List Nat) : Val → Ty → BV
  | .int n, t =>
    match t with
    | .basic .h => .fd (ds.getD n.toNat 0)
    | _ => .plain
  | .bool _, _ => .plain
  | .double _, _ => .plain
  | .str _, _ => .plain
  | .variant t' v', _ => .seq [bvOf ds v' t']
  | .array vs, t =>
    match t with
    | .array el => .seq (bvOfElems ds vs el)
    | _ => .plain
  | .struct vs, t =>
    match t with
    | .struct fs => .seq (bvOfFields ds vs fs)
    | _ => .plain
  | .entry a b, t =>
    match t with
    | .dict kt vt => .seq [bvOf ds a kt, bvOf ds b vt]
    | _ => .plain
def bvOfElems (ds : List Nat) : List Val → Ty → List BV
  | [], _ => []
  | v :: vs, el => bvOf ds v el :: bvOfElems ds vs el
def bvOfFields (ds : List Nat) : List Val → List Ty → List BV
  | [], _ => []
  | v :: vs, ts =>
    match ts with
    | t :: ts' => bvOf ds v t :: bvOfFields ds vs ts'
    | [] => []
end

/-! ## `info` from C03's `parseMessage` -/

/-- A body codec that leaves the body alone: `parseMessage` with it does everything `parseMessage` does with
the header (byte order, field array, `_mtype`, the raw slices, flags, the `setattr` loop, the signature check)
and returns `body = None`-like for a message with a signature. -/
def noBody : Msg.BodyCodec PyVal where
  marshal := fun _ _ _ => .error .other
  unmarshal := fun _ _ _ _ => .ok .none

/-- `m.unix_fds` as the slice bound of `self._receivedFDs[m.unix_fds:]`; `none` = `hasattr(m, 'unix_fds')` is
False (the attribute reads as None in C03's model).  (A negative bound cuts from the end in Python; `MsgInfo`
models a natural number - notes/C20.md, "Not covered".) -/
def declaredOf : PyVal → Option Nat
  | .int _ n => some n.toNat
  | .bool b => some (if b then 1 else 0)
  | _ => none

/-- the alignment column of `marshal.dbus_types` as the table the spec decoder takes (= `Code.genAlign`,
Proofs/Wire/CodePrim.lean, which a model file does not import) -/
def bodyAlign : AlignTable := fun c => (Gen.Wire.alignTable.lookup c).getD 1

/-- The `h` index values of a body: `sg` the SIGNATURE attribute, `rawBody` the body bytes, `le` the byte order. -/
def bodyIndices (sg : List Char) (rawBody : Bytes) (le : Bool) : List Nat :=
  match parseSig sg with
  | none => []
  | some ts =>
    match Spec.decode bodyAlign (if le then .little else .big) ts rawBody 0 with
    | some (vs, _) => hIdxFields vs ts
    | none => []

/-- The abstract parser of Proto/Fds.lean, instantiated: what C03's `parseMessage` finds in `raw`. -/
def infoOfParse (T : Msg.Tables) (raw : Bytes) : MsgInfo :=
  match Msg.parseMessage T noBody raw (some []) with
  | .error _ => ⟨none, []⟩
  | .ok m =>
    ⟨declaredOf (m.attrs .unixFds),
     match m.attrs .signature with
     | .str _ sg => if sg.isEmpty then [] else bodyIndices sg m.rawBody (raw.head? == some 108)
     | _ => []⟩

/-! ## Descriptors as Python values; the code's own call -/

/-- A descriptor number as the Python int Twisted hands to `fileDescriptorReceived`. -/
def fdVal (d : Nat) : PyVal := .int .plain d

/-- `message.parseMessage(rawMsg, self._receivedFDs)` with C01's code model as the body codec, on the queue of
a delivery of the composed receiver. -/
def parsedDelivery (T : Msg.Tables) (fuel : Nat) (d : Delivery) : Except PyErr (Msg.Msg PyVal) :=
  Msg.parseMessage T (Msg.wireCodec fuel) d.raw (some (d.queueBefore.map fdVal))

/-! ## Sender: `sendMessage` on a constructed method call -/

/-- `msg.oobFDs` after `MethodCallMessage.__init__` returned: the list object the caller passed, to which
`marshal.marshal` appended (only when the signature is truthy: `_marshal` does not call it otherwise). -/
def oobAfter (fuel : Nat) (a : Msg.CallArgs PyVal) : Option (List PyVal) :=
  match a.signature with
  | some (ch :: cs) =>
    match (Msg.wireCodec fuel).marshal (ch :: cs) a.body a.oobFDs with
    | .ok (_, fds') => fds'
    | .error _ => a.oobFDs
  | _ => a.oobFDs

/-- A descriptor as the number the transport is handed (`none`: not an int - nothing txdbus or Twisted would
accept as a descriptor). -/
def fdNat? : PyVal → Option Nat
  | .int _ n => if 0 ≤ n then some n.toNat else none
  | _ => none

/-- `sendMessage(msg)`: `if hasattr(msg, 'oobFDs') and msg.oobFDs:` one `sendFileDescriptor` per entry, then
`transport.write(msg.rawMessage)`. -/
def sendConstructed (oob : Option (List PyVal)) : Option (List SendEv) :=
  match (oob.getD []).mapM fdNat? with
  | some ds => some (ds.map SendEv.sendFd ++ [SendEv.write])
  | none => none

/-- `sendMessage(msg)` for the message object a constructor call made: only `MethodCallMessage` has the attribute
`oobFDs` (`hasattr(msg, 'oobFDs')` is False for the other three classes: nothing but the `write`). -/
def sendOfCall (fuel : Nat) : Msg.Call PyVal → Option (List SendEv)
  | .methodCall a => sendConstructed (oobAfter fuel a)
  | _ => sendConstructed none

/-! ## The literal receiver with descriptor events

`fileDescriptorReceived(fd)`: `self._receivedFDs.append(fd)`; `dataReceived(d)`: C04's framing step, then for every
framed message C04's model of the whole of `rawDBusMessageReceived` (`Receive.handleFrame`, Proto/Receive.lean -
imported read-only: `parseMessage(raw, self._receivedFDs)`, `self._receivedFDs[m.unix_fds:]`, the hook of the message
type).  An exception of `handleFrame` escapes `dataReceived`: the loop stops there and the connection is dropped (no
further event is processed; what `Receive.recvRun` does for a connection without descriptor events). -/

/-- What one hook call was handed, or the exception that escaped. -/
abbrev LitCall := Except PyErr (Option Receive.Hook × Msg.Msg PyVal)

/-- The frames of one read, in order, until an exception escapes.  -> queue afterwards, the calls, crashed? -/
def litDeliverAll (T : Msg.Tables) (fuel : Nat) : List PyVal → List Bytes → List PyVal × List LitCall × Bool
  | q, [] => (q, [], false)
  | q, raw :: t =>
    match Receive.handleFrame T (Msg.wireCodec fuel) q raw with
    | .error e => (q, [.error e], true)
    | .ok (h, m, q') =>
      let r := litDeliverAll T fuel q' t
      (r.1, .ok (h, m) :: r.2.1, r.2.2)

structure LitRecv (α : Type) where
  st : St α
  queue : List PyVal
  crashed : Bool

def litRecvEv {α : Type} (T : Msg.Tables) (fuel : Nat) (A : Auth α) (r : LitRecv α) : Ev → LitRecv α × List LitCall
  | .fd n => ({ r with queue := r.queue ++ [fdVal n] }, [])
  | .read d =>
    let x := step A r.st d
    let y := litDeliverAll T fuel r.queue (msgsOf x.2)
    (⟨x.1, y.1, y.2.2⟩, y.2.1)

def litRecvRun {α : Type} (T : Msg.Tables) (fuel : Nat) (A : Auth α) (r : LitRecv α) : List Ev → LitRecv α × List LitCall
  | [] => (r, [])
  | e :: es =>
    if r.crashed then (r, [])
    else
      let x := litRecvEv T fuel A r e
      let y := litRecvRun T fuel A x.1 es
      (y.1, x.2 ++ y.2)

end Txdbus.Proto.FdsE2E
