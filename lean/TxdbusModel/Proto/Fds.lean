import TxdbusModel.Proto.Framing
/-
CODE MODEL for C20: UNIX file descriptors travelling with messages.

Sender (marshal.py `marshal_unix_fd`, message.py `_marshal`, protocol.py `sendMessage`,
client.py `callRemote`):

  * `marshal_unix_fd`: `index = len(oobFDs); oobFDs.append(var)`; the 4 bytes written are `index`.
    The marshaller walks the body in argument order (`zip(genCompleteTypes(sig), values)`; arrays element
    by element; structs field by field; dict entries key then value; a variant's content), so a body is
    abstracted to a tree `BV` whose leaves are descriptor arguments or anything else.
  * `_marshal`: the body is marshalled only `if self.signature:`; `if oobFDs:` (a non-empty list after
    that) the header field `unix_fds = len(oobFDs)` is added.  (`_marshal(rawBody=...)`, which the bus uses
    to forward a received body unchanged, marshals nothing and is not modelled.)
  * `sendMessage`: `if hasattr(msg, 'oobFDs') and msg.oobFDs:` one `transport.sendFileDescriptor(fd)`
    per entry, in list order, then `transport.write(msg.rawMessage)`.
  * `callRemote` passes a fresh `oobFDs=[]` for every call.

Receiver (protocol.py `fileDescriptorReceived`, `rawDBusMessageReceived`; marshal.py
`unmarshal_unix_fd`; framing from Proto/Framing.lean):

  * `fileDescriptorReceived(fd)`: `self._receivedFDs.append(fd)`.
  * for every framed message: `parseMessage(raw, self._receivedFDs)` resolves each `h` argument with
    index `i` to `self._receivedFDs[i]` (`IndexError` -> `None`), then
    `if hasattr(m, 'unix_fds'): self._receivedFDs = self._receivedFDs[m.unix_fds:]`.
    The parser is an abstract parameter `info : raw bytes -> (declared unix_fds or none, indices of the
    descriptor arguments in argument order)`; descriptors are natural numbers.
Core Lean only.
-/
namespace Txdbus.Proto

/-! ## Sender -/

/-- A message body as the marshaller walks it. -/
inductive BV where
  | fd (d : Nat)             -- an argument of type `h` whose value is descriptor `d`
  | plain                    -- any other basic value
  | seq (items : List BV)    -- array, struct, dict entry, variant: walked in order
  deriving Repr, Inhabited

mutual
/-- Marshal one value: the `h` index values written (in order) and the out-of-band list afterwards. -/
def marshalBV : BV → List Nat → List Nat × List Nat
  | .fd d, oob => ([oob.length], oob ++ [d])          -- index = len(oobFDs); oobFDs.append(var)
  | .plain, oob => ([], oob)
  | .seq items, oob => marshalBVs items oob
def marshalBVs : List BV → List Nat → List Nat × List Nat
  | [], oob => ([], oob)
  | v :: vs, oob =>
    let r := marshalBV v oob
    let q := marshalBVs vs r.2
    (r.1 ++ q.1, q.2)
end

mutual
/-- The descriptor arguments of a value, in argument order. -/
def fdLeaves : BV → List Nat
  | .fd d => [d]
  | .plain => []
  | .seq items => fdLeavesL items
def fdLeavesL : List BV → List Nat
  | [] => []
  | v :: vs => fdLeaves v ++ fdLeavesL vs
end

/-- What `MethodCallMessage(..., oobFDs=oob0)` + `_marshal` produce, as far as descriptors go. -/
structure SentMsg where
  header : Option Nat      -- value of the `unix_fds` header field, `none` when the field is absent
  indices : List Nat       -- the index values written for the `h` arguments, in argument order
  oob : List Nat           -- `msg.oobFDs` afterwards
  deriving DecidableEq, Repr

/-- `_marshal(oobFDs=oob0)` for a message with (`hasSig`) or without a signature.  `oob0` is the list
object passed by the caller (callRemote: a fresh `[]`). -/
def marshalMsg (hasSig : Bool) (body : List BV) (oob0 : List Nat) : SentMsg :=
  if hasSig then
    let r := marshalBVs body oob0
    -- `if oobFDs:` -> header `unix_fds = len(oobFDs)`
    ⟨if r.2.isEmpty then none else some r.2.length, r.1, r.2⟩
  else
    ⟨none, [], oob0⟩

/-- What the transport sees. -/
inductive SendEv where
  | sendFd (d : Nat)      -- transport.sendFileDescriptor(d)
  | write                 -- transport.write(msg.rawMessage)
  deriving DecidableEq, Repr

/-- `sendMessage(msg)`. -/
def sendMessage (m : SentMsg) : List SendEv :=
  m.oob.map SendEv.sendFd ++ [SendEv.write]

/-- `callRemote(..., signature, body)`: a fresh list for every call. -/
def callRemote (hasSig : Bool) (body : List BV) : SentMsg × List SendEv :=
  let m := marshalMsg hasSig body []
  (m, sendMessage m)

/-! ## Receiver -/

/-- What `parseMessage` finds in a raw message, independent of the descriptor queue. -/
structure MsgInfo where
  declared : Option Nat    -- the `unix_fds` header field (`hasattr(m, 'unix_fds')`)
  indices : List Nat       -- index values of the `h` arguments, in argument order
  deriving DecidableEq, Repr

/-- One call of `rawDBusMessageReceived`. -/
structure Delivery where
  raw : Bytes
  args : List (Option Nat)     -- what each `h` argument resolved to (`none` = Python `None`)
  queueBefore : List Nat       -- `_receivedFDs` when the message was parsed
  queueAfter : List Nat        -- `_receivedFDs` afterwards
  deriving DecidableEq, Repr

/-- `rawDBusMessageReceived(raw)` on the queue `q`. -/
def deliver (info : Bytes → MsgInfo) (q : List Nat) (raw : Bytes) : List Nat × Delivery :=
  let i := info raw
  -- unmarshal_unix_fd: oobFDs[index], IndexError -> None
  let args := i.indices.map (fun j => q[j]?)
  -- if hasattr(m, 'unix_fds'): self._receivedFDs = self._receivedFDs[m.unix_fds:]
  let q' := match i.declared with
    | some k => q.drop k
    | none => q
  (q', ⟨raw, args, q, q'⟩)

/-- The messages framed by one read, delivered in order. -/
def deliverAll (info : Bytes → MsgInfo) : List Nat → List Bytes → List Nat × List Delivery
  | q, [] => (q, [])
  | q, raw :: t =>
    let r := deliver info q raw
    let x := deliverAll info r.1 t
    (x.1, r.2 :: x.2)

/-- What the reactor hands to the protocol. -/
inductive Ev where
  | fd (n : Nat)           -- fileDescriptorReceived(n)
  | read (d : Bytes)       -- dataReceived(d)
  deriving DecidableEq, Repr

structure Recv (α : Type) where
  st : St α                -- framing state (Proto/Framing.lean)
  queue : List Nat         -- `_receivedFDs`

def recvEv {α : Type} (A : Auth α) (info : Bytes → MsgInfo) (r : Recv α) : Ev → Recv α × List Delivery
  | .fd n => ({ r with queue := r.queue ++ [n] }, [])
  | .read d =>
    let x := step A r.st d
    let y := deliverAll info r.queue (msgsOf x.2)
    (⟨x.1, y.1⟩, y.2)

def recvRun {α : Type} (A : Auth α) (info : Bytes → MsgInfo) (r : Recv α) : List Ev → Recv α × List Delivery
  | [] => (r, [])
  | e :: es =>
    let x := recvEv A info r e
    let y := recvRun A info x.1 es
    (y.1, x.2 ++ y.2)

/-! ## Environment: what a stream socket may do -/

/-- A message as sent: its bytes, its descriptors (in sending order), and the index values its body
carries. -/
structure Msg where
  raw : Bytes
  fds : List Nat
  idx : List Nat
  deriving DecidableEq, Repr

def bytesOf : List Ev → Bytes
  | [] => []
  | .read d :: t => d ++ bytesOf t
  | .fd _ :: t => bytesOf t

def fdsOf : List Ev → List Nat
  | [] => []
  | .fd n :: t => n :: fdsOf t
  | .read _ :: t => fdsOf t

/-- Bytes of the first `k` messages. -/
def bytesUpTo (ms : List Msg) (k : Nat) : Bytes := ((ms.take k).map Msg.raw).flatten
/-- Descriptors of the first `k` messages. -/
def fdsUpTo (ms : List Msg) (k : Nat) : List Nat := ((ms.take k).map Msg.fds).flatten

/-- An event sequence a stream socket can produce for the messages `ms`:
bytes arrive in order (cut into reads arbitrarily), descriptors arrive in sending order, and the
descriptors of message `i` have all arrived when the read containing the last byte of message `i`
arrives (they may arrive much earlier, even before earlier messages are complete). -/
def Consistent (ms : List Msg) (evs : List Ev) : Prop :=
  bytesOf evs <+: bytesUpTo ms ms.length ∧
  fdsOf evs <+: fdsUpTo ms ms.length ∧
  ∀ p, p <+: evs → ∀ k, k ≤ ms.length → (bytesUpTo ms k).length ≤ (bytesOf p).length →
    (fdsUpTo ms k).length ≤ (fdsOf p).length

/-- The same for a connection that starts in line mode: the first `n` bytes of the stream are the
authentication handshake, the messages follow; descriptors may arrive at any time from the moment the
connection exists (also before or among the reads that carry the handshake). -/
def ConsistentAfter (n : Nat) (ms : List Msg) (evs : List Ev) : Prop :=
  (bytesOf evs).drop n <+: bytesUpTo ms ms.length ∧
  fdsOf evs <+: fdsUpTo ms ms.length ∧
  ∀ p, p <+: evs → ∀ k, k ≤ ms.length → n + (bytesUpTo ms k).length ≤ (bytesOf p).length →
    (fdsUpTo ms k).length ≤ (fdsOf p).length

end Txdbus.Proto
