/-
Decidable equality on `Except` (core Lean has none), so that `decide` can evaluate model outputs.
Imported by Sig/Split and Wire/PyVal.  Core Lean only.
-/
namespace Txdbus

instance instDecidableEqExcept {ε α : Type} [DecidableEq ε] [DecidableEq α] : DecidableEq (Except ε α)
  | .ok a, .ok b => if h : a = b then isTrue (by rw [h]) else isFalse (fun h' => h (by cases h'; rfl))
  | .error a, .error b => if h : a = b then isTrue (by rw [h]) else isFalse (fun h' => h (by cases h'; rfl))
  | .ok _, .error _ => isFalse (fun h => by cases h)
  | .error _, .ok _ => isFalse (fun h => by cases h)

end Txdbus
