import TxdbusModel.Bus.Route
import TxdbusModel.Route.Rule
import TxdbusModel.Route.Text
import TxdbusModel.Gen.BusRoute
/-
C14 x C12 (extension 2026-09-30) - the bus model with the FULL match-rule language.

`Bus.sendMessage`-less messages are handed to `self.router.routeMessage(msg)`; that router is the
`router.MessageRouter` C12 models, and the rules in it were built by `Bus.dbus_AddMatch`:

    text  --_parseMatchRule / the kwargs loop-->  kwargs  --router.addMatch-->  Rule  --Rule.match(msg)--> callback?

Every arrow is C12's code model, imported here unchanged:
  `Route.parseRuleGen`  (Route/Text.lean)   text -> kwargs   (`RuleArgs`)
  `Route.mkRule`        (Route/Rule.lean)   kwargs -> stored `Rule` (tables generated from router.py)
  `Route.Rule.match`    (Route/Rule.lean)   the `simple` loop, path_namespace, args, arg_paths, the catch-all;
                                            `sender` and `arg0namespace` are stored and not evaluated
What is added: how the bus's message OBJECT looks to `Rule.match` (`ruleView`), the rule type of the bus model
(`FullRule` = the kwargs `dbus_AddMatch` computed), and the `arg0namespace` test of the repaired router
(fixes/C14-05; `Gen.BusRoute.evaluatesArg0ns`, probed from the source, says which router the tree has).
Core Lean only.
-/
namespace Txdbus.BusRoute

open Txdbus.Route (Str Arg Attr RuleArgs Rule Tables Outcome PyVal mkRule parseRuleGen ParseErr)

/-- A rule held by the bus's router: the keyword arguments `dbus_AddMatch` passed to `router.addMatch`. -/
abbrev FullRule := RuleArgs

/-- `_messageType` of the four classes. -/
def MType.num : MType → Nat
  | .call => 1 | .ret => 2 | .err => 3 | .sig => 4

/-- An attribute with a class-level default `None` (`path`, `interface`, `destination`, `sender` of
`DBusMessage`): unset reads as `None`. -/
def optAttr : Option Name → Attr
  | none => .none
  | some v => .some v

/-- `member` has no class-level default: on a parsed message without a MEMBER field `getattr(m, 'member')`
raises `AttributeError`. -/
def memberAttr : Option Name → Attr
  | none => .missing
  | some v => .some v

/-- What `Rule.match` can see of the message object the bus routes (parsed message, sender already overwritten
with the true name): C12's `Route.Msg`. -/
def ruleView (m : Msg) : Txdbus.Route.Msg :=
  { mtype := m.mtype.num, path := optAttr m.path, iface := optAttr m.iface, member := memberAttr m.member,
    dest := optAttr m.dest, sender := optAttr m.sender, body := m.args }

/-- `name == namespace or name.startswith(namespace + '.')` (the `_inBusNamespace` of fixes/C14-05). -/
def inBusNamespace (name ns : Str) : Bool :=
  name == ns || (ns ++ ['.']).isPrefixOf name

/-- The `arg0namespace` test of the repaired `Rule.match` (fixes/C14-05), placed where the source has its
`XXX arg0namespace` comment:

    if hasattr(self, 'arg0namespace'):
        if (len(body) == 0 or not isinstance(body[0], str)
                or not _inBusNamespace(body[0], self.arg0namespace)):
            return
-/
def matchArg0ns (r : Rule) (body : List Arg) : Option Outcome :=
  match r.attrs.lookup "arg0namespace".toList with
  | none => none
  | some (PyVal.str ns) =>
    match body.head? with
    | some (Arg.str s) => if inBusNamespace s ns then none else some .skip
    | _ => some .skip
  | some _ => some .err

/-- `Rule.match(m)` of the router the bus uses.  `evalArg0 = false`: txdbus as found (C12's `Rule.match`, the
`arg0namespace` attribute is never read); `true`: the router after fixes/C14-05. -/
def fullMatch (evalArg0 : Bool) (r : Rule) (v : Txdbus.Route.Msg) : Outcome :=
  match r.match v with
  | .call =>
    if evalArg0 then
      match matchArg0ns r (v.body.getD []) with
      | some o => o
      | none => .call
    else .call
  | o => o

/-- Does the rule stored for the kwargs `a` hand the message object `m` to `caller.sendMessage`?
`mkRule` cannot fail with the tables of the current source (`Route.mkRule_cur`); a failure is "no callback"
here and an explicit error in the driver. -/
def FullRule.holdsWith (T : Tables) (evalArg0 : Bool) (a : FullRule) (m : Msg) : Bool :=
  match mkRule T a with
  | .ok r => fullMatch evalArg0 r (ruleView m) == .call
  | .error _ => false

/-- The repaired bus (F21, F22) with the full rule language. -/
def fullCfg (evalArg0 : Bool) : Cfg FullRule :=
  { holds := FullRule.holdsWith Tables.gen evalArg0 }

/-- The bus before the repairs of F21 and F22, full rule language. -/
def fullOriginal (evalArg0 : Bool) : Cfg FullRule :=
  { holds := FullRule.holdsWith Tables.gen evalArg0, routeUnicast := true, recordRuleId := false }

/-- The configuration of the tree under test (the switch is probed from router.py on every run). -/
def fullGen : Cfg FullRule := fullCfg Txdbus.Gen.BusRoute.evaluatesArg0ns
def fullOriginalGen : Cfg FullRule := fullOriginal Txdbus.Gen.BusRoute.evaluatesArg0ns

/-! ### `Bus.dbus_AddMatch(rule)`: from the text to the registration -/

/-- What `dbus_AddMatch` does with the rule text: `_parseMatchRule` + the kwargs loop (C12's `parseRuleGen`),
then `router.addMatch(caller.sendMessage, **kwargs)`.  A `ValueError` (no `=`, unterminated quote, `int()`)
leaves the method before anything is registered: the call is an executed method that did nothing
(`exec []`, answered with an error iff a reply is expected).  `none`: outside the modelled domain of `int()` /
a text that assigns `args=` directly (C12's `outOfDomain`). -/
def addMatchOp (text : Str) : Option (BusOp FullRule) :=
  match parseRuleGen text with
  | .ok a => some (.addMatch a)
  | .error .valueError => some (.exec [])
  | .error .outOfDomain => none

/-- The rule text an AddMatch call carries: its body is one string. -/
def ruleTextOf (m : Msg) : Option Str :=
  match m.args with
  | some [Arg.str t] => some t
  | _ => none

/-! ### the simple rules of the first version of this model, embedded -/

def MType.ruleName : MType → Str
  | .call => "method_call".toList | .ret => "method_return".toList
  | .err => "error".toList | .sig => "signal".toList

/-- A `SimpleRule` as kwargs of `router.addMatch`. -/
def SimpleRule.toFull (r : SimpleRule) : FullRule :=
  { mtype := r.mtype.map MType.ruleName, sender := r.sender, iface := r.iface, member := r.member,
    path := r.path, dest := r.destination }

end Txdbus.BusRoute
