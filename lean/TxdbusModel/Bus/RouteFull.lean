import TxdbusModel.Bus.Route
import TxdbusModel.Route.Rule
import TxdbusModel.Route.Text
/-
C14 x C12 (extension 2026-09-30) - the bus model with the FULL match-rule language.

`Bus.sendMessage`-less messages are handed to `self.router.routeMessage(msg)`; that router is the
`router.MessageRouter` C12 models, and the rules in it were built by `Bus.dbus_AddMatch`:

    text  --_parseMatchRule / the kwargs loop-->  kwargs  --router.addMatch-->  Rule  --Rule.match(msg)--> callback?

Every arrow is C12's code model, imported here unchanged:
  `Route.parseRuleGen`  (Route/Text.lean)   text -> kwargs   (`RuleArgs`)
  `Route.mkRule`        (Route/Rule.lean)   kwargs -> stored `Rule` (tables generated from router.py)
  `Route.Rule.matchWith b` (Route/Rule.lean) `Rule.match` (the `simple` loop, path_namespace, args, arg_paths, the
                                            catch-all; `sender` stored and not evaluated) followed, when `b`, by the
                                            `arg0namespace` clause of fixes/C14-05 (`Route.matchArg0ns`); `b = false` is
                                            txdbus as found.  `Gen.Route.evaluatesArg0ns` (C12's table, probed from
                                            router.py on every run) says which router the tree has - ONE switch for both
                                            properties.
What is added here: how the bus's message OBJECT looks to `Rule.match` (`ruleView`), the rule type of the bus model
(`FullRule` = the kwargs `dbus_AddMatch` computed), `dbus_AddMatch` from the text to the registration (`addMatchOp`,
`textOp`).  Core Lean only.
-/
namespace Txdbus.BusRoute

open Txdbus.Route (Str Arg Attr RuleArgs Rule Tables Outcome PyVal mkRule parseRuleGen ParseErr)

/-- A rule held by the bus's router: the keyword arguments `dbus_AddMatch` passed to `router.addMatch`. -/
abbrev FullRule := RuleArgs

/-- `_messageType` of the four classes. -/
def MType.num : MType → Nat
  | .call => 1 | .ret => 2 | .err => 3 | .sig => 4

/-- An attribute with a class-level default `None` (`path`, `interface`, `destination`, `sender` of
`DBusMessage`): unset reads as `None`. -/
def optAttr : Option Name → Attr
  | none => .none
  | some v => .some v

/-- `member` has no class-level default: on a parsed message without a MEMBER field `getattr(m, 'member')`
raises `AttributeError`. -/
def memberAttr : Option Name → Attr
  | none => .missing
  | some v => .some v

/-- What `Rule.match` can see of the message object the bus routes (parsed message, sender already overwritten
with the true name): C12's `Route.Msg`. -/
def ruleView (m : Msg) : Txdbus.Route.Msg :=
  { mtype := m.mtype.num, path := optAttr m.path, iface := optAttr m.iface, member := memberAttr m.member,
    dest := optAttr m.dest, sender := optAttr m.sender, body := m.args }

/-- Does the rule stored for the kwargs `a` hand the message object `m` to `caller.sendMessage`?
`mkRule` cannot fail with the tables of the current source (`Route.mkRule_cur`); a failure is "no callback"
here and an explicit error in the driver. -/
def FullRule.holdsWith (T : Tables) (evalArg0 : Bool) (a : FullRule) (m : Msg) : Bool :=
  match mkRule T a with
  | .ok r => r.matchWith evalArg0 (ruleView m) == .call
  | .error _ => false

/-- The repaired bus (F21, F22) with the full rule language. -/
def fullCfg (evalArg0 : Bool) : Cfg FullRule :=
  { holds := FullRule.holdsWith Tables.gen evalArg0 }

/-- The bus before the repairs of F21 and F22, full rule language. -/
def fullOriginal (evalArg0 : Bool) : Cfg FullRule :=
  { holds := FullRule.holdsWith Tables.gen evalArg0, routeUnicast := true, recordRuleId := false }

/-- The configuration of the tree under test (C12's switch, probed from router.py on every run). -/
def fullGen : Cfg FullRule := fullCfg Txdbus.Gen.Route.evaluatesArg0ns
def fullOriginalGen : Cfg FullRule := fullOriginal Txdbus.Gen.Route.evaluatesArg0ns

/-! ### `Bus.dbus_AddMatch(rule)`: from the text to the registration -/

/-- What `dbus_AddMatch` does with the rule text: `_parseMatchRule` + the kwargs loop (C12's `parseRuleGen`),
then `router.addMatch(caller.sendMessage, **kwargs)`.  A `ValueError` (no `=`, unterminated quote, `int()`)
leaves the method before anything is registered: the call is an executed method that did nothing
(`exec []`, answered with an error iff a reply is expected).  `none`: outside the modelled domain of `int()` /
a text that assigns `args=` directly (C12's `outOfDomain`). -/
def addMatchOp (text : Str) : Option (BusOp FullRule) :=
  match parseRuleGen text with
  | .ok a => some (.addMatch a)
  | .error .valueError => some (.exec [])
  | .error .outOfDomain => none

/-- The rule text an AddMatch call carries: its body is one string. -/
def ruleTextOf (m : Msg) : Option Str :=
  match m.args with
  | some [Arg.str t] => some t
  | _ => none

/-- A method call to the bus whose member is AddMatch. -/
def isAddMatchCall (m : Msg) : Bool :=
  m.mtype == .call && m.dest == some busName && m.member == some "AddMatch".toList

/-- The operation of an AddMatch event as the MODEL derives it from the text the call carries; `observed` (what the
harness saw at the real object dispatch) decides only what the model does not: whether the call reached
`dbus_AddMatch` at all (C10's dispatch), and the rule when the text is outside the modelled domain of `int()`.
* observed `addMatch r`: the text parses to `a` -> `addMatch a`; the text is a ValueError -> `exec []`; no text /
  out of domain -> `addMatch r`;
* observed `exec []` on an AddMatch call whose text parses -> `addMatch a` (the method ran: it registers);
* anything else: as observed. -/
def textOp (m : Msg) (observed : BusOp FullRule) : BusOp FullRule :=
  match observed with
  | .addMatch r =>
    match (ruleTextOf m).map addMatchOp with
    | some (some op) => op
    | _ => .addMatch r
  | .exec [] =>
    if isAddMatchCall m then
      match (ruleTextOf m).map addMatchOp with
      | some (some (.addMatch a)) => .addMatch a
      | _ => observed
    else observed
  | _ => observed

/-- The event's operation is what the model reads from the text: every registration is `dbus_AddMatch`'s reading
of the rule text in the call, and an executed AddMatch that registers nothing carries a text that is no rule. -/
def Event.textOK : Event FullRule → Prop
  | .msg _ m op => textOp m op = op ∧
      (∀ r, op = .addMatch r → ∃ t, ruleTextOf m = some t ∧ addMatchOp t = some (.addMatch r))
  | _ => True

/-! ### the simple rules of the first version of this model, embedded -/

def MType.ruleName : MType → Str
  | .call => "method_call".toList | .ret => "method_return".toList
  | .err => "error".toList | .sig => "signal".toList

/-- A `SimpleRule` as kwargs of `router.addMatch`. -/
def SimpleRule.toFull (r : SimpleRule) : FullRule :=
  { mtype := r.mtype.map MType.ruleName, sender := r.sender, iface := r.iface, member := r.member,
    path := r.path, dest := r.destination }

end Txdbus.BusRoute
