import TxdbusModel.Gen.C13Codes
import TxdbusModel.Bus.NameOps
/-!
# Code model of the name table of the built-in bus (property C13)

Mirrors, as written (after the repairs `fixes/C13-*.patch`):

* `txdbus/bus.py`  `Bus.clientConnected`, `Bus.clientDisconnected` (the name part),
  `Bus.dbus_RequestName`, `Bus.dbus_ReleaseName`, `Bus.dbus_GetNameOwner`,
  `Bus.dbus_ListQueuedOwners`, with the signals each sends (`sendSignal` NameAcquired /
  NameLost, `broadcastSignal` NameOwnerChanged) and the value each returns;
* `txdbus/bus.py`  `Bus.sendMessage`'s destination resolution (`routerLookup`) and `dbus_GetNameOwner`
  for any name, unique names included (`getNameOwnerOf`) - extension 2026-09-30;
* `txdbus/client.py` `DBusClientConnection.requestBusName` (flag word, `on_result`);
* `txdbus/error.py` `FailedToAcquireName` (class of the reason text).

State of the Python objects that is modelled:

* `Bus.clients`  (unique name -> connection) together with every connection's own
  `busNames` dict (name -> allows replacement): `State.clients`, a Python dict of Python dicts;
* `Bus.busNames` (name -> list of connections, the head owns the name): `State.busNames`;
* `Bus.next_id`: `State.nextId`.

A connection is identified by the number `n` of its unique name `":1.n"`.  Well-known names are
abstract (`Name := Nat`, the harness numbers them); the model's domain is *valid* well-known
names (the validation at the top of `dbus_RequestName` is property C18's subject); destinations of
messages and of `GetNameOwner` are `Dest` (unique / other colon name / well-known).  Any number of
connections and names, unbounded histories.

Python `dict` = association list with Python's semantics: `d[k] = v` overwrites in place or
appends, iteration in insertion order, `del d[k]`.  `Dict.erase` removes every pair with the key;
on a list with distinct keys (all a Python dict can be) that is `del`.

Where Python would raise (`KeyError` for an unknown caller, `IndexError` for `queue[0]` on an
empty list, `AttributeError` for `[].uniqueName`) the model returns `Except.error`; the property
theorems show this never happens in a reachable state for a connected caller.  One deviation is
documented at `ownerAllows`.

Core Lean only.
-/
namespace Txdbus.Bus

open Txdbus.Gen.C13Codes

/-! ## Python dict -/
namespace Dict

variable {κ : Type} {ν : Type} [DecidableEq κ]

/-- `d.get(k)` -/
def get? : List (κ × ν) → κ → Option ν
  | [], _ => none
  | (k', v) :: t, k => if k' = k then some v else get? t k

/-- `d[k] = v`: overwrite in place, or append as the newest key -/
def set : List (κ × ν) → κ → ν → List (κ × ν)
  | [], k, v => [(k, v)]
  | (k', v') :: t, k, v => if k' = k then (k, v) :: t else (k', v') :: set t k v

/-- `del d[k]` (for a present key) -/
def erase (d : List (κ × ν)) (k : κ) : List (κ × ν) :=
  d.filter (fun p => decide (p.1 ≠ k))

/-- `d.keys()` in iteration order -/
def keys (d : List (κ × ν)) : List κ := d.map Prod.fst

end Dict

/-! ## Flags -/

/-- The three booleans `dbus_RequestName` computes from the flag word. -/
structure ReqFlags where
  allow : Bool      -- allow_replacement = bool(flags & 0x1)
  replace : Bool    -- replace_existing  = bool(flags & 0x2)
  dnq : Bool        -- do_not_queue      = bool(flags & 0x4)
  deriving DecidableEq, Repr

def decodeFlags (flags : Nat) : ReqFlags :=
  { allow := (flags &&& busMaskAllowReplacement) != 0
    replace := (flags &&& busMaskReplaceExisting) != 0
    dnq := (flags &&& busMaskDoNotQueue) != 0 }

/-! ## State, operations, events -/

inductive Err where
  | key      -- KeyError
  | index    -- IndexError
  | attr     -- AttributeError
  deriving DecidableEq, Repr

/-- What the bus sends, in the order it sends it. -/
inductive Event where
  | nameAcquired (to : Conn) (n : Name)                    -- sendSignal(to, 'NameAcquired', 's', n)
  | nameLost (to : Conn) (n : Name)                        -- sendSignal(to, 'NameLost', 's', n)
  | ownerChanged (n : Name) (old new : Option Conn)        -- broadcastSignal('NameOwnerChanged', ..); none = ''
  | reply (to : Conn) (code : Nat)                         -- method return 'u' of RequestName / ReleaseName
  | replyOwner (to : Conn) (owner : Conn)                  -- method return 's' of GetNameOwner
  | replyQueue (to : Conn) (q : List Conn)                 -- method return 'as' of ListQueuedOwners
  | replyNoOwner (to : Conn)                               -- error org.freedesktop.DBus.Error.NameHasNoOwner
  deriving DecidableEq, Repr

structure State where
  /-- `Bus.clients` with each connection's `busNames` -/
  clients : List (Conn × List (Name × Bool))
  /-- `Bus.busNames` -/
  busNames : List (Name × List Conn)
  /-- `Bus.next_id` -/
  nextId : Nat
  deriving DecidableEq, Repr

/-- A fresh `Bus()`. -/
def State.init : State := { clients := [], busNames := [], nextId := 1 }

abbrev Result := Except Err (State × List Event)

/-- `Bus.clientConnected`; the connection's `busNames = {}` is from `connectionAuthenticated`. -/
def connect (s : State) : Result :=
  .ok ({ s with clients := Dict.set s.clients s.nextId [], nextId := s.nextId + 1 }, [])

/-- `owner.busNames[name]`.
Deviation: in Python a connection object that was removed from `Bus.clients` but is still
referenced from a queue keeps its dict; the model has no such objects and answers `KeyError`.
No reachable state of the repaired code has such a queue entry (`Inv.alive`). -/
def ownerAllows (s : State) (owner : Conn) (n : Name) : Except Err Bool :=
  match Dict.get? s.clients owner with
  | none => .error .key
  | some otbl =>
    match Dict.get? otbl n with
    | none => .error .key
    | some b => .ok b

/-- `replace_existing and owner.busNames[name]` (the table is read only when the left side holds). -/
def replaceNow (s : State) (owner : Conn) (n : Name) (replace : Bool) : Except Err Bool :=
  if replace then ownerAllows s owner n else .ok false

/-- `if caller in queue: queue.remove(caller)` -/
def removeIfPresent (q : List Conn) (c : Conn) : List Conn :=
  if c ∈ q then q.erase c else q

/-- `conn.busNames[name] = b` for the connection object registered as `c` (mutates that object's dict). -/
def setFlag (cl : List (Conn × List (Name × Bool))) (c : Conn) (n : Name) (b : Bool) :
    List (Conn × List (Name × Bool)) :=
  match Dict.get? cl c with
  | none => cl
  | some t => Dict.set cl c (Dict.set t n b)

/-- `del conn.busNames[name]` for the connection object registered as `c`. -/
def delFlag (cl : List (Conn × List (Name × Bool))) (c : Conn) (n : Name) :
    List (Conn × List (Name × Bool)) :=
  match Dict.get? cl c with
  | none => cl
  | some t => Dict.set cl c (Dict.erase t n)

/-- `Bus.dbus_RequestName(name, flags, dbusCaller)` for a valid well-known name. -/
def requestName (s : State) (c : Conn) (n : Name) (flags : Nat) : Result :=
  match Dict.get? s.clients c with
  | none => .error .key                                           -- caller = self.clients[dbusCaller]
  | some _ =>
    let fl := decodeFlags flags
    match Dict.get? s.busNames n with
    | none =>                                                     -- if name not in self.busNames:
      .ok ({ s with busNames := Dict.set s.busNames n [c]        --   self.busNames[name] = [caller]
                    clients := setFlag s.clients c n fl.allow },  --   caller.busNames[name] = allow_replacement
           [.nameAcquired c n, .ownerChanged n none (some c), .reply c nameAcquired])
    | some [] => .error .index                                    -- owner = queue[0]
    | some (owner :: rest) =>
      if owner = c then                                           -- if owner is caller:
        .ok ({ s with clients := setFlag s.clients c n fl.allow },
             [.reply c nameAlreadyOwner])
      else
        match replaceNow s owner n fl.replace with                -- if replace_existing and owner.busNames[name]:
        | .error e => .error e
        | .ok true =>
          -- if caller in queue: queue.remove(caller);  del queue[0];  queue.insert(0, caller)
          -- del owner.busNames[name];  caller.busNames[name] = allow_replacement
          .ok ({ s with busNames := Dict.set s.busNames n (c :: (removeIfPresent (owner :: rest) c).drop 1)
                        clients := setFlag (delFlag s.clients owner n) c n fl.allow },
               [.nameLost owner n, .nameAcquired c n, .ownerChanged n (some owner) (some c),
                .reply c nameAcquired])
        | .ok false =>
          if fl.dnq then                                          -- if do_not_queue: (remove caller if queued)
            .ok ({ s with busNames := Dict.set s.busNames n (removeIfPresent (owner :: rest) c) },
                 [.reply c nameInUse])
          else                                                    -- if caller not in queue: queue.append(caller)
            .ok ({ s with busNames := Dict.set s.busNames n
                            (if c ∈ owner :: rest then owner :: rest else (owner :: rest) ++ [c])
                          clients := setFlag s.clients c n fl.allow },
                 [.reply c nameInQueue])

/-- `Bus.dbus_ReleaseName(name, dbusCaller)` up to its return value; `isConnected` is
`caller.isConnected` (false when called from `clientDisconnected`). -/
def releaseCore (s : State) (c : Conn) (n : Name) (isConnected : Bool) :
    Except Err (State × List Event × Nat) :=
  match Dict.get? s.clients c with
  | none => .error .key                                           -- caller = self.clients[dbusCaller]
  | some _ =>
    match Dict.get? s.busNames n with
    | none => .ok (s, [], nameNonExistent)                        -- if queue is None
    | some [] => .error .index                                    -- owner = queue[0]
    | some (owner :: rest) =>
      if c ≠ owner then                                           -- if caller is not owner:
        if c ∈ owner :: rest then                                 --   if caller in queue: queue.remove(caller)
          .ok ({ s with busNames := Dict.set s.busNames n ((owner :: rest).erase c) }, [], nameReleased)
        else
          .ok (s, [], nameNotOwner)
      else
        let lost := if isConnected then [Event.nameLost c n] else []   -- if caller.isConnected: NameLost
        match rest with
        | next :: _ =>                                            -- if queue: NameAcquired to queue[0]
          .ok ({ s with busNames := Dict.set s.busNames n rest },
               lost ++ [.nameAcquired next n], nameReleased)
        | [] =>                                                   -- else: del self.busNames[name]
          .ok ({ s with busNames := Dict.erase s.busNames n }, lost, nameReleased)

/-- ReleaseName as a method call: the return value is sent to the caller. -/
def releaseName (s : State) (c : Conn) (n : Name) : Result :=
  match releaseCore s c n true with
  | .error e => .error e
  | .ok (s', evs, code) => .ok (s', evs ++ [.reply c code])

/-- `for busName in proto.busNames.keys(): self.dbus_ReleaseName(busName, proto.uniqueName)` -/
def releaseAll (s : State) (c : Conn) : List Name → Result
  | [] => .ok (s, [])
  | n :: ns =>
    match releaseCore s c n false with
    | .error e => .error e
    | .ok (s1, ev1, _) =>
      match releaseAll s1 c ns with
      | .error e => .error e
      | .ok (s2, ev2) => .ok (s2, ev1 ++ ev2)

/-- `Bus.clientDisconnected(proto)` for a connection that has a unique name (name part). -/
def disconnect (s : State) (c : Conn) : Result :=
  match Dict.get? s.clients c with
  | none => .error .key
  | some ctbl =>
    match releaseAll s c (Dict.keys ctbl) with
    | .error e => .error e
    | .ok (s1, evs) => .ok ({ s1 with clients := Dict.erase s1.clients c }, evs)   -- del self.clients[uniqueName]

/-- `Bus.dbus_GetNameOwner(busName)` for a well-known name; the answer goes to the caller `c`. -/
def getNameOwner (s : State) (c : Conn) (n : Name) : Result :=
  match Dict.get? s.busNames n with
  | none => .ok (s, [.replyNoOwner c])                -- conn is None -> DError NameHasNoOwner
  | some [] => .error .attr                           -- `if conn:` is false for [], then [].uniqueName
  | some (owner :: _) => .ok (s, [.replyOwner c owner])

/-- `Bus.dbus_ListQueuedOwners(name)` -/
def listQueuedOwners (s : State) (c : Conn) (n : Name) : Result :=
  match Dict.get? s.busNames n with
  | none => .ok (s, [.replyNoOwner c])
  | some [] => .ok (s, [.replyNoOwner c])             -- `if queue:` is false for []
  | some (o :: r) => .ok (s, [.replyQueue c (o :: r)])

def step (s : State) : Op → Result
  | .connect => connect s
  | .disconnect c => disconnect s c
  | .request c n flags => requestName s c n flags
  | .release c n => releaseName s c n
  | .getOwner c n => getNameOwner s c n
  | .listQueued c n => listQueuedOwners s c n
  | .other _ => .ok (s, [])      -- frame: no other entry point of bus.py writes the tables (validated by the
                                 -- other-traffic steps of the correspondence streams; translator advisory)

/-- Run a history; the events of each step are kept apart.  Stops at the first Python exception. -/
def run (s : State) : List Op → Except Err (State × List (List Event))
  | [] => .ok (s, [])
  | op :: ops =>
    match step s op with
    | .error e => .error e
    | .ok (s1, ev) =>
      match run s1 ops with
      | .error e => .error e
      | .ok (s2, evs) => .ok (s2, ev :: evs)

/-! ## Views of the state (what the name table *means*) -/

/-- The queue of a name; the head owns it.  A name without an entry has the empty queue. -/
def State.queue (s : State) (n : Name) : List Conn := (Dict.get? s.busNames n).getD []

/-- `c` is a key of `Bus.clients`. -/
def State.connected (s : State) (c : Conn) : Bool := (Dict.get? s.clients c).isSome

/-- `c.busNames.get(n)`: the allow-replacement flag the connection `c` last requested `n` with. -/
def State.flag (s : State) (c : Conn) (n : Name) : Option Bool :=
  (Dict.get? s.clients c).bind (fun t => Dict.get? t n)

/-- The owner of a name, if any. -/
def State.owner (s : State) (n : Name) : Option Conn := (s.queue n).head?

/-! ## The router's reading of the table (extension 2026-09-30: the seam with property C14)

`Bus.sendMessage(msg)` for a message whose destination is set and non-empty (the caller,
`Bus.messageReceived`, has already excluded `''` and `'org.freedesktop.DBus'`):

    if msg.destination[0] == ':':
        p = self.clients.get(msg.destination, None)
    else:
        p = self.busNames.get(msg.destination, None)
        if p:
            p = p[0]
    if p:
        p.sendMessage(msg)
    else:
        log.msg('Invalid bus name in msg.destination: ' + msg.destination)

A connection object is truthy; `None` and `[]` are not. -/

/-- The connection `Bus.sendMessage` writes a message for destination `d` to; `none`: logged and dropped. -/
def routerLookup (s : State) : Dest → Option Conn
  | .unique k =>                                  -- self.clients.get(':1.k')
    match Dict.get? s.clients k with
    | some _ => some k
    | none => none
  | .foreign => none                              -- starts with ':' but is no key of self.clients
  | .wellKnown n =>
    match Dict.get? s.busNames n with
    | none => none                                -- p = None
    | some [] => none                             -- `if p:` is false for [] (twice)
    | some (o :: _) => some o                     -- p = p[0]

/-- `Bus.dbus_GetNameOwner(busName)` for ANY name:
`if busName.startswith(':'): conn = self.clients.get(busName)` else the head of the queue;
`conn is None` -> NameHasNoOwner; `return conn.uniqueName`.  (`dbus_GetConnectionUnixUser` finds its
connection with the same lines.) -/
def getNameOwnerOf (s : State) (c : Conn) : Dest → Result
  | .wellKnown n => getNameOwner s c n
  | .unique k =>
    match Dict.get? s.clients k with
    | none => .ok (s, [.replyNoOwner c])
    | some _ => .ok (s, [.replyOwner c k])        -- conn.uniqueName is the key it is registered under
  | .foreign => .ok (s, [.replyNoOwner c])

/-- What one step of a history with router lookups shows. -/
inductive HOut where
  | events (evs : List Event)          -- what the bus sends because of a name operation / query
  | delivered (to : Option Conn)       -- the one connection the addressed message is written to; none: dropped
  deriving DecidableEq, Repr

/-- Sending an addressed message and asking for an owner leave the tables alone (`Op.other`). -/
def stepL (s : State) : HStep → Except Err (State × HOut)
  | .op o =>
    match step s o with
    | .error e => .error e
    | .ok (s', evs) => .ok (s', .events evs)
  | .send _ d => .ok (s, .delivered (routerLookup s d))
  | .sendBus _ => .ok (s, .delivered none)      -- `if not msg.destination == 'org.freedesktop.DBus': self.sendMessage(msg)`
  | .ask c d =>
    match getNameOwnerOf s c d with
    | .error e => .error e
    | .ok (s', evs) => .ok (s', .events evs)

def runL (s : State) : List HStep → Except Err (State × List HOut)
  | [] => .ok (s, [])
  | h :: hs =>
    match stepL s h with
    | .error e => .error e
    | .ok (s1, o) =>
      match runL s1 hs with
      | .error e => .error e
      | .ok (s2, os) => .ok (s2, o :: os)

/-! ## What a router that keeps its own copy of the heads must be told (C14's `owners` table) -/

/-- The well-known names whose owner an operation may change: the requested / released name; for a
disconnect the names of the connection's own table (the loop of `clientDisconnected`). -/
def changedNames (s : State) : Op → List Name
  | .request _ n _ => [n]
  | .release _ n => [n]
  | .disconnect c =>
    match Dict.get? s.clients c with
    | some t => Dict.keys t
    | none => []
  | _ => []

/-- The change of the head of one queue between `s` and `s'`: nothing, a new owner, or no owner. -/
def ownerChange (s s' : State) (n : Name) : List (Name × Option Conn) :=
  if routerLookup s' (.wellKnown n) = routerLookup s (.wellKnown n) then []
  else [(n, routerLookup s' (.wellKnown n))]

/-- The owner changes of one operation, in the order of `changedNames` (driver command `e`). -/
def ownerChanges (s s' : State) (op : Op) : List (Name × Option Conn) :=
  (changedNames s op).flatMap (ownerChange s s')

/-! ## Client side: `DBusClientConnection.requestBusName` -/

/-- The flag word `requestBusName` puts on the wire. -/
def clientFlags (allowReplacement replaceExisting doNotQueue : Bool) : Nat :=
  let f0 := 0
  let f1 := if allowReplacement then f0 ||| clientMaskAllowReplacement else f0
  let f2 := if replaceExisting then f1 ||| clientMaskReplaceExisting else f1
  if doNotQueue then f2 ||| clientMaskDoNotQueue else f2

/-- `on_result(r)`: `.error r` stands for `raise error.FailedToAcquireName(newName, r)`. -/
def clientOnResult (errbackUnlessAcquired : Bool) (r : Nat) : Except Nat Nat :=
  if errbackUnlessAcquired && !(clientSuccessCodes.contains r) then .error r else .ok r

/-- Class of the reason text of `FailedToAcquireName(_, code)`:
1 = "Queued for name acquisition", 2 = "Name in use", 0 = "Unknown reason". -/
def failedReason (code : Nat) : Nat :=
  match failedReasonClass.lookup code with
  | some k => k
  | none => 0

end Txdbus.Bus
