import TxdbusModel.Bus.RouteSpec
import TxdbusModel.Bus.RouteFull
import TxdbusModel.Route.Spec
/-
C14 x C12 (extension 2026-09-30) - specification side for the full rule language.

"A broadcast signal reaches exactly the connections that hold a rule matching it": *matching* is C12's
specification `Route.Spec.specMatches` (type, interface, member, path, destination, path_namespace, argN,
argNpath - written from the "Match Rules" section of the DBus specification; it ignores `sender`, which
txdbus stores and never evaluates: known finding `sender-constraint-ignored`), evaluated on what a match
rule can see of the bus's message object (`ruleView`).  `arg0namespace` is not part of C12's specification
(C12's property statement does not list it); the DBus specification's clause for it is added here
(`arg0InNamespace`) and is part of the relation exactly when the router evaluates the constraint
(`evalArg0 = true`: the router after fixes/C14-05; `false`: txdbus as found, where the constraint - like
`sender` - is stored and ignored: finding `arg0namespace-constraint-ignored`).

Also here: the order notions for broadcasts.  Core Lean only.
-/
namespace Txdbus.BusRoute

open Txdbus.Route (Str Arg RuleArgs)

/-- DBus specification, `arg0namespace`: "the first argument is of type STRING, and is a bus name or interface
name within the specified namespace" - the value itself, or the value followed by '.' and more. -/
def arg0InNamespace (v : Txdbus.Route.Msg) (ns : Str) : Bool :=
  match v.arg? 0 with
  | some (.str a) => a == ns || (ns ++ ['.']).isPrefixOf a
  | _ => false

/-- The matching relation of the bus: C12's `specMatches`, and the `arg0namespace` clause when the router
evaluates that constraint. -/
def busSpecMatches (evalArg0 : Bool) (a : RuleArgs) (v : Txdbus.Route.Msg) : Bool :=
  Txdbus.Route.Spec.specMatches a v &&
    (!evalArg0 || Txdbus.Route.Spec.optAll a.arg0ns (arg0InNamespace v))

/-- For txdbus as found the relation IS C12's `specMatches`. -/
theorem busSpecMatches_false (a : RuleArgs) (v : Txdbus.Route.Msg) :
    busSpecMatches false a v = Txdbus.Route.Spec.specMatches a v := by
  simp [busSpecMatches]

/-! ### order of broadcasts

A message without (truthy) destination has no per-destination stream; what can be said is said per receiver:
the copies connection `j` gets of what `i` broadcast arrive in the step of the broadcast itself. -/

/-- `P` holds for the k-th event and the k-th output, for every k (and there are as many outputs as events). -/
def Stepwise {α β : Type} (P : α → β → Prop) : List α → List β → Prop
  | [], [] => True
  | a :: as, b :: bs => P a b ∧ Stepwise P as bs
  | _, _ => False

/-- A delivery to `j` that is a forwarded message from `i` without destination. -/
def bcastOf (i j : ConnId) (dl : Delivery) : Option Msg :=
  match dl.what with
  | .fwd o m => if o = i ∧ dl.to = j ∧ truthy m.dest = false then some m else none
  | _ => none

/-- The message of event `e` if it is a message from `i` without destination. -/
def bcastSent {ρ : Type} (i : ConnId) : Event ρ → Option Msg
  | .msg i' m _ => if i' = i ∧ truthy m.dest = false then some m else none
  | _ => none

/-- The first copy (if any) that `j` receives in one step of a broadcast of `i`. -/
def firstBcast (i j : ConnId) (o : Out) : Option Msg := (o.deliveries.filterMap (bcastOf i j)).head?

end Txdbus.BusRoute
