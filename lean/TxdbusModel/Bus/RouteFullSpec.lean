import TxdbusModel.Bus.RouteSpec
import TxdbusModel.Bus.RouteFull
import TxdbusModel.Route.Spec
/-
C14 x C12 (extension 2026-09-30) - specification side for the full rule language.

"A broadcast signal reaches exactly the connections that hold a rule matching it": *matching* is ONE fixed
relation, independent of what the router of the tree under test evaluates - the rule language of the DBus
specification: C12's `Route.Spec.specMatchesFull` (type, interface, member, path, destination, path_namespace, argN,
argNpath, arg0namespace - written from the "Match Rules" section; it never looks at txdbus) on what a rule can
see of the bus's message object (`ruleView`), AND the `sender` clause, which only a bus can evaluate: the message's
true sender is the unique name the rule names, or the unique name of the connection that owns the well-known
name it names (`ownerName`, a parameter: the name table is C13's).

txdbus evaluates neither `sender` (known finding `sender-constraint-ignored`) nor - as found - `arg0namespace`
(finding `arg0namespace-constraint-ignored`, fixes/C14-05).  The theorems therefore carry EXPLICIT hypotheses on
the held rules (`FullRule.InSpec`): no `sender` constraint; no `arg0namespace` constraint unless the router
evaluates it.  Outside them the statement is false for txdbus, and the witness theorems say so.

Also here: the order notions for broadcasts.  Core Lean only.
-/
namespace Txdbus.BusRoute

open Txdbus.Route (Str Arg RuleArgs)

/-- The `sender` clause of a match rule, as a bus evaluates it: the true sender of the message is the unique name
`s`, or the unique name of the current owner of the well-known name `s`. -/
def senderIs (ownerName : Str → Option Str) (v : Txdbus.Route.Msg) (s : Str) : Bool :=
  if s.head? = some ':' then v.sender == .some s
  else
    match ownerName s with
    | some u => v.sender == .some u
    | none => false

/-- The matching relation of the property: the message satisfies EVERY constraint of the rule - C12's
`specMatchesFull` (all keys of the DBus rule language but `sender`) and the sender clause. -/
def busSpecMatches (ownerName : Str → Option Str) (a : RuleArgs) (v : Txdbus.Route.Msg) : Bool :=
  Txdbus.Route.Spec.specMatchesFull a v && Txdbus.Route.Spec.optAll a.sender (senderIs ownerName v)

/-! ### the bus's own signals

What the name functions make the bus send (`Effect.signalTo` to one connection, `Effect.broadcast` through the match
rules - NameOwnerChanged) as the SPECIFICATION has it: a broadcast goes, once per held rule it satisfies, to the
holders, the held rules being those of the history (`heldAfter`). -/

/-- A delivery whose payload is a signal built by the bus. -/
def Delivery.isSig (dl : Delivery) : Bool :=
  match dl.what with
  | .busSignal _ => true
  | _ => false

def specEffectDeliveries (ownerName : Str → Option Str) (held : List (ConnId × RuleArgs))
    (nameOfConn : ConnId → Option Name) : Effect → List Delivery
  | .setOwner _ _ => []
  | .unsetOwner _ => []
  | .signalTo j member body args => [⟨j, .busSignal (busSignalMsg member body args (nameOfConn j))⟩]
  | .broadcast member body args =>
      let m := busSignalMsg member body args none
      (held.filter (fun e => busSpecMatches ownerName e.2 (ruleView m))).map (fun e => ⟨e.1, .busSignal m⟩)

/-! ### order of broadcasts

A message without (truthy) destination has no per-destination stream; what can be said is said per receiver:
the copies connection `j` gets of what `i` broadcast arrive in the step of the broadcast itself. -/

/-- `P` holds for the k-th event and the k-th output, for every k (and there are as many outputs as events). -/
def Stepwise {α β : Type} (P : α → β → Prop) : List α → List β → Prop
  | [], [] => True
  | a :: as, b :: bs => P a b ∧ Stepwise P as bs
  | _, _ => False

/-- A delivery to `j` that is a forwarded message from `i` without destination. -/
def bcastOf (i j : ConnId) (dl : Delivery) : Option Msg :=
  match dl.what with
  | .fwd o m => if o = i ∧ dl.to = j ∧ truthy m.dest = false then some m else none
  | _ => none

/-- The message of event `e` if it is a message from `i` without destination. -/
def bcastSent {ρ : Type} (i : ConnId) : Event ρ → Option Msg
  | .msg i' m _ => if i' = i ∧ truthy m.dest = false then some m else none
  | _ => none

/-- The first copy (if any) that `j` receives in one step of a broadcast of `i`. -/
def firstBcast (i j : ConnId) (o : Out) : Option Msg := (o.deliveries.filterMap (bcastOf i j)).head?

end Txdbus.BusRoute
