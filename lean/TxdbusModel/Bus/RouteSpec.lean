import TxdbusModel.Bus.Route
/-
C14 - specification side, written from the property statement:

  "The built-in bus gives every connection a unique name that is never reused, and delivers each
   addressed message exactly once to the connection owning the destination name at that moment and to
   no other, unchanged except that the sender field is the true unique name of the originating
   connection whatever the originator wrote there; messages from one sender to one destination arrive
   in the order sent.  Messages addressed to the bus itself are answered by the bus and not forwarded,
   and a broadcast signal reaches exactly the connections that hold a rule matching it."

Nothing here looks at how the bus finds a receiver (its `clients` dictionary, the router's rule
table, the rule ids kept per connection); the notions are: who is connected, which name a
connection was given, who owns a name, who holds a rule - the latter as a function of the history
alone.  Core Lean only.
-/
namespace Txdbus.BusRoute

section
variable {ρ : Type}

/-! ### names -/

/-- The names handed out during a run, in order: (connection, name). -/
def allocated (outs : List Out) : List (ConnId × Name) := outs.filterMap (·.named)

/-- The unique name of connection `j`, if it has one. -/
def nameOf (s : State ρ) (j : ConnId) : Option Name := (s.conns[j]?).bind (·.uniqueName)

/-- Connection `j` exists and has not been lost. -/
def connected (s : State ρ) (j : ConnId) : Bool :=
  match s.conns[j]? with
  | some c => c.isConnected
  | none => false

def Live (s : State ρ) (j : ConnId) : Prop := connected s j = true

/-! ### ownership of a destination name

A unique name (one that starts with ':') is owned by the connection it was given to, as long as
that connection is there; a well-known name is owned by whoever the name table (C13) says. -/
def Owns (s : State ρ) (j : ConnId) (d : Name) : Prop :=
  if d.head? = some ':' then Live s j ∧ nameOf s j = some d
  else dget d s.owners = some j

/-! ### the message as delivered: only the sender differs -/

def withSender (m : Msg) (n : Option Name) : Msg := { m with sender := n }
def eraseSender (m : Msg) : Msg := withSender m none

/-- A message in the form every txdbus peer writes: only the header fields the DBus specification lists for
its type (the per-class tables of message.py), no field with an unknown code.  For such a message the bus's
parse + re-marshal step changes the sender and nothing else (`remarshal_canonical`); for others it drops
the extra fields (known finding `forward-drops-unknown-header-fields`, witness `remarshal_drops_extra_fields`). -/
def Canonical (m : Msg) : Prop :=
  m.extra = [] ∧
  (keeps m.mtype .path = false → m.path = none) ∧
  (keeps m.mtype .interface = false → m.iface = none) ∧
  (keeps m.mtype .member = false → m.member = none) ∧
  (keeps m.mtype .errorName = false → m.errorName = none) ∧
  (keeps m.mtype .replySerial = false → m.replySerial = none)

/-- The message as any receiver sees it, sender erased: what the order statement compares. -/
def wireForm (m : Msg) : Msg := eraseSender (remarshal m [])

/-- A destination the bus has to deliver to: set, non-empty, not the bus itself. -/
def Addressed (m : Msg) (d : Name) : Prop := m.dest = some d ∧ d ≠ [] ∧ d ≠ busName

/-! ### order: what `i` sent to `d`, what arrived from `i` for `d` -/

/-- The message of event `e` if it is a message from `i` to `d`. -/
def sentOf (i : ConnId) (d : Name) : Event ρ → List Msg
  | .msg i' m _ => if i' = i ∧ m.dest = some d then [m] else []
  | _ => []

def sentTo (i : ConnId) (d : Name) (h : List (Event ρ)) : List Msg := h.flatMap (sentOf i d)

/-- A delivery that is a forwarded message from `i` for `d`. -/
def fwdOf (i : ConnId) (d : Name) (dl : Delivery) : Option Msg :=
  match dl.what with
  | .fwd o m => if o = i ∧ m.dest = some d then some m else none
  | _ => none

/-- Everything delivered anywhere during a run that is a forwarded message from `i` for `d`, in
delivery order. -/
def arrivedFrom (i : ConnId) (d : Name) (outs : List Out) : List Msg :=
  (outs.flatMap (·.deliveries)).filterMap (fwdOf i d)

/-! ### replies of the bus -/

def Payload.isFwd : Payload → Bool
  | .fwd _ _ => true
  | _ => false

/-- (receiver, reply_serial) of a delivery that is a reply built by the bus. -/
def replyOf (dl : Delivery) : Option (ConnId × Nat) :=
  match dl.what with
  | .helloReply serial _ => some (dl.to, serial)
  | .busReply serial _ => some (dl.to, serial)
  | _ => none

/-- (receiver, name in the body) of a delivery that is the reply of the Hello short-cut. -/
def helloNameOf (dl : Delivery) : Option (ConnId × Name) :=
  match dl.what with
  | .helloReply _ nm => some (dl.to, nm)
  | _ => none

/-- Does the object handler answer this call?  Errors of the dispatch (`_send_err`) and the built-in
replies are sent whatever the flags say, an executed method answers only when a reply is expected. -/
def opReplies (op : BusOp ρ) (m : Msg) : Bool :=
  match op with
  | .always => true
  | _ => !m.noReply

/-- The answer the bus owes for a message addressed to itself: a call is answered when it is the
connection's first Hello, when the dispatch answers whatever the flags say, or when a reply is
expected.  `called` = this connection has called Hello before. -/
def answered (called : Bool) (m : Msg) (op : BusOp ρ) : Bool :=
  decide (m.mtype = .call) &&
  ((!called && decide (m.member = some helloMember)) || opReplies op m)

/-- Has connection `i` called Hello? -/
def helloCalled (s : State ρ) (i : ConnId) : Bool :=
  match s.conns[i]? with
  | some c => c.calledHello
  | none => false

/-! ### who holds which rule, from the history alone

A connection holds a rule from the moment the bus processed its AddMatch call until it
disconnects (txdbus has no RemoveMatch). -/

structure Holders (ρ : Type) where
  alive : List Bool := []
  held : List (ConnId × ρ) := []

def addMatchMember : Name := "AddMatch".toList

def Holders.step (sp : Holders ρ) : Event ρ → Holders ρ
  | .connect => { sp with alive := sp.alive ++ [true] }
  | .msg i m (.addMatch r) =>
      if sp.alive[i]? = some true ∧ m.mtype = .call ∧ m.dest = some busName
      then { sp with held := sp.held ++ [(i, r)] } else sp
  | .msg _ _ _ => sp
  | .disconnect i _ =>
      if sp.alive[i]? = some true
      then { alive := sp.alive.set i false, held := sp.held.filter (fun e => decide (e.1 ≠ i)) } else sp

def Holders.run (sp : Holders ρ) : List (Event ρ) → Holders ρ
  | [] => sp
  | e :: es => Holders.run (sp.step e) es

/-- The rules held after history `h`: (connection, rule), oldest first. -/
def heldAfter (h : List (Event ρ)) : List (ConnId × ρ) := (Holders.run {} h).held

/-- An AddMatch call is a call of the member AddMatch (so it is not the Hello short-cut). -/
def Event.wf : Event ρ → Prop
  | .msg _ m (.addMatch _) => m.member = some addMatchMember
  | _ => True

/-- The bus's view of who holds which rule. -/
def heldBy (s : State ρ) : List (ConnId × ρ) := s.rules.map (fun r => (r.conn, r.pred))

end

/-- The code as repaired (F21, F22); the rule predicate is arbitrary. -/
def Cfg.Repaired {ρ : Type} (cfg : Cfg ρ) : Prop := cfg.routeUnicast = false ∧ cfg.recordRuleId = true

end Txdbus.BusRoute
