import TxdbusModel.Bus.Names
import TxdbusModel.Base.ExceptEq
/-!
The name operations of the built-in bus as they were BEFORE the repairs C13-01..03
(txdbus/bus.py at commit 839b5f3), kept so that the failing inputs stay machine-checked
witnesses (`Properties/C13.lean`, section "pre-fix witnesses").  Same state, events and
conventions as `Bus/Names.lean`; only `requestNamePre` and `releaseCorePre` differ.
Core Lean only.
-/
namespace Txdbus.Bus.Pre

open Txdbus.Gen.C13Codes

/-- `dbus_RequestName` before the repairs. -/
def requestName (s : State) (c : Conn) (n : Name) (flags : Nat) : Result :=
  match Dict.get? s.clients c with
  | none => .error .key
  | some _ =>
    let fl := decodeFlags flags
    match Dict.get? s.busNames n with
    | none =>
      .ok ({ s with busNames := Dict.set s.busNames n [c]
                    clients := setFlag s.clients c n fl.allow },
           [.nameAcquired c n, .ownerChanged n none (some c), .reply c nameAcquired])
    | some [] => .error .index
    | some (owner :: rest) =>
      if owner = c then
        .ok ({ s with clients := setFlag s.clients c n fl.allow }, [.reply c nameAlreadyOwner])
      else if !fl.replace then                           -- if not replace_existing: return NAME_IN_USE
        .ok (s, [.reply c nameInUse])
      else
        match ownerAllows s owner n with                  -- if owner.busNames[name]:
        | .error e => .error e
        | .ok true =>                                     -- del queue[0]; queue.insert(0, caller)
          .ok ({ s with busNames := Dict.set s.busNames n (c :: rest)
                        clients := setFlag (delFlag s.clients owner n) c n fl.allow },
               [.nameLost owner n, .nameAcquired c n, .ownerChanged n (some owner) (some c),
                .reply c nameAcquired])
        | .ok false =>
          if fl.dnq then .ok (s, [.reply c nameInUse])
          else                                            -- queue.append(caller)
            .ok ({ s with busNames := Dict.set s.busNames n ((owner :: rest) ++ [c])
                          clients := setFlag s.clients c n fl.allow },
                 [.reply c nameInQueue])

/-- `dbus_ReleaseName` before the repairs. -/
def releaseCore (s : State) (c : Conn) (n : Name) (isConnected : Bool) :
    Except Err (State × List Event × Nat) :=
  match Dict.get? s.clients c with
  | none => .error .key
  | some _ =>
    match Dict.get? s.busNames n with
    | none => .ok (s, [], nameNonExistent)
    | some [] => .error .index
    | some (owner :: rest) =>
      if c ≠ owner then .ok (s, [], nameNotOwner)        -- if caller is not owner: return NAME_NOT_OWNER
      else
        let lost := if isConnected then [Event.nameLost c n] else []
        match rest with
        | next :: _ => .ok ({ s with busNames := Dict.set s.busNames n rest },
                            lost ++ [.nameAcquired next n], nameReleased)
        | [] => .ok ({ s with busNames := Dict.erase s.busNames n }, lost, nameReleased)

def releaseName (s : State) (c : Conn) (n : Name) : Result :=
  match releaseCore s c n true with
  | .error e => .error e
  | .ok (s', evs, code) => .ok (s', evs ++ [.reply c code])

def releaseAll (s : State) (c : Conn) : List Name → Result
  | [] => .ok (s, [])
  | n :: ns =>
    match releaseCore s c n false with
    | .error e => .error e
    | .ok (s1, ev1, _) =>
      match releaseAll s1 c ns with
      | .error e => .error e
      | .ok (s2, ev2) => .ok (s2, ev1 ++ ev2)

def disconnect (s : State) (c : Conn) : Result :=
  match Dict.get? s.clients c with
  | none => .error .key
  | some ctbl =>
    match releaseAll s c (Dict.keys ctbl) with
    | .error e => .error e
    | .ok (s1, evs) => .ok ({ s1 with clients := Dict.erase s1.clients c }, evs)

def step (s : State) : Op → Result
  | .connect => connect s
  | .disconnect c => disconnect s c
  | .request c n flags => requestName s c n flags
  | .release c n => releaseName s c n
  | .getOwner c n => getNameOwner s c n
  | .listQueued c n => listQueuedOwners s c n
  | .other _ => .ok (s, [])

/-- The queue of name `n`, the connected set and the events of the last step after a history
(`none` if Python raised). -/
def observe (ops : List Op) (n : Name) : Option (List Conn × List Conn × List Event) :=
  let rec go (s : State) (last : List Event) : List Op → Option (List Conn × List Conn × List Event)
    | [] => some (s.queue n, s.clients.map Prod.fst, last)
    | op :: rest =>
      match step s op with
      | .error _ => none
      | .ok (s1, evs) => go s1 evs rest
  go State.init [] ops

/-- What the router finds for destination `d` after a history, and whether that connection is
connected (`none` if Python raised). -/
def lookupAfter (ops : List Op) (d : Dest) : Option (Option Conn × Bool) :=
  let rec go (s : State) : List Op → Option (Option Conn × Bool)
    | [] => some (routerLookup s d, match routerLookup s d with
                                    | some o => s.connected o
                                    | none => false)
    | op :: rest =>
      match step s op with
      | .error _ => none
      | .ok (s1, _) => go s1 rest
  go State.init ops

end Txdbus.Bus.Pre

namespace Txdbus.Bus

/-- The same observation on the repaired model. -/
def observe (ops : List Op) (n : Name) : Option (List Conn × List Conn × List Event) :=
  let rec go (s : State) (last : List Event) : List Op → Option (List Conn × List Conn × List Event)
    | [] => some (s.queue n, s.clients.map Prod.fst, last)
    | op :: rest =>
      match step s op with
      | .error _ => none
      | .ok (s1, evs) => go s1 evs rest
  go State.init [] ops

/-- The same on the repaired model. -/
def lookupAfter (ops : List Op) (d : Dest) : Option (Option Conn × Bool) :=
  let rec go (s : State) : List Op → Option (Option Conn × Bool)
    | [] => some (routerLookup s d, match routerLookup s d with
                                    | some o => s.connected o
                                    | none => false)
    | op :: rest =>
      match step s op with
      | .error _ => none
      | .ok (s1, _) => go s1 rest
  go State.init ops

end Txdbus.Bus
