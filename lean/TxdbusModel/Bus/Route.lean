import TxdbusModel.Gen.Message
import TxdbusModel.Route.Basic
/-
C14 - code model of the routing part of txdbus's built-in bus (`txdbus/bus.py`), as a step
function over events.  Core Lean only.

Mirrored (line numbers of the repaired tree):
* `BusProtocol.connectionAuthenticated` (bus.py:44-50)          -> `Event.connect`
* `BusProtocol.rawDBusMessageReceived`  (bus.py:57-87)          -> `stepMsg`
    parse (assumed to succeed: the harness only sends well-formed messages), unique name on the
    FIRST message (`clientConnected`, bus.py:174-181), Hello short-cut, `loseConnection` for a first
    call that is not addressed to the bus (processing continues), sender overwrite,
    re-serialisation of the header with the original serial (`_marshal(False, rawBody=msg.rawBody)`:
    every field is kept, the body bytes and their byte order are forwarded as received - an opaque
    token here), `bus.messageReceived`
* `Bus.messageReceived` (bus.py:227-262)                        -> `messageReceived`
    calls addressed to the bus go to the object handler; a message with a destination other than
    the bus is forwarded (`Bus.sendMessage`), a message without destination is routed through the
    match rules.  `Cfg.routeUnicast = true` gives the code before the repair of F21 (every message
    was ALSO routed through the rules).
* `Bus.sendMessage` (bus.py:196-225)                            -> `resolve` / `busSend`
* `Bus.sendSignal` / `Bus.broadcastSignal` (bus.py:277-346)     -> `Effect.signalTo` / `Effect.broadcast`
* `Bus.dbus_AddMatch` registration (bus.py:503)                 -> `BusOp.addMatch`
    `Cfg.recordRuleId = false` gives the code before the repair of F22 (`proto.matchRules` stayed empty).
* `Bus.clientDisconnected` (bus.py:183-194), `connectionLost`   -> `stepDisconnect`
* `router.MessageRouter.addMatch/delMatch/routeMessage`         -> `State.rules` (insertion order), `route`

Abstracted (owned by other properties, see notes/C14.md):
* the match-rule predicate: a parameter `Cfg.holds : ρ → Msg → Bool` (C12 owns `Rule.match`);
* the name table: `State.owners` maps a well-known name to the connection at the head of its queue;
  what `dbus_RequestName` / `dbus_ReleaseName` do to it (and which signals they emit) arrives as a
  list of `Effect`s observed on the real bus (C13 owns those functions);
* object dispatch (`DBusObjectHandler.handleMethodCallMessage`, C10): `BusOp` says whether the call
  reaches a method (`exec`, `addMatch`: answered iff a reply is expected) or is answered by
  `_send_err` / a built-in reply whatever the flags say (`always`).
-/
namespace Txdbus.BusRoute

abbrev Name := List Char
abbrev ConnId := Nat

def busName : Name := "org.freedesktop.DBus".toList
def busPath : Name := "/org/freedesktop/DBus".toList
def helloMember : Name := "Hello".toList

/-- `':1.%d' % (n,)` -/
def uniqueNameOf (n : Nat) : Name := [':', '1', '.'] ++ Nat.toDigits 10 n

inductive MType where
  | call | ret | err | sig
  deriving DecidableEq, Repr, Inhabited

/-- What an observer sees of a message.  `body` is an opaque token standing for
(byte order, signature, body bytes). -/
structure Msg where
  mtype : MType
  serial : Nat
  noReply : Bool
  noAutoStart : Bool
  /-- the flags byte without bits 0x1 and 0x2 (0x4 ALLOW_INTERACTIVE_AUTHORIZATION, unassigned bits) -/
  otherFlags : Nat
  path : Option Name
  iface : Option Name
  member : Option Name
  errorName : Option Name
  replySerial : Option Nat
  dest : Option Name
  sender : Option Name
  /-- opaque token for the header fields whose code `_hcode` does not know ([] = there are none) -/
  extra : Name
  body : Name
  /-- `msg.body` after unmarshalling, as the match-rule code sees it (C12's view: every string-like value is a
  `str`, everything else is `other`; `none` = the message carries no signature).  A function of `body`
  (signature + bytes) that this model does not compute: the unmarshaller is C02's / C11's. -/
  args : Option (List Txdbus.Route.Arg) := none
  deriving DecidableEq, Repr, Inhabited

def MType.cls : MType → Txdbus.Msg.MsgClass
  | .call => .methodCall | .ret => .methodReturn | .err => .error | .sig => .signal

/-- Is header attribute `a` in `_headerAttrs` of the class of a type-`t` message (table generated from
txdbus/message.py)?  Only those attributes are written by `_marshal`. -/
def keeps (t : MType) (a : Txdbus.Msg.Attr) : Bool :=
  (Txdbus.Gen.Message.headerAttrs t.cls).any (fun e => e.1 = a)

/-- What the bus writes for a message it received from the connection named `nm`:
`parseMessage` (every known header field becomes an attribute, fields with unknown codes are dropped, the
flags byte is split into expectReply / autoStart / otherFlags), `msg.sender = nm`,
`_marshal(False, rawBody=msg.rawBody)` (same serial; only the attributes in the class's `_headerAttrs`
table are written; body bytes and byte order as received = the opaque token). -/
def remarshal (m : Msg) (nm : Name) : Msg :=
  { mtype := m.mtype, serial := m.serial, noReply := m.noReply, noAutoStart := m.noAutoStart,
    otherFlags := m.otherFlags,
    path := if keeps m.mtype .path then m.path else none,
    iface := if keeps m.mtype .interface then m.iface else none,
    member := if keeps m.mtype .member then m.member else none,
    errorName := if keeps m.mtype .errorName then m.errorName else none,
    replySerial := if keeps m.mtype .replySerial then m.replySerial else none,
    dest := if keeps m.mtype .destination then m.dest else none,
    sender := if keeps m.mtype .sender then some nm else none,
    extra := [],
    body := m.body,
    args := m.args }

/-- Python truthiness of `msg.destination` (None or '' are false). -/
def truthy : Option Name → Bool
  | none => false
  | some [] => false
  | some (_ :: _) => true

/-- What a connection finds on its transport. -/
inductive Payload where
  /-- a client's message after the bus re-serialised it; `origin` is a ghost label (the connection
  that sent it), not observable -/
  | fwd (origin : ConnId) (m : Msg)
  /-- the Hello short-cut's method return: reply_serial, body = the unique name -/
  | helloReply (serial : Nat) (name : Name)
  /-- a method return or error built by the object handler: reply_serial, destination -/
  | busReply (serial : Nat) (dest : Name)
  /-- a signal built by sendSignal / broadcastSignal -/
  | busSignal (m : Msg)
  deriving DecidableEq, Repr

structure Delivery where
  to : ConnId
  what : Payload
  deriving DecidableEq, Repr

/-- Observable result of one step. -/
structure Out where
  deliveries : List Delivery := []
  /-- `clientConnected` ran in this step: (connection, new unique name) -/
  named : Option (ConnId × Name) := none
  /-- `transport.loseConnection()` was called in this step -/
  lose : Bool := false
  /-- `clientDisconnected` raised KeyError (a remembered rule id or the client's name is missing) -/
  raised : Bool := false
  deriving Repr

/-- Per-connection state of a `BusProtocol` after authentication. -/
structure Conn where
  uniqueName : Option Name := none
  calledHello : Bool := false
  isConnected : Bool := true
  matchRules : List Nat := []
  deriving Repr, DecidableEq

/-- `connectionAuthenticated`: no name yet, Hello not called, connected, no rules. -/
def Conn.fresh : Conn := { uniqueName := none }

/-- What the name functions (C13) did during a call or a disconnect, in program order. -/
inductive Effect where
  | setOwner (n : Name) (j : ConnId)
  | unsetOwner (n : Name)
  /-- `sendSignal(p, member, sig, body)` -/
  | signalTo (j : ConnId) (member : Name) (body : Name) (args : Option (List Txdbus.Route.Arg))
  /-- `broadcastSignal(member, sig, body)`; `args` = the body list as the match rules see it -/
  | broadcast (member : Name) (body : Name) (args : Option (List Txdbus.Route.Arg))
  deriving Repr

/-- Classification of a method call addressed to the bus by the object handler. -/
inductive BusOp (ρ : Type) where
  /-- answered whatever the flags say (`_send_err`, Ping, Introspect) -/
  | always
  /-- `dbus_AddMatch` with a rule text that parses to `r` -/
  | addMatch (r : ρ)
  /-- any other method that is executed; `effs` = what it did to names / which signals it sent -/
  | exec (effs : List Effect)
  deriving Repr

inductive Event (ρ : Type) where
  /-- a new connection finished authentication -/
  | connect
  /-- one complete message arrived from connection `i` -/
  | msg (i : ConnId) (m : Msg) (op : BusOp ρ)
  /-- `connectionLost` of connection `i`; `effs` = what releasing its names did -/
  | disconnect (i : ConnId) (effs : List Effect)
  deriving Repr

structure Cfg (ρ : Type) where
  holds : ρ → Msg → Bool
  /-- before the repair of F21: every message is routed through the rules as well -/
  routeUnicast : Bool := false
  /-- after the repair of F22: AddMatch records the rule id on the connection -/
  recordRuleId : Bool := true

structure RuleEntry (ρ : Type) where
  id : Nat
  conn : ConnId
  pred : ρ
  deriving Repr

structure State (ρ : Type) where
  conns : List Conn := []
  /-- `Bus.clients` -/
  clients : List (Name × ConnId) := []
  /-- head of `Bus.busNames[name]` -/
  owners : List (Name × ConnId) := []
  /-- `router._rules` in insertion order -/
  rules : List (RuleEntry ρ) := []
  /-- `router._id` -/
  ruleId : Nat := 0
  /-- `Bus.next_id` -/
  nextId : Nat := 1
  deriving Repr

def State.init {ρ : Type} : State ρ := {}

/-! ### Python `dict` with string keys (unique keys: `del` as a filter) -/

def dget {α : Type} (k : Name) : List (Name × α) → Option α
  | [] => none
  | (k', v) :: t => if k' = k then some v else dget k t

def dset {α : Type} (k : Name) (v : α) : List (Name × α) → List (Name × α)
  | [] => [(k, v)]
  | (k', v') :: t => if k' = k then (k, v) :: t else (k', v') :: dset k v t

def ddel {α : Type} (k : Name) (d : List (Name × α)) : List (Name × α) :=
  d.filter (fun e => decide (e.1 ≠ k))

section
variable {ρ : Type}

/-- `Bus.sendMessage`'s lookup for a non-empty destination. -/
def resolve (s : State ρ) (d : Name) : Option ConnId :=
  if d.head? = some ':' then dget d s.clients else dget d s.owners

/-- `Bus.sendMessage` for a message whose destination is `d` (set, non-empty). -/
def busSend (s : State ρ) (d : Name) (p : Payload) : List Delivery :=
  match resolve s d with
  | some j => [⟨j, p⟩]
  | none => []          -- log.msg('Invalid bus name in msg.destination')

/-- `router.routeMessage(m)`: every rule, in insertion order, whose predicate holds calls
`caller.sendMessage`. -/
def route (cfg : Cfg ρ) (s : State ρ) (m : Msg) (p : Payload) : List Delivery :=
  (s.rules.filter (fun r => cfg.holds r.pred m)).map (fun r => ⟨r.conn, p⟩)

def modifyConn (s : State ρ) (i : ConnId) (f : Conn → Conn) : State ρ :=
  match s.conns[i]? with
  | some c => { s with conns := s.conns.set i (f c) }
  | none => s

/-- The signal `sendSignal` / `broadcastSignal` build. -/
def busSignalMsg (member body : Name) (args : Option (List Txdbus.Route.Arg)) (dest : Option Name) : Msg :=
  { mtype := .sig, serial := 0, noReply := false, noAutoStart := false, otherFlags := 0, extra := [],
    path := some busPath, iface := some busName, member := some member,
    errorName := none, replySerial := none, dest := dest, sender := none, body := body, args := args }

def applyEffect (cfg : Cfg ρ) (s : State ρ) : Effect → State ρ × List Delivery
  | .setOwner n j => ({ s with owners := dset n j s.owners }, [])
  | .unsetOwner n => ({ s with owners := ddel n s.owners }, [])
  | .signalTo j member body args =>
      -- SignalMessage(path, member, interface, p.uniqueName, signature, body); p.sendMessage(s)
      let dest := (s.conns[j]?).bind (·.uniqueName)
      (s, [⟨j, .busSignal (busSignalMsg member body args dest)⟩])
  | .broadcast member body args =>
      let m := busSignalMsg member body args none
      (s, route cfg s m (.busSignal m))

def applyEffects (cfg : Cfg ρ) (s : State ρ) : List Effect → State ρ × List Delivery
  | [] => (s, [])
  | e :: es =>
      let r1 := applyEffect cfg s e
      let r2 := applyEffects cfg r1.1 es
      (r2.1, r1.2 ++ r2.2)

/-- The reply of the object handler: `destination = msg.sender` (the true name), sent through
`Bus.sendMessage`. -/
def reply (s : State ρ) (nm : Name) (m : Msg) : List Delivery := busSend s nm (.busReply m.serial nm)

/-- `dbus_AddMatch`'s registration: `router.addMatch(caller.sendMessage, ...)`; after the repair of
F22 the returned id is added to `caller.matchRules`. -/
def addMatch (cfg : Cfg ρ) (s : State ρ) (i : ConnId) (r : ρ) : State ρ :=
  let s1 : State ρ := { s with rules := s.rules ++ [⟨s.ruleId, i, r⟩], ruleId := s.ruleId + 1 }
  if cfg.recordRuleId then modifyConn s1 i (fun c => { c with matchRules := s.ruleId :: c.matchRules }) else s1

/-- `obj_handler.handleMethodCallMessage(msg)` for a call addressed to the bus, abstracted.
`m` already carries the true sender `nm`; replies are addressed to it and go through
`Bus.sendMessage`. -/
def busCall (cfg : Cfg ρ) (s : State ρ) (i : ConnId) (nm : Name) (m : Msg) :
    BusOp ρ → State ρ × List Delivery
  | .always => (s, reply s nm m)
  | .addMatch r =>
      let s2 := addMatch cfg s i r
      (s2, if m.noReply then [] else reply s2 nm m)
  | .exec effs =>
      let r1 := applyEffects cfg s effs
      (r1.1, r1.2 ++ (if m.noReply then [] else reply r1.1 nm m))

/-- The tail of `Bus.messageReceived`: forward and / or route.  `m` is the message object (all parsed
attributes, true sender): destination test and rule matching look at it; `w` is what `msg.rawMessage`
holds after the re-marshalling: that is what gets written. -/
def dispatch (cfg : Cfg ρ) (s : State ρ) (i : ConnId) (m w : Msg) : List Delivery :=
  let fwd := Payload.fwd i w
  if cfg.routeUnicast then
    -- before the repair of F21: forwarded AND routed
    (match m.dest with
     | some d => if truthy m.dest ∧ d ≠ busName then busSend s d fwd else []
     | none => []) ++ route cfg s m fwd
  else
    match m.dest with
    | some d =>
        if truthy m.dest then (if d ≠ busName then busSend s d fwd else [])
        else route cfg s m fwd
    | none => route cfg s m fwd

/-- `Bus.messageReceived(p, msg)`; `m` = the message object with the true sender `nm`, `w` = its
re-marshalled form. -/
def messageReceived (cfg : Cfg ρ) (s : State ρ) (i : ConnId) (nm : Name) (m w : Msg) (op : BusOp ρ) :
    State ρ × List Delivery :=
  let r1 := if m.mtype = .call ∧ m.dest = some busName then busCall cfg s i nm m op else (s, [])
  (r1.1, r1.2 ++ dispatch cfg r1.1 i m w)

/-- `if not self.uniqueName: self.bus.clientConnected(self)`; returns the state, the connection's
name and what was allocated. -/
def ensureNamed (s : State ρ) (i : ConnId) (c : Conn) : State ρ × Name × Option (ConnId × Name) :=
  match c.uniqueName with
  | some n => (s, n, none)
  | none =>
      let n := uniqueNameOf s.nextId
      ({ s with conns := s.conns.set i { c with uniqueName := some n },
                nextId := s.nextId + 1,
                clients := dset n i s.clients }, n, some (i, n))

/-- `rawDBusMessageReceived` after the name is settled.  `called` = `_called_hello` before. -/
def stepNamed (cfg : Cfg ρ) (s1 : State ρ) (i : ConnId) (nm : Name) (named : Option (ConnId × Name))
    (called : Bool) (m : Msg) (op : BusOp ρ) : State ρ × Out :=
  if called = false ∧ m.mtype = .call ∧ m.dest = some busName ∧ m.member = some helloMember then
    -- the Hello short-cut: reply written directly on this connection
    (modifyConn s1 i (fun c => { c with calledHello := true }),
     { deliveries := [⟨i, .helloReply m.serial nm⟩], named := named })
  else
    -- a first call that is not addressed to the bus: transport.loseConnection(), processing continues
    let lose : Bool := decide (called = false ∧ m.mtype = .call ∧ m.dest ≠ some busName)
    let r := messageReceived cfg s1 i nm { m with sender := some nm } (remarshal m nm) op
    (r.1, { deliveries := r.2, named := named, lose := lose })

/-- `BusProtocol.rawDBusMessageReceived` for connection `i` (authenticated, not yet lost). -/
def stepMsg (cfg : Cfg ρ) (s : State ρ) (i : ConnId) (m : Msg) (op : BusOp ρ) : State ρ × Out :=
  match s.conns[i]? with
  | none => (s, {})
  | some c =>
    if c.isConnected = false then (s, {}) else
    let r := ensureNamed s i c
    stepNamed cfg r.1 i r.2.1 r.2.2 c.calledHello m op

/-- `if proto.uniqueName: del self.clients[proto.uniqueName]` -/
def dropClient (s : State ρ) : Option Name → State ρ
  | some n => { s with clients := ddel n s.clients }
  | none => s

/-- Every key `clientDisconnected` deletes is there: the remembered rule ids in the router, the name in
`Bus.clients`. -/
def disconnectOk (s : State ρ) (c : Conn) : Bool :=
  c.matchRules.all (fun id => s.rules.any (fun r => r.id == id)) &&
  (match c.uniqueName with
   | some n => (dget n s.clients).isSome
   | none => true)

/-- `BusProtocol.connectionLost` -> `Bus.clientDisconnected`. -/
def stepDisconnect (cfg : Cfg ρ) (s : State ρ) (i : ConnId) (effs : List Effect) : State ρ × Out :=
  match s.conns[i]? with
  | none => (s, {})
  | some c =>
    if c.isConnected = false then (s, {}) else
    -- `del self._rules[rule_id]` / `del self.clients[name]` raise KeyError when the key is missing; the loop
    -- then stops half-way.  Which rules are already gone depends on set order: the model keeps only
    -- `isConnected = False` (theorem `disconnect_completes`: this never happens on the repaired code).
    if disconnectOk s c = false then
      ({ s with conns := s.conns.set i { c with isConnected := false } }, { raised := true }) else
    -- self.isConnected = False;  for rule_id in proto.matchRules: self.router.delMatch(rule_id)
    let s2 : State ρ := { s with conns := s.conns.set i { c with isConnected := false },
                                 rules := s.rules.filter (fun r => !(c.matchRules.contains r.id)) }
    -- for busName in proto.busNames: self.dbus_ReleaseName(busName, proto.uniqueName)
    let r := applyEffects cfg s2 effs
    -- if proto.uniqueName: del self.clients[proto.uniqueName]
    (dropClient r.1 c.uniqueName, { deliveries := r.2 })

def step (cfg : Cfg ρ) (s : State ρ) : Event ρ → State ρ × Out
  | .connect => ({ s with conns := s.conns ++ [Conn.fresh] }, {})
  | .msg i m op => stepMsg cfg s i m op
  | .disconnect i effs => stepDisconnect cfg s i effs

/-- State after a history. -/
def final (cfg : Cfg ρ) (s : State ρ) : List (Event ρ) → State ρ
  | [] => s
  | e :: es => final cfg (step cfg s e).1 es

/-- Outputs of a history, one per event. -/
def exec (cfg : Cfg ρ) (s : State ρ) : List (Event ρ) → List Out
  | [] => []
  | e :: es => (step cfg s e).2 :: exec cfg (step cfg s e).1 es

end

/-! ### The instance used by the driver: rules with equality constraints (the `simple` loop of
`router.Rule.match`, restricted to the keys that loop evaluates). -/

structure SimpleRule where
  mtype : Option MType := none
  /-- `sender='...'`: stored by `Rule.add` with `setattr`, never read by `Rule.match` (known finding
  `sender-constraint-ignored`): deliberately absent from `holds` -/
  sender : Option Name := none
  iface : Option Name := none
  member : Option Name := none
  path : Option Name := none
  destination : Option Name := none
  deriving Repr, DecidableEq

def SimpleRule.holds (r : SimpleRule) (m : Msg) : Bool :=
  (match r.mtype with | some v => m.mtype = v | none => true) &&
  (match r.iface with | some v => m.iface = some v | none => true) &&
  (match r.member with | some v => m.member = some v | none => true) &&
  (match r.path with | some v => m.path = some v | none => true) &&
  (match r.destination with | some v => m.dest = some v | none => true)

/-- The attributes `SimpleRule.holds` compares, under the names `Rule.add` files them (`router.py`). -/
def SimpleRule.evaluatedKeys : List Name :=
  ["_messageType".toList, "interface".toList, "member".toList, "path".toList, "destination".toList]

/-- The repaired code. -/
def repaired : Cfg SimpleRule := { holds := SimpleRule.holds }
/-- The code as it was before the repairs of F21 and F22. -/
def original : Cfg SimpleRule := { holds := SimpleRule.holds, routeUnicast := true, recordRuleId := false }

end Txdbus.BusRoute
