/-!
The alphabet shared by the code model (`Bus/Names`) and the specification (`Bus/SpecNames`) of
the bus name table (property C13): connections, names, and the operations of a history.
Core Lean only.
-/
namespace Txdbus.Bus

/-- A connection, identified by the number `k` of its unique name `":1.k"`. -/
abbrev Conn := Nat

/-- A well-known bus name (abstract; any number of them). -/
abbrev Name := Nat

/-- One step of a history. -/
inductive Op where
  | connect                                     -- a new connection sends its first message
  | disconnect (c : Conn)                       -- connection c is lost
  | request (c : Conn) (n : Name) (flags : Nat) -- RequestName(n, flags) sent by c (any 32-bit flag word)
  | release (c : Conn) (n : Name)               -- ReleaseName(n) sent by c
  | getOwner (c : Conn) (n : Name)              -- GetNameOwner(n) sent by c
  | listQueued (c : Conn) (n : Name)            -- ListQueuedOwners(n) sent by c
  | other (c : Conn)                            -- any other traffic of c through the bus (AddMatch, RemoveMatch,
                                                -- GetId, a message routed to a peer): must not touch the name table
  deriving DecidableEq, Repr

end Txdbus.Bus
