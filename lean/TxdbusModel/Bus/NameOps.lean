/-!
The alphabet shared by the code model (`Bus/Names`) and the specification (`Bus/SpecNames`) of
the bus name table (property C13): connections, names, and the operations of a history.
Core Lean only.
-/
namespace Txdbus.Bus

/-- A connection, identified by the number `k` of its unique name `":1.k"`. -/
abbrev Conn := Nat

/-- A well-known bus name (abstract; any number of them).  As a REQUESTED name it may be any valid
well-known name - the built-in bus even grants `org.freedesktop.DBus` itself (observed, not flagged:
DESIGN section 13) and `GetNameOwner` then names the requester.  As the DESTINATION of a message that
one string never reaches the lookup (`Bus.messageReceived` answers such messages itself): a message
addressed to it is `HStep.sendBus`, never `HStep.send _ (.wellKnown n)`. -/
abbrev Name := Nat

/-- One step of a history. -/
inductive Op where
  | connect                                     -- a new connection sends its first message
  | disconnect (c : Conn)                       -- connection c is lost
  | request (c : Conn) (n : Name) (flags : Nat) -- RequestName(n, flags) sent by c (any 32-bit flag word)
  | release (c : Conn) (n : Name)               -- ReleaseName(n) sent by c
  | getOwner (c : Conn) (n : Name)              -- GetNameOwner(n) sent by c
  | listQueued (c : Conn) (n : Name)            -- ListQueuedOwners(n) sent by c
  | other (c : Conn)                            -- any other traffic of c through the bus (AddMatch, RemoveMatch,
                                                -- GetId, a message routed to a peer): must not touch the name table
  deriving DecidableEq, Repr

/-- A destination name as the bus reads it in `msg.destination` / the argument of GetNameOwner
(set and non-empty).  For `msg.destination` the string `org.freedesktop.DBus` is excluded - see
`HStep.sendBus` - also when a connection has requested (and been granted) that name; the empty
destination is a broadcast (C14).  For GetNameOwner every non-empty name is a `Dest`. -/
inductive Dest where
  | unique (k : Conn)      -- the string ":1.k" exactly as `':1.%d' % k` writes it
  | foreign                -- any other string that starts with ':' (":1.01", ":2.1", ":1.1a"): never handed out
  | wellKnown (n : Name)   -- a string that does not start with ':'
  deriving DecidableEq, Repr

/-- One step of a history in which the name operations are interleaved with what the ROUTER does
with the table (extension 2026-09-30, seam with property C14). -/
inductive HStep where
  | op (o : Op)                  -- a name operation / connect / disconnect / other traffic
  | send (c : Conn) (d : Dest)   -- c sends a message addressed to d (not to the bus): `Bus.sendMessage` resolves d
  | ask (c : Conn) (d : Dest)    -- GetNameOwner(d) sent by c, for ANY name (unique names included)
  | sendBus (c : Conn)           -- c sends a message whose destination is `org.freedesktop.DBus`: answered by the bus,
                                 -- `Bus.messageReceived` does not call `sendMessage` for it - whoever was granted that name
  deriving DecidableEq, Repr

end Txdbus.Bus
