import TxdbusModel.Bus.NameOps
/-!
# Specification of the bus name table (property C13)

Written from the statement of property C13 and from the sections *org.freedesktop.DBus.RequestName*
and *org.freedesktop.DBus.ReleaseName* of the DBus specification.  It never looks at txdbus.

Every well-known name has a queue of entries (connection + the allow-replacement setting of the
connection's latest RequestName); the head of the queue is the owner.

RequestName(c, n, flags), in the words of the specification:
* the name has no owner: c becomes the owner                                   -> PRIMARY_OWNER (1)
* c is the owner: its settings are updated, nothing else happens              -> ALREADY_OWNER (4)
* the owner allowed replacement and the request has REPLACE_EXISTING: c replaces the owner at the
  head of the queue (c's older queue entry, if any, disappears)               -> PRIMARY_OWNER (1)
* otherwise, DO_NOT_QUEUE: c is not (no longer) in the queue                  -> EXISTS (3)
* otherwise: c's entry is updated in place, or c is appended                  -> IN_QUEUE (2)
ReleaseName(c, n): no queue -> NON_EXISTENT (2); c not in the queue -> NOT_OWNER (3); otherwise c
leaves the queue -> RELEASED (1), and if c was the owner the next entry becomes the owner.
A disconnecting connection leaves every queue the same way.
A new owner is sent NameAcquired; an owner that is replaced or releases is sent NameLost.

**Left open** (the property statement says nothing, the DBus specification and the reference
daemon differ from txdbus): what becomes of a *replaced* owner.  The specification moves it to
the second position of the queue unless it had asked not to be queued; txdbus drops it.  `Step`
allows both (`keepOld`).  Also left open: the NameOwnerChanged broadcast (not part of the
events here) and the relative order of the NameAcquired signals of one disconnect.

Core Lean only.
-/
namespace Txdbus.Bus.Spec

/-! ## Constants of the DBus specification -/

def flagAllowReplacement : Nat := 1   -- DBUS_NAME_FLAG_ALLOW_REPLACEMENT 0x1
def flagReplaceExisting : Nat := 2    -- DBUS_NAME_FLAG_REPLACE_EXISTING  0x2
def flagDoNotQueue : Nat := 4         -- DBUS_NAME_FLAG_DO_NOT_QUEUE      0x4

/-- Replies of RequestName. -/
inductive ReqReply where
  | primaryOwner | inQueue | exists_ | alreadyOwner
  deriving DecidableEq, Repr

def ReqReply.code : ReqReply → Nat
  | .primaryOwner => 1   -- DBUS_REQUEST_NAME_REPLY_PRIMARY_OWNER
  | .inQueue => 2        -- DBUS_REQUEST_NAME_REPLY_IN_QUEUE
  | .exists_ => 3        -- DBUS_REQUEST_NAME_REPLY_EXISTS
  | .alreadyOwner => 4   -- DBUS_REQUEST_NAME_REPLY_ALREADY_OWNER

/-- Replies of ReleaseName. -/
inductive RelReply where
  | released | nonExistent | notOwner
  deriving DecidableEq, Repr

def RelReply.code : RelReply → Nat
  | .released => 1       -- DBUS_RELEASE_NAME_REPLY_RELEASED
  | .nonExistent => 2    -- DBUS_RELEASE_NAME_REPLY_NON_EXISTENT
  | .notOwner => 3       -- DBUS_RELEASE_NAME_REPLY_NOT_OWNER

/-- The settings carried by a RequestName flag word. -/
structure Flags where
  allow : Bool
  replace : Bool
  dnq : Bool
  deriving DecidableEq, Repr

def Flags.ofWord (w : Nat) : Flags :=
  { allow := (w &&& flagAllowReplacement) != 0
    replace := (w &&& flagReplaceExisting) != 0
    dnq := (w &&& flagDoNotQueue) != 0 }

/-! ## One queue -/

structure Entry where
  conn : Conn
  allow : Bool
  deriving DecidableEq, Repr

/-- The queue without the entries of connection `c`. -/
def without (q : List Entry) (c : Conn) : List Entry := q.filter (fun e => decide (e.conn ≠ c))

def inQueue (q : List Entry) (c : Conn) : Bool := q.any (fun e => decide (e.conn = c))

/-- What a client is told about a name. -/
inductive Told where
  | acquired (to : Conn)
  | lost (to : Conn)
  deriving DecidableEq, Repr

/-- RequestName on one queue: new queue, reply, signals.  `keepOld`: a replaced owner stays
queued directly behind the new owner (left open, see the header). -/
def request (q : List Entry) (c : Conn) (fl : Flags) (keepOld : Bool) :
    List Entry × ReqReply × List Told :=
  match q with
  | [] => ([⟨c, fl.allow⟩], .primaryOwner, [.acquired c])
  | o :: rest =>
    if o.conn = c then (⟨c, fl.allow⟩ :: rest, .alreadyOwner, [])
    else if fl.replace && o.allow then
      (⟨c, fl.allow⟩ :: ((if keepOld then [o] else []) ++ without rest c), .primaryOwner,
       [.lost o.conn, .acquired c])
    else if fl.dnq then (o :: without rest c, .exists_, [])
    else if inQueue rest c then
      (o :: rest.map (fun e => if e.conn = c then ⟨c, fl.allow⟩ else e), .inQueue, [])
    else (o :: (rest ++ [⟨c, fl.allow⟩]), .inQueue, [])

/-- The NameAcquired a queue's next entry gets when the owner `c` goes away. -/
def handover (q : List Entry) (c : Conn) : List Told :=
  match q with
  | o :: next :: _ => if o.conn = c then [.acquired next.conn] else []
  | _ => []

/-- ReleaseName on one queue. -/
def release (q : List Entry) (c : Conn) : List Entry × RelReply × List Told :=
  match q with
  | [] => ([], .nonExistent, [])
  | o :: rest =>
    if o.conn = c then (rest, .released, .lost c :: handover q c)
    else if inQueue rest c then (o :: without rest c, .released, [])
    else (q, .notOwner, [])

/-! ## The whole table -/

structure State where
  connected : Conn → Bool
  queue : Name → List Entry

def State.init : State := { connected := fun _ => false, queue := fun _ => [] }

def upd {α : Type} (f : Nat → α) (k : Nat) (v : α) : Nat → α := fun x => if x = k then v else f x

/-- What the bus sends (NameOwnerChanged is not constrained, see the header). -/
inductive Ev where
  | nameAcquired (to : Conn) (n : Name)
  | nameLost (to : Conn) (n : Name)
  | reply (to : Conn) (code : Nat)
  | replyOwner (to : Conn) (owner : Conn)
  | replyQueue (to : Conn) (q : List Conn)
  | replyNoOwner (to : Conn)
  deriving DecidableEq, Repr

def Told.ev (n : Name) : Told → Ev
  | .acquired t => .nameAcquired t n
  | .lost t => .nameLost t n

/-- The name a signal is about. -/
def Ev.name? : Ev → Option Name
  | .nameAcquired _ n => some n
  | .nameLost _ n => some n
  | _ => none

def ownerAnswer (q : List Entry) (c : Conn) : Ev :=
  match q with
  | [] => .replyNoOwner c                    -- org.freedesktop.DBus.Error.NameHasNoOwner
  | o :: _ => .replyOwner c o.conn

def queueAnswer (q : List Entry) (c : Conn) : Ev :=
  match q with
  | [] => .replyNoOwner c
  | _ :: _ => .replyQueue c (q.map Entry.conn)

/-- The allowed steps: from `σ`, operation `op` may send `evs` and lead to `σ'`. -/
def Step (σ : State) (op : Op) (evs : List Ev) (σ' : State) : Prop :=
  match op with
  | .connect =>
    ∃ c, σ.connected c = false ∧ σ'.connected = upd σ.connected c true ∧ σ'.queue = σ.queue ∧ evs = []
  | .request c n w =>
    σ.connected c = true ∧ ∃ keepOld : Bool,
      σ'.connected = σ.connected ∧
      σ'.queue = upd σ.queue n (request (σ.queue n) c (Flags.ofWord w) keepOld).1 ∧
      evs = (request (σ.queue n) c (Flags.ofWord w) keepOld).2.2.map (Told.ev n)
            ++ [.reply c (request (σ.queue n) c (Flags.ofWord w) keepOld).2.1.code]
  | .release c n =>
    σ.connected c = true ∧
      σ'.connected = σ.connected ∧
      σ'.queue = upd σ.queue n (release (σ.queue n) c).1 ∧
      evs = (release (σ.queue n) c).2.2.map (Told.ev n) ++ [.reply c (release (σ.queue n) c).2.1.code]
  | .disconnect c =>
    σ.connected c = true ∧
      σ'.connected = upd σ.connected c false ∧
      (∀ n, σ'.queue n = without (σ.queue n) c) ∧
      (∀ e ∈ evs, ∃ t n, e = .nameAcquired t n) ∧
      (∀ n, evs.filter (fun e => decide (e.name? = some n)) = (handover (σ.queue n) c).map (Told.ev n))
  | .getOwner c n => σ' = σ ∧ evs = [ownerAnswer (σ.queue n) c]
  | .listQueued c n => σ' = σ ∧ evs = [queueAnswer (σ.queue n) c]
  | .other _ => σ' = σ ∧ evs = []        -- nothing else changes the table or sends name signals

/-- A whole history: the steps one after the other, the events of each step kept apart. -/
inductive Run : State → List Op → List (List Ev) → State → Prop where
  | nil (σ : State) : Run σ [] [] σ
  | cons {σ σ1 σ2 : State} {op : Op} {ops : List Op} {evs : List Ev} {evss : List (List Ev)} :
      Step σ op evs σ1 → Run σ1 ops evss σ2 → Run σ (op :: ops) (evs :: evss) σ2

/-! ## Who owns a destination name; histories with lookups (extension 2026-09-30)

From the statements of C13 and C14 ("delivers each addressed message ... to the connection owning the
destination name at that moment"): a unique connection name is owned by the connection it was given
to for as long as that connection is connected (unique names are never reused); a well-known name is
owned by the head of its queue; a name nobody was given and nobody requested has no owner. -/
def State.ownerOf (σ : State) : Dest → Option Conn
  | .unique k => if σ.connected k then some k else none
  | .foreign => none
  | .wellKnown n => ((σ.queue n).head?).map Entry.conn

/-- What one step of a history with lookups shows. -/
inductive HEv where
  | events (evs : List Ev)
  | delivered (to : Option Conn)     -- the receiver of an addressed message; none: nobody
  deriving DecidableEq, Repr

/-- GetNameOwner of any name. -/
def ownerOfAnswer (σ : State) (c : Conn) (d : Dest) : Ev :=
  match σ.ownerOf d with
  | some o => .replyOwner c o
  | none => .replyNoOwner c          -- org.freedesktop.DBus.Error.NameHasNoOwner

/-- The allowed steps of a history with lookups: a name operation is a `Step`; an addressed message is
received by the owner of its destination AT THAT MOMENT and by nobody else, and changes nothing;
GetNameOwner names that owner.  A message addressed to the bus itself is forwarded to nobody, whoever
holds the name `org.freedesktop.DBus` in the table. -/
def StepL (σ : State) (h : HStep) (o : HEv) (σ' : State) : Prop :=
  match h, o with
  | .op op, .events evs => Step σ op evs σ'
  | .send _ d, .delivered to => σ' = σ ∧ to = σ.ownerOf d
  | .sendBus _, .delivered to => σ' = σ ∧ to = none     -- C14: "answered by the bus and not forwarded"
  | .ask c d, .events evs => σ' = σ ∧ evs = [ownerOfAnswer σ c d]
  | _, _ => False

inductive RunL : State → List HStep → List HEv → State → Prop where
  | nil (σ : State) : RunL σ [] [] σ
  | cons {σ σ1 σ2 : State} {h : HStep} {hs : List HStep} {o : HEv} {os : List HEv} :
      StepL σ h o σ1 → RunL σ1 hs os σ2 → RunL σ (h :: hs) (o :: os) σ2

/-! ## An executable instance

`exec names fresh σ op`: the step that drops a replaced owner (`keepOld = false`), names a new
connection `fresh`, and on a disconnect sends the NameAcquired signals in the order of `names`
(which must list every name with a non-empty queue once).  `none`: the operation is not
possible (caller not connected).  Used by the driver; `exec_sound` (Proofs) shows it is a `Step`. -/
def exec (names : List Name) (fresh : Conn) (σ : State) (op : Op) : Option (State × List Ev) :=
  match op with
  | .connect =>
    if σ.connected fresh then none
    else some ({ σ with connected := upd σ.connected fresh true }, [])
  | .request c n w =>
    if σ.connected c then
      let r := request (σ.queue n) c (Flags.ofWord w) false
      some ({ σ with queue := upd σ.queue n r.1 }, r.2.2.map (Told.ev n) ++ [.reply c r.2.1.code])
    else none
  | .release c n =>
    if σ.connected c then
      let r := release (σ.queue n) c
      some ({ σ with queue := upd σ.queue n r.1 }, r.2.2.map (Told.ev n) ++ [.reply c r.2.1.code])
    else none
  | .disconnect c =>
    if σ.connected c then
      some ({ connected := upd σ.connected c false, queue := fun n => without (σ.queue n) c },
            names.flatMap (fun n => (handover (σ.queue n) c).map (Told.ev n)))
    else none
  | .getOwner c n => some (σ, [ownerAnswer (σ.queue n) c])
  | .listQueued c n => some (σ, [queueAnswer (σ.queue n) c])
  | .other _ => some (σ, [])

end Txdbus.Bus.Spec
