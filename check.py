#!/venv/bin/python
"""Decide one property: /venv/bin/python check.py C18 --tier quick|thorough [--replay FILE]

exit 0  the property held on everything explored and every proof obligation checks
exit 1  VIOLATION property=<id> replay=<path> [no-failing-input-found]
exit 2  infrastructure failure (time-out, crash of the machinery itself)
"""
import argparse
import os
import sys
import traceback

HERE = os.path.dirname(os.path.abspath(__file__))
sys.path.insert(0, HERE)
os.chdir(HERE)


def main():
    ap = argparse.ArgumentParser()
    ap.add_argument('prop')
    ap.add_argument('--tier', default=os.environ.get('VERIF_TIER', 'quick'), choices=['quick', 'thorough'])
    ap.add_argument('--replay')
    ap.add_argument('--repo', default=os.environ.get('TXDBUS_REPO', '/repo'))
    ap.add_argument('--budget', type=float, default=None, help='soft time budget for the harness, seconds')
    a = ap.parse_args()
    try:
        seed = int(os.environ.get('VERIF_SEED', '0'))
    except ValueError:
        seed = 0
    os.environ.setdefault('TXDBUS_VERIF', '1')
    from vlib import pipeline
    try:
        rc = pipeline.run_check(a.prop, a.tier, seed, a.repo, replay=a.replay, budget_s=a.budget)
    except Exception:
        traceback.print_exc()
        print('INFRASTRUCTURE-FAILURE property=%s' % a.prop)
        return 2
    return rc


if __name__ == '__main__':
    sys.exit(main())
