"""C11 - a call through a proxy reaches the remote method and returns what it returned.

Correspondence + oracle harness.  The real `Bus` and 2-4 real `DBusClientConnection`s on an in-memory
network (harness/net.py) whose scheduler is this harness: it decides which application action happens
next and which link delivers how many bytes next.  Exported classes are built with type() from random
interface declarations; proxies are obtained both ways (explicit DBusInterface objects, introspection).

Every run is turned into the message-level schedule it induced (one `toBus i` / `toClient i` per message a
peer completed, whatever the byte splitting was) and fed to the Lean model (lean/Driver/C11.lean); the
model's per-step effects (message moved, invocation, reply sent, completion) are compared with what the
implementation did (S3).  The oracle (S4) looks at the implementation alone: each proxy call completed
exactly once; its method ran exactly once on the exporter with equal arguments; the completion equals what
the method returned (after the documented normalisation) or is a RemoteError mirroring what it raised.
"""
import json
import math
import random
import struct
import time

from . import valcodec
from .net import Net, BUS

STREAMS = ['net-exhaustive', 'net-random', 'net-revisions', 'net-deadlines', 'net-spy', 'net-corpus', 'bytes-net', 'net-sameproxy', 'net-shared']
THEOREMS = ['link_refinement', 'link_refinement_framing_laws', 'link_refinement_txdbus_framing',
            'call_stage_invariant', 'call_in_exactly_one_stage', 'queues_hold_only_issued_calls',
            'C11_end_to_end', 'quiescence_reachable', 'C11_completion_always_reachable',
            'agreeing_proxy_accepted', 'issued_from_call_steps', 'result_from_step',
            'timedOut_from_expire_step', 'C11_call_selected_interface_agrees', 'C11_call_through_agreeing_proxy',
            'C11_call_through_introspected_proxy', 'bytes_run_simulated', 'C11_bytes_any_delivery_order_partial',
            'bytes_nothing_stuck_in_a_receiver', 'bytes_quiescence_reachable_in_domain', 'bytes_quiescence_reachable_in_class_in_domain',
            'C11_bytes_completion_always_reachable_partial', 'bytes_run_from_handshake_reduces_partial',
            'C11_bytes_from_handshake_partial', 'C11_wire_codec_laws_c03', 'C11_bytes_any_delivery_order_c03_partial',
            'exM0_ok', 'getRemoteObject_introspects_iff_unknown_name',
            'getRemoteObject_built_lists_every_requested', 'getRemoteObject_built_agrees',
            'C11_returns_what_it_returned', 'prefix_model_violates']
TRUSTED_BASE = [
    'the introspection theorem\'s glue that no C11 stream exercises: `introspectedProxy`, ifaceOfIntro / methodOfIntro '
    'and the link hypothesis `ho` (Proofs/Net/Introspected.lean) - generate / getInterfaces are tied by C15\'s streams',
    'c03Codec / c03Frame / byteRep (Net/CodecC03.lean) are run by no C11 stream: their parts (construct, parseMessage, '
    'forward) are C03\'s model, tied by C03\'s streams',
    'bytes-net ties `bstep` (C04 framing on the real bytes with the real cuts: messages per read, bytes left), the order and '
    'effects of the handlers per read, forward/drop of the bus, final logs and Quiescent, and the CONTENT of every message '
    'each real peer writes (as the real parser reads it, at the granularity of the model\'s message text) - NOT a codec: the '
    'table codec maps message text to the bytes the real peer wrote, so Laws.roundtrip holds by construction, any '
    'self-consistent change of _marshal + parseMessage, byte order, flags (noreply, autostart), unix_fds are invisible '
    '(C03\'s), and the table is rebuilt every step (no single C of the theorems describes a driver run); `drain`/`pick` are '
    'compared with a Python re-implementation of `pick` performed on the real network (the real code contributes that '
    'the network ends quiet with equal logs under that schedule); authentication and Hello happen before `breset` AND '
    'before `hreset` (the hs half is model against model + the recorded BEGIN line); no big-endian peers, no relay',
    'harness/net.py: in-memory byte pipes + per-peer DBusMessage._nextSerial swapping (one counter per process)',
    'message-level schedule induced from rawDBusMessageReceived/sendMessage instrumentation of each peer',
    'wire codec, framing, authentication, validators, introspection XML: not re-modelled (C01-C04, C06, C07, C15, '
    'C18); they enter the model as World parameters whose values the harness takes from the real code',
]
ASSUMPTIONS_OLD = None
ASSUMPTIONS = [
    'byte-level theorems: the codec enters through WireCodec.Laws on a domain that must contain everything the run (and, '
    'for progress, the draining schedule) serialises; from BNet.initH the first read of a link takes its whole '
    'remaining handshake (HSRun); Hello and messages to the bus itself are outside the model',
    'link assumption (link_refinement): C04 binary_partition_independent + frames_of_messages, C03 parse_marshal',
    'values are compared up to the wire normalisation: tuples read back as lists, wrapper classes as plain '
    'int/str, bytearray as a list of ints; a single struct return is read back as a one-element list holding the '
    'struct (upstream-tested convention of _cbCvtReply)',
    'all clients are txdbus clients (nobody forges replies); calls expect a reply; no disconnects (deadlines of '
    '`timeout=` calls are modelled: step `expire`)',
    'exception texts and names are valid DBus strings (F29 is the boundary, owned by C10)',
]
RULE = ('a case = one scenario (clients, exported declarations, calls, behaviours) under one schedule; distinct = '
        'distinct (scenario, induced message-level schedule); non-trivial = at least one call was delivered to an '
        'exporter')

SIG_POOL = ['', 's', 'i', 'ss', 'as', 'a{sv}', '(is)', 'v', 'x', 't', 'ay', 'b', 'd', 'o', 'g', 'a(is)', 'av',
            'u', 'y', 'n', 'q', 'aas', 'a{ss}', 'a{is}', 'si', 'isv', 'vv', '(i(ss))', 'a{s(iv)}', 'sas']
SMALL_SIGS = ['', 's', 'i', 'ss', 'as', '(is)', 'v']

BEHAVIOURS = ['value', 'value', 'value', 'defer-value', 'defer-raise', 'raise-plain', 'raise-named',
              'raise-badname', 'bad-return', 'fired-deferred', 'raise-nulname']

INTROSPECTABLE = 'org.freedesktop.DBus.Introspectable'


# ============================================================================ values
def _marshal():
    from txdbus import marshal
    return marshal


def complete_types(sig):
    return list(_marshal().genCompleteTypes(sig)) if sig else []


_INTS = {'y': (0, 255), 'n': (-2**15, 2**15 - 1), 'q': (0, 2**16 - 1), 'i': (-2**31, 2**31 - 1),
         'u': (0, 2**32 - 1), 'x': (-2**63, 2**63 - 1), 't': (0, 2**64 - 1)}
_WRAP = {'y': 'Byte', 'n': 'Int16', 'q': 'UInt16', 'i': 'Int32', 'u': 'UInt32', 'x': 'Int64', 't': 'UInt64'}
_STRS = ['', 'a', 'hello', 'x y', 'é中\U0001f600', 'a' * 40, 'tab\there', 'q"<&>\'', '\r\n', 'l\\']


def gen_int(rng, code):
    lo, hi = _INTS[code]
    c = rng.random()
    if c < 0.35:
        return rng.choice([lo, hi, 0 if lo <= 0 else lo, min(hi, 1), max(lo, -1), hi - 1, lo + 1])
    if c < 0.7:
        return rng.randint(max(lo, -100), min(hi, 100))
    return rng.randint(lo, hi)


def gen_type(rng, t, depth=0):
    """A Python value that encodes under the single complete type `t` (plain values, sometimes tuples,
    bytearrays and wrapper classes: everything the documentation allows a caller to pass)."""
    m = _marshal()
    c = t[0]
    if c in _INTS:
        v = gen_int(rng, c)
        if rng.random() < 0.2:
            return getattr(m, _WRAP[c])(v)
        return v
    if c == 'b':
        return rng.random() < 0.5
    if c == 'd':
        return rng.choice([0.0, -0.0, 1.5, -2.25, 1e300, 5e-324, float('inf'), float('-inf'), float('nan'),
                           rng.uniform(-1e6, 1e6)])
    if c == 's':
        if rng.random() < 0.01:
            return 'long-' + 'xyz' * rng.choice([200, 700])      # spans many small reads
        return rng.choice(_STRS)
    if c == 'o':
        v = rng.choice(['/', '/a', '/a/b', '/org/x_1/Y'])
        return m.ObjectPath(v) if rng.random() < 0.3 else v
    if c == 'g':
        v = rng.choice(['', 'i', 'a{sv}', '(is)as'])
        return m.Signature(v) if rng.random() < 0.3 else v
    if c == 'v':
        return gen_variant(rng, depth)
    if c == 'a':
        if t[1] == '{':
            kt, vt = complete_types(t[2:-1])
            d = {}
            for _ in range(rng.choice([0, 1, 2, 3]) if depth < 3 else 0):
                d[_hashable(gen_type(rng, kt, depth + 1))] = gen_type(rng, vt, depth + 1)
            return d
        et = t[1:]
        n = rng.choice([0, 1, 2, 3]) if depth < 3 else 0
        if et == 'y' and rng.random() < 0.5:
            return bytearray(rng.randint(0, 255) for _ in range(n))
        return [gen_type(rng, et, depth + 1) for _ in range(n)]
    if c == '(':
        fs = [gen_type(rng, ft, depth + 1) for ft in complete_types(t[1:-1])]
        return tuple(fs) if rng.random() < 0.6 else fs
    raise ValueError('type %r outside the generator' % (t,))


def _hashable(v):
    return v if not isinstance(v, float) or not math.isnan(v) else 0.5


_VARIANT_INNER = ['i', 's', 'b', 'd', 'x', 't', 'as', 'ai', '(is)', '(ix)', '(ib)', 'a{ss}', 'a{sv}', 'ay', 'o', 'g',
                  'ax', 'au', '(s(ii))', 'a(ix)', 'y', 'q', '(xi)', 'aas', 'av']


def gen_variant(rng, depth=0):
    """A value whose inferred variant type encodes at the SENDER (sigFromPy on the value as passed)."""
    m = _marshal()
    for _ in range(20):
        inner = rng.choice(_VARIANT_INNER if depth < 2 else ['i', 's', 'b', 'x'])
        v = gen_type(rng, inner, depth + 1)
        try:
            m.marshal('v', [v])
            return v
        except Exception:
            continue
    return 7


def gen_body(rng, sig):
    return [gen_type(rng, t) for t in complete_types(sig)]


def wire_norm(v):
    """What `unmarshal(marshal(v))` hands to the receiver (the documented normalisation)."""
    if isinstance(v, bool) or v is None:
        return v
    if isinstance(v, int):
        return int(v)
    if isinstance(v, float):
        return float(v)
    if isinstance(v, str):
        return str(v)
    if isinstance(v, (bytearray, bytes)):
        return [int(b) for b in v]
    if isinstance(v, (list, tuple)):
        return [wire_norm(e) for e in v]
    if isinstance(v, dict):
        return {wire_norm(k): wire_norm(e) for k, e in v.items()}
    raise ValueError('value outside the generator: %r' % (v,))


def tok(v):
    """Model token of a value: the valcodec line of its wire-normal form, '_' for ' '."""
    return valcodec.to_line(wire_norm(v)).replace(' ', '_')


def codec_norm(sig, vals):
    """The values a receiver decodes when `vals` are sent under `sig`: computed with the real codec (the
    sender's variant type inference is part of it: [1, True] in a variant travels as 'ai' = [1, 1]).  The
    codec is not C11's subject (C01/C02/C19); the model takes this normal form as its value type.
    Falls back to `wire_norm` when the values do not encode (the model is then told so by `unenc`)."""
    m = _marshal()
    if not sig:
        return []
    try:
        raw = b''.join(m.marshal(sig, list(vals))[1])
        return list(m.unmarshal(sig, raw)[1])
    except Exception:
        return [wire_norm(v) for v in vals]


def toks_under(sig, vals):
    vals = list(vals)
    if sig and len(complete_types(sig)) == len(vals):
        return [tok(v) for v in codec_norm(sig, vals)]
    return [tok(v) if _tokable(v) else 'X' for v in vals]


def _tokable(a):
    try:
        tok(a)
        return True
    except Exception:
        return False


def list_tok(toks):
    return '_'.join(['L', '%d' % len(toks)] + list(toks))


def py_equal(a, b):
    """Python equality, except that NaN equals NaN and lists/dicts are compared element-wise with it."""
    if isinstance(a, float) and isinstance(b, float):
        if math.isnan(a) or math.isnan(b):
            return math.isnan(a) and math.isnan(b)
        return a == b and math.copysign(1, a) == math.copysign(1, b)
    if isinstance(a, list) and isinstance(b, list):
        return len(a) == len(b) and all(py_equal(x, y) for x, y in zip(a, b))
    if isinstance(a, dict) and isinstance(b, dict):
        # DBus dicts are unordered: compare as mappings
        if len(a) != len(b):
            return False
        for k, v in a.items():
            hit = [k2 for k2 in b if py_equal(k, k2)]
            if len(hit) != 1 or not py_equal(v, b[hit[0]]):
                return False
        return True
    if isinstance(a, (list, dict)) or isinstance(b, (list, dict)):
        return False
    if (a is None) != (b is None):
        return False
    return a == b


def hs(s):
    return valcodec.str_hex(s)


def ho(s):
    return '~' if s is None else hs(s)


PROPERTIES = 'org.freedesktop.DBus.Properties'      # registered at import: known by NAME in every process
PEER = 'org.freedesktop.DBus.Peer'                  # implemented by every exported object, known to nobody at start


def gen_ifarg(rng, spec, iface_name):
    """The `interfaces=` argument of getRemoteObject in one of its documented forms (None is the 'introspect' kind of
    call): one name, one DBusInterface, or a list mixing names the caller's process knows (declared locally first, or
    org.freedesktop.DBus.Properties), names it does not know (found by introspection) and DBusInterface instances, in
    any order.  Every requested interface is one the remote object really implements; `iface_name` (the interface of
    the method to be called) is always among them."""
    kind = rng.choice(['name', 'name', 'inst'])
    form = rng.choice(['one', 'many', 'many', 'many'])
    items = [[kind, iface_name]]
    if form == 'many':
        pool = [['name' if rng.random() < 0.6 else 'inst', i['name']] for i in spec['ifaces'] if i['name'] != iface_name]
        pool += [['name', PROPERTIES], ['name', PEER]]
        rng.shuffle(pool)
        items += pool[:rng.choice([0, 1, 1, 2, 3])]
        if rng.random() < 0.5 and ['name', PROPERTIES] not in items:
            items.append(['name', PROPERTIES])       # a name every process knows next to whatever else is asked for
        rng.shuffle(items)
    user = {i['name'] for i in spec['ifaces']}
    declare = sorted(nm for k_, nm in items if k_ == 'name' and nm in user and rng.random() < 0.5)
    return {'form': form, 'items': items, 'declare': declare}


# ============================================================================ scenarios
def gen_scenario(rng, small=False):
    n = 2 if small else rng.choice([2, 2, 3, 3, 4])
    sigs = SMALL_SIGS if small else SIG_POOL
    n_exp = 1 if small else rng.choice([1, 1, 2])
    exports = []
    uid = 0
    for e in range(n_exp):
        client = rng.randrange(n)
        path = rng.choice(['/o', '/a/b', '/x/y/z']) + ('%d' % e)
        ifaces = []
        for k in range(1 if small else rng.choice([1, 1, 2])):
            methods = []
            for q in range(rng.choice([1, 2]) if small else rng.choice([1, 2, 3])):
                methods.append(['m%d' % uid, rng.choice(sigs), rng.choice(sigs), rng.random() < 0.4])
                uid += 1
            if not small and rng.random() < 0.15:
                # a USER method named like a member of a standard interface (Peer.Ping, Introspectable.Introspect,
                # ObjectManager.GetManagedObjects): through a proxy - explicit or introspected, with or without
                # `interface=` - it is the user's method that must run, not the handler's built-in answer
                nm = rng.choice(['Ping', 'Introspect', 'GetManagedObjects'])
                if not any(m[0] == nm for i2 in ifaces for m in i2['methods']):
                    methods.append([nm, rng.choice(sigs), rng.choice(sigs), False])
            ifaces.append({'name': 'org.t.I%d_%d' % (e, k), 'methods': methods})
        if not small and len(ifaces) == 2 and rng.random() < 0.5:
            # the same member name on both interfaces (needs the `interface=` keyword or picks the first)
            ifaces[1]['methods'].append([ifaces[0]['methods'][0][0], rng.choice(sigs), rng.choice(sigs), False])
        spec = {'client': client, 'path': path, 'ifaces': ifaces}
        if not small:
            has_dup = any(_dup_member(spec, m[0]) for i in ifaces for m in i['methods'])
            r = rng.random()
            if (has_dup and r < 0.35) or (len(ifaces) >= 2 and r < 0.15):
                # a class HIERARCHY (2-3 levels): every interface is declared (dbusInterfaces) and implemented in the
                # class of its level; interface k+1 never sits above interface k, so getInterfaces() keeps this order.
                # Shared member names are bound with @dbusMethod in the class of their interface ('hier'), or the
                # deepest one as a plain dbus_<m> ('hier-mixed': it then serves the others too - documented order).
                depth = rng.choice([2, 3])
                spec['layout'] = 'hier' if rng.random() < 0.75 else 'hier-mixed'
                spec['levels'] = sorted(rng.randrange(depth) for _ in ifaces)
                if len(set(spec['levels'])) == 1:
                    spec['levels'][-1] = min(depth - 1, spec['levels'][-1] + 1)
                spec['depth'] = depth
            elif any(len(i2['methods']) >= 2 for i2 in ifaces) and r < 0.45:
                # every member bound with @dbusMethod, the members of ONE interface spread over a class and its base
                # (the called method may live only in the base while the derived class declares another member)
                spec['layout'] = 'split'
                spec['split_decl'] = rng.choice([0, 1])      # the class level that declares dbusInterfaces
            elif has_dup and r < 0.5:
                spec['layout'] = 'decodbus'       # dbus_<m> itself DECORATED for the first interface, impl_ for the second
            elif has_dup and r < 0.7:
                spec['layout'] = 'mixed'          # plain dbus_<m> for the first interface, decorated for the second
            elif r < 0.3:
                spec['layout'] = 'inherit'        # functions spread over base class and sub-class, one overridden
                spec['split'] = [rng.random() < 0.5 for _ in range(4)]
                spec['override'] = rng.randrange(6) if rng.random() < 0.6 else None
            if rng.random() < 0.35:
                spec['wkname'] = 'org.t.Svc%d' % e
        exports.append(spec)
    calls = []
    for k in range(rng.choice([1, 2]) if small else rng.choice([1, 2, 2, 3, 3])):
        ex = rng.randrange(len(exports))
        spec = exports[ex]
        iface = rng.choice(spec['ifaces'])
        meth = rng.choice(iface['methods'])
        std = [(i2, m) for i2 in spec['ifaces'] for m in i2['methods'] if m[0] in ('Ping', 'Introspect', 'GetManagedObjects')]
        if std and rng.random() < 0.6:
            iface, meth = rng.choice(std)
        replace = (not small) and rng.random() < 0.3        # replaceKnownInterfaces=True for introspecting proxies
        how = rng.choice(['explicit', 'introspect'] if small else ['explicit', 'explicit', 'introspect', 'introspect', 'byname', 'byname'])
        wrong = None
        r = rng.random()
        if not small and how == 'explicit' and r < 0.12:
            wrong = rng.choice(['sig', 'member', 'path', 'nargs', 'retsig'])
        # an explicit proxy may list the interfaces in its own order
        order = 'rev' if (how == 'explicit' and not small and rng.random() < 0.3) else 'decl'
        kw = iface['name'] if rng.random() < (0.5 if _dup_member(spec, meth[0]) else 0.3) else None
        # the method the proxy rule selects: the first listed interface (named by `interface=`) having it
        listed = list(reversed(spec['ifaces'])) if order == 'rev' else spec['ifaces']
        for i2 in listed:
            if kw is not None and i2['name'] != kw:
                continue
            hit = [m for m in i2['methods'] if m[0] == meth[0]]
            if hit:
                iface, meth = i2, hit[0]
                break
        args = gen_body(rng, meth[1])
        bad_args = False
        if not small and rng.random() < 0.04 and meth[1] in ('i', 's', 'x'):
            args = [[1, 2]]
            bad_args = True
        call = {'caller': rng.randrange(n), 'export': ex, 'iface': iface['name'], 'member': meth[0],
                'how': how, 'wrong': wrong, 'kw': kw, 'bad_args': bad_args, 'order': order, 'replace': replace,
                'args': [valcodec.to_line(a) for a in args]}
        if how == 'byname' and rng.random() < 0.8:
            # every documented form of `interfaces=`; a member that two interfaces share is told apart by `interface=`
            # (the listing order of the proxy depends on whether it was built locally or by introspection)
            call['ifarg'] = gen_ifarg(rng, spec, iface['name'])
            if _dup_member(spec, meth[0]):
                call['kw'] = kw = iface['name']
        if not small and how == 'introspect' and rng.random() < 0.10:
            # org.freedesktop.DBus.Properties through the proxy object: served by DBusObject's decorated base-class
            # methods (the commonest proxy call in practice)
            pm = rng.choice(['GetAll', 'GetAll', 'Get', 'Set'])
            target = rng.choice([i2['name'] for i2 in spec['ifaces']] + ['org.t.NoSuchInterface'])
            pargs = {'GetAll': [target], 'Get': [target, 'NoSuchProperty'], 'Set': [target, 'NoSuchProperty', 5]}[pm]
            call.update(iface='org.freedesktop.DBus.Properties', member=pm, bad_args=False,
                        kw=rng.choice([None, 'org.freedesktop.DBus.Properties']),
                        args=[valcodec.to_line(a) for a in pargs])
        elif not small and how == 'introspect' and rng.random() < 0.06:
            # a member the handler answers itself, called through the introspected proxy object (no user method
            # runs: only "completes exactly once" is judged)
            bi, bm = rng.choice([('org.freedesktop.DBus.Peer', 'Ping'),
                                 ('org.freedesktop.DBus.Introspectable', 'Introspect')])
            call.update(iface=bi, member=bm, kw=rng.choice([None, bi]), args=[], bad_args=False, wrong='builtin')
        if not small:
            r = rng.random()
            others = [i2['name'] for i2 in spec['ifaces']
                      if i2['name'] != iface['name'] and not any(m[0] == meth[0] for m in i2['methods'])]
            if wrong is None and not bad_args and r < 0.10:
                # calls the proxy itself must refuse (AttributeError): a member no interface has, an `interface=`
                # that is not listed, or one that is listed but lacks the member
                mode = rng.choice(['nomember', 'unlisted', 'lacking' if others else 'unlisted'])
                call['refuse'] = mode
                if mode == 'unlisted':
                    call['kw'] = 'org.t.NotListed'
                elif mode == 'lacking':
                    call['kw'] = rng.choice(others)
            elif wrong is None and call['kw'] is None and r < 0.16:
                call['kw'] = ''                    # falsy: like no keyword
            if rng.random() < 0.15:
                call['timeout'] = 30
            if spec.get('wkname') and rng.random() < 0.6:
                call['dest_name'] = True
            # a later call may go through the SAME proxy object as an earlier one
            prev = [k0 for k0, c0 in enumerate(calls)
                    if c0['export'] == ex and c0['wrong'] is None and c0['how'] in ('explicit', 'introspect')
                    and c0.get('reuse') is None and c0.get('after') is None]
            if (prev and wrong is None and not call['iface'].startswith('org.freedesktop.DBus')
                    and call['wrong'] is None and rng.random() < 0.4):
                k0 = rng.choice(prev)
                c0 = calls[k0]
                call.update(reuse=k0, after=k0, caller=c0['caller'], how=c0['how'], order=c0['order'],
                            dest_name=c0.get('dest_name', False))
                dups = [(ia, ib, ma, mb) for ia in spec['ifaces'] for ib in spec['ifaces'] if ia is not ib
                        for ma in ia['methods'] for mb in ib['methods'] if ma[0] == mb[0]]
                if dups and not call.get('refuse') and not c0.get('refuse') and not c0['bad_args'] and rng.random() < 0.8:
                    # the same member of two interfaces through ONE proxy object, told apart by `interface=` only
                    ia, ib, ma, mb = rng.choice(dups)
                    c0.update(member=ma[0], kw=ia['name'], iface=ia['name'],
                              args=[valcodec.to_line(a) for a in gen_body(rng, ma[1])])
                    call.update(member=mb[0], kw=ib['name'], iface=ib['name'], bad_args=False,
                                args=[valcodec.to_line(a) for a in gen_body(rng, mb[1])])
                    meth = mb
                # re-select the method under the proxy's listing order
                listed = list(reversed(spec['ifaces'])) if c0['order'] == 'rev' else spec['ifaces']
                if not call.get('refuse'):
                    for i2 in listed:
                        if call['kw'] and i2['name'] != call['kw']:
                            continue
                        hit = [m for m in i2['methods'] if m[0] == meth[0]]
                        if hit:
                            call['iface'] = i2['name']
                            call['args'] = [valcodec.to_line(a) for a in gen_body(rng, hit[0][1])]
                            call['bad_args'] = False
                            break
        calls.append(call)
    plans = []
    for e in exports:
        if small:
            plans.append([rng.choice(['value', 'value', 'defer-value', 'raise-plain', 'raise-named'])
                          for _ in range(3)])
        else:
            plans.append([rng.choice(BEHAVIOURS) for _ in range(4)])
    scn = {'n': n, 'exports': exports, 'calls': calls, 'plans': plans, 'vseed': rng.randrange(10**9)}
    if not small:
        scn['big_endian'] = [c for c in range(n) if rng.random() < 0.2]
    if not small and len(exports) >= 2 and rng.random() < 0.6:
        # methods of export 0 may RELAY: call a method of export 1 through a proxy from inside the invocation and
        # answer only when that nested call has completed (re-entrancy: a call is sent inside the dispatch, the
        # outer reply is sent inside the completion of the nested call)
        ti = rng.choice(exports[1]['ifaces'])
        tm = rng.choice(ti['methods'])
        if not _dup_member(exports[1], tm[0]):
            scn['relay'] = {'export': 1, 'iface': ti['name'], 'member': tm[0],
                            'args': [valcodec.to_line(a) for a in gen_body(rng, tm[1])]}
            plans[0][rng.randrange(len(plans[0]))] = 'relay'
            if rng.random() < 0.5:
                plans[0][rng.randrange(len(plans[0]))] = 'relay'
    return scn


def gen_deadline_scenario(rng):
    """Several calls in flight on ONE connection, at least one with `timeout=`; the exported methods return
    Deferreds that the harness fires whenever the scheduler says - possibly after the clock has passed the
    deadline.  A call whose deadline passed fails with TimeOut once; its late reply must be ignored and must not
    disturb the other calls, which complete with their values."""
    n = rng.choice([2, 2, 3])
    exporter = rng.randrange(n)
    caller = rng.choice([c for c in range(n) if c != exporter] or [exporter])
    methods = [['m%d' % k, rng.choice(SIG_POOL), rng.choice(SIG_POOL), False] for k in range(3)]
    exports = [{'client': exporter, 'path': '/dl', 'ifaces': [{'name': 'org.t.Slow', 'methods': methods}]}]
    calls = []
    for k in range(rng.choice([2, 3])):
        m = rng.choice(methods)
        call = {'caller': caller, 'export': 0, 'iface': 'org.t.Slow', 'member': m[0],
                'how': rng.choice(['explicit', 'introspect']), 'wrong': None, 'kw': None, 'bad_args': False,
                'order': 'decl', 'args': [valcodec.to_line(x) for x in gen_body(rng, m[1])]}
        if k == 0 or rng.random() < 0.4:
            call['timeout'] = 30
        calls.append(call)
    plans = [[rng.choice(['defer-value', 'defer-value', 'defer-raise', 'value']) for _ in range(4)]]
    return {'n': n, 'exports': exports, 'calls': calls, 'plans': plans, 'vseed': rng.randrange(10**9),
            'family': 'deadlines'}


def gen_revision_scenario(rng):
    """Two exporters export revision 1 / revision 2 of ONE interface name.  The caller first introspects the
    revision-1 object (which leaves the parsed revision 1 in the process-wide DBusInterface.knownInterfaces
    cache), then builds an EXPLICIT proxy for the revision-2 object from its own DBusInterface instance
    (made with noRegister=True, or a plain one) and calls methods that differ between the revisions.  An
    explicit declaration must be used as given, whatever the cache holds under that name."""
    n = rng.choice([2, 3, 3])
    name = 'org.t.Rev'
    pool = [x for x in SIG_POOL if x]
    so1, so2 = rng.sample(pool, 2)
    si = rng.choice(SIG_POOL)
    g_in = rng.choice(['s', 'i', 'as'])
    rev1 = [['common', si, so1, False], ['only1', rng.choice(SIG_POOL), rng.choice(SIG_POOL), False],
            ['grown', g_in, 's', False]]
    rev2 = [['common', si, so2, rng.random() < 0.5], ['only2', rng.choice(SIG_POOL), rng.choice(SIG_POOL), False],
            ['grown', g_in + rng.choice(['i', 's']), 's', False]]
    a, b = rng.randrange(n), rng.randrange(n)
    exports = [{'client': a, 'path': '/rev/one', 'ifaces': [{'name': name, 'methods': rev1}]},
               {'client': b, 'path': '/rev/two', 'ifaces': [{'name': name, 'methods': rev2}]}]
    caller = rng.randrange(n)
    m1 = rng.choice(rev1)
    calls = [{'caller': caller, 'export': 0, 'iface': name, 'member': m1[0], 'how': 'introspect', 'wrong': None,
              'kw': None, 'bad_args': False, 'order': 'decl',
              'args': [valcodec.to_line(x) for x in gen_body(rng, m1[1])]}]
    for _ in range(rng.choice([1, 2])):
        m2 = rng.choice(rev2)
        calls.append({'caller': caller if rng.random() < 0.8 else rng.randrange(n), 'export': 1, 'iface': name,
                      'member': m2[0], 'how': 'explicit', 'wrong': None, 'kw': rng.choice([None, name]),
                      'bad_args': False, 'order': 'decl', 'after': 0, 'register': rng.random() < 0.4,
                      'args': [valcodec.to_line(x) for x in gen_body(rng, m2[1])]})
    if rng.random() < 0.5:
        # revision 1 learned, then revision 2 learned WITH replacement (the cache must now hold revision 2), then a
        # proxy for the revision-2 object created BY NAME (served from the cache, no introspection): revision 2
        mb = rng.choice(rev2)
        kb = len(calls)
        calls.append({'caller': caller, 'export': 1, 'iface': name, 'member': mb[0], 'how': 'introspect',
                      'wrong': None, 'kw': None, 'bad_args': False, 'order': 'decl', 'after': 0, 'replace': True,
                      'args': [valcodec.to_line(x) for x in gen_body(rng, mb[1])]})
        mc = rng.choice(rev2)
        calls.append({'caller': caller, 'export': 1, 'iface': name, 'member': mc[0], 'how': 'byname',
                      'wrong': None, 'kw': None, 'bad_args': False, 'order': 'decl', 'after': kb, 'replace': False,
                      'args': [valcodec.to_line(x) for x in gen_body(rng, mc[1])]})
    elif rng.random() < 0.6:
        # the same caller INTROSPECTS the revision-2 object after the revision-1 one: with replaceKnownInterfaces=True
        # the proxy must follow revision 2; without it the cached revision 1 is used as it is (documented: stale)
        m2 = rng.choice(rev2)
        rep_ = rng.random() < 0.6
        calls.append({'caller': caller, 'export': 1, 'iface': name, 'member': m2[0], 'how': 'introspect',
                      'wrong': None if rep_ else 'stale-cache', 'kw': None, 'bad_args': False, 'order': 'decl',
                      'after': 0, 'replace': rep_, 'args': [valcodec.to_line(x) for x in gen_body(rng, m2[1])]})
    plans = [[rng.choice(['value', 'value', 'defer-value', 'raise-named']) for _ in range(3)] for _ in exports]
    return {'n': n, 'exports': exports, 'calls': calls, 'plans': plans, 'vseed': rng.randrange(10**9),
            'family': 'revisions'}


def gen_sameproxy_scenario(rng):
    """ONE proxy object (declared, declared in reversed order, or introspected), a method name that two or three of its
    interfaces share (different signatures and return types, a function of its own per interface), and a SEQUENCE of
    3-6 calls on that proxy, each issued after the previous one: default calls (no `interface=`, or a falsy one) and
    calls naming one of the interfaces, in any order.  Whatever was called before, a default call runs the method of
    the FIRST interface in the proxy's order that has the name, an explicit one the named interface's."""
    n = rng.choice([2, 2, 3])
    pool = [x for x in SIG_POOL if x]
    k_if = rng.choice([2, 2, 3])
    sig_in = rng.sample(pool, k_if)
    sig_out = rng.sample(pool, k_if)
    ifaces = []
    for k in range(k_if):
        methods = [['shared', sig_in[k], sig_out[k], rng.random() < 0.3]]
        if rng.random() < 0.6:
            methods.append(['own%d' % k, rng.choice(SIG_POOL), rng.choice(SIG_POOL), False])
        if rng.random() < 0.3:
            methods.insert(0, ['other', rng.choice(SIG_POOL), rng.choice(SIG_POOL), False])
        ifaces.append({'name': 'org.t.S%d' % k, 'methods': methods})
    spec = {'client': rng.randrange(n), 'path': '/same', 'ifaces': ifaces}
    if rng.random() < 0.3:
        spec['layout'] = 'hier'
        spec['depth'] = 2
        spec['levels'] = sorted(rng.randrange(2) for _ in ifaces)
        if len(set(spec['levels'])) == 1:
            spec['levels'][-1] = 1
    how = rng.choice(['explicit', 'explicit', 'introspect'])
    order = 'rev' if (how == 'explicit' and rng.random() < 0.4) else 'decl'
    listed = list(reversed(ifaces)) if order == 'rev' else ifaces
    caller = rng.randrange(n)
    calls = []
    for k in range(rng.choice([3, 4, 5, 6])):
        member = 'shared' if rng.random() < 0.8 else rng.choice([m[0] for i in ifaces for m in i['methods']])
        having = [i for i in listed if any(m[0] == member for m in i['methods'])]
        kw = rng.choice([None, None, ''] + [i['name'] for i in having] * 2)
        sel = having[0] if not kw else [i for i in having if i['name'] == kw][0]
        meth = [m for m in sel['methods'] if m[0] == member][0]
        call = {'caller': caller, 'export': 0, 'iface': sel['name'], 'member': member, 'how': how, 'wrong': None,
                'kw': kw, 'bad_args': False, 'order': order, 'replace': False,
                'args': [valcodec.to_line(a) for a in gen_body(rng, meth[1])]}
        if k > 0:
            call.update(reuse=0, after_issued=k - 1)
        calls.append(call)
    plans = [[rng.choice(['value', 'value', 'value', 'defer-value', 'raise-named']) for _ in range(4)]]
    return {'n': n, 'exports': [spec], 'calls': calls, 'plans': plans, 'vseed': rng.randrange(10**9),
            'family': 'sameproxy'}


def share_class(scn, rng):
    """ONE exporter class used twice (STATE_AUDIT G5): a second INSTANCE of the class of export 0 is exported as well - on
    another client, or at another path (below the first) of the same client - and calls made to the first object are
    repeated against the twin, so that both instances are called, alternating.  The oracle is the usual one per call, plus:
    the method must have run on the instance the call was addressed to."""
    e0 = 0
    base = scn['exports'][e0]
    twin = {'client': base['client'], 'path': base['path'] + '/b', 'ifaces': base['ifaces'], 'same_class_as': e0}
    if scn['n'] > 1 and rng.random() < 0.6:
        twin['client'] = rng.choice([c for c in range(scn['n']) if c != base['client']])
        twin['path'] = base['path'] if rng.random() < 0.5 else base['path'] + '/b'
    for k_ in ('layout', 'levels', 'depth', 'split', 'override', 'split_decl'):
        if k_ in base:
            twin[k_] = base[k_]
    scn['exports'].append(twin)
    scn['plans'].append(list(scn['plans'][e0]))
    ti = len(scn['exports']) - 1
    mine = [c for c in scn['calls'] if c['export'] == e0]
    extra = []
    for c in mine[:2] or []:
        d = {k_: v for k_, v in c.items() if k_ not in ('reuse', 'after', 'after_issued', 'dest_name')}
        d['export'] = ti
        extra.append(d)
        if rng.random() < 0.5:
            d2 = {k_: v for k_, v in c.items() if k_ not in ('reuse', 'after', 'after_issued')}
            extra.append(d2)                 # ... and the first object once more, after its twin
    scn['calls'] += extra
    scn['family'] = 'shared-class'
    return scn


def bytes_scenario(rng):
    """An ordinary scenario restricted to what the byte-level model can express: no big-endian peers (one `enc` per
    message: item (5) of the list next to the `_partial` theorem), no relay (a call issued INSIDE a delivery is written
    before the read has been handled to its end; the byte-level step issues calls between reads)."""
    scn = gen_scenario(rng)
    scn.pop('relay', None)
    scn['plans'] = [['value' if k_ == 'relay' else k_ for k_ in pl] for pl in scn['plans']]
    scn['big_endian'] = []
    scn['family'] = 'bytes'
    return scn


def gen_drain_scenario(rng):
    """Explicit proxies, every exported method returns a Deferred (so that the canonical draining schedule of the model,
    which lets every invocation return one, can be performed on the real network), 2-4 calls."""
    n = rng.choice([2, 3, 3])
    exports = []
    for e in range(rng.choice([1, 2])):
        methods = [['d%d_%d' % (e, k), rng.choice(SIG_POOL), rng.choice(SIG_POOL), rng.random() < 0.3]
                   for k in range(rng.choice([1, 2, 3]))]
        exports.append({'client': rng.randrange(n), 'path': '/dr%d' % e,
                        'ifaces': [{'name': 'org.t.D%d' % e, 'methods': methods}]})
    calls = []
    for k in range(rng.choice([2, 3, 4])):
        ex = rng.randrange(len(exports))
        i = exports[ex]['ifaces'][0]
        m = rng.choice(i['methods'])
        calls.append({'caller': rng.randrange(n), 'export': ex, 'iface': i['name'], 'member': m[0], 'how': 'explicit',
                      'wrong': None, 'kw': rng.choice([None, i['name']]), 'bad_args': False, 'order': 'decl',
                      'args': [valcodec.to_line(x) for x in gen_body(rng, m[1])]})
    plans = [[rng.choice(['defer-value', 'defer-value', 'defer-raise']) for _ in range(4)] for _ in exports]
    return {'n': n, 'exports': exports, 'calls': calls, 'plans': plans, 'vseed': rng.randrange(10**9),
            'big_endian': [], 'family': 'drain'}


def doc_bound(classes, iname, member):
    """Which function the DOCUMENTED resolution order of DBusObject.executeMethod binds to (interface, member):
    `dbus_<member>` serves every interface unless it is decorated for another one; otherwise the function
    decorated for (interface, member), classes searched in MRO order.  `classes` = [[(attr, fid, deco)]].
    Written from the documentation (DESIGN C10 "Binding"), independent of the model."""
    def getattr_(name):
        for c in classes:
            for a, fid, deco in c:
                if a == name:
                    return fid, deco
        return None

    def decorated():
        for c in classes:
            hit = None
            for a, fid, deco in c:
                if deco == (iname, member):
                    hit = a
            if hit is not None:
                return getattr_(hit)
        return None
    m = getattr_('dbus_' + member) or decorated()
    if m is None:
        return None
    if m[1] is not None and m[1][0] != iname:
        m = decorated()
    return m[0] if m else None


def _dup_member(spec, member):
    return sum(1 for i in spec['ifaces'] for m in i['methods'] if m[0] == member) > 1


class BoomError(Exception):
    pass


class NamedError(Exception):
    dbusErrorName = 'org.t.Errors.Named'


class BadNameError(Exception):
    dbusErrorName = 'not a valid name'


class NulNameError(Exception):
    # invalid as an error name AND not even a DBus string: the reply must still be sent (InvalidErrorName, the name
    # quoted in the text with the NUL escaped)
    dbusErrorName = 'bad\x00name.with nul'


EXC_CLASSES = {'BoomError': BoomError, 'NamedError': NamedError, 'BadNameError': BadNameError,
               'NulNameError': NulNameError}
INVALID_NAMES = ('not a valid name', NulNameError.dbusErrorName)
EXC_ARGS = [['boom'], [''], ['café \U0001f600'], ['two\nlines'], ['x' * 60], [], ['a', 'b'], [5], ['nul\x00inside'],
            ['boom']]


def exc_text(cls, args):
    """`err.getErrorMessage()` of the Failure wrapping cls(*args)"""
    return str(EXC_CLASSES[cls](*args))


def escaped(text):
    """what send_error makes of the text (repair C10-01)"""
    return text.replace('\0', '\\x00')


# ============================================================================ running one scenario
def first_msg_len(buf):
    if len(buf) < 16:
        return None
    e = '<' if buf[0:1] == b'l' else '>'
    body = struct.unpack(e + 'I', bytes(buf[4:8]))[0]
    harr = struct.unpack(e + 'I', bytes(buf[12:16]))[0]
    hlen = 16 + harr
    return hlen + ((-hlen) % 8) + body


class Chooser:
    """Replays a prefix of choices, then asks `fresh` (a function options -> (index, nbytes))."""

    def __init__(self, prefix, fresh, coin_rng=None):
        self.prefix = list(prefix)
        self.fresh = fresh
        self.taken = []
        self.counts = []
        self.coin_rng = coin_rng

    def coin(self, p):
        """A recorded yes/no choice (replayed from the prefix like every other choice)."""
        k = len(self.taken)
        if k < len(self.prefix):
            idx = 1 if self.prefix[k][0] else 0
        else:
            idx = 1 if (self.coin_rng is not None and self.coin_rng.random() < p) else 0
        self.taken.append([idx, 'coin'])
        self.counts.append(2)
        return idx == 1

    def pick(self, options):
        k = len(self.taken)
        if k < len(self.prefix):
            idx, nb = self.prefix[k]
            if idx >= len(options):
                idx, nb = 0, None
        else:
            idx, nb = self.fresh(options)
        self.taken.append([idx, nb])
        self.counts.append(len(options))
        return idx, nb


class Run:
    """One execution of a scenario on the real code under one schedule."""

    def __init__(self, scn, chooser, message_granular, catch_all=False, advance=False, bytes_mode=False,
                 drain_tail=None, hs_mode=False, shared_tables=False):
        self.shared_tables = shared_tables
        self.hs_mode = hs_mode            # byte mode: the model starts BEFORE the end of the handshake (`BNet.initH`)
        self.hs_pending = {}              # (client, direction) -> handshake bytes still in front of the model's wire
        self.bytes_mode = bytes_mode      # model lines drive the BYTE-level model (`bstep`): one line per read
        self.drain_tail = drain_tail      # probability per step of finishing by the canonical draining schedule
        self.cum = {}                     # per client: every inv(...) / done(...) effect token so far (byte mode)
        self.scn = scn
        self.chooser = chooser
        self.granular = message_granular
        self.catch_all = catch_all
        self.advance = advance        # may the scheduler let the clock pass the deadlines of `timeout=` calls
        self.lines = []          # model input lines
        self.expect = []         # expected model output per line (from the implementation)
        self.problems = []       # oracle findings: (key, what, observed, expected)
        self.steps = []          # induced message-level schedule (for distinctness / stats)
        self.spy_unicast = 0     # unicast messages that reached the catch-all third party
        self.saw_unparsable = False
        self.invoked = 0

    # -------------------------------------------------------------- setup
    def setup(self):
        from txdbus import objects, interface, introspection
        from txdbus.interface import DBusInterface, Method
        scn = self.scn
        # every peer starts from the import-time knownInterfaces (harness/net.py); `shared_tables`: all clients are
        # connections of ONE process (one serial counter, one knownInterfaces)
        self.net = net = Net(shared_tables=self.shared_tables)
        n = scn['n'] + (1 if self.catch_all else 0)
        self.conns = net.connect_all(n, big_endian=set(scn.get('big_endian', [])))
        self.name_of = [c.busName for c in self.conns]
        self.idx_of = {nm: i for i, nm in enumerate(self.name_of)}
        self.exp_objs = []
        self.inv_count = [0] * n
        self.tok_count = [0] * n
        self.deferreds = {}      # (client, tok) -> (Deferred, result)
        self.exp_decl = []
        self.layouts = []        # per export: the generated classes in MRO order: [[(attr, fid, deco)]]
        self.func_ids = {}
        fid_next = [1]
        self.klasses = []
        self.obj_export = {}
        for ei, spec in enumerate(scn['exports']):
            j = spec['client']
            if spec.get('same_class_as') is not None:
                # ANOTHER INSTANCE of the class built for an earlier export (on another client, or at another path of
                # the same client): whatever txdbus keeps per class is shared by the two exports
                e0 = spec['same_class_as']
                klass = self.klasses[e0]
                self.klasses.append(klass)
                self.layouts.append(self.layouts[e0])
                obj = klass(spec['path'])
                with net.as_peer(j):
                    self.conns[j].exportObject(obj)
                self.exp_objs.append(obj)
                self.obj_export[id(obj)] = ei
                continue
            layout = spec.get('layout', 'plain')
            ifs = []
            for i in spec['ifaces']:
                ifs.append(DBusInterface(i['name'], *[Method(m[0], arguments=m[1], returns=m[2])
                                                      for m in i['methods']], noRegister=True))
            made = []            # (attr name, function, fid, deco)
            made_level = []
            first_with = {}
            for ii, i in enumerate(spec['ifaces']):
                for m in i['methods']:
                    first_with.setdefault(m[0], ii)
            for ii, i in enumerate(spec['ifaces']):
                for m in i['methods']:
                    nargs = len(complete_types(m[1]))
                    params = ['a%d' % k for k in range(nargs)]
                    dup = _dup_member(spec, m[0])
                    decorated = (dup and not (layout == 'mixed' and first_with[m[0]] == ii)) or layout == 'split'
                    if layout == 'hier-mixed' and dup:
                        # the occurrence in the DEEPEST class is the plain one
                        last_with = max(k2 for k2, i2 in enumerate(spec['ifaces']) if any(x[0] == m[0] for x in i2['methods']))
                        decorated = ii != last_with
                    fname = ('impl_%d_%s' % (ii, m[0])) if decorated else 'dbus_' + m[0]
                    if layout == 'decodbus' and dup and first_with[m[0]] == ii:
                        fname = 'dbus_' + m[0]      # found by getattr first, but decorated: serves its own interface only
                    fid = fid_next[0]
                    fid_next[0] += 1
                    if layout in ('mixed', 'hier-mixed') and dup and not decorated:
                        # the plain function also serves the same member of the other interface (documented binding
                        # order), whose arity may differ: it takes whatever it is given
                        f = self._make_func(ei, fname, ['*args'], False, fid, i['name'], m[0])
                    else:
                        f = self._make_func(ei, fname, params, m[3], fid, i['name'], m[0])
                    deco = None
                    if decorated or (layout == 'decodbus' and dup and first_with[m[0]] == ii):
                        f = objects.dbusMethod(i['name'], m[0])(f)
                        deco = (i['name'], m[0])
                    f._fid = fid
                    made.append((fname, f, fid, deco))
                    if layout == 'split':
                        made_level.append(len([x for x in made if x[3] and x[3][0] == i['name']]) % 2)
                    else:
                        made_level.append(spec['levels'][ii] if 'levels' in spec else 0)
            if layout in ('hier', 'hier-mixed', 'split'):
                depth = spec['depth'] if layout != 'split' else 2
                level_attrs = [dict() for _ in range(depth)]
                level_list = [[] for _ in range(depth)]
                for lv in range(depth):
                    if layout == 'split':
                        here = list(ifs) if lv == spec.get('split_decl', 1) else []
                    else:
                        here = [ifs[k] for k in range(len(ifs)) if spec['levels'][k] == lv]
                    if here:
                        level_attrs[lv]['dbusInterfaces'] = here
                for (fname, f, fid, deco), lv in zip(made, made_level):
                    level_attrs[lv][fname] = f
                    level_list[lv].append((fname, fid, deco))
                klass = objects.DBusObject
                for lv in range(depth - 1, -1, -1):
                    klass = type('Exp%d_L%d' % (ei, lv), (klass,), level_attrs[lv])
                self.layouts.append(level_list)
            elif layout == 'inherit':
                # the functions are spread over a base class and a sub-class; one function is defined in both
                # (the sub-class's definition wins; the base one must never run)
                split = spec.get('split', [])
                base_attrs = {'dbusInterfaces': ifs}
                sub_attrs = {}
                base_l, sub_l = [], []
                for k, (fname, f, fid, deco) in enumerate(made):
                    in_sub = split[k % len(split)] if split else (k % 2 == 1)
                    (sub_attrs if in_sub else base_attrs)[fname] = f
                    (sub_l if in_sub else base_l).append((fname, fid, deco))
                ov = spec.get('override')
                if ov is not None and made:
                    fname, f, fid, deco = made[ov % len(made)]
                    if fname in sub_attrs:
                        fid2 = fid_next[0]
                        fid_next[0] += 1
                        i_name, m_name = [(i['name'], m[0]) for i in spec['ifaces'] for m in i['methods']][ov % len(made)]
                        m_decl = [m for i in spec['ifaces'] for m in i['methods']][ov % len(made)]
                        g = self._make_func(ei, fname, ['a%d' % k for k in range(len(complete_types(m_decl[1])))],
                                            m_decl[3], fid2, i_name, m_name)
                        if deco:
                            g = objects.dbusMethod(*deco)(g)
                        g._fid = fid2
                        base_attrs[fname] = g
                        base_l.append((fname, fid2, deco))
                base = type('Base%d' % ei, (objects.DBusObject,), base_attrs)
                klass = type('Exp%d' % ei, (base,), sub_attrs)
                self.layouts.append([sub_l, base_l])
            else:
                attrs = {'dbusInterfaces': ifs}
                for fname, f, fid, deco in made:
                    attrs[fname] = f
                klass = type('Exp%d' % ei, (objects.DBusObject,), attrs)
                self.layouts.append([[(fname, fid, deco) for fname, f, fid, deco in made]])
            # org.freedesktop.DBus.Properties: DBusObject's decorated base-class methods, observed through overrides
            # of the same attribute names in the most derived class (that is the function `executeMethod` reaches)
            pw = []
            for pm in ('Get', 'Set', 'GetAll'):
                fid = fid_next[0]
                fid_next[0] += 1
                wf = self._make_props_wrapper(ei, pm, fid)
                wf._fid = fid
                setattr(klass, '_dbus_Property' + pm, wf)
                pw.append(('_dbus_Property' + pm, fid, None))
            base_layer = []
            for pm in ('Get', 'Set', 'GetAll'):
                bf = objects.DBusObject.__dict__['_dbus_Property' + pm]
                base_layer.append(('_dbus_Property' + pm, self.func_ids.setdefault(bf, 1000 + len(self.func_ids)),
                                   ('org.freedesktop.DBus.Properties', pm)))
            self.layouts[-1] = [pw + self.layouts[-1][0]] + self.layouts[-1][1:] + [base_layer]
            obj = klass(spec['path'])
            with net.as_peer(j):
                self.conns[j].exportObject(obj)
            self.exp_objs.append(obj)
            self.klasses.append(klass)
            self.obj_export[id(obj)] = ei
        # well-known names: the exporter owns the name, another client waits in the queue behind it
        for ei, spec in enumerate(scn['exports']):
            nm = spec.get('wkname')
            if nm:
                j = spec['client']
                with net.as_peer(j):
                    self.conns[j].requestBusName(nm).addErrback(lambda f: None)
                net.pump()
                q = (j + 1) % scn['n']
                if q != j:
                    with net.as_peer(q):
                        self.conns[q].requestBusName(nm, doNotQueue=False, errbackUnlessAcquired=False
                                                     ).addErrback(lambda f: None)
                    net.pump()
                self.idx_of[nm] = j
        if self.catch_all:
            # a further client holding match rules for every message type and no other constraint: a third party
            # that must not see, let alone answer, the unicast traffic of the others (bus routing is C14's)
            self.spy = spy = n - 1
            self.spy_seen = []
            with net.as_peer(spy):
                # (the bus of txdbus rejects the empty rule string with ValueError, so: one rule per type)
                for mt in ('method_call', 'method_return', 'error', 'signal'):
                    self.conns[spy].addMatch(lambda m: self.spy_seen.append(('signal', m.member)), mtype=mt)
        net.pump()
        del net.log[:]
        # World of the model, taken from the real objects
        self.lines.append('%s %d %s' % (('hreset' if self.hs_mode else 'breset') if self.bytes_mode else 'reset', n,
                                        ' '.join('%d' % net.next_serial(i) for i in range(n))))
        self.expect.append('ok')
        del net.sent_raw[:]
        if self.bytes_mode and self.hs_mode:
            # MODEL AGAINST MODEL (plus one recorded byte string): the REAL network has finished authentication and Hello
            # inside `connect_all` above; only the model starts before the hand-off, with the real `BEGIN\r\n` in front
            # of its up wires, and its first read on each up link is enlarged by these 7 bytes.  What is re-tested on
            # samples is `bytes_run_from_handshake_reduces_partial`; the real hand-off read (`BEGIN\r\n` + Hello) is NOT
            # compared by this stream (Hello is not in the model); the driver's authenticator is a stand-in (success at
            # a line starting with BEGIN / OK), not C06/C07's
            for c in range(n):
                # the state of a real connection between the client's BEGIN and the bus's reading it: the bus still
                # expects the LAST line the client wrote (`BEGIN`), the client is in binary mode already
                up = bytes(net.handshake.get('cli:%d' % c, b''))[1:]
                up = up[up.index(b'\r\n') + 2:] if b'\r\n' in up else up
                down = b''
                for d_, bs in (('up', up), ('down', down)):
                    self.lines.append('hs %s %d %s' % (d_, c, bs.hex() or '-'))
                    self.expect.append('ok')
                    self.hs_pending[(c, 'c2b' if d_ == 'up' else 'b2c')] = len(bs)
        for ei, spec in enumerate(scn['exports']):
            j = spec['client']
            obj = self.exp_objs[ei]
            ifl = list(obj.getInterfaces())
            self.exp_decl.append(ifl)
            self.lines.append('export %d %s %s' % (j, hs(spec['path']), self.classes_text(obj)))
            self.expect.append('ok')
        seen = set()
        for ei, spec in enumerate(scn['exports']):
            j = spec['client']
            paths = {spec['path']}
            for c in scn['calls']:
                if c['export'] == ei and c['wrong'] == 'path':
                    paths.add(spec['path'] + '/nope')
            for p in sorted(paths):
                if (j, p) in seen:
                    continue
                seen.add((j, p))
                xml = introspection.generateIntrospectionXML(p, self.conns[j].objHandler.exports)
                if xml is not None:
                    self.lines.append('intro %d %s %s' % (j, hs(p), tok(xml)))
                    self.expect.append('ok')
        for nm in INVALID_NAMES:
            self.lines.append('badname %s' % hs(nm))
            self.expect.append('ok')

    def classes_text(self, obj):
        """The class chain of the real object, as `executeMethod` sees it: __mro__ order, per class whether it
        defines dbusInterfaces and the functions of its __dict__ (id, decoration)."""
        import inspect
        chain = [c for c in type(obj).__mro__ if c is not object]
        out = ['%d' % len(chain)]
        for c in chain:
            if 'dbusInterfaces' in c.__dict__:
                out += ['1', self.ifaces_text(c.__dict__['dbusInterfaces'])]
            else:
                out += ['0']
            fs = [(nm, f) for nm, f in c.__dict__.items() if inspect.isfunction(f)]
            out.append('%d' % len(fs))
            for nm, f in fs:
                fid = getattr(f, '_fid', None)
                if fid is None:
                    fid = self.func_ids.setdefault(f, 1000 + len(self.func_ids))
                # what @dbusMethod stored on the function: `_dbusInterface` / `_dbusMethod` as the fast path, else
                # the attributes located by decorating a dummy (harness/c10_locate.py; private names may be renamed)
                from harness import c10_locate
                from txdbus import objects as _objects
                deco = c10_locate.deco_of_library(_objects, f)
                if deco is not None:
                    out += [hs(nm), '%d' % fid, hs(deco[0]), hs(deco[1])]
                else:
                    out += [hs(nm), '%d' % fid, '~', '~']
        return ' '.join(out)

    def _make_props_wrapper(self, ei0, pm, fid):
        from txdbus import objects
        base = objects.DBusObject.__dict__['_dbus_Property' + pm]

        def wrapper(obj, *args):
            ei = self.obj_export.get(id(obj), ei0)
            j = self.net._peer if isinstance(self.net._peer, int) else self.scn['exports'][ei]['client']
            rec = {'export': ei, 'client': j, 'self_export': ei, 'iface': 'org.freedesktop.DBus.Properties', 'member': pm,
                   'args': list(args), 'impl': fid, 'caller': '-', 'kind': 'properties',
                   'sigOut': {'Get': 'v', 'Set': '', 'GetAll': 'a{sv}'}[pm]}
            rec['nret'] = len(complete_types(rec['sigOut']))
            rec['own_sigOut'] = rec['sigOut']
            exc = None
            try:
                ret = base(obj, *args)
                rec['result'] = ('value', ret)
            except Exception as e:
                exc = e
                rec['result'] = ('raised', '@' + type(e).__name__, str(e), list(e.args))
                rec['exc_dbus'] = getattr(e, 'dbusErrorName', None)
            self.net.log.append(('inv', 'cli:%d' % j, rec))
            self.invoked += 1
            if exc is not None:
                raise exc
            return ret
        return wrapper

    def _make_func(self, ei, fname, params, wants_caller, fid, iface, member):
        src = 'def %s(self, %s):\n    return _hook(self, %d, %r, %r, [%s], %s)\n' % (
            fname, ', '.join(params + (['dbusCaller=None'] if wants_caller else [])), fid, iface, member,
            ', '.join(params), 'dbusCaller' if wants_caller else '"-"')
        if params == ['*args']:
            src = 'def %s(self, *args):\n    return _hook(self, %d, %r, %r, list(args), "-")\n' % (fname, fid, iface, member)
        env = {'_hook': self._make_hook(ei)}
        exec(src, env)
        return env[fname]

    @staticmethod
    def ifaces_text(ifl):
        out = ['%d' % len(ifl)]
        for i in ifl:
            out += [hs(i.name), '%d' % len(i.methods)]
            for m in i.methods.values():
                out += [hs(m.name), hs(m.sigIn), hs(m.sigOut), '%d' % m.nargs, '%d' % m.nret]
        return ' '.join(out)

    def _make_hook(self, ei0):
        from twisted.internet import defer

        def hook(obj, fid, iface, member, args, caller):
            # WHICH instance ran (a class may be exported several times: `same_class_as`), and on which peer
            ei = self.obj_export.get(id(obj), ei0)
            spec = self.scn['exports'][ei]
            j = self.net._peer if isinstance(self.net._peer, int) else spec['client']
            k = self.inv_count[j]
            self.inv_count[j] += 1
            plan = self.scn['plans'][ei]
            kind = plan[k % len(plan)]
            vr = random.Random('%d/%d/%d' % (self.scn['vseed'], j, k))
            decl = [m for i in spec['ifaces'] if i['name'] == iface for m in i['methods'] if m[0] == member][0]
            # the declaration the CALL was dispatched under (its return signature is what send_reply uses): the one
            # named by the message being processed; differs from the function's own only under mixed binding
            for e in reversed(self.net.log):
                if e[0] == 'recv' and e[1] == 'cli:%d' % j:
                    cm = e[2]
                    hit = [m for i in spec['ifaces'] if i['name'] == cm.get('iface') for m in i['methods']
                           if m[0] == cm.get('member')]
                    if cm.get('t') == 'call' and hit:
                        decl = hit[0]
                    break
            sig_out = decl[2]
            rec = {'export': ei, 'client': j, 'iface': iface, 'member': member, 'args': list(args), 'impl': fid,
                   'caller': caller, 'kind': kind, 'sigOut': sig_out, 'nret': len(complete_types(sig_out)),
                   'own_sigOut': sig_out, 'self_export': ei}
            if kind == 'relay' and 'relay' not in self.scn:
                kind = 'value'
            rec['kind'] = kind
            if kind in ('value', 'defer-value', 'bad-return', 'fired-deferred', 'relay'):
                body = gen_body(vr, sig_out)
                if kind == 'bad-return' and sig_out and sig_out[0] in 'sixoy':
                    ret = [1, 2]          # a list where a basic value is declared: does not encode
                elif len(body) == 0:
                    ret = None
                elif len(body) == 1:
                    ret = body[0]
                else:
                    ret = tuple(body) if vr.random() < 0.5 else body
                rec['result'] = ('value', ret)
            else:
                cls = {'raise-plain': 'BoomError', 'raise-named': 'NamedError', 'raise-badname': 'BadNameError',
                       'raise-nulname': 'NulNameError',
                       'defer-raise': vr.choice(['BoomError', 'NamedError', 'NulNameError', 'BadNameError'])}[kind]
                eargs = vr.choice(EXC_ARGS)
                rec['result'] = ('raised', cls, exc_text(cls, eargs), eargs)
            self.net.log.append(('inv', 'cli:%d' % j, rec))
            self.invoked += 1
            if kind == 'relay':
                t = self.tok_count[j]
                self.tok_count[j] += 1
                d = defer.Deferred()
                rec['tok'] = t
                rec['relay_value'] = rec.pop('result')
                self.deferreds[(j, t)] = (d, rec)
                self.net.log.append(('exec', 'cli:%d' % j, t))
                self.start_nested(j, t, rec, d)
                return d
            if kind.startswith('defer'):
                t = self.tok_count[j]
                self.tok_count[j] += 1
                d = defer.Deferred()
                self.deferreds[(j, t)] = (d, rec)
                rec['tok'] = t
                self.net.log.append(('exec', 'cli:%d' % j, t))
                self.actions.append(('resolve', j, t))
                return d
            if kind == 'fired-deferred':
                return defer.succeed(rec['result'][1])      # a Deferred that has already fired: like a plain return
            if rec['result'][0] == 'value':
                return rec['result'][1]
            raise EXC_CLASSES[rec['result'][1]](*rec['result'][3])
        return hook

    # -------------------------------------------------------------- rendering implementation events
    def who(self, name):
        if name is None:
            return '~'
        return '%d' % self.idx_of[name] if name in self.idx_of else '?' + name

    def show_msg(self, m, sender_override=None, sent=False):
        if m.get('t') == 'unparsable':
            return 'unparsable(%s)' % m.get('exc')
        # a body is only on the wire under a non-empty signature (`if self.signature:` in _marshal)
        body = m['body'] if (m['body'] is not None and m['sig']) else []
        # (messages a peer writes are observed on the byte pipe and parsed: `body` is what is on the wire)
        vals = '[' + ','.join(tok(v) for v in body) + ']'
        sender = self.who(m['sender']) if sender_override is None else '%d' % sender_override
        if m['t'] == 'call':
            return 'call(%d,%s,%s,%s,%s,%s,%s,%s)' % (m['serial'], sender, self.who(m['dest']), hs(m['path']),
                                                     ho(m['iface']), hs(m['member']), hs(m['sig']), vals)
        if m['t'] == 'ret':
            c = 'ret,%s,%s' % (hs(m['sig']), vals)
        elif m['t'] == 'err':
            text = body[0] if body and isinstance(body[0], str) else ''
            c = 'err,%s,%s' % (hs(m['name']), hs(text))
        else:
            return 'other(%s)' % m['t']
        return 'reply(%d,%d,%s,%s,%s)' % (m['serial'], m['rs'], sender, self.who(m['dest']), c)

    def dispatch_decl(self, rec, m):
        """send_reply uses the return signature of the method the CALL was dispatched to (interface and member of
        the message), which need not be the one the function that ran was written for (mixed binding)."""
        spec = self.scn['exports'][rec['export']]
        rec['call_iface'], rec['call_member'] = m.get('iface'), m.get('member')
        if rec.get('kind') == 'properties':
            return
        for i in spec['ifaces']:
            if (m.get('iface') and i['name'] == m['iface']) or (not m.get('iface') and
                                                                any(x[0] == m.get('member') for x in i['methods'])):
                for x in i['methods']:
                    if x[0] == m.get('member'):
                        rec['sigOut'] = x[2]
                        rec['nret'] = len(complete_types(x[2]))
                break

    def result_text(self, rec):
        res = rec['result']
        if res[0] == 'value':
            r = res[1]
            so = rec['sigOut']
            if isinstance(r, (list, tuple)):
                line = 'seq %s %d %s' % (toks_under(so, [r])[0], len(r), ' '.join(toks_under(so, r)))
                return ' '.join(line.split())
            return 'obj %s' % toks_under(so, [r])[0]
        if res[1].startswith('@'):
            return 'raised %s %s %s' % (ho(rec.get('exc_dbus')), hs(res[1][1:]), hs(res[2]))
        cls = EXC_CLASSES[res[1]]
        return 'raised %s %s %s' % (ho(getattr(cls, 'dbusErrorName', None)), hs(res[1]), hs(res[2]))

    def unenc_lines(self, rec):
        """`unenc` header lines for a result whose reply body does not encode (computed with the real marshal)."""
        res = rec['result']
        if res[0] != 'value' or not rec['sigOut']:
            return
        r = res[1]
        if isinstance(r, (list, tuple)):
            body = [r] if rec['nret'] == 1 else list(r)
        else:
            body = [r]
        self.add_unenc(rec['sigOut'], body)

    def add_unenc(self, sig, body, lines=None, expect=None):
        m = _marshal()
        lines = self.lines if lines is None else lines
        expect = self.expect if expect is None else expect
        try:
            m.marshal(sig, body)
        except Exception as e:
            ln = 'unenc %s %d %s ~ %s %s' % (hs(sig), len(body), ' '.join(tok(v) for v in body),
                                             hs(type(e).__name__), hs(str(e)))
            lines.append(' '.join(ln.split()))
            expect.append('ok')
            return True
        return False

    def outcome_text(self, kind, val):
        from txdbus import error
        if kind == 'ok':
            return 'val,' + (tok(val) if val is not None else 'N')
        e = val.value
        if isinstance(e, error.TimeOut):
            return 'timeout'
        if isinstance(e, error.RemoteError):
            if str(e.errName).startswith('Unexpected return value signature'):
                return 'sigMismatch'
            return 'remoteError,%s,%s' % (hs(e.errName), hs(e.message))
        return 'failure,' + type(e).__name__

    def effects(self, group, c):
        inv = [g for g in group if g[0] == 'inv']
        out = []
        for g in inv:
            rec = g[2]
            call = self.cur_call
            seen_sender = rec['caller'] if rec['caller'] != '-' else call['sender']     # dbusCaller, if asked for
            out.append('inv(%s,%d,%s,%s,%s,[%s],%d)' % (self.who(seen_sender), call['serial'], hs(call['path']),
                                                       hs(call.get('iface') or rec['iface']), hs(call['member']),
                                                       ','.join(tok(a) for a in rec['args']), rec['impl']))
        out += ['exec(%d)' % g[2] for g in group if g[0] == 'exec']
        out += ['sent(%s)' % self.show_msg(g[2], sent=True) for g in group if g[0] == 'send' and g[1] == 'cli:%d' % c]
        for g in group:
            if g[0] != 'done':
                continue
            call = self.calls[g[2]]
            if g[3] == 'proxy':
                # completion of the Introspect call made by getRemoteObject: the XML text of the reply
                body = self.cur_call.get('body') or [None]
                out.append('done(%d,val,%s)' % (call['intro_serial'], tok(body[0]) if body[0] is not None else 'N'))
            elif g[3] == 'proxy-failed':
                out.append('done(%d,proxy-failed,%s)' % (call['intro_serial'], type(g[4].value).__name__))
            else:
                out.append('done(%d,%s)' % (call['serial'], self.outcome_text(g[3], g[4])))
        return out

    def absorb(self, action):
        """Turn the log entries produced by one harness action into model lines + expected outputs."""
        log = self.net.log
        entries = log[:]
        del log[:]
        if action[0] == 'deliver':
            i, direction = action[1], action[2]
            groups = []
            for e in entries:
                if e[0] == 'recv':
                    groups.append([e])
                elif e[0] == 'crash':
                    groups.append([e])
                elif groups:
                    groups[-1].append(e)
                else:
                    groups.append([('stray',), e])
            for g in groups:
                head = g[0]
                if head[0] == 'crash':
                    self.lines.append('quiescent')
                    self.expect.append('crash %s %s' % (head[1], head[2]))
                    continue
                if head[0] != 'recv':
                    self.lines.append('quiescent')
                    self.expect.append('stray events %r' % (g[1:],))
                    continue
                m = head[2]
                if m.get('t') == 'unparsable':
                    self.saw_unparsable = True
                if direction == 'c2b':
                    self.steps.append('B%d' % i)
                    self.lines.append('toBus %d' % i)
                    sends = [x for x in g[1:] if x[0] == 'send']
                    if m['t'] == 'unparsable':
                        self.expect.append('unparsable')
                    elif len(sends) == 1:
                        d = int(sends[0][1].split(':')[1])
                        self.expect.append('fwd %d %s' % (d, self.show_msg(sends[0][2])))
                    elif not sends:
                        self.expect.append('drop %s' % self.show_msg(m, sender_override=i))
                    else:
                        self.expect.append('fwd-many ' + ' '.join('%s %s' % (x[1], self.show_msg(x[2])) for x in sends))
                else:
                    self.steps.append('C%d' % i)
                    if self.catch_all and i == self.spy and m.get('t') in ('call', 'ret', 'err'):
                        self.spy_unicast += 1
                    inv = [x for x in g[1:] if x[0] == 'inv']
                    self.cur_call = m
                    beh = 'deferred'
                    if inv:
                        rec = inv[0][2]
                        self.dispatch_decl(rec, m)
                        if 'tok' not in rec:
                            self.unenc_lines(rec)
                            beh = self.result_text(rec)
                        rec['from'] = (m['sender'], m['serial'])
                    self.lines.append('toClient %d %s' % (i, beh))
                    body = g[1:]
                    cut = [n for n, x in enumerate(body) if x[0] == 'syncresolve']
                    before, after = (body[:cut[0]], body[cut[0]:]) if cut else (body, [])
                    if m['t'] == 'unparsable':
                        self.expect.append('unparsable')
                    else:
                        self.expect.append(' '.join(['recv ' + self.show_msg(m)] + self.effects(before, i)))
                    for x in before:
                        if x[0] == 'nested':
                            # a call made by the exported method during this delivery
                            self.steps.append('N%d' % i)
                            self.lines += x[2]
                            self.expect += x[3]
                    if after:
                        # the outer Deferred of a relay fired inside this delivery
                        _, _, t, rec = after[0]
                        self.steps.append('R%d' % i)
                        if rec['result'][0] == 'value':
                            self.unenc_lines(rec)
                        self.lines.append('resolve %d %d %s' % (i, t, self.result_text(rec)))
                        eff = self.effects(after[1:], i)
                        self.expect.append(' '.join(eff) if eff else 'idle')
        return entries

    # -------------------------------------------------------------- application actions
    def do_getproxy(self, k):
        call = self.calls[k]
        spec = self.scn['exports'][call['export']]
        c, j = call['caller'], spec['client']
        net = self.net
        from txdbus.interface import DBusInterface
        names = None
        plan_line = None
        if call['how'] == 'byname' and call.get('ifarg'):
            # `interfaces=` in any documented form: introspection iff some requested NAME is not in the caller's
            # DBusInterface.knownInterfaces (instances never need it)
            from txdbus.interface import Method
            ia = call['ifarg']
            decl = {i['name']: i for i in spec['ifaces']}

            def make(nm, **kw):
                return DBusInterface(nm, *[Method(m[0], arguments=m[1], returns=m[2]) for m in decl[nm]['methods']], **kw)
            with net.as_peer(c):
                for nm in ia.get('declare', []):
                    if nm not in DBusInterface.knownInterfaces:
                        make(nm)                     # a local declaration: registers itself in this process
            known = net.known_of(c)
            vals, toks = [], []
            for kind, nm in ia['items']:
                if kind == 'inst':
                    with net.as_peer(c):
                        obj = make(nm, noRegister=True)
                    vals.append(obj)
                    toks.append('inst ' + self.ifaces_text([obj]).split(' ', 1)[1])
                else:
                    vals.append(nm)
                    toks.append('name ' + hs(nm))
            names = vals[0] if ia['form'] == 'one' else vals
            call['ifarg_vals'] = vals
            kn = [known[nm] for kind, nm in ia['items'] if kind == 'name' and nm in known]
            call['cached'] = all(kind == 'inst' or nm in known for kind, nm in ia['items'])
            call['requested'] = [nm for _, nm in ia['items']]
            plan_line = 'getproxy %s %s %s' % (self.ifaces_text(kn), 'one' if ia['form'] == 'one' else 'many %d' % len(vals),
                                               ' '.join(toks))
        elif call['how'] == 'byname':
            # interfaces given by NAME: introspection unless every name is in DBusInterface.knownInterfaces
            # (filled by an earlier introspection in this scenario)
            names = [call['iface']]
            call['cached'] = all(nm in net.known_of(c) for nm in names)      # the cache of THAT process
        dest = spec['wkname'] if call.get('dest_name') and spec.get('wkname') else self.name_of[j]
        with net.as_peer(c):
            d = self.conns[c].getRemoteObject(dest, spec['path'], names,
                                              replaceKnownInterfaces=bool(call.get('replace')))

        def ok(ro):
            call['proxy'] = ro
            self.actions.append(('call', k))
            for k2 in self.waiting.pop(k, []):
                self.actions.append(('getproxy', k2) if self.calls[k2]['how'] in ('introspect', 'byname') and
                                    'proxy' not in self.calls[k2] and self.calls[k2].get('reuse') is None
                                    else ('call', k2))
            net.log.append(('done', 'cli:%d' % c, k, 'proxy', None))
            return ro

        def bad(f):
            call['proxy_error'] = f
            for k2 in self.waiting.pop(k, []):
                self.actions.append(('call', k2))
            net.log.append(('done', 'cli:%d' % c, k, 'proxy-failed', f))
        d.addCallbacks(ok, bad)
        sends = [e for e in net.log if e[0] == 'send']
        del net.log[:]
        if plan_line is not None:
            # the decision itself, against the model's getRemoteObjectPlan (Net/GetProxy.lean)
            self.lines.append(plan_line)
            if 'proxy' in call and not sends:
                # WHICH definition object the proxy lists: the instance that was passed (I), or another one (K: the
                # definition the process knows under the requested name)
                given = [v for v in call.get('ifarg_vals', []) if not isinstance(v, str)]
                self.expect.append(' '.join(['built'] + ['%s:%s' % (hs(i.name), 'I' if any(i is g for g in given) else 'K')
                                                         for i in call['proxy'].interfaces]))
            elif len(sends) == 1 and 'proxy' not in call:
                self.expect.append(' '.join(['introspect'] + [hs(nm) for nm in call['requested']]))
            else:
                self.expect.append('neither: %d messages sent, proxy=%s' % (len(sends), 'proxy' in call))
        if call.get('cached'):
            # no message: the proxy was built from the cached definitions
            if sends or 'proxy' not in call:
                self.lines.append('quiescent')
                self.expect.append('cached proxy: %d messages sent, proxy=%s' % (len(sends), 'proxy' in call))
            return
        self.lines.append('call %d raw %d %s %s %s %s 0' % (c, j, hs(spec['path']), hs(INTROSPECTABLE),
                                                           hs('Introspect'), hs('')))
        if len(sends) == 1:
            call['intro_serial'] = sends[0][2]['serial']
            self.intro_serials[(c, call['intro_serial'])] = k
            self.expect.append('sent %d' % call['intro_serial'])
        else:
            self.expect.append('not-sent %d' % len(sends))

    def explicit_ifaces(self, call):
        from txdbus.interface import DBusInterface, Method
        spec = self.scn['exports'][call['export']]
        out = []
        for i in (list(reversed(spec['ifaces'])) if call.get('order') == 'rev' else spec['ifaces']):
            ms = []
            for m in i['methods']:
                name, si, so = m[0], m[1], m[2]
                if call['wrong'] and i['name'] == call['iface'] and name == call['member']:
                    if call['wrong'] == 'sig':
                        si = si + 'i'
                    elif call['wrong'] == 'member':
                        name = name + 'X'
                    elif call['wrong'] == 'retsig':
                        so = so + 's'
                ms.append(Method(name, arguments=si, returns=so))
            if call.get('register'):
                out.append(DBusInterface(i['name'], *ms))        # a plain instance: registers itself in the cache
            else:
                out.append(DBusInterface(i['name'], *ms, noRegister=True))
        return out

    def do_call(self, k, nested=None):
        """Issue call number k through its proxy.  `nested` = (j, tok, rec, outer Deferred) when the call is made
        by an exported method from inside its invocation (relay): the model lines are then handed to `absorb`
        through a marker in the log, because they come after the `toClient` line of the delivery in progress."""
        call = self.calls[k]
        spec = self.scn['exports'][call['export']]
        c, j = call['caller'], spec['client']
        net = self.net
        lines, expect = [], []
        if call.get('reuse') is not None and 'proxy' in self.calls[call['reuse']]:
            call['proxy'] = self.calls[call['reuse']]['proxy']        # the same RemoteDBusObject again
        dest = spec['wkname'] if call.get('dest_name') and spec.get('wkname') else self.name_of[j]
        if 'proxy' not in call:
            path = spec['path'] + ('/nope' if call['wrong'] == 'path' else '')
            with net.as_peer(c):
                d = self.conns[c].getRemoteObject(dest, path, self.explicit_ifaces(call))
            got = []
            d.addCallback(got.append)
            call['proxy'] = got[0]
            for k2 in self.waiting.pop(k, []):
                self.actions.append(('call', k2))
        ro = call['proxy']
        args = [valcodec.from_line(a) for a in call['args']]
        member = call['member'] + ('X' if (call['wrong'] == 'member' or call.get('refuse') == 'nomember') else '')
        if call['wrong'] == 'nargs':
            args = args + [1]
        kwargs = {}
        if call['kw'] is not None:
            kwargs['interface'] = call['kw']
        if call.get('timeout'):
            kwargs['timeout'] = call['timeout']
        # the model's view of the proxy: the interface list the real proxy holds
        decl = None
        for i in ro.interfaces:
            if call['kw'] and call['kw'] != i.name:
                continue
            if member in i.methods:
                decl = i.methods[member]
                call['chosen_iface'] = i.name
                break
        if decl is not None and len(args) == decl.nargs and decl.sigIn:
            self.add_unenc(decl.sigIn, args, lines, expect)
        lines.append(' '.join(('call %d proxy %d %s %s %s %s %d %s' % (
            c, j, hs(ro.objectPath), self.ifaces_text(ro.interfaces), ho(call['kw']), hs(member), len(args),
            ' '.join(toks_under(decl.sigIn if decl is not None else '', args)))).split()))
        result = None
        mark = len(net.log)
        try:
            with net.as_peer(c):
                d = ro.callRemote(member, *args, **kwargs)
        except AttributeError:
            result = 'attributeError'
        except TypeError:
            result = 'typeError'
        if result is None:
            sends = [e for e in net.log[mark:] if e[0] == 'send']
            if len(sends) == 1:
                call['serial'] = sends[0][2]['serial']
                call['sent'] = True
                result = 'sent %d' % call['serial']
            else:
                result = 'encodeError'
            if nested is None:
                d.addCallbacks(lambda r: net.log.append(('done', 'cli:%d' % c, k, 'ok', r)),
                               lambda f: net.log.append(('done', 'cli:%d' % c, k, 'fail', f)))
            else:
                nj, ntok, nrec, outer = nested

                def finished(kind, val):
                    net.log.append(('done', 'cli:%d' % c, k, kind, val))
                    # the outer method answers now, inside the completion of the nested call
                    nrec['result'] = (nrec['relay_value'] if kind == 'ok'
                                      else ('raised', 'BoomError', 'relay failed', ['relay failed']))
                    net.log.append(('syncresolve', 'cli:%d' % nj, ntok, nrec))
                    nrec['resolved'] = True
                    if nrec['result'][0] == 'value':
                        outer.callback(nrec['result'][1])
                    else:
                        outer.errback(EXC_CLASSES['BoomError']('relay failed'))
                d.addCallbacks(lambda r: finished('ok', r), lambda f: finished('fail', f))
        call['issue'] = result
        call['decl'] = decl
        expect.append(result)
        for k2 in self.waiting_issue.pop(k, []):
            self.actions.append(('call', k2))       # the next call of a sequence on one proxy
        if nested is None:
            del net.log[:]
            self.lines += lines
            self.expect += expect
        else:
            del net.log[mark:]
            net.log.append(('nested', 'cli:%d' % c, lines, expect))

    def start_nested(self, j, t, rec, outer):
        rl = self.scn['relay']
        k2 = len(self.calls)
        self.calls.append({'caller': j, 'export': rl['export'], 'iface': rl['iface'], 'member': rl['member'],
                           'how': 'explicit', 'wrong': None, 'kw': None, 'bad_args': False, 'order': 'decl',
                           'args': rl['args'], 'nested': True})
        self.do_call(k2, nested=(j, t, rec, outer))

    def do_resolve(self, j, t):
        d, rec = self.deferreds[(j, t)]
        net = self.net
        if rec['result'][0] == 'value':
            self.unenc_lines(rec)
        self.lines.append('resolve %d %d %s' % (j, t, self.result_text(rec)))
        self.cur_call = None
        with net.as_peer(j):
            if rec['result'][0] == 'value':
                d.callback(rec['result'][1])
            else:
                d.errback(EXC_CLASSES[rec['result'][1]](*rec['result'][3]))
        entries = net.log[:]
        del net.log[:]
        eff = self.effects(entries, j)
        self.expect.append(' '.join(eff) if eff else 'idle')
        rec['resolved'] = True

    # -------------------------------------------------------------- the schedule
    def do_advance(self):
        """The reactor's clock passes every deadline now set: `_onMethodTimeout` runs for each call that is still
        pending.  In the model: one `expire c serial` step per call whose Deferred failed with TimeOut."""
        net = self.net
        mark = len(net.log)
        net.clock.advance(10**6)
        entries = net.log[mark:]
        del net.log[mark:]
        for e in entries:
            if e[0] == 'done' and e[3] == 'fail':
                call = self.calls[e[2]]
                call['expired'] = True
                self.steps.append('X%d' % call['caller'])
                self.lines.append('expire %d %d' % (call['caller'], call['serial']))
                self.expect.append('done(%d,%s)' % (call['serial'], self.outcome_text(e[3], e[4])))
            else:
                self.lines.append('quiescent')
                self.expect.append('unexpected event while the clock advanced: %r' % (e[:2],))
        self.track(entries)

    def options(self):
        opts = [('app', a) for a in self.actions]
        if self.advance and self.net.clock.getDelayedCalls():
            opts.append(('advance',))
        for i, ln in enumerate(self.net.links):
            if ln.dead:
                continue
            for direction, pipe in (('c2b', ln.c2b), ('b2c', ln.b2c)):
                if pipe.buf:
                    opts.append(('deliver', i, direction))
        return opts

    def execute(self):
        self.setup()
        scn = self.scn
        self.calls = [dict(c) for c in scn['calls']]
        self.intro_serials = {}
        self.actions = []
        self.waiting = {}
        self.waiting_issue = {}
        for k, c in enumerate(self.calls):
            if c.get('after_issued') is not None:
                self.waiting_issue.setdefault(c['after_issued'], []).append(k)     # enabled once that call was ISSUED
                continue
            if c.get('after') is not None:
                self.waiting.setdefault(c['after'], []).append(k)      # enabled once that proxy exists
                continue
            self.actions.append(('getproxy', k) if c['how'] in ('introspect', 'byname') else ('call', k))
        guard = 0
        while True:
            opts = self.options()
            if not opts:
                break
            guard += 1
            if guard > 5000:
                self.problems.append(('no-quiescence', 'the network did not become quiet within 5000 steps', None, None))
                break
            if (self.drain_tail and not any(a[0] in ('call', 'getproxy') for a in self.actions) and not self.waiting
                    and self.chooser.coin(self.drain_tail)):
                self.do_drain()
                break
            idx, nb = self.chooser.pick(opts)
            o = opts[idx]
            mark = len(self.lines)
            if o[0] == 'advance':
                self.do_advance()
            elif o[0] == 'app':
                a = o[1]
                self.actions.remove(a)
                if a[0] == 'getproxy':
                    self.do_getproxy(a[1])
                elif a[0] == 'call':
                    self.do_call(a[1])
                else:
                    self.do_resolve(a[1], a[2])
            else:
                i, direction = o[1], o[2]
                pipe = self.net.links[i].c2b if direction == 'c2b' else self.net.links[i].b2c
                if self.granular or nb is None:
                    nb = first_msg_len(pipe.buf) or len(pipe.buf)
                nb = self.net.deliver(i, direction, nb)
                entries = self.absorb(('deliver', i, direction))
                self.track(entries)
                if self.bytes_mode:
                    self.fold_read(mark, i, direction, nb)
            if self.bytes_mode:
                if o[0] != 'deliver':
                    for ln_, e_ in zip(self.lines[mark:], self.expect[mark:]):
                        w_ = ln_.split(' ')
                        if w_[0] in ('call', 'resolve', 'expire'):
                            self.accumulate(int(w_[1]), e_)
                self.codec_lines(mark)
        if self.bytes_mode:
            self.open_links()
        if self.shared_tables:
            self.serial_lines()
        self.lines.append('quiescent')
        self.expect.append('yes')
        if self.bytes_mode:
            for c in range(self.scn['n']):
                self.lines.append('logs %d' % c)
                self.expect.append(' '.join(self.cum.get(c, {}).get('inv', []) + self.cum.get(c, {}).get('done', [])))
        self.oracle()

    def serial_lines(self):
        """Shared-table mode: the clients are connections of ONE process and draw their serials from one counter, while
        the model keeps one counter per client.  Before every model step in which a client sends, the model is told
        which serial that client's next message gets (the first one the implementation used in that step)."""
        import re
        out_l, out_e = [], []
        for ln, ex in zip(self.lines, self.expect):
            w_ = ln.split(' ')
            n_ = None
            if w_[0] == 'call' and ex.startswith('sent '):
                n_ = int(ex.split(' ')[1])
            elif w_[0] in ('toClient', 'resolve'):
                m_ = re.search(r'sent\((?:call|reply)\((\d+),', ex)
                if m_:
                    n_ = int(m_.group(1))
            if n_ is not None:
                out_l.append('serial %s %d' % (w_[1], n_))
                out_e.append('ok')
            out_l.append(ln)
            out_e.append(ex)
        self.lines, self.expect = out_l, out_e

    # -------------------------------------------------------------- byte-level model lines
    def codec_lines(self, mark):
        """Everything written since the last call goes into the model's codec table (text of the message as the
        model prints it -> the bytes the real peer wrote), BEFORE the lines of the action that wrote it."""
        new = []
        for who, summary, raw in self.net.sent_raw:
            if summary.get('t') == 'unparsable':
                continue
            new.append('codec %s %s' % (self.show_msg(summary), bytes(raw).hex()))
        del self.net.sent_raw[:]
        self.lines[mark:mark] = new
        self.expect[mark:mark] = ['ok'] * len(new)

    def open_links(self):
        """Links nobody has read yet still carry their handshake in the model: one read of exactly these bytes each."""
        for (c, direction), n_ in sorted(self.hs_pending.items()):
            pipe = self.net.links[c].c2b if direction == 'c2b' else self.net.links[c].b2c
            self.lines.append('%s %d %d' % ('readBus' if direction == 'c2b' else 'readClient', c, n_))
            self.expect.append('read 0 wire=%d' % len(pipe.buf))
        self.hs_pending.clear()

    def accumulate(self, c, expected):
        d = self.cum.setdefault(c, {'inv': [], 'done': []})
        for t in expected.split(' '):
            if t.startswith('inv('):
                d['inv'].append(t)
            elif t.startswith('done('):
                d['done'].append(t)

    def fold_read(self, mark, i, direction, nb):
        """The message-level lines `absorb` produced for one delivery become ONE byte-level read:
        `readBus i nb` / `readClient i nb beh ; beh …`, expected = number of messages completed, bytes left on the
        wire, and the effects of the whole read in the model's order (inv* exec* sent* done*; fwd* drop*)."""
        lines, expect = self.lines[mark:], self.expect[mark:]
        del self.lines[mark:]
        del self.expect[mark:]
        head_l, head_e, behs, outs, odd = [], [], [], [], []
        for ln, ex in zip(lines, expect):
            if ln.startswith('unenc '):
                head_l.append(ln)
                head_e.append(ex)
            elif ln.startswith('toBus '):
                outs.append(ex)
            elif ln.startswith('toClient '):
                behs.append(ln.split(' ', 2)[2])
                outs.append(ex)
            else:
                odd.append((ln, ex))
        self.lines += head_l
        self.expect += head_e
        pipe = self.net.links[i].c2b if direction == 'c2b' else self.net.links[i].b2c
        left = len(pipe.buf)
        nb += self.hs_pending.pop((i, direction), 0)      # the model's first read on this link: handshake and bytes in one
        if direction == 'c2b':
            self.lines.append('readBus %d %d' % (i, nb))
            fwd = [o for o in outs if o.startswith('fwd ')]
            drp = [o for o in outs if o.startswith('drop ')]
            rest = [o for o in outs if not (o.startswith('fwd ') or o.startswith('drop '))]
            self.expect.append(' '.join(['read %d wire=%d' % (len(outs), left)] + fwd + drp + rest))
        else:
            self.lines.append(' '.join(['readClient %d %d' % (i, nb)] + [' ; '.join(behs)]).strip())
            buckets = {'inv(': [], 'exec(': [], 'sent(': [], 'done(': [], '?': []}
            for o in outs:
                toks = o.split(' ')
                if toks[:1] == ['recv']:
                    toks = toks[2:]
                for t in toks:
                    for k_ in ('inv(', 'exec(', 'sent(', 'done('):
                        if t.startswith(k_):
                            buckets[k_].append(t)
                            break
                    else:
                        buckets['?'].append(t)
                self.accumulate(i, o)
            self.expect.append(' '.join(['read %d wire=%d' % (len(outs), left)] + buckets['inv('] + buckets['exec('] +
                                        buckets['sent('] + buckets['done('] + buckets['?']))
        for ln, ex in odd:
            self.lines.append(ln)
            self.expect.append(ex)

    def do_drain(self):
        """Finish the run by the canonical draining schedule of the model (`drain`, Net/Bytes.lean), performed here on
        the REAL network: lowest client index first - the bus reads everything that client wrote, else the client
        reads everything written to it, else its oldest Deferred fires with its planned result.  (Only used for
        scenarios whose exported methods all return Deferreds: `drain` lets every invocation return one.)  The model
        gets one `drain` line; what it did is compared step by step (`B<c>:<k>`, …) and through the final `logs`."""
        net = self.net
        self.open_links()
        steps = []
        fire = []
        guard = 0
        while guard < 2000:
            guard += 1
            for j in range(len(net.links)):
                ln = net.links[j]
                if ln.dead:
                    continue
                pending = sorted(a[2] for a in self.actions if a[0] == 'resolve' and a[1] == j)
                mark = len(self.lines)
                if ln.c2b.buf:
                    k = net.deliver(j, 'c2b', len(ln.c2b.buf))
                    steps.append('B%d:%d' % (j, k))
                    self.track(self.absorb(('deliver', j, 'c2b')))
                elif ln.b2c.buf:
                    k = net.deliver(j, 'b2c', len(ln.b2c.buf))
                    steps.append('C%d:%d' % (j, k))
                    self.track(self.absorb(('deliver', j, 'b2c')))
                elif pending:
                    t = pending[0]
                    self.actions.remove(('resolve', j, t))
                    self.do_resolve(j, t)
                    steps.append('R%d:%d' % (j, t))
                else:
                    continue
                # the message-level lines of this step are not sent to the model: `drain` does the step itself
                for ln_, ex in zip(self.lines[mark:], self.expect[mark:]):
                    if ln_.startswith('unenc '):
                        fire.append((ln_, ex))
                    elif ln_.startswith('resolve '):
                        fire.append(('fire ' + ln_.split(' ', 1)[1], 'ok'))
                        self.accumulate(j, ex)
                    else:
                        self.accumulate(j, ex)
                del self.lines[mark:]
                del self.expect[mark:]
                break
            else:
                break
        mark = len(self.lines)
        for ln_, ex in fire:
            self.lines.append(ln_)
            self.expect.append(ex)
        self.drained = True
        self.lines.append('drain %d' % (len(steps) + 5))
        self.expect.append(' '.join(['drained'] + steps + ['q=yes']))
        self.codec_lines(mark)

    # -------------------------------------------------------------- oracle (implementation only)
    def track(self, entries):
        """Remember, per issued call, what the implementation did with it."""
        cur = None
        for e in entries:
            if e[0] == 'recv':
                cur = e
            elif e[0] == 'inv' and cur is not None and cur[2].get('t') == 'call':
                m = cur[2]
                for k, call in enumerate(self.calls):
                    spec = self.scn['exports'][call['export']]
                    if (call.get('sent') and m['serial'] == call['serial'] and m['sender'] == self.name_of[call['caller']]
                            and e[1] == 'cli:%d' % spec['client']):
                        call.setdefault('invocations', []).append(e[2])
            elif e[0] == 'done' and e[3] in ('ok', 'fail'):
                self.calls[e[2]].setdefault('completions', []).append((e[3], e[4]))

    def flag(self, key, what, observed=None, expected=None):
        if self.catch_all and self.spy_unicast:
            # the failure goes back to the bus handing unicast messages to a rule holder (C14's repair 8a90657)
            key = 'c14-' + key
            what = what + ' [a third client holding a catch-all match rule received %d unicast messages]' % self.spy_unicast
        self.problems.append((key, what, observed, expected))

    def oracle(self):
        from txdbus import error
        net = self.net
        if net.crashes:
            where = net.crashes[0][0]
            if self.saw_unparsable:
                self.flag('unparsable-message-on-the-wire',
                          'a peer wrote a message that does not parse (%s raised %s: %s)'
                          % (where, net.crashes[0][1], net.crashes[0][2]), observed=[list(c) for c in net.crashes],
                          expected='every message a txdbus peer writes parses')
            elif where.startswith('bus:'):
                self.flag('bus-reencode-crash',
                          'the bus raised %s while forwarding a message its sender had encoded: %s'
                          % (net.crashes[0][1], net.crashes[0][2]), observed=[list(c) for c in net.crashes],
                          expected='the message is forwarded unchanged')
            else:
                self.flag('client-crash', 'a client raised %s in dataReceived: %s' % (net.crashes[0][1], net.crashes[0][2]),
                          observed=[list(c) for c in net.crashes], expected='no exception')
            # (no early return: the calls are judged one by one as well)
        for k, call in enumerate(self.calls):
            if call['how'] in ('introspect', 'byname') and 'proxy' not in call:
                self.flag('introspection-failed', 'getRemoteObject(busName, path) did not produce a proxy',
                          observed=repr(call.get('proxy_error')), expected='a proxy')
                continue
            if call.get('refuse'):
                if call.get('sent'):
                    self.flag('proxy-accepts-undeclared-method',
                              'the proxy sent a call for %s (interface= %r) although no listed interface selected by '
                              'the keyword has that member' % (call['member'], call['kw']),
                              observed=call.get('issue'), expected='AttributeError')
                continue
            if not call.get('sent'):
                if (not call['wrong'] and not call['bad_args'] and call.get('requested')
                        and call.get('issue') in ('attributeError', 'typeError', 'encodeError')):
                    self.flag('proxy-refuses-declared-method',
                              'the proxy obtained with interfaces=%r raised/failed locally (%s) for %s.%s: the interface '
                              'was requested, the remote object implements it, and the arguments fit its declared '
                              'signature; the proxy lists only %r'
                              % (call['ifarg']['items'], call['issue'], call['iface'], call['member'],
                                 [i.name for i in call['proxy'].interfaces]),
                              observed=call['issue'], expected='the call is sent')
                elif (not call['wrong'] and not call['bad_args']
                        and call.get('issue') in ('attributeError', 'typeError', 'encodeError')):
                    self.flag('proxy-refuses-declared-method',
                              'the proxy raised/failed locally (%s) for %s.%s, a method of the declared interface '
                              'called with arguments of its declared signature' % (call['issue'], call['iface'], call['member']),
                              observed=call['issue'], expected='the call is sent')
                continue
            comps = call.get('completions', [])
            invs = call.get('invocations', [])
            if len(comps) == 0:
                self.flag('call-not-completed', 'a proxy call never completed although the network is quiet',
                          observed='no completion', expected='one completion')
                continue
            if len(comps) > 1:
                self.flag('completed-twice', 'a proxy call completed %d times' % len(comps))
                continue
            if call.get('expired'):
                # its deadline passed while it was pending: TimeOut, once; the late reply must be ignored (judged
                # through the OTHER calls of that connection, which must still complete with their values)
                from txdbus import error as _e
                if comps[0][0] != 'fail' or not isinstance(comps[0][1].value, _e.TimeOut):
                    self.flag('result-differs', 'a call whose deadline passed completed otherwise: %s'
                              % self.outcome_text(*comps[0]), observed=self.outcome_text(*comps[0]), expected='TimeOut')
                continue
            if call['wrong']:
                continue            # deliberately wrong declaration: nothing more is demanded
            spec = self.scn['exports'][call['export']]
            if len(invs) != 1:
                self.flag('invocation-count', 'the exported method ran %d times for one proxy call' % len(invs),
                          observed=len(invs), expected=1)
                continue
            rec = invs[0]
            if rec.get('self_export', call['export']) != call['export']:
                other = self.scn['exports'][rec['self_export']]
                self.flag('wrong-instance-invoked',
                          'the call went to the object at %s of client %d, but the method ran on ANOTHER instance of the '
                          'same class: the one exported at %s of client %d' % (spec['path'], spec['client'],
                                                                              other['path'], other['client']),
                          observed=[other['client'], other['path']], expected=[spec['client'], spec['path']])
                continue
            bound = doc_bound(self.layouts[call['export']], call.get('chosen_iface'), call['member'])
            if rec['impl'] != bound:
                self.flag('wrong-method-invoked',
                          'the exporter ran function %d (written for %s.%s) for a proxy call of %s.%s; the documented '
                          'binding order gives function %r' % (rec['impl'], rec['iface'], rec['member'],
                                                               call.get('chosen_iface'), call['member'], bound),
                          observed=rec['impl'], expected=bound)
                continue
            if rec['iface'] != call.get('chosen_iface'):
                # documented quirk: a plain dbus_<member> written for another interface serves this one too; what it
                # returns is typed for its own declaration - nothing more is demanded
                continue
            sent_args = [wire_norm(valcodec.from_line(a)) for a in call['args']]
            if not py_equal(sent_args, [wire_norm(a) for a in rec['args']]):
                self.flag('args-differ', 'the exported method received arguments different from those passed to the proxy',
                          observed=repr(rec['args']), expected=repr(sent_args))
                continue
            # (dbusCaller is compared by the correspondence check only: the sender stamp is C14's statement)
            kind, val = comps[0]
            res = rec.get('result')
            if res is None:
                continue            # a relay whose nested call never completed: that call is judged on its own
            if res[0] == 'value':
                ret = res[1]
                if rec['kind'] == 'bad-return' and isinstance(ret, list) and rec['sigOut'] and rec['sigOut'][0] in 'sixoy':
                    continue        # the method broke its own declaration: nothing is demanded
                nret = rec['nret']
                if nret == 0:
                    want = None
                elif nret == 1:
                    want = wire_norm(ret)
                    if rec['sigOut'][0] == '(':
                        want = [want]     # upstream-tested convention: a single struct comes back wrapped
                else:
                    want = [wire_norm(x) for x in ret]
                if kind != 'ok':
                    self.flag('result-differs', 'the method returned a value but the proxy call failed: %s'
                              % self.outcome_text(kind, val), observed=self.outcome_text(kind, val), expected=repr(want))
                elif not py_equal(want, val):
                    self.flag('result-differs', 'the proxy call completed with a value different from what the method returned',
                              observed=repr(val), expected=repr(want))
            else:
                if res[1].startswith('@'):
                    name, cname = rec.get('exc_dbus'), res[1][1:]
                else:
                    name, cname = getattr(EXC_CLASSES[res[1]], 'dbusErrorName', None), res[1]
                if name in INVALID_NAMES:
                    # an invalid error name cannot be mirrored (InvalidErrorName is the documented answer), but the call
                    # must complete with a RemoteError all the same - also when the name is not even a DBus string
                    if kind != 'fail' or not isinstance(val.value, error.RemoteError):
                        self.flag('error-not-mirrored', 'the method raised (invalid error name) but the proxy call did '
                                  'not fail with RemoteError', observed=self.outcome_text(kind, val), expected='RemoteError')
                    continue
                want_name = name or 'org.txdbus.PythonException.' + cname
                if kind != 'fail' or not isinstance(val.value, error.RemoteError):
                    self.flag('error-not-mirrored', 'the method raised but the proxy call did not fail with RemoteError',
                              observed=self.outcome_text(kind, val), expected=want_name)
                elif val.value.errName != want_name or val.value.message != escaped(res[2]):
                    self.flag('error-not-mirrored', 'the RemoteError does not mirror the raised exception',
                              observed=[val.value.errName, val.value.message], expected=[want_name, escaped(res[2])])


# ============================================================================ enumeration / comparison
def exhaustive_runs(scn, limit, deadline=None):
    """All message-granular schedules of a scenario (stateless DFS).  When there are more than `limit`, the DFS -
    which backtracks from the LAST choice and so varies only the tail - is stopped at limit/2 and the other half
    is spent on uniformly random message-granular schedules, which vary the early choices as well."""
    prefix = []
    runs = []
    complete = True
    seen = set()
    while True:
        ch = Chooser(prefix, lambda opts: (0, None))
        r = Run(scn, ch, message_granular=True)
        r.execute()
        runs.append(r)
        seen.add(tuple(x[0] for x in ch.taken))
        taken, counts = ch.taken, ch.counts
        p = len(taken) - 1
        while p >= 0 and taken[p][0] + 1 >= counts[p]:
            p -= 1
        if p < 0:
            break
        if len(runs) >= max(1, limit // 2) or (deadline is not None and time.time() > deadline):
            complete = False
            break
        prefix = [list(x) for x in taken[:p]] + [[taken[p][0] + 1, None]]
    if not complete:
        rng = random.Random('dfs-cut/%r' % (scn['vseed'],))
        tries = 0
        while len(runs) < limit and tries < limit and not (deadline is not None and time.time() > deadline):
            tries += 1
            ch = Chooser([], lambda opts: (rng.randrange(len(opts)), None))
            r = Run(scn, ch, message_granular=True)
            r.execute()
            key = tuple(x[0] for x in ch.taken)
            if key in seen:
                continue
            seen.add(key)
            runs.append(r)
    return runs, complete


def random_run(scn, seed, granular=False, catch_all=False, advance=0, bytes_mode=False, drain_tail=None,
               hs_mode=False, shared_tables=False):
    rng = random.Random('sched/%r' % (seed,))

    def fresh(opts):
        # favour deliveries slightly less than application actions early on, so that calls overlap
        ws = [3 if o[0] == 'app' else (advance if o[0] == 'advance' else 2) for o in opts]
        idx = rng.choices(range(len(opts)), weights=ws)[0]
        mode = rng.random()
        if mode < 0.3:
            nb = None
        elif mode < 0.5:
            nb = 1
        elif mode < 0.8:
            nb = rng.randint(1, 40)
        elif mode < 0.9:
            nb = rng.randint(1, 400)
        else:
            nb = 10**9
        return idx, nb
    ch = Chooser([], fresh, coin_rng=rng)
    r = Run(scn, ch, message_granular=granular, catch_all=catch_all, advance=advance > 0, bytes_mode=bytes_mode,
            drain_tail=drain_tail, hs_mode=hs_mode, shared_tables=shared_tables)
    r.execute()
    return r


def replay_run(scn, choices, granular, advance=False, bytes_mode=False, drain_tail=None, hs_mode=False,
               shared_tables=False):
    ch = Chooser(choices, lambda opts: (0, None))
    r = Run(scn, ch, message_granular=granular, advance=advance, bytes_mode=bytes_mode, drain_tail=drain_tail,
            hs_mode=hs_mode, shared_tables=shared_tables)
    r.execute()
    return r


def report(ctx, stream, runs):
    """Feed the induced schedules to the model and report disagreements, violations and statistics."""
    lines = []
    for r in runs:
        lines += r.lines
    out = ctx.model(lines)
    pos = 0
    for r in runs:
        inp = {'scenario': r.scn, 'choices': r.chooser.taken, 'granular': r.granular, 'advance': r.advance}
        if r.shared_tables:
            inp['shared_tables'] = True
        ctx.stat('tables=' + ('one-process' if r.shared_tables else 'per-peer'))
        if any(e.get('same_class_as') is not None for e in r.scn['exports']):
            tw = [e for e in r.scn['exports'] if e.get('same_class_as') is not None][0]
            ctx.stat('one-class-two-exports=' + ('two-clients' if tw['client'] != r.scn['exports'][tw['same_class_as']]['client']
                                                 else 'one-client'))
        if r.bytes_mode:
            inp['bytes_mode'] = True
            inp['drain_tail'] = r.drain_tail
            inp['hs_mode'] = r.hs_mode
            ctx.stat('byte-level-start=' + ('before-the-end-of-the-handshake' if r.hs_mode else 'after-the-handshake'))
            ctx.stat('byte-level-run=' + ('drain-tail' if r.drain_tail else 'to-the-end'))
            ctx.stat('drained-by-canonical-schedule=%s' % getattr(r, 'drained', False))
        ctx.case(stream, sample={'scenario': r.scn, 'schedule': ''.join(r.steps)}, nontrivial=r.invoked > 0)
        ctx.impl_trace()
        ctx.stat('clients=%d' % r.scn['n'])
        ctx.stat('calls=%d' % len(r.scn['calls']))
        ctx.stat('msgsteps=%d' % min(40, 10 * (len(r.steps) // 10)))
        for e in r.scn['exports']:
            ctx.stat('layout=' + e.get('layout', 'plain'))
        ctx.stat('big-endian-peers=%d' % len(r.scn.get('big_endian', [])))
        for c in r.calls:
            ctx.stat('proxy=' + c['how'] + ('-wrong' if c['wrong'] else '') + ('-reused' if c.get('reuse') is not None else ''))
            if c.get('ifarg'):
                ia = c['ifarg']
                kinds = ''.join('I' if k_ == 'inst' else ('K' if nm in ia.get('declare', []) or nm == PROPERTIES else 'U')
                                for k_, nm in ia['items'])
                ctx.stat('interfaces=%s:%s' % (ia['form'], kinds if len(kinds) <= 3 else kinds[:3] + '+'))
                ctx.stat('getproxy=' + ('built-locally' if c.get('cached') else 'introspected'))
            if c.get('dest_name'):
                ctx.stat('destination=well-known-name')
            if c.get('timeout'):
                ctx.stat('timeout=given')
            if c.get('expired'):
                ctx.stat('timeout=deadline-passed')
            if c.get('refuse'):
                ctx.stat('refuse=' + c['refuse'])
            ctx.stat('issue=' + str(c.get('issue', '?')).split(' ')[0])
            for iv in c.get('invocations', []):
                ctx.stat('behaviour=' + iv['kind'])
                ctx.stat('sigOut=' + (iv['sigOut'] or "''"))
        if out is not None:
            mine = out[pos:pos + len(r.lines)]
            pos += len(r.lines)
            for ln, m, e in zip(r.lines, mine, r.expect):
                if m != e:
                    ctx.disagree(stream, inp, m, e, detail={'line': ln})
                    break
        for key, what, observed, expected in r.problems:
            ctx.violation(key, what, inp=inp, observed=observed, expected=expected)


def run(ctx):
    rng = ctx.rng
    # ---- corpus first
    runs = []
    for name, case in ctx.corpus():
        inp = case.get('input', case)
        runs.append(replay_run(inp['scenario'], inp.get('choices', []), inp.get('granular', True), inp.get('advance', False),
                               bytes_mode=inp.get('bytes_mode', False), drain_tail=inp.get('drain_tail'),
                   hs_mode=inp.get('hs_mode', False), shared_tables=inp.get('shared_tables', False)))
    if runs:
        report(ctx, 'net-corpus', runs)
    else:
        ctx.streams_run.add('net-corpus')
    # ---- exhaustive interleavings of the smallest scenarios
    n_small = ctx.scale(quick=5, thorough=20)
    cap = ctx.scale(quick=250, thorough=1200)
    all_complete = True
    for _ in range(n_small):
        scn = gen_scenario(rng, small=True)
        rs, complete = exhaustive_runs(scn, cap, deadline=ctx.t0 + (12 if ctx.tier == 'quick' else 330))
        all_complete = all_complete and complete
        ctx.stat('exhaustive-schedules=%d' % min(1000, 50 * (len(rs) // 50)))
        ctx.stat('exhaustive-enumeration=' + ('complete' if complete else 'truncated'))
        report(ctx, 'net-exhaustive', rs)
        if ctx.elapsed() > (7 if ctx.tier == 'quick' else 300):
            ctx.note('exhaustive stream stopped early (time)')
            break
    ctx.note('exhaustive interleavings complete for every small scenario: %s' % all_complete)
    # ---- random scenarios, random schedules, arbitrary byte-level read splitting
    n_rand = ctx.scale(quick=220, thorough=2500)
    batch = []
    for k in range(n_rand):
        scn = gen_scenario(rng)
        batch.append(random_run(scn, (ctx.seed, k, rng.random())))
        if len(batch) >= 100:
            report(ctx, 'net-random', batch)
            batch = []
    if batch:
        report(ctx, 'net-random', batch)
    # ---- two revisions of one interface name on two exporters; explicit proxy after an introspection
    batch = []
    for k in range(ctx.scale(quick=40, thorough=400)):
        scn = gen_revision_scenario(rng)
        batch.append(random_run(scn, (ctx.seed, 'rev', k, rng.random())))
    report(ctx, 'net-revisions', batch)
    # ---- deadlines: the clock may pass the deadline of a `timeout=` call while other calls are in flight
    batch = []
    for k in range(ctx.scale(quick=60, thorough=500)):
        scn = gen_deadline_scenario(rng) if k % 3 else gen_scenario(rng)
        batch.append(random_run(scn, (ctx.seed, 'dl', k, rng.random()), advance=2))
    report(ctx, 'net-deadlines', batch)
    # ---- state shared between exports / connections (STATE_AUDIT G5, G13): one exporter CLASS instantiated twice (two
    # clients, or two paths of one client), both instances called; half of the runs with all clients as connections of
    # ONE process (one serial counter, one knownInterfaces table)
    batch = []
    for k in range(ctx.scale(quick=50, thorough=500)):
        scn = share_class(gen_scenario(rng), rng) if k % 4 != 3 else gen_scenario(rng)
        batch.append(random_run(scn, (ctx.seed, 'shared', k, rng.random()), shared_tables=(k % 2 == 1)))
    report(ctx, 'net-shared', batch)
    # ---- sequences of calls on ONE proxy, default and `interface=` calls of a method name several interfaces share
    batch = []
    for k in range(ctx.scale(quick=50, thorough=500)):
        scn = gen_sameproxy_scenario(rng)
        batch.append(random_run(scn, (ctx.seed, 'same', k, rng.random())))
    report(ctx, 'net-sameproxy', batch)
    # ---- the BYTE-level model (`brun`: bstep, flush, busHandle, cliHandleAll, BNet.init, drain, pick) against the real
    # network: every delivery is one `readBus` / `readClient` with the real number of bytes, the codec is the table of
    # the bytes the real peers wrote; a third of the runs end by the canonical draining schedule
    batch = []
    for k in range(ctx.scale(quick=70, thorough=700)):
        if k % 3 == 2:
            scn = gen_drain_scenario(rng)
            batch.append(random_run(scn, (ctx.seed, 'drain', k, rng.random()), bytes_mode=True, drain_tail=0.25,
                                    hs_mode=(k % 2 == 0)))
        else:
            scn = bytes_scenario(rng)
            batch.append(random_run(scn, (ctx.seed, 'bytes', k, rng.random()), bytes_mode=True, hs_mode=(k % 2 == 0)))
    report(ctx, 'bytes-net', batch)
    # ---- the same with a third party holding a catch-all match rule
    batch = []
    for k in range(ctx.scale(quick=40, thorough=400)):
        scn = gen_scenario(rng)
        batch.append(random_run(scn, (ctx.seed, 'spy', k, rng.random()), catch_all=True))
    report(ctx, 'net-spy', batch)


def replay(ctx, data):
    inp = data.get('input')
    if inp is None:
        # a 'no-failing-input-found' replay: re-run the first disagreeing input it names, if any
        for b in data.get('broken_obligations', []):
            det = b.get('detail')
            if isinstance(det, dict) and isinstance(det.get('input'), dict) and 'scenario' in det['input']:
                inp = det['input']
                break
    if inp is None:
        ctx.note('replay file names no input (a theorem/build obligation): nothing to re-run')
        return
    r = replay_run(inp['scenario'], inp.get('choices', []), inp.get('granular', True), inp.get('advance', False),
                   bytes_mode=inp.get('bytes_mode', False), drain_tail=inp.get('drain_tail'),
                   hs_mode=inp.get('hs_mode', False), shared_tables=inp.get('shared_tables', False))
    report(ctx, 'net-corpus', [r])
