"""C10 helper - reach txdbus internals THROUGH PUBLIC BEHAVIOUR (ROBUSTNESS_BRIEF addendum "private names").

Used by harness/c10.py and tools/tables/c10_dispatch.py.  Every private (leading underscore, not pinned by
/repo/tests or /repo/doc) name the C10 machinery would like to use has the private name as the FAST PATH and a
locator that finds the same thing by what it does; `notes` (a list) receives one sentence whenever a fallback
was taken.  A LocatorError is the harness's own failure to reach an internal - never a property violation.

  call_bytes        the bytes of a METHOD_CALL with a chosen serial, sender and flags byte.  Fast path: the public
                    constructor `MethodCallMessage(...)`, then serial / sender set and the message re-marshalled with
                    `_marshal(newSerial=False)`; fallback 1: the re-marshal entry point located by its signature
                    (first parameter defaults to True = "new serial", see harness/c03_probe.forward_call); fallback 2:
                    the bytes written from the DBus specification with the public `marshal.marshal` (header
                    'yyyyuua(yv)', field codes 1 path, 2 interface, 3 member, 6 destination, 7 sender, 8 signature),
                    accepted only if the tree's own `parseMessage` reads back the fields that were put in.
  deco_of_library   (interface, member) a LIBRARY function was decorated with by `@dbusMethod`: fast path the
                    attributes `_dbusInterface` / `_dbusMethod`; fallback: decorate a dummy with marker strings and see
                    which attributes carry them.
  exports_of        the path -> object mapping of a DBusObjectHandler: `exports`, else the one dict among `vars()` whose
                    keys are the exported paths.
  managed_objects   the body of a GetManagedObjects reply for a path: `getManagedObjects`, else rebuilt from the public
                    IDBusObject API (`getInterfaces`, `getAllProperties`) over the exported paths below it.
  nret_of           number of complete types of a Method's return signature: the attribute `nret`, else counted with
                    the public `marshal.genCompleteTypes`.
"""
import inspect


class LocatorError(Exception):
    pass


def _note(notes, text):
    if notes is not None and text not in notes:
        notes.append(text)


# ----------------------------------------------------------------------------- call bytes
_REMARSHAL = {}


def _remarshal_entry(message):
    """(method name, new-serial parameter name) of the re-marshal entry point, or None."""
    key = id(message)
    if key in _REMARSHAL:
        return _REMARSHAL[key]
    found = None
    base = message.DBusMessage
    f = getattr(base, '_marshal', None)
    if callable(f):
        try:
            ps = list(inspect.signature(f).parameters.values())[1:]
            if ps and ps[0].default is True:
                found = ('_marshal', ps[0].name)
        except (TypeError, ValueError):
            pass
    if found is None:
        for name, f in vars(base).items():
            if not callable(f):
                continue
            try:
                ps = list(inspect.signature(f).parameters.values())[1:]
            except (TypeError, ValueError):
                continue
            if ps and ps[0].default is True and isinstance(ps[0].default, bool):
                found = (name, ps[0].name)
                break
    _REMARSHAL[key] = found
    return found


def _spec_call_bytes(marshal, path, member, iface, destination, sender, signature, body, flags, serial):
    fields = [[1, marshal.ObjectPath(path)], [3, member]]
    if iface is not None:
        fields.insert(1, [2, iface])
    if destination is not None:
        fields.append([6, destination])
    if sender is not None:
        fields.append([7, sender])
    bin_body = b''
    if signature:
        bin_body = b''.join(marshal.marshal(signature, body)[1])
    if signature is not None:
        fields.append([8, marshal.Signature(signature)])
    hdr = b''.join(marshal.marshal('yyyyuua(yv)', [ord('l'), 1, flags, 1, len(bin_body), serial, fields], 0, True)[1])
    return hdr + b'\0' * ((-len(hdr)) % 8) + bin_body


def call_bytes(message, marshal, path, member, iface=None, destination=':1.1', sender=None, signature=None, body=None,
               expect_reply=True, auto_start=True, flag4=False, serial=1, notes=None):
    """Bytes of a METHOD_CALL; the flags byte carries all three low bits as asked."""
    flags = (0 if expect_reply else 1) | (0 if auto_start else 2) | (4 if flag4 else 0)
    raw = None
    entry = _remarshal_entry(message)
    # the serial counter is process-wide; leave it as it was found (constructing a message advances it)
    counters = {n: v for n, v in vars(message.DBusMessage).items() if isinstance(v, int) and not isinstance(v, bool)}
    try:
        if entry is not None:
            try:
                m = message.MethodCallMessage(path, member, interface=iface, destination=destination,
                                              signature=signature, body=body if signature else None,
                                              expectReply=expect_reply, autoStart=auto_start)
                m.serial = serial
                if sender is not None:
                    m.sender = sender
                getattr(m, entry[0])(**{entry[1]: False})
                raw = bytearray(m.rawMessage)
                if entry[0] != '_marshal':
                    _note(notes, 'DBusMessage._marshal is gone: the re-marshal entry point %r was located by its signature'
                          % entry[0])
            except (AttributeError, TypeError):
                raw = None
        if raw is None:
            raw = bytearray(_spec_call_bytes(marshal, path, member, iface, destination, sender, signature, body,
                                             flags & 3, serial))
            _note(notes, 'no re-marshal entry point found on DBusMessage: call bytes are written from the DBus '
                         'specification with the public marshal.marshal')
    finally:
        for n, v in counters.items():
            if isinstance(getattr(message.DBusMessage, n, None), int):
                setattr(message.DBusMessage, n, v)
    if flag4:
        raw[2] |= 0x4
    if raw[2] != flags:
        raise LocatorError('call bytes carry flags %d, wanted %d' % (raw[2], flags))
    back = message.parseMessage(bytes(raw), [])
    got = (getattr(back, 'path', None), getattr(back, 'member', None), getattr(back, 'interface', None),
           getattr(back, 'sender', None), back.serial, getattr(back, 'signature', None) or None)
    want = (path, member, iface, sender, serial, signature or None)
    if got != want:
        raise LocatorError('the call bytes do not parse back to what was put in: %r vs %r' % (got, want))
    return bytes(raw)


# ----------------------------------------------------------------------------- decorator attributes
_DECO = {}


def _deco_attr_names(objects, notes=None):
    key = id(objects)
    if key in _DECO:
        return _DECO[key]

    def probe():
        pass
    g = objects.dbusMethod('zq7.Mark.Iface', 'Zq7MarkMember')(probe)
    names = None
    if getattr(g, '_dbusInterface', None) == 'zq7.Mark.Iface' and getattr(g, '_dbusMethod', None) == 'Zq7MarkMember':
        names = ('_dbusInterface', '_dbusMethod')
    else:
        d = {k: v for k, v in vars(g).items() if isinstance(v, str)}
        i = [k for k, v in d.items() if v == 'zq7.Mark.Iface']
        m = [k for k, v in d.items() if v == 'Zq7MarkMember']
        if len(i) == 1 and len(m) == 1:
            names = (i[0], m[0])
            _note(notes, '@dbusMethod no longer stores _dbusInterface/_dbusMethod: the attributes %r were found by '
                         'decorating a dummy' % (names,))
    _DECO[key] = names
    return names


def deco_of_library(objects, f, notes=None):
    names = _deco_attr_names(objects, notes)
    if names is None:
        return None
    if hasattr(f, names[0]) and hasattr(f, names[1]):
        return (getattr(f, names[0]), getattr(f, names[1]))
    return None


# ----------------------------------------------------------------------------- handler state
def exports_of(handler, notes=None):
    d = getattr(handler, 'exports', None)
    if isinstance(d, dict):
        return d
    cands = [v for v in vars(handler).values() if isinstance(v, dict)
             and all(isinstance(k, str) and k.startswith('/') and hasattr(o, 'getObjectPath') for k, o in v.items())]
    cands = [v for v in cands if v] or cands
    if len(cands) == 1:
        _note(notes, 'DBusObjectHandler.exports is gone: the path -> object mapping was found among vars(handler)')
        return cands[0]
    raise LocatorError('cannot find the exports mapping of the handler')


def managed_objects(handler, path, notes=None):
    f = getattr(handler, 'getManagedObjects', None)
    if callable(f):
        return f(path)
    _note(notes, 'DBusObjectHandler.getManagedObjects is gone: the reply body is rebuilt from getInterfaces / '
                 'getAllProperties of the exported objects below the path')
    out = {}
    ex = exports_of(handler, notes)
    prefix = path if path.endswith('/') else path + '/'
    for p in sorted(ex):
        if p.startswith(prefix) and p != path:
            out[p] = {i.name: ex[p].getAllProperties(i.name) for i in ex[p].getInterfaces()}
    return out


def nret_of(marshal, method):
    n = getattr(method, 'nret', None)
    if isinstance(n, int) and n >= 0:
        return n
    return len(list(marshal.genCompleteTypes(method.sigOut or '')))
