"""C03 helper - locate message.py's private tables THROUGH PUBLIC BEHAVIOUR (ROBUSTNESS_BRIEF addendum "private names").

Used by tools/tables/c03_message.py (and the mentions of the same tables in c04_proto / c05_wire / c20_fds) and by
harness/c03.py.  Every function takes the imported modules of the tree under test; the private name is the fast path
and, when it exists, is CROSS-CHECKED against the probe (a disagreement is a ProbeError: the table would be wrong);
when it does not exist the probe alone answers and an advisory sentence is appended to `advisories`.

  header_signature   the signature the fixed header + field array is marshalled with: a module-level str under which a
                     message's own bytes decode to its (byte order, type, flags, version, body length, serial, fields) and
                     re-encode to the same bytes
  class_by_type      message type code -> class: parseMessage of a minimal message with each type byte 0..255
  field_by_code      header field code -> attribute name: parseMessage of a message carrying one field of each code
                     0..255 and the attribute that appears
  header_attrs       a class's (attribute, code, required) rows: `_headerAttrs` (any sequence of 3-sequences), else the
                     header array of a message constructed with every keyword
  serial_counter     where the process-wide serial counter lives: the integer class attribute that a construction advances
  forward_call       the bus's re-marshal entry point: the method of DBusMessage taking (newSerial=True, ..., <body bytes>=None)
Public names used: the four message classes and their constructor keywords, parseMessage, rawMessage, serial,
`_messageType` (pinned by tests/test_message.py), marshal.marshal / marshal.unmarshal.
"""
import inspect

ATTR_NAMES = ['path', 'interface', 'member', 'error_name', 'reply_serial', 'destination', 'sender', 'signature', 'unix_fds']
CLASS_NAMES = ['MethodCallMessage', 'MethodReturnMessage', 'ErrorMessage', 'SignalMessage']
SPEC_HEADER_SIGNATURE = 'yyyyuua(yv)'          # a CANDIDATE only: accepted when the code's own bytes decode under it


class ProbeError(Exception):
    pass


def _restoring_counter(message, fn):
    loc = serial_counter(message, _quiet=True)
    saved = getattr(loc[0], loc[1]) if loc else None
    try:
        return fn()
    finally:
        if loc:
            setattr(loc[0], loc[1], saved)


_COUNTER = {}


def serial_counter(message, _quiet=False):
    """(owner class, attribute name) of the serial counter, or None."""
    key = id(message)
    if key in _COUNTER:
        return _COUNTER[key]
    base = message.DBusMessage
    found = None
    if isinstance(getattr(base, '_nextSerial', None), int) and not isinstance(base._nextSerial, bool):
        found = (base, '_nextSerial')
    else:
        before = {n: v for n, v in vars(base).items() if isinstance(v, int) and not isinstance(v, bool)}
        try:
            m = message.MethodReturnMessage(1)
            after = {n: v for n, v in vars(base).items() if isinstance(v, int) and not isinstance(v, bool)}
            cands = [n for n in after if n in before and after[n] == before[n] + 1 and before[n] == m.serial]
            if len(cands) == 1:
                found = (base, cands[0])
                setattr(base, cands[0], before[cands[0]])
        except Exception:
            found = None
    _COUNTER[key] = found
    return found


def sample(message):
    """A minimal constructed message (method return without optional fields); the counter is put back."""
    return _restoring_counter(message, lambda: message.MethodReturnMessage(1))


def _decodes(marshal, sig, m):
    raw = m.rawMessage
    try:
        n, vals = marshal.unmarshal(sig, raw, 0, True, [])
    except Exception:
        return False
    if not (isinstance(vals, list) and len(vals) == 7 and isinstance(vals[6], list)):
        return False
    if vals[0] != raw[0] or vals[1] != m._messageType or vals[5] != m.serial or vals[3] != raw[3]:
        return False
    if (n + (-n) % 8) + vals[4] != len(raw):
        return False
    try:
        again = b''.join(marshal.marshal(sig, [vals[0], vals[1], vals[2], vals[3], vals[4], vals[5],
                                               [[c, _retype(marshal, c, v)] for c, v in vals[6]]], 0, True)[1])
    except Exception:
        return False
    return again == raw[:n]


def _retype(marshal, code, v):
    # the sample is a method return: its only field is REPLY_SERIAL (a UINT32)
    return marshal.UInt32(v) if isinstance(v, int) and not isinstance(v, bool) else v


def header_signature(message, marshal, advisories=None):
    m = sample(message)
    fast = getattr(message, '_headerFormat', None)
    cands = sorted({v for v in vars(message).values() if isinstance(v, str) and 0 < len(v) < 64})
    good = [c for c in cands if _decodes(marshal, c, m)]
    if isinstance(fast, str):
        if not _decodes(marshal, fast, m):
            raise ProbeError('message._headerFormat = %r does not decode a message the module itself built' % (fast,))
        return fast
    if len(good) == 1:
        if advisories is not None:
            advisories.append('message._headerFormat is gone: header signature %r found by probing the module-level '
                              'strings against the bytes of a constructed message' % good[0])
        return good[0]
    if not good and _decodes(marshal, SPEC_HEADER_SIGNATURE, m):
        if advisories is not None:
            advisories.append('no module-level header signature found: the specification\'s %r decodes and re-encodes '
                              'the bytes of a constructed message' % SPEC_HEADER_SIGNATURE)
        return SPEC_HEADER_SIGNATURE
    raise ProbeError('cannot determine the header signature: candidates %r' % (good,))


def _craft(marshal, hsig, mtype, fields, flags=0, serial=1):
    hdr = b''.join(marshal.marshal(hsig, [ord('l'), mtype, flags, 1, 0, serial, fields], 0, True)[1])
    return hdr + b'\0' * ((-len(hdr)) % 8)


def class_by_type(message, marshal, hsig, advisories=None):
    """{type code: class} for every type byte parseMessage accepts."""
    out = {}
    for t in range(256):
        try:
            m = message.parseMessage(_craft(marshal, hsig, t, []), [])
        except Exception:
            continue
        out[t] = type(m)
    fast = getattr(message, '_mtype', None)
    if isinstance(fast, dict):
        if {k: v for k, v in fast.items()} != out:
            raise ProbeError('message._mtype %r disagrees with what parseMessage returns per type byte %r'
                             % (sorted(fast), sorted(out)))
    elif advisories is not None:
        advisories.append('message._mtype is gone: class per message type found by parsing a minimal message of each type byte')
    return out


def field_by_code(message, marshal, hsig, advisories=None):
    """{field code: attribute name} for every code whose field parseMessage stores on the message object."""
    base = vars(message.parseMessage(_craft(marshal, hsig, 2, []), []))
    out = {}
    for code in range(256):
        try:
            m = message.parseMessage(_craft(marshal, hsig, 2, [[code, '']]), [])
        except Exception:
            continue
        new = [n for n, v in vars(m).items() if v == '' and isinstance(v, str) and base.get(n, None) != '']
        if len(new) == 1:
            out[code] = new[0]
        elif len(new) > 1:
            raise ProbeError('header field %d sets several attributes: %r' % (code, new))
    fast = getattr(message, '_hcode', None)
    if isinstance(fast, dict):
        if dict(fast) != out:
            raise ProbeError('message._hcode %r disagrees with the attributes parseMessage sets %r' % (fast, out))
        return dict(fast)             # keeps the dict order of the source
    if advisories is not None:
        advisories.append('message._hcode is gone: attribute per header field code found by parsing a message carrying each code')
    return out


def header_attrs(message, marshal, hsig, clsname, fields=None, advisories=None):
    """[(attr, code, required)] of a class, in table order."""
    k = getattr(message, clsname)
    rows = getattr(k, '_headerAttrs', None)
    if isinstance(rows, (list, tuple)) and all(isinstance(r, (list, tuple)) and len(r) == 3 for r in rows):
        return [(r[0], r[1], bool(r[2])) for r in rows]
    # probe: the header array of a message built with every keyword of the constructor
    fields = fields or field_by_code(message, marshal, hsig)
    kw = {'path': '/a', 'member': 'm', 'interface': 'a.b', 'destination': ':1.1', 'signature': 'y', 'body': [1],
          'error_name': 'a.E', 'reply_serial': 1, 'sender': ':1.2'}
    params = [p for p in inspect.signature(k.__init__).parameters if p in kw]
    m = _restoring_counter(message, lambda: k(**{p: kw[p] for p in params}))
    how = 'a message built with every constructor keyword (attributes no keyword sets are not visible)'
    fwd = forward_call(message)
    if fwd:
        # every one of the nine attributes set on the object, then the re-marshal entry point (no new serial, body given):
        # the header array lists the rows of the class's table in table order
        for a, v in (('path', '/a'), ('interface', 'a.b'), ('member', 'm'), ('error_name', 'a.E'), ('reply_serial', 1),
                     ('destination', ':1.1'), ('sender', ':1.2'), ('signature', 'y'), ('unix_fds', 1)):
            setattr(m, a, v)
        try:
            getattr(m, fwd[0])(**{fwd[1]: False, fwd[2]: b'\x01'})
            how = 'an object with all nine attributes set, re-marshalled through %s()' % fwd[0]
        except Exception:
            pass
    n, vals = marshal.unmarshal(hsig, m.rawMessage, 0, True, [])
    out = [(fields[c], c, False) for c, _ in vals[6] if c in fields]
    if advisories is not None:
        advisories.append('%s._headerAttrs is gone: rows (attribute, code; the `required` column is not visible) read from '
                          'the header of %s' % (clsname, how))
    return out


def forward_call(message):
    """(method name, name of the new-serial parameter, name of the raw-body parameter) of the re-marshal entry point the
    bus uses for forwarding, or None."""
    for name, f in vars(message.DBusMessage).items():
        if not callable(f):
            continue
        try:
            ps = list(inspect.signature(f).parameters.values())[1:]
        except (TypeError, ValueError):
            continue
        if not ps or ps[0].default is not True:
            continue
        body = [p.name for p in ps if p.default is None and 'body' in p.name.lower()]
        if len(body) == 1:
            return name, ps[0].name, body[0]
    return None


def cut(raw):
    """(header, padding, body) of message bytes by the layout: 16 fixed bytes, array length word, padding to 8."""
    raw = bytes(raw)
    bo = 'little' if raw[:1] == b'l' else 'big'
    n = 16 + int.from_bytes(raw[12:16], bo)
    p = (-n) % 8
    return raw[:n], raw[n:n + p], raw[n + p:]


def raw_parts(m, raw=None):
    """(header, padding, body) of a constructed / parsed message: its attributes when it has them, else cut out of the
    message bytes (`m.rawMessage`, or `raw` for a parsed object)."""
    try:
        return bytes(m.rawHeader), bytes(m.rawPadding), bytes(m.rawBody)
    except (AttributeError, TypeError):
        return cut(raw if raw is not None else m.rawMessage)
