"""C03 helper - locate message.py's private tables THROUGH PUBLIC BEHAVIOUR (ROBUSTNESS_BRIEF addendum "private names").

Used by tools/tables/c03_message.py (and the mentions of the same tables in c04_proto / c05_wire / c20_fds) and by
harness/c03.py.  Every function takes the imported modules of the tree under test.  What is and what is not cross-checked:

  header_signature   the signature the fixed header + field array is marshalled with.  `_headerFormat` (fast path) must
                     decode AND re-encode the bytes of a message the module built; without the name: the one module-level
                     str that does, else the specification's `yyyyuua(yv)` if it does.  CROSS-CHECKED in every branch.
  class_by_type      message type code -> class: parseMessage of a VALID carrier message of each type byte 0..255 (the
                     required header fields of the type present; unknown types: none, else all of codes 1..5).
                     `_mtype`, when it exists, is CROSS-CHECKED: a type parsed into a different class, or accepted although
                     `_mtype` lacks it, is a ProbeError; a type of `_mtype` the probe could not get parsed (parseMessage
                     refused the carrier) is taken from `_mtype` with an advisory ("could not be cross-checked").
  field_by_code      header field code -> attribute name: parseMessage of a valid method return carrying one more field
                     of that code with the specification's type for the code and a valid, recognisable value (codes 1..9;
                     other codes: a STRING), and the attribute that takes the value (attributes read with getattr over the
                     nine documented names, `vars(m)` and `dir(m)` - not `vars` alone).  `_hcode` CROSS-CHECKED the same way.
  header_attrs       a class's (attribute, code, required) rows.  `_headerAttrs` (any sequence of 3-sequences) is read AS IT
                     IS - NOT cross-checked here (backstop: the `build` stream compares every header byte with the model
                     built from it).  Without the name: the header array of an object with all nine attributes set,
                     re-marshalled through the located entry point; the `required` column is then not visible and is
                     written as False (the model does not use it: `Tables.OK.required` looks at attribute membership only).
  serial_counter     where the process-wide serial counter lives: `_nextSerial` if it is an int, else the integer class
                     attribute that a construction advances (behavioural).
  forward_call       the bus's re-marshal entry point: the method of DBusMessage taking (newSerial=True, ..., <body bytes>=None)
                     (by signature shape; exercised by the `remarshal-parsed` stream).
No probe lets an exception of the code under test escape: every failure is a ProbeError (the translator turns it into a
TranslatorError that names the table) or, when a private name can answer instead, an advisory.
Public names used: the four message classes and their constructor keywords, parseMessage, rawMessage, serial,
`_messageType` (pinned by tests/test_message.py; cross-checked against byte 1 of a constructed message by the translator),
marshal.marshal / marshal.unmarshal and the wrapper classes ObjectPath / Signature / UInt32.
"""
import inspect

ATTR_NAMES = ['path', 'interface', 'member', 'error_name', 'reply_serial', 'destination', 'sender', 'signature', 'unix_fds']
CLASS_NAMES = ['MethodCallMessage', 'MethodReturnMessage', 'ErrorMessage', 'SignalMessage']
SPEC_HEADER_SIGNATURE = 'yyyyuua(yv)'          # a CANDIDATE only: accepted when the code's own bytes decode under it


class ProbeError(Exception):
    pass


def _restoring_counter(message, fn):
    loc = serial_counter(message, _quiet=True)
    saved = getattr(loc[0], loc[1]) if loc else None
    try:
        return fn()
    finally:
        if loc:
            setattr(loc[0], loc[1], saved)


_COUNTER = {}


def serial_counter(message, _quiet=False):
    """(owner class, attribute name) of the serial counter, or None."""
    key = id(message)
    if key in _COUNTER:
        return _COUNTER[key]
    base = message.DBusMessage
    found = None
    if isinstance(getattr(base, '_nextSerial', None), int) and not isinstance(base._nextSerial, bool):
        found = (base, '_nextSerial')
    else:
        before = {n: v for n, v in vars(base).items() if isinstance(v, int) and not isinstance(v, bool)}
        try:
            m = message.MethodReturnMessage(1)
            after = {n: v for n, v in vars(base).items() if isinstance(v, int) and not isinstance(v, bool)}
            cands = [n for n in after if n in before and after[n] == before[n] + 1 and before[n] == m.serial]
            if len(cands) == 1:
                found = (base, cands[0])
                setattr(base, cands[0], before[cands[0]])
        except Exception:
            found = None
    _COUNTER[key] = found
    return found


def sample(message):
    """A minimal constructed message (method return without optional fields); the counter is put back."""
    return _restoring_counter(message, lambda: message.MethodReturnMessage(1))


def _decodes(marshal, sig, m):
    raw = m.rawMessage
    try:
        n, vals = marshal.unmarshal(sig, raw, 0, True, [])
    except Exception:
        return False
    if not (isinstance(vals, list) and len(vals) == 7 and isinstance(vals[6], list)):
        return False
    if vals[0] != raw[0] or vals[1] != m._messageType or vals[5] != m.serial or vals[3] != raw[3]:
        return False
    if (n + (-n) % 8) + vals[4] != len(raw):
        return False
    try:
        again = b''.join(marshal.marshal(sig, [vals[0], vals[1], vals[2], vals[3], vals[4], vals[5],
                                               [[c, _retype(marshal, c, v)] for c, v in vals[6]]], 0, True)[1])
    except Exception:
        return False
    return again == raw[:n]


def _retype(marshal, code, v):
    # the sample is a method return: its only field is REPLY_SERIAL (a UINT32)
    return marshal.UInt32(v) if isinstance(v, int) and not isinstance(v, bool) else v


def header_signature(message, marshal, advisories=None):
    m = sample(message)
    fast = getattr(message, '_headerFormat', None)
    cands = sorted({v for v in vars(message).values() if isinstance(v, str) and 0 < len(v) < 64})
    good = [c for c in cands if _decodes(marshal, c, m)]
    if isinstance(fast, str):
        if not _decodes(marshal, fast, m):
            raise ProbeError('message._headerFormat = %r does not decode a message the module itself built' % (fast,))
        return fast
    if len(good) == 1:
        if advisories is not None:
            advisories.append('message._headerFormat is gone: header signature %r found by probing the module-level '
                              'strings against the bytes of a constructed message' % good[0])
        return good[0]
    if not good and _decodes(marshal, SPEC_HEADER_SIGNATURE, m):
        if advisories is not None:
            advisories.append('no module-level header signature found: the specification\'s %r decodes and re-encodes '
                              'the bytes of a constructed message' % SPEC_HEADER_SIGNATURE)
        return SPEC_HEADER_SIGNATURE
    raise ProbeError('cannot determine the header signature: candidates %r' % (good,))


def _craft(marshal, hsig, mtype, fields, flags=0, serial=1, body=b''):
    hdr = b''.join(marshal.marshal(hsig, [ord('l'), mtype, flags, 1, len(body), serial, fields], 0, True)[1])
    return hdr + b'\0' * ((-len(hdr)) % 8) + body


def _spec_fields(marshal):
    """code -> a VALID value of the specification's type for that header field, recognisable when it shows up as an
    attribute (the specification's table: PATH 'o'; INTERFACE, MEMBER, ERROR_NAME, DESTINATION, SENDER 's';
    REPLY_SERIAL, UNIX_FDS 'u'; SIGNATURE 'g')."""
    return {1: marshal.ObjectPath('/probe/p'), 2: 'probe.iface', 3: 'probeMember', 4: 'probe.Err',
            5: marshal.UInt32(424242), 6: ':1.4277', 7: ':1.4278', 8: marshal.Signature('y'), 9: marshal.UInt32(0)}


REQUIRED = {1: [1, 3], 2: [5], 3: [4, 5], 4: [1, 2, 3]}          # the specification's required fields per message type


def _carrier_fields(marshal, mtype, universal=False):
    sf = _spec_fields(marshal)
    codes = [1, 2, 3, 4, 5] if universal else REQUIRED.get(mtype, [])
    return [[c, sf[c]] for c in codes]


def _attrs_of(m):
    """{name: value} of a message object: the nine documented attributes through getattr, plus whatever `vars` / `dir` show."""
    names = list(ATTR_NAMES)
    try:
        names += [n for n in vars(m) if n not in names]
    except TypeError:                      # __slots__
        pass
    try:
        names += [n for n in dir(m) if not n.startswith('__') and n not in names]
    except Exception:
        pass
    out = {}
    for n in names:
        try:
            v = getattr(m, n)
        except Exception:
            continue
        if callable(v):
            continue
        out[n] = v
    return out


def _parse(message, raw, fds=None):
    return message.parseMessage(raw, [] if fds is None else fds)


def class_by_type(message, marshal, hsig, advisories=None):
    """{type code: class} for every type byte parseMessage accepts (valid carriers, see the module docstring)."""
    out, refused = {}, {}
    for t in range(256):
        m = None
        for universal in (False, True):
            try:
                m = _parse(message, _craft(marshal, hsig, t, _carrier_fields(marshal, t, universal)))
                break
            except Exception as e:
                refused[t] = e
        if m is not None:
            out[t] = type(m)
            refused.pop(t, None)
    fast = getattr(message, '_mtype', None)
    if isinstance(fast, dict):
        fast = dict(fast)
        wrong = {t: (fast.get(t), k) for t, k in out.items() if fast.get(t) is not k}
        if wrong:
            raise ProbeError('message._mtype disagrees with the class parseMessage returns per type byte: %r' % (wrong,))
        undecided = sorted(t for t in fast if t not in out)
        if undecided and advisories is not None:
            advisories.append('message._mtype entries %r could not be cross-checked by probing (parseMessage refused the valid '
                              'carrier message: %r); taken from _mtype' % (undecided, refused.get(undecided[0])))
        return fast
    if not out:
        raise ProbeError('message._mtype is gone and parseMessage accepted no carrier message of any type (%r)'
                         % (next(iter(refused.values()), None),))
    if advisories is not None:
        advisories.append('message._mtype is gone: class per message type found by parsing a valid minimal message of each type byte')
    return out


def field_by_code(message, marshal, hsig, advisories=None):
    """{field code: attribute name} for every code whose field parseMessage stores on the message object."""
    fast = getattr(message, '_hcode', None)
    fast = dict(fast) if isinstance(fast, dict) else None
    sf = _spec_fields(marshal)
    out, undecided = {}, {}
    try:
        base = _attrs_of(_parse(message, _craft(marshal, hsig, 2, [[5, marshal.UInt32(7)]])))
    except Exception as e:
        if fast is not None:
            if advisories is not None:
                advisories.append('message._hcode could not be cross-checked by probing (parseMessage refused a plain method '
                                  'return: %r); taken from _hcode' % (e,))
            return fast
        raise ProbeError('message._hcode is gone and parseMessage refuses a plain method return: %r' % (e,))
    for code in range(256):
        value = sf.get(code, 'probe.unknown%d' % code)
        fields = [[code, value]] if code == 5 else [[5, marshal.UInt32(7)], [code, value]]
        body = b'\x07' if code == 8 else b''
        try:
            m = _parse(message, _craft(marshal, hsig, 2, fields, body=body))
        except Exception as e:
            undecided[code] = e
            continue
        got = _attrs_of(m)
        new = [n for n, v in got.items() if _same(v, value) and not _same(base.get(n, None), value)]
        public = [n for n in new if n in ATTR_NAMES]
        if len(public) == 1:
            out[code] = public[0]
        elif len(new) == 1:
            out[code] = new[0]
        elif len(new) > 1:
            raise ProbeError('header field %d sets several attributes: %r' % (code, new))
    if fast is not None:
        decided = {c: a for c, a in fast.items() if c not in undecided}
        seen = {c: a for c, a in out.items()}
        if decided != seen:
            raise ProbeError('message._hcode %r disagrees with the attributes parseMessage sets %r' % (fast, out))
        und = sorted(c for c in fast if c in undecided)
        if und and advisories is not None:
            advisories.append('message._hcode entries %r could not be cross-checked by probing (parseMessage refused the '
                              'carrier: %r); taken from _hcode' % (und, undecided[und[0]]))
        return fast                       # keeps the dict order of the source
    if not out:
        raise ProbeError('message._hcode is gone and no header field shows up as an attribute of the parsed message')
    if advisories is not None:
        advisories.append('message._hcode is gone: attribute per header field code found by parsing a valid message carrying each code')
    return out


def _same(a, b):
    try:
        return type(a) is not bool and a is not None and a == b
    except Exception:
        return False


def header_attrs(message, marshal, hsig, clsname, fields=None, advisories=None):
    """[(attr, code, required)] of a class, in table order (`_headerAttrs` as it is - not cross-checked here -, else probed;
    `required` is False on the probe path: not visible from outside)."""
    k = getattr(message, clsname)
    rows = getattr(k, '_headerAttrs', None)
    if isinstance(rows, (list, tuple)) and all(isinstance(r, (list, tuple)) and len(r) == 3 for r in rows):
        return [(r[0], r[1], bool(r[2])) for r in rows]
    # probe: the header array of a message built with every keyword of the constructor
    fields = fields or field_by_code(message, marshal, hsig)
    kw = {'path': '/a', 'member': 'm', 'interface': 'a.b', 'destination': ':1.1', 'signature': 'y', 'body': [1],
          'error_name': 'a.E', 'reply_serial': 1, 'sender': ':1.2'}
    params = [p for p in inspect.signature(k.__init__).parameters if p in kw]
    try:
        m = _restoring_counter(message, lambda: k(**{p: kw[p] for p in params}))
    except Exception as e:
        raise ProbeError('%s._headerAttrs is gone and the constructor refuses the probe arguments: %r' % (clsname, e))
    how = 'a message built with every constructor keyword (attributes no keyword sets are not visible)'
    fwd = forward_call(message)
    if fwd:
        # every one of the nine attributes set on the object, then the re-marshal entry point (no new serial, body given):
        # the header array lists the rows of the class's table in table order
        for a, v in (('path', '/a'), ('interface', 'a.b'), ('member', 'm'), ('error_name', 'a.E'), ('reply_serial', 1),
                     ('destination', ':1.1'), ('sender', ':1.2'), ('signature', 'y'), ('unix_fds', 1)):
            setattr(m, a, v)
        try:
            getattr(m, fwd[0])(**{fwd[1]: False, fwd[2]: b'\x01'})
            how = 'an object with all nine attributes set, re-marshalled through %s()' % fwd[0]
        except Exception:
            pass
    try:
        n, vals = marshal.unmarshal(hsig, m.rawMessage, 0, True, [])
    except Exception as e:
        raise ProbeError('%s._headerAttrs is gone and the header of a constructed message does not decode: %r' % (clsname, e))
    out = [(fields[c], c, False) for c, _ in vals[6] if c in fields]
    if advisories is not None:
        advisories.append('%s._headerAttrs is gone: rows (attribute, code; the `required` column is not visible) read from '
                          'the header of %s' % (clsname, how))
    return out


def forward_call(message):
    """(method name, name of the new-serial parameter, name of the raw-body parameter) of the re-marshal entry point the
    bus uses for forwarding, or None."""
    for name, f in vars(message.DBusMessage).items():
        if not callable(f):
            continue
        try:
            ps = list(inspect.signature(f).parameters.values())[1:]
        except (TypeError, ValueError):
            continue
        if not ps or ps[0].default is not True:
            continue
        body = [p.name for p in ps if p.default is None and 'body' in p.name.lower()]
        if len(body) == 1:
            return name, ps[0].name, body[0]
    return None


def fds_param(message):
    """Name of the descriptor-list parameter of the re-marshal entry point (`oobFDs` today): the one parameter of that
    method with "fd" in its name; None when there is no such method or no such parameter."""
    fc = forward_call(message)
    if not fc:
        return None
    try:
        ps = list(inspect.signature(getattr(message.DBusMessage, fc[0])).parameters.values())[1:]
    except (TypeError, ValueError):
        return None
    names = [p.name for p in ps if 'fd' in p.name.lower()]
    return names[0] if len(names) == 1 else None


def cut(raw):
    """(header, padding, body) of message bytes by the layout: 16 fixed bytes, array length word, padding to 8."""
    raw = bytes(raw)
    bo = 'little' if raw[:1] == b'l' else 'big'
    n = 16 + int.from_bytes(raw[12:16], bo)
    p = (-n) % 8
    return raw[:n], raw[n:n + p], raw[n + p:]


def raw_parts(m, raw=None):
    """(header, padding, body) of a constructed / parsed message: its attributes when it has them, else cut out of the
    message bytes (`m.rawMessage`, or `raw` for a parsed object)."""
    try:
        return bytes(m.rawHeader), bytes(m.rawPadding), bytes(m.rawBody)
    except (AttributeError, TypeError):
        return cut(raw if raw is not None else m.rawMessage)
